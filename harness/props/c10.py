"""
C10 — Queries and measures are pure and repeatable.

A registry of public callables that take a distribution is built by introspection of dit's
packages (plus explicit argument recipes for those that need more than a distribution); random
interleavings are executed on several representations of an argument; before and after every
call the harness snapshots every argument, the global configuration, the operations cache and
NumPy's error state, and deterministic calls are repeated.

A second kind of case, the *session*, keeps several distributions alive at once: they are brought into being one
after another, each in its own representation - any logarithm base (integers, non-integers, below one), reached
through the constructor, a copy, an in-place change of a fresh object, or derived from an older member - and the
callables of the registry are applied to some of them in between.  After every step *every* live distribution
(arguments and bystanders alike) must read back exactly as before, and every deterministic call is repeated at the
end of the session.  A session is a whole history: it is executed in a process of its own that has imported dit and
done nothing else (forked from a pristine copy of the check's main process), so that its verdict does not depend on
what the check happened to run before it and a stored session replays to the same verdict.
"""
import copy
import inspect
import itertools
import json
import math
import os
import select
import signal
import socket
import tempfile
from fractions import Fraction

import numpy as np

import core
import covtrace
import gen
from props import _c10memo
from env import import_dit

REPRESENTATIONS = ['sparse-linear', 'dense-linear', 'sparse-log2', 'dense-loge', 'named', 'untrimmed', 'custom-space']
SLOW = {'exact_common_information', 'wyner_common_information', 'deweese_total_correlation',
        'deweese_caekl_mutual_information', 'stochastic_gk_common_information', 'moment_maxent_dists',
        'maximize_convex_function', 'hypercontractivity_coefficient', 'deweese_coinformation',
        'deweese_dual_total_correlation', 'marginal_maxent_dists', 'functional_common_information'}
RANDOMISED = {'random_distribution', 'random_scalar_distribution', 'jittered', 'perturb_support'}
# stochastic optimisers (random restarts drawn from NumPy's global generator): results are compared with a
# tolerance instead of exactly - the property exempts them from exact repeatability
OPTIMISER = {'maxent_dist', 'marginal_maxent_dists', 'PID_CCS', 'ConnectedInformations', 'DependencyDecomposition',
             'intrinsic', 'secrecy_capacity', 'deweese', 'exact_common_information', 'wyner_common_information',
             'moment_maxent_dists', 'hypercontractivity', 'MUIProfile', 'stochastic_gk',
             # coverage-gap round (random restarts from NumPy's global generator, like the ones above)
             # (measured spread of repetitions on 14 inputs x 4 runs: <= 1e-6 for each of these)
             'MaxEntOptimizer', 'PID_MES', 'PED_CS', 'PID_RAV', 'PID_RA', 'ConnectedDualInformations', 'SchneidmanProfile'}


# non-convex problems solved from random starting points (basin hopping): "stochastic optimisers" in the words
# of the property; their values are not compared across repetitions, purity still is
# (PID_IG: dit/pid/measures/iig.py starts its one-dimensional minimisation from x0 = np.random.random(), an explicitly
# random starting point, and can end in different local minima: seed 3 of the quick tier, 2026-09-30)
STOCHASTIC = {'PID_IG', 'wyner_common_information', 'exact_common_information', 'intrinsic', 'deweese', 'secrecy_capacity',
              'hypercontractivity', 'stochastic_gk', 'DependencyDecomposition', 'necessary_intrinsic',
              # coverage-gap round: basin hopping from random points (dit.algorithms.distribution_optimizers' non-convex
              # classes, the one-way secret key agreement rate and the decomposition built on it)
              'MinEntOptimizer', 'CoInfoOptimizer', 'DualTotalCorrelationOptimizer', 'one_way_skar', 'PID_SKAR', 'PID_GH',
              # random starting points as well; repetitions spread up to 4e-5 (BROJA), 6e-6 (PID_dep), and the curves'
              # beta = 0 points are degenerate (any channel of rate 0 is optimal): values not compared
              'pid_broja', 'PID_BROJA', 'PID_dep', 'RDCurve', 'IBCurve'}


def close_value(a, b, tol):
    if a == b:
        return True
    if (isinstance(a, tuple) and isinstance(b, tuple) and len(a) == 4 and len(b) == 4 and a[0] == 'dist' and b[0] == 'dist'
            and tol > 0):
        # distributions returned by an optimiser: entries below its clipping threshold may come and go
        da, db = dict(zip(a[1], a[2])), dict(zip(b[1], b[2]))
        return a[3] == b[3] and all(abs(da.get(k, 0.0) - db.get(k, 0.0)) <= tol for k in set(da) | set(db))
    if isinstance(a, tuple) and isinstance(b, tuple):
        return len(a) == len(b) and all(close_value(x, y, tol) for x, y in zip(a, b))
    if isinstance(a, float) and isinstance(b, float):
        return abs(a - b) <= tol
    return a == b


def snapshot(d):
    """Everything observable about a distribution (and a few private fields named in the property)."""
    return {
        'outcomes': tuple(d.outcomes), 'pmf': d.pmf.tobytes(), 'base': d.get_base(), 'sparse': bool(d.is_sparse()),
        'alphabet': repr(tuple(map(tuple, d.alphabet))) if d.is_joint() else repr(tuple(d.alphabet)),
        'space': tuple(d.sample_space()),
        'names': None if not hasattr(d, 'get_rv_names') or d.get_rv_names() is None else tuple(d.get_rv_names()),
        'mask': tuple(getattr(d, '_mask', ())), 'rv_mode': getattr(d, '_rv_mode', None),
        'prng': repr(d.prng.get_state()[1][:8].tolist()) + str(d.prng.get_state()[2]),
        'len': len(d), 'index': tuple(sorted(map(repr, d._outcomes_index.items()))),
    }


def global_snapshot(dit, session=False):
    import dit.math.ops as ops
    # The memo behind get_ops is hidden state that a query may legitimately extend: a call in a base not asked before
    # memoises its operations object, and by Props/C10Memo (memo_value, memo_stable) that is not observable - every
    # later call returns what it would have returned anyway.  What must not change is what each memoised key stands
    # for (the invariant of those theorems): the entries whose operations object reports another base than its key.
    # (An earlier version compared the key set itself outside sessions; that asked more than the statement - e.g.
    # copypmf(d) of a base-'e' distribution asks for the numerical base 2.718..., a new key.)
    cache = repr(sorted(repr(k) for k, o in list(ops.cache.items()) if o.get_base() != k))
    return {'params': repr(sorted((k, repr(v)) for k, v in dit.ditParams.items())),
            'ops_cache': cache, 'np_err': repr(np.geterr()),
            'prng': repr(dit.math.prng.get_state()[1][:8].tolist()) + str(dit.math.prng.get_state()[2])}


def _num(x):
    x = float(x)
    return 'nan' if math.isnan(x) else round(x, 10)


def canon_value(v):
    dit = import_dit()
    if isinstance(v, dit.distribution.BaseDistribution):
        if np.isnan(v.pmf).any():
            return ('dist-with-nan', tuple(v.outcomes), tuple(_num(x) for x in v.pmf), v.get_base())
        return ('dist', tuple(v.outcomes), tuple(round(float(x), 10) for x in v.pmf), v.get_base())
    if isinstance(v, (list, tuple)):
        return tuple(canon_value(x) for x in v)
    if isinstance(v, dict):
        return tuple(sorted((repr(k), canon_value(x)) for k, x in v.items()))
    if isinstance(v, np.ndarray):
        if v.dtype.kind in 'fiub':
            return tuple(_num(x) for x in v.astype(float).ravel().tolist())
        return repr(v)
    if isinstance(v, (float, np.floating)):
        return 'nan' if math.isnan(float(v)) else round(float(v), 10)
    if isinstance(v, (int, str, bool, type(None), np.integer)):
        return v
    if hasattr(v, 'atoms') and isinstance(getattr(v, 'atoms'), dict):
        return canon_value(v.atoms)
    if hasattr(v, 'profile'):
        return canon_value(v.profile)
    if hasattr(v, '_pis'):
        return canon_value({repr(k): x for k, x in v._pis.items()})
    if hasattr(v, 'points'):
        return canon_value(v.points)
    return repr(type(v))


def build_registry(dit, tier):
    """name -> callable(d, e) ; deterministic unless listed in RANDOMISED."""
    import dit.shannon, dit.multivariate, dit.other, dit.divergences, dit.algorithms, dit.profiles, dit.pid
    reg = {}
    n = 3

    def add(name, f):
        reg[name] = f
    for M in (dit.shannon, dit.multivariate, dit.other, dit.divergences, dit.algorithms):
        mod = M.__name__.split('.')[-1]
        for name in sorted(x for x in dir(M) if not x.startswith('_')):
            f = getattr(M, name)
            if not callable(f) or inspect.isclass(f) or inspect.ismodule(f):
                continue
            if name in SLOW and tier == 'quick':
                continue
            try:
                ps = list(inspect.signature(f).parameters.values())
            except (TypeError, ValueError):
                continue
            req = [p.name for p in ps if p.default is inspect._empty and p.kind in (p.POSITIONAL_OR_KEYWORD, p.POSITIONAL_ONLY)]
            key = '%s.%s' % (mod, name)
            if req in (['dist'], ['d']):
                add(key, lambda d, e, f=f: f(d))
            elif req == ['dist', 'order']:
                add(key, lambda d, e, f=f: f(d, 2))
            elif req == ['dist1', 'dist2']:
                add(key, lambda d, e, f=f: f(d, e))
            elif req == ['dists']:
                add(key, lambda d, e, f=f: f([d, e]))
            elif req == ['dist', 'k']:
                add(key, lambda d, e, f=f: f(d, 2))
    A = lambda d, g: [d.get_rv_names()[i] for i in g] if d.get_rv_names() else list(g)
    mv, alg, D = dit.multivariate, dit.algorithms, dit.divergences
    add('shannon.conditional_entropy', lambda d, e: dit.shannon.conditional_entropy(d, A(d, [0]), A(d, [1, 2])))
    add('shannon.mutual_information', lambda d, e: dit.shannon.mutual_information(d, A(d, [0, 1]), A(d, [2])))
    add('multivariate.coinformation[rvs,crvs]', lambda d, e: mv.coinformation(d, [A(d, [0]), A(d, [1])], A(d, [2])))
    add('multivariate.caekl[rvs]', lambda d, e: mv.caekl_mutual_information(d, [A(d, [0]), A(d, [1, 2])]))
    add('divergences.maximum_correlation', lambda d, e: D.maximum_correlation(d, [A(d, [0]), A(d, [1])]))
    add('divergences.maximum_correlation[crvs]', lambda d, e: D.maximum_correlation(d, [A(d, [0]), A(d, [1])], A(d, [2])))
    add('divergences.copy_mutual_information', lambda d, e: D.copy_mutual_information(d, A(d, [0]), A(d, [1])))
    add('divergences.kl[rvs,crvs]', lambda d, e: D.kullback_leibler_divergence(d, e, A(d, [0]), A(d, [1])))
    add('algorithms.maxent_dist', lambda d, e: alg.maxent_dist(d, [A(d, [0, 1]), A(d, [1, 2])]))
    add('algorithms.channel_capacity_joint', lambda d, e: alg.channel_capacity_joint(d, A(d, [0]), A(d, [2])))
    add('algorithms.insert_join', lambda d, e: alg.insert_join(d, -1, [A(d, [0]), A(d, [1])]))
    add('algorithms.insert_meet', lambda d, e: alg.insert_meet(d, -1, [A(d, [0]), A(d, [1])]))
    add('algorithms.insert_mss', lambda d, e: alg.insert_mss(d, -1, A(d, [0]), A(d, [1, 2])))
    add('algorithms.mss', lambda d, e: alg.mss(d, A(d, [0]), A(d, [1, 2])))
    for cname in ('ShannonPartition', 'ExtropyPartition', 'ComplexityProfile', 'EntropyTriangle', 'EntropyTriangle2',
                  'MUIProfile', 'ConnectedInformations'):
        if hasattr(dit.profiles, cname) and not (cname in ('ConnectedInformations', 'MUIProfile') and tier == 'quick'):
            add('profiles.' + cname, lambda d, e, c=getattr(dit.profiles, cname): c(d))
    for cname in ('PID_WB', 'PID_MMI', 'PID_GK', 'PID_PM', 'PID_RDR', 'PID_CCS'):
        add('pid.' + cname, lambda d, e, c=getattr(dit.pid, cname): c(d, [A(d, [0]), A(d, [1])], A(d, [2])))
    # distribution methods
    add('Distribution.marginal', lambda d, e: d.marginal(A(d, [0, 2])))
    add('Distribution.marginalize', lambda d, e: d.marginalize(A(d, [1])))
    add('Distribution.coalesce', lambda d, e: d.coalesce([A(d, [0, 1]), A(d, [1, 2])]))
    add('Distribution.condition_on', lambda d, e: d.condition_on(A(d, [0])))
    add('Distribution.copy', lambda d, e: d.copy())
    add('Distribution.copy(base)', lambda d, e: d.copy(base='e'))
    add('Distribution.to_dict', lambda d, e: d.to_dict())
    add('Distribution.to_string', lambda d, e: d.to_string())
    add('Distribution.zipped(atoms)', lambda d, e: list(d.zipped(mode='atoms')))
    add('Distribution.zipped(patoms)', lambda d, e: list(d.zipped(mode='patoms')))
    add('Distribution.is_approx_equal', lambda d, e: d.is_approx_equal(e))
    add('Distribution.event_probability', lambda d, e: d.event_probability(list(d.sample_space())[:2]))
    add('Distribution.has_outcome', lambda d, e: [d.has_outcome(o, null=False) for o in d.sample_space()])
    add('Distribution.__getitem__', lambda d, e: [d[o] for o in d.sample_space()])
    add('Distribution.validate', lambda d, e: d.validate())
    add('Distribution.atoms', lambda d, e: list(d.atoms()))
    add('Distribution.is_homogeneous', lambda d, e: d.is_homogeneous())
    add('Distribution.__add__(mixture)', lambda d, e: (0.5 * d + 0.5 * e) if (not d.is_log() and not e.is_log()) else None)
    add('Distribution.rand(explicit)', lambda d, e: d.rand(size=3, rand=np.array([0.1, 0.5, 0.9])))
    # constructors from distributions
    add('distconst.modify_outcomes', lambda d, e: dit.modify_outcomes(d, lambda o: o[:2]))
    add('distconst.insert_rvf', lambda d, e: dit.insert_rvf(d, lambda o: o[:1]))
    add('distconst.product_distribution', lambda d, e: dit.product_distribution(d))
    add('distconst.mixture_distribution', lambda d, e: dit.mixture_distribution([d, e.copy(base=d.get_base())],
                                                                                [d.ops.log(0.25) if d.is_log() else 0.25,
                                                                                 d.ops.log(0.75) if d.is_log() else 0.75], merge=True))
    add('distconst.uniform_like', lambda d, e: dit.uniform_like(d))
    add('distconst.RVFunctions.xor', lambda d, e: dit.insert_rvf(d, dit.RVFunctions(d).xor([0, 1])))
    add('ScalarDistribution.from_distribution', lambda d, e: dit.ScalarDistribution.from_distribution(d.marginal(A(d, [0]))))
    add('Distribution.from_distribution', lambda d, e: dit.Distribution.from_distribution(d))
    if tier == 'thorough':
        add('multivariate.intrinsic_total_correlation', lambda d, e: mv.intrinsic_total_correlation(d, [A(d, [0]), A(d, [1])], A(d, [2])))
        add('multivariate.lower_intrinsic_mutual_information', lambda d, e: mv.lower_intrinsic_mutual_information(d, [A(d, [0]), A(d, [1])], A(d, [2])))
        add('multivariate.necessary_intrinsic_mutual_information', lambda d, e: mv.necessary_intrinsic_mutual_information(d, [A(d, [0]), A(d, [1])], A(d, [2])))
        add('multivariate.secrecy_capacity_skar', lambda d, e: mv.secrecy_capacity_skar(d, [A(d, [0]), A(d, [1])], A(d, [2])))
        add('profiles.DependencyDecomposition', lambda d, e: dit.profiles.DependencyDecomposition(d))
    extend_registry(dit, tier, add, A)
    return reg


# names (exact) of callables whose name contains one of the STOCHASTIC / OPTIMISER fragments but which are closed
# forms: their repetitions are compared exactly
CLOSED_FORM = {'multivariate.upper_intrinsic_mutual_information', 'multivariate.upper_intrinsic_total_correlation',
               'multivariate.upper_intrinsic_dual_total_correlation', 'multivariate.upper_intrinsic_caekl_mutual_information',
               'multivariate.lower_intrinsic_mutual_information[quick]'}


def is_randomised(nm):
    if nm in CLOSED_FORM:
        return False
    return any(x in nm for x in RANDOMISED) or any(x in nm for x in STOCHASTIC)


def is_scalar_entry(nm):
    """Entries applied to the pair of ScalarDistributions of a case instead of the pair of joint distributions."""
    return nm.startswith('Scalar.')


def extend_registry(dit, tier, add, A):
    """
    Coverage-gap round: public callables that take a distribution (or the arrays / conditional distributions of one)
    and were in no registry, argument shapes of registered ones that reach other code (conditioning variables, names,
    `extract=True`, options), the classes of dit.algorithms.distribution_optimizers, the remaining PIDs and profiles,
    printing, and - under names starting with 'Scalar.' - the methods, operators and measures of ScalarDistribution,
    which are applied to the two scalar distributions every case carries.
    Optimiser-based callables that take more than about a second are in the thorough tier only.
    """
    import dit.abstractdist, dit.cdisthelpers, dit.helpers, dit.validate, dit.rate_distortion
    import dit.algorithms.lattice as lat
    import dit.algorithms.distribution_optimizers as dopt
    mv, alg, D, O, S = dit.multivariate, dit.algorithms, dit.divergences, dit.other, dit.shannon
    X, Y, Z = [0], [1], [2]
    XY, YZ = [0, 1], [1, 2]
    thorough = tier == 'thorough'

    # ---- non-mutating methods of Distribution
    add('Distribution.__str__', lambda d, e: str(d))
    add('Distribution.__repr__', lambda d, e: repr(d))
    add('Distribution._repr_html_', lambda d, e: d._repr_html_())
    add('Distribution.to_html', lambda d, e: d.to_html(digits=3, exact=False))
    add('Distribution.to_string(options)', lambda d, e: [d.to_string(digits=4, exact=True, show_mask=True, str_outcomes=True),
                                                         d.to_string(exact=False, tol=1e-3, show_mask='!')])
    add('Distribution.__eq__', lambda d, e: [d == e, d == d, d != e, d == d.copy(), d == 1])
    add('Distribution.__hash__', lambda d, e: hash(d) == hash(d))
    add('Distribution.__contains__', lambda d, e: [o in d for o in d.sample_space()] + [o in d for o in e.outcomes])
    add('Distribution.__iter__', lambda d, e: list(d))
    add('Distribution.__reversed__', lambda d, e: list(reversed(d)))
    add('Distribution.__len__', lambda d, e: len(d))
    add('Distribution.event_space', lambda d, e: list(itertools.islice(d.event_space(), 40)))
    add('Distribution.zipped()', lambda d, e: [list(d.zipped()), list(d.zipped(mode='pmf'))])
    add('Distribution.atoms(patoms)', lambda d, e: list(d.atoms(patoms=True)))
    add('Distribution.has_outcome(null)', lambda d, e: [d.has_outcome(o) for o in d.sample_space()] + [d.has_outcome(o, null=True) for o in e.outcomes])
    add('Distribution.flags', lambda d, e: [d.is_dense(), d.is_sparse(), d.is_joint(), d.is_log(), d.is_numerical(),
                                           d.get_base(), d.get_base(numerical=True), d.get_rv_names(),
                                           d.outcome_length(), d.outcome_length(masked=True), list(d.sample_space()),
                                           list(d.alphabet), list(d.outcomes)])
    add('Distribution.is_approx_equal(tols)', lambda d, e: [d.is_approx_equal(e, rtol=1e-3, atol=0.5), d.is_approx_equal(d.copy()),
                                                          e.is_approx_equal(d)])
    add('Distribution.event_probability(all)', lambda d, e: [d.event_probability(list(d.outcomes)), d.event_probability([])])
    add('Distribution.coalesce(extract)', lambda d, e: d.coalesce([A(d, XY)], extract=True))
    add('Distribution.coalesce(repeats)', lambda d, e: d.coalesce([A(d, [2, 0]), A(d, [0]), A(d, [0, 1, 2])]))
    add('Distribution.condition_on(extract)', lambda d, e: d.condition_on(A(d, X), rvs=A(d, Z), extract=True))
    add('Distribution.condition_on[rvs]', lambda d, e: d.condition_on(A(d, YZ), rvs=A(d, X)))
    add('Distribution.condition_on[two]', lambda d, e: d.condition_on(A(d, [0, 2])))
    add('Distribution.marginal[indices]', lambda d, e: [d.marginal([2, 0], rv_mode='indices'), d.marginal([]), d.marginal(A(d, [0, 1, 2]))])
    add('Distribution.marginalize[indices]', lambda d, e: [d.marginalize([0, 1], rv_mode='indices'), d.marginalize([])])
    add('Distribution.copy(linear)', lambda d, e: d.copy(base='linear'))
    add('Distribution.copy(2)', lambda d, e: d.copy(base=2))
    add('Distribution.from_distribution(base)', lambda d, e: [dit.Distribution.from_distribution(d, base=2),
                                                             dit.Distribution.from_distribution(d, base='linear')])
    add('ScalarDistribution.from_distribution(joint)', lambda d, e: [dit.ScalarDistribution.from_distribution(d),
                                                                    dit.ScalarDistribution.from_distribution(d, base='e', extract=False)])
    add('ScalarDistribution(joint)', lambda d, e: dit.ScalarDistribution(list(d.outcomes), d.pmf, base=d.get_base(), trim=False))
    add('Distribution(dict of joint)', lambda d, e: dit.Distribution(d.to_dict(), base=d.get_base()))
    add('Distribution.rand(explicit scalar)', lambda d, e: [d.rand(rand=0.25), d.rand(size=2, rand=np.array([0.0, 0.999]))])
    add('math.sample(explicit)', lambda d, e: dit.math.sample(d, size=3, rand=np.array([0.1, 0.5, 0.9])))

    # ---- helpers that read a distribution
    add('helpers.copypmf', lambda d, e: _each([lambda: dit.copypmf(d),
                                               lambda: dit.copypmf(d, base=2, mode='dense'),
                                               lambda: dit.copypmf(d, base='linear', mode='sparse'),
                                               lambda: dit.copypmf(d, base='e', mode='asis')]))
    add('helpers.normalize_pmfs', lambda d, e: [sorted(x.tolist()) for x in dit.helpers.normalize_pmfs(d, e)])
    add('helpers.normalize_rvs', lambda d, e: dit.helpers.normalize_rvs(d, [A(d, X), A(d, Y)], A(d, Z), None)[:2])
    add('helpers.normalize_rvs(defaults)', lambda d, e: dit.helpers.normalize_rvs(d, None, None, None)[:2])
    add('helpers.parse_rvs', lambda d, e: dit.helpers.parse_rvs(d, A(d, [2, 0]), unique=True, sort=True))
    add('helpers.numerical_test', lambda d, e: dit.helpers.numerical_test(d))
    add('abstractdist.get_abstract_dist', lambda d, e: dit.abstractdist.get_abstract_dist(d).parameter_array([0, 2]))
    add('abstractdist.brute_marginal_array', lambda d, e: dit.abstractdist.brute_marginal_array(d, A(d, [0, 2])))
    add('cdisthelpers.cdist_array', lambda d, e: _each([lambda: dit.cdisthelpers.cdist_array(d.condition_on(A(d, X))[1], mode='dense'),
                                                        lambda: dit.cdisthelpers.cdist_array(d.condition_on(A(d, X))[1], base=2, mode='dense'),
                                                        lambda: dit.cdisthelpers.cdist_array(d.condition_on(A(d, XY))[1], base='linear')]))
    add('cdisthelpers.joint_from_factors', lambda d, e: dit.joint_from_factors(*d.condition_on(A(d, X))))
    add('cdisthelpers.joint_from_factors(kept)', _jff_kept)
    add('validate.pmf', lambda d, e: [dit.validate.is_pmf(d.pmf, d.ops), dit.validate.validate_pmf(d.pmf, d.ops),
                                      dit.validate.validate_normalization(d.pmf, d.ops), dit.validate.validate_probabilities(d.pmf, d.ops)])
    add('validate.outcomes', lambda d, e: [dit.validate.validate_outcomes(d.outcomes, d._sample_space),
                                           dit.validate.validate_outcome_class(d.outcomes), dit.validate.validate_outcome_length(d.outcomes)])
    add('shannon.entropy_pmf', lambda d, e: S.entropy_pmf(d.pmf))
    # the operations object's functions that are not in-place, handed the stored array itself
    add('math.ops(not in-place)', lambda d, e: _each([
        lambda: d.ops.normalize(d.pmf), lambda: d.ops.normalize(np.vstack([d.pmf, d.pmf]), axis=-1),
        lambda: d.ops.normalize(np.vstack([d.pmf, d.pmf]), axis=0), lambda: d.ops.add_reduce(d.pmf), lambda: d.ops.mult_reduce(d.pmf),
        lambda: d.ops.invert(d.pmf), lambda: d.ops.add(d.pmf, d.pmf), lambda: d.ops.mult(d.pmf, d.pmf), lambda: d.ops.exp(d.pmf),
        lambda: d.ops.log(d.pmf), lambda: d.ops.is_null(d.pmf), lambda: d.ops.is_null_exact(d.pmf)]))
    for fn in ('relative_entropy', 'cross_entropy', 'variational_distance', 'hellinger_distance', 'bhattacharyya_coefficient',
               'chernoff_information', 'jensen_shannon_divergence2', 'earth_movers_distance'):
        if hasattr(D.pmf, fn):
            add('divergences.pmf.' + fn, lambda d, e, f=getattr(D.pmf, fn): f(d.pmf, e.pmf) if len(d.pmf) == len(e.pmf) else None)
    add('divergences.pmf.jensen_shannon_divergence', lambda d, e: D.pmf.jensen_shannon_divergence(np.vstack([d.pmf, e.pmf]), [0.25, 0.75])
        if len(d.pmf) == len(e.pmf) else None)

    # ---- constructors from distributions
    add('distconst.erasure', lambda d, e: dit.erasure(d, 0.25))
    add('distconst.noisy', lambda d, e: dit.noisy(d, 0.25))
    W = lambda d: [d.ops.log(0.25), d.ops.log(0.75)] if d.is_log() else [0.25, 0.75]     # weights in the base of d
    add('distconst.mixture_distribution2', lambda d, e: dit.mixture_distribution2([d, e.copy(base=d.get_base())], W(d)))
    add('distconst.mixture_distribution(no merge)', lambda d, e: dit.mixture_distribution([d, e.copy(base=d.get_base())], W(d)))
    add('distconst.product_distribution[rvs,base]', lambda d, e: [dit.product_distribution(d, [A(d, XY), A(d, Z)]),
                                                                 dit.product_distribution(d, [A(d, X), A(d, Z)], base=2)])
    add('distconst.expanded_samplespace(no union)', lambda d, e: dit.expanded_samplespace(d, union=False))
    add('distconst.pruned_samplespace(given)', lambda d, e: dit.pruned_samplespace(d, sample_space=list(d.outcomes)))
    add('distconst.RVFunctions.from_partition', lambda d, e: dit.insert_rvf(
        d, dit.RVFunctions(d).from_partition([list(d.outcomes)[:2], list(d.outcomes)[2:]])))
    add('distconst.RVFunctions.from_mapping', lambda d, e: dit.insert_rvf(
        d, dit.RVFunctions(d).from_mapping(dict((o, o[0]) for o in d.outcomes))))

    # ---- measures with variables of interest, conditioning variables and options
    for fn in ('entropy', 'total_correlation', 'dual_total_correlation', 'binding_information', 'residual_entropy',
               'variation_of_information', 'interaction_information', 'tse_complexity', 'o_information',
               'gk_common_information', 'mss_common_information', 'caekl_mutual_information'):
        add('multivariate.%s[rvs,crvs]' % fn, lambda d, e, f=getattr(mv, fn): f(d, [A(d, X), A(d, Y)], A(d, Z)))
    add('multivariate.cohesion[rvs,crvs]', lambda d, e: mv.cohesion(d, 1, [A(d, X), A(d, Y)], A(d, Z)))
    add('multivariate.generalized_dual_total_correlation[rvs]', lambda d, e: mv.generalized_dual_total_correlation(d, 1, [A(d, X), A(d, YZ)]))
    add('multivariate.independent_information', lambda d, e: mv.independent_information(d, [A(d, X), A(d, Y)], A(d, Z)))
    add('multivariate.entropy[indices]', lambda d, e: mv.entropy(d, [2, 0], [1], rv_mode='indices'))
    add('shannon.entropy[rvs]', lambda d, e: [S.entropy(d, A(d, XY)), S.entropy(d, [1], rv_mode='indices')])
    for fn in ('extropy', 'disequilibrium', 'LMPR_complexity'):
        add('other.%s[rvs]' % fn, lambda d, e, f=getattr(O, fn): f(d, A(d, XY)))
    add('other.renyi_entropy[orders]', lambda d, e: _each([lambda a=a: O.renyi_entropy(d, a, A(d, YZ)) for a in (0, 0.5, 1, 3, np.inf)]))
    add('other.tsallis_entropy[orders]', lambda d, e: _each([lambda a=a: O.tsallis_entropy(d, a, A(d, YZ)) for a in (0, 0.5, 1, 3)]))
    add('other.perplexity[rvs,crvs]', lambda d, e: O.perplexity(d, A(d, XY), A(d, Z)))
    add('other.lautum_information[rvs]', lambda d, e: O.lautum_information(d, [A(d, X), A(d, YZ)]))
    add('other.cumulative_residual_entropy(extract)', lambda d, e: [O.cumulative_residual_entropy(d.marginal(A(d, X)), extract=True),
                                                                   O.generalized_cumulative_residual_entropy(d.marginal(A(d, X)), extract=True)])
    add('other.conditional_cumulative_residual_entropy', lambda d, e: O.conditional_cumulative_residual_entropy(d, A(d, X)[0], A(d, YZ)))
    add('other.conditional_generalized_cumulative_residual_entropy',
        lambda d, e: O.conditional_generalized_cumulative_residual_entropy(d, A(d, X)[0], A(d, YZ)))
    add('divergences.f_divergence', lambda d, e: _each([lambda f=f: D.f_divergence(d, e, f) for f in (_f_kl, _f_tv, _f_chi2)]))
    add('divergences.f_divergence[rvs]', lambda d, e: D.f_divergence(d, e, _f_chi2, A(d, XY)))
    add('divergences.cross_entropy[rvs,crvs]', lambda d, e: D.cross_entropy(d, e, A(d, X), A(d, Y)))
    add('divergences.jensen_shannon_divergence[weights]', lambda d, e: D.jensen_shannon_divergence([d, e, d], [0.25, 0.5, 0.25]))
    for fn in ('alpha_divergence', 'renyi_divergence', 'tsallis_divergence', 'hellinger_divergence', 'hellinger_sum'):
        add('divergences.%s[alpha,rvs]' % fn, lambda d, e, f=getattr(D, fn): _each([lambda: f(d, e, 0.5), lambda: f(d, e, 2, A(d, XY))]))
    add('divergences.earth_movers_distance[distances]', lambda d, e: D.earth_movers_distance(
        d, e, 1.0 - np.eye(len(d.outcomes))) if tuple(d.outcomes) == tuple(e.outcomes) else None)
    for fn in ('upper_intrinsic_mutual_information', 'upper_intrinsic_total_correlation',
               'upper_intrinsic_dual_total_correlation', 'upper_intrinsic_caekl_mutual_information'):
        add('multivariate.' + fn, lambda d, e, f=getattr(mv, fn): f(d, [A(d, X), A(d, Y)], A(d, Z)))
    add('multivariate.lower_intrinsic_mutual_information[quick]',
        lambda d, e: mv.lower_intrinsic_mutual_information(d, [A(d, X), A(d, Y)], A(d, Z)))
    add('multivariate.no_communication_skar', lambda d, e: mv.no_communication_skar(d, A(d, X), A(d, Y), A(d, Z)))
    # optimisation over an auxiliary variable (BaseAuxVarOptimizer), with the conditioning variable they need
    for fn in ('intrinsic_mutual_information', 'intrinsic_dual_total_correlation', 'intrinsic_caekl_mutual_information'):
        add('multivariate.%s[rvs,crvs]' % fn, lambda d, e, f=getattr(mv, fn): f(d, [A(d, X), A(d, Y)], A(d, Z), niter=2))
    add('multivariate.secrecy_capacity_skar[quick]', lambda d, e: mv.secrecy_capacity_skar(d, [A(d, X), A(d, Y)], A(d, Z), niter=2))

    # ---- algorithms
    add('algorithms.central_moment', lambda d, e: _each([lambda: alg.central_moment(d, 2), lambda: alg.standard_moment(d, 3)]))
    add('algorithms.channel_capacity', lambda d, e: alg.channel_capacity(d.condition_on(A(d, X), rvs=A(d, Z))[1]))
    add('algorithms.channel_capacity_joint(marginal)', lambda d, e: alg.channel_capacity_joint(d, A(d, XY), A(d, Z), marginal=True))
    add('algorithms.mss_sigalg', lambda d, e: sorted(sorted(map(repr, c)) for c in alg.mss_sigalg(d, A(d, X), A(d, YZ))))
    add('algorithms.mss(options)', lambda d, e: [alg.mss(d, A(d, X), int_outcomes=False), alg.mss(d, A(d, XY))])
    add('algorithms.insert_mss(defaults)', lambda d, e: alg.insert_mss(d, 0, A(d, YZ)))
    add('algorithms.info_trim[rvs]', lambda d, e: alg.info_trim(d, [A(d, X), A(d, YZ)]))
    add('algorithms.lattice.join', lambda d, e: [lat.join(d, [A(d, X), A(d, Y)]), lat.join(d, [A(d, X), A(d, Y)], int_outcomes=False)])
    add('algorithms.lattice.meet', lambda d, e: [lat.meet(d, [A(d, X), A(d, YZ)]), lat.meet(d, [A(d, X), A(d, Y)], int_outcomes=False)])
    add('algorithms.lattice.sigalgs', lambda d, e: [sorted(sorted(map(repr, c)) for c in f(d, [A(d, X), A(d, Y)]))
                                                    for f in (lat.join_sigalg, lat.meet_sigalg)]
        + [sorted(sorted(map(repr, c)) for c in lat.induced_sigalg(d, A(d, Z)))])
    add('algorithms.lattice.dist_from_induced_sigalg', lambda d, e: lat.dist_from_induced_sigalg(d, lat.induced_sigalg(d, A(d, XY))))
    add('algorithms.maxent_dist(options)', lambda d, e: alg.maxent_dist(d, [A(d, X), A(d, YZ)], sparse=False))
    add('algorithms.marginal_maxent_dists[k_max]', lambda d, e: alg.marginal_maxent_dists(d, k_max=2))
    add('algorithms.MaxEntOptimizer', lambda d, e: _optimised(dopt.MaxEntOptimizer(d, [A(d, XY), A(d, YZ)]), None))
    for cn in ('MinEntOptimizer', 'MaxCoInfoOptimizer', 'MinCoInfoOptimizer', 'MaxDualTotalCorrelationOptimizer',
               'MinDualTotalCorrelationOptimizer'):
        # basin hopping from random points: stochastic optimisers
        add('algorithms.' + cn, lambda d, e, c=getattr(dopt, cn): _optimised(c(d, [A(d, XY), A(d, YZ)]), 1))
    add('algorithms.pid_broja', lambda d, e: tuple(dopt.pid_broja(d, [A(d, X), A(d, Y)], A(d, Z), niter=2)))

    # ---- profiles, partitions and decompositions; their printed forms
    add('profiles.ShannonPartition(printed)', lambda d, e: _printed(dit.profiles.ShannonPartition(d)))
    add('profiles.ExtropyPartition(printed)', lambda d, e: _printed(dit.profiles.ExtropyPartition(d)))
    add('profiles.ComplexityProfile(printed)', lambda d, e: _printed(dit.profiles.ComplexityProfile(d)))
    add('profiles.EntropyTriangle[list]', lambda d, e: dit.profiles.EntropyTriangle([d, e]).points)
    add('pid.PID_WB(printed)', lambda d, e: _printed(dit.pid.PID_WB(d, [A(d, X), A(d, Y)], A(d, Z))))
    add('pid.PID_MMI(defaults)', lambda d, e: dit.pid.PID_MMI(d))
    for cname in ('PID_CT', 'PID_IG', 'PID_MES', 'PID_Proj', 'PID_RR', 'PID_BROJA'):
        if hasattr(dit.pid, cname):
            add('pid.' + cname, lambda d, e, c=getattr(dit.pid, cname): c(d, [A(d, X), A(d, Y)], A(d, Z)))
    add('pid.PED_CS', lambda d, e: dit.pid.PED_CS(d))

    # ---- ScalarDistribution: methods, operators (which return new objects) and measures on numerical outcomes
    add('Scalar.printing', lambda s, t: [str(s), repr(s), s.to_string(digits=3, exact=True), s.to_html(), s._repr_html_()])
    add('Scalar.to_dict', lambda s, t: s.to_dict())
    add('Scalar.iteration', lambda s, t: [list(s), list(reversed(s)), len(s), list(s.zipped()), list(s.zipped(mode='atoms')),
                                          list(s.zipped(mode='patoms')), list(s.atoms()), list(s.atoms(patoms=True)),
                                          list(s.sample_space()), list(itertools.islice(s.event_space(), 40))])
    add('Scalar.lookups', lambda s, t: [[o in s for o in s.sample_space()], [s[o] for o in s.sample_space()],
                                        [s.has_outcome(o) for o in s.sample_space()], [s.has_outcome(o, null=False) for o in s.sample_space()],
                                        s.event_probability(list(s.sample_space())[:2]), s.has_outcome(10 ** 6), 10 ** 6 in s])
    add('Scalar.flags', lambda s, t: [s.is_dense(), s.is_sparse(), s.is_joint(), s.is_log(), s.is_numerical(), s.get_base(),
                                      s.get_base(numerical=True), list(s.alphabet), list(s.outcomes), s.validate()])
    add('Scalar.copy', lambda s, t: [s.copy(), s.copy(base='linear'), s.copy(base=2), s.copy(base='e')])
    add('Scalar.is_approx_equal', lambda s, t: _each([lambda: s.is_approx_equal(t), lambda: s.is_approx_equal(s.copy()),
                                                      lambda: s.is_approx_equal(t, rtol=1e-3, atol=0.5), lambda: s.is_approx_equal(t + 1)]))
    add('Scalar.__eq__', lambda s, t: [hash(s) == hash(s), s == t, s != t, s == s.copy(), s == 1])
    add('Scalar.comparisons', lambda s, t: [s < t, s <= t, s > t, s >= t, s < 2, s <= 2, s > 2, s >= 2])
    add('Scalar.__add__', lambda s, t: [s + t, s + 3, 3 + s, s + 0.5])
    add('Scalar.__sub__', lambda s, t: [s - t, s - 3, 3 - s, t - s])
    add('Scalar.__mul__', lambda s, t: [s * t, s * 3, 3 * s, s * -1])
    add('Scalar.__truediv__', lambda s, t: [s / 2, s / (t + 10), 12 / (s + 10)])
    add('Scalar.__floordiv__', lambda s, t: [s // 2, s // (t + 10), 12 // (s + 10)])
    add('Scalar.__mod__', lambda s, t: [s % 2, s % (t + 10), 12 % (s + 10)])
    add('Scalar.__matmul__', lambda s, t: [s @ t, s @ s])
    add('Scalar.rand(explicit)', lambda s, t: [s.rand(rand=0.25), s.rand(size=3, rand=np.array([0.1, 0.5, 0.9])),
                                               dit.math.sample(s, size=2, rand=np.array([0.0, 0.999]))])
    add('Scalar.to_rv_discrete', lambda s, t: (lambda rv: [np.asarray(rv.xk, dtype=float), np.asarray(rv.pk, dtype=float)])(s.to_rv_discrete()))
    add('Scalar.from_rv_discrete', lambda s, t: dit.ScalarDistribution.from_rv_discrete(s.to_rv_discrete()))
    add('Scalar.from_distribution', lambda s, t: _each([lambda: dit.ScalarDistribution.from_distribution(s),
                                                        lambda: dit.ScalarDistribution.from_distribution(s, base=2),
                                                        lambda: dit.Distribution.from_distribution(s),
                                                        lambda: dit.Distribution.from_distribution(s, base='e')]))
    add('Scalar.stats', lambda s, t: _each([lambda: alg.mean(s), lambda: alg.median(s), lambda: alg.mode(s), lambda: alg.standard_deviation(s),
                                            lambda: alg.central_moment(s, 2), lambda: alg.standard_moment(s, 3)]))
    add('Scalar.entropies', lambda s, t: _each([lambda: S.entropy(s), lambda: O.extropy(s), lambda: O.perplexity(s), lambda: O.renyi_entropy(s, 2),
                                                lambda: O.tsallis_entropy(s, 0.5), lambda: O.disequilibrium(s), lambda: O.LMPR_complexity(s)]))
    add('Scalar.cumulative_residual_entropy', lambda s, t: _each([lambda: O.cumulative_residual_entropy(s),
                                                                  lambda: O.generalized_cumulative_residual_entropy(s)]))
    add('Scalar.divergences', lambda s, t: _each([lambda: D.kullback_leibler_divergence(s, t), lambda: D.cross_entropy(s, t),
                                                  lambda: D.jensen_shannon_divergence([s, t]), lambda: D.variational_distance(s, t),
                                                  lambda: D.hellinger_distance(s, t), lambda: D.bhattacharyya_coefficient(s, t),
                                                  lambda: D.chernoff_information(s, t), lambda: D.renyi_divergence(s, t, 2),
                                                  lambda: D.f_divergence(s, t, _f_chi2), lambda: D.earth_movers_distance(s, t)]))
    add('Scalar.helpers', lambda s, t: _each([lambda: dit.copypmf(s) if s.get_base() != 'e' else None,       # see helpers.copypmf above
                                              lambda: dit.copypmf(s, base=2, mode='dense'), lambda: dit.copypmf(s, base='linear', mode='sparse'),
                                              lambda: dit.helpers.numerical_test(s),
                                              lambda: [sorted(x.tolist()) for x in dit.helpers.normalize_pmfs(s, t)]]))
    add('Scalar.constructors', lambda s, t: _each([lambda: dit.modify_outcomes(s, lambda o: o % 2), lambda: dit.uniform_like(s),
                                                   lambda: dit.pruned_samplespace(s), lambda: dit.expanded_samplespace(s),
                                                   lambda: dit.mixture_distribution([s, t.copy(base=s.get_base())], W(s), merge=True),
                                                   lambda: dit.mixture_distribution2([s, t.copy(base=s.get_base())], W(s))]))

    if thorough:
        add('multivariate.one_way_skar', lambda d, e: mv.one_way_skar(d, A(d, X), A(d, Y), A(d, Z)))
        add('divergences.hypercontractivity_coefficient', lambda d, e: D.hypercontractivity_coefficient(d, [A(d, X), A(d, Y)], niter=2))
        add('multivariate.intrinsic_mutual_information[default niter]', lambda d, e: mv.intrinsic_mutual_information(d, [A(d, X), A(d, Y)], A(d, Z)))
        # left out for their run time (tens of minutes per call on 3 binary variables, measured): the two-part and the
        # minimal intrinsic mutual informations with a conditioning variable, two_way_skar
        add('multivariate.interactive_intrinsic_mutual_information[rvs,crvs]',
            lambda d, e: mv.interactive_intrinsic_mutual_information(d, [A(d, X), A(d, Y)], A(d, Z), niter=2))
        for cname in ('ConnectedDualInformations', 'SchneidmanProfile'):
            if hasattr(dit.profiles, cname):
                add('profiles.' + cname, lambda d, e, c=getattr(dit.profiles, cname): c(d))
        for cname in ('PID_RAV', 'PID_RA', 'PID_dep', 'PID_SKAR_owb', 'PID_GH'):
            if hasattr(dit.pid, cname):
                add('pid.' + cname, lambda d, e, c=getattr(dit.pid, cname): c(d, [A(d, X), A(d, Y)], A(d, Z)))
        add('rate_distortion.RDCurve', lambda d, e: _curve(dit.rate_distortion.RDCurve(d, rv=A(d, X), beta_num=3)))
        add('rate_distortion.IBCurve', lambda d, e: _curve(dit.rate_distortion.IBCurve(d, rvs=[A(d, X), A(d, Y)], beta_num=3)))


def _f_kl(t):
    return t * np.log2(t)


def _f_tv(t):
    return abs(t - 1) / 2


def _f_chi2(t):
    return (t - 1) ** 2


def _jff_kept(d, e):
    """joint_from_factors on factors that are kept alive around the call: they are arguments too."""
    dit = import_dit()
    m, cs = d.condition_on([0], rv_mode='indices')
    before = [snapshot(m)] + [snapshot(c) for c in cs]
    out = [dit.joint_from_factors(m, cs, strict=True), dit.joint_from_factors(m, cs, strict=False)]
    after = [snapshot(m)] + [snapshot(c) for c in cs]
    if before != after:
        raise ArgumentChanged('joint_from_factors changed one of the factors it was handed')
    return out


class ArgumentChanged(Exception):
    """Raised by a recipe that hands a callable further distributions (factors, conditionals) and finds one changed."""


def _optimised(opt, niter):
    if niter is None:
        opt.optimize()
    else:
        opt.optimize(niter=niter)
    return opt.construct_dist()


def _printed(obj):
    # the default repr names the address of the (new) object: only a printing repr (ditParams['repr.print']) is a value
    return _each([lambda: str(obj), lambda: (lambda x: None if ' object at 0x' in x else x)(repr(obj)),
                  lambda: obj.to_string(digits=3), lambda: obj._repr_html_() if hasattr(obj, '_repr_html_') else None])


def _each(thunks):
    """The values of several calls; one that raises is recorded as such and the others are still made."""
    out = []
    for f in thunks:
        try:
            out.append(canon_value(f()))
        except ArgumentChanged:
            raise
        except Exception as ex:  # noqa
            out.append(('raised', type(ex).__name__))
    return out


def _curve(c):
    out = []
    for k in ('rates', 'distortions', 'complexities', 'relevances', 'ranks'):
        if hasattr(c, k):
            out.append(np.asarray(getattr(c, k), dtype=float))
    return out


# ---------------------------------------------------------------------------------- a pristine process per session
#
# `start_pristine` forks a copy of the calling process at a moment when it has imported dit and executed no case (the
# generator calls it in the check's main process; a replay calls it before its only case).  The copy listens on a
# Unix socket; for every session it is sent it forks once more, the child executes the session and answers with the
# result and the lines of dit it reached.  Worker processes forked from the main process later find the same socket.
# The copy ends when the last process that could talk to it is gone (end-of-file on a pipe they all hold open).

_PRISTINE = {'path': None, 'keep': None}


def start_pristine():
    if _PRISTINE['path'] is not None or not hasattr(os, 'fork'):
        return
    import_dit()
    path = os.path.join(tempfile.mkdtemp(prefix='verif-c10-'), 's')
    srv = socket.socket(socket.AF_UNIX, socket.SOCK_STREAM)
    srv.bind(path)
    srv.listen(64)
    rfd, wfd = os.pipe()
    if os.fork() == 0:
        try:
            os.close(wfd)
            _serve(srv, rfd, path)
        finally:
            os._exit(0)
    srv.close()
    os.close(rfd)
    _PRISTINE['path'], _PRISTINE['keep'] = path, wfd


def _serve(srv, rfd, path):
    signal.signal(signal.SIGCHLD, signal.SIG_IGN)
    seen = set(covtrace.snapshot())
    try:
        while True:
            ready, _, _ = select.select([srv, rfd], [], [])
            if rfd in ready:
                return
            conn, _ = srv.accept()
            if os.fork() == 0:
                try:
                    signal.signal(signal.SIGCHLD, signal.SIG_DFL)
                    srv.close()
                    os.close(rfd)
                    _answer(conn, seen)
                finally:
                    os._exit(0)
            conn.close()
    finally:
        try:
            os.unlink(path)
            os.rmdir(os.path.dirname(path))
        except OSError:
            pass


def _answer(conn, seen):
    f = conn.makefile('rw')
    case = json.loads(f.readline())
    r = PROP.run_session_here(case)
    hits = [h for h in covtrace.snapshot() if tuple(h) not in seen]
    f.write(json.dumps({'result': r.__dict__, 'hits': hits}, default=str) + '\n')
    f.flush()
    conn.close()


def in_pristine_process(case):
    """Result of the session executed in a fresh copy of the pristine process (None if that is not available)."""
    start_pristine()
    if _PRISTINE['path'] is None:
        return None
    conn = socket.socket(socket.AF_UNIX, socket.SOCK_STREAM)
    try:
        conn.connect(_PRISTINE['path'])     # no time limit: a session takes as long here as it would in this process
        f = conn.makefile('rw')
        f.write(json.dumps(case, default=str) + '\n')
        f.flush()
        line = f.readline()
    finally:
        conn.close()
    if not line:
        return None
    out = json.loads(line)
    covtrace.merge([tuple(h) for h in out['hits']])
    r = core.Result()
    r.__dict__.update(out['result'])
    return r


# ---------------------------------------------------------------------------------- configurations
#
# "the library's global configuration" is dit.ditParams.  Some cases are executed under a configuration other than
# the default one (printing of exact fractions, repr printing the table, other comparison tolerances); the harness
# sets it before the case's distributions are built and puts the former values back afterwards.  Whatever the
# configuration, no callable may change it (global_snapshot) and deterministic calls repeat.

CONFIGS = [None, None, {'repr.print': True}, {'print.exact': True}, {'repr.print': True, 'print.exact': True},
           {'rtol': 1e-7, 'atol': 1e-10}]


def configure(dit, config):
    saved = {}
    for k, v in sorted((config or {}).items()):
        saved[k] = dit.ditParams[k]
        dit.ditParams[k] = v
    return saved


def restore(dit, saved):
    for k, v in saved.items():
        dit.ditParams[k] = v


class C10(object):
    id = 'C10'
    rule = ("registry of public callables built by introspection of dit.shannon / multivariate / other / divergences / "
            "algorithms plus explicit recipes (profiles, PID classes, distribution methods, constructors-from-"
            "distributions; optimisation-based ones in the thorough tier; coverage-gap round: the remaining public "
            "callables of dit, dit.multivariate, dit.other, dit.divergences (incl. the pmf-level functions handed the stored "
            "arrays), dit.algorithms (stats, lattice, channel capacity, the optimiser classes of distribution_optimizers, "
            "pid_broja), dit.helpers / abstractdist / cdisthelpers / validate, every PID and profile class that runs in "
            "this sandbox and their printed forms, measures with variables of interest / conditioning variables / names / "
            "options, printing and iteration methods, and - on two ScalarDistributions with numerical outcomes that every "
            "case carries in the analogue of its representation - the methods, operators, comparisons and measures of "
            "ScalarDistribution; every case watches all four distributions around every call; about a third of the "
            "cases run under a non-default ditParams configuration (repr.print, print.exact, rtol/atol), which no call may "
            "change; sessions give every member a scalar companion over its stored values) x 7 representations of a 3-variable argument (every callable of the tier's registry meets every representation in each run) "
            "(sparse/dense, linear/log2/loge, named, untrimmed with stored zeros, custom sample space) x random "
            "interleavings of 12 calls; snapshot of every argument (outcomes, pmf bytes, base, sparse flag, alphabet, "
            "sample space, names, mask, rv mode, PRNG state, index), of ditParams, what every memoised key of the ops cache stands for, NumPy's error "
            "state and the global PRNG before/after each call; every deterministic call repeated at the end of the "
            "interleaving. Non-trivial = the interleaving has >= 8 distinct callables. "
            "Sessions (one for every three interleavings): 2-12 distributions over one outcome table, each with its own "
            "probabilities and its own representation - base linear / 2 / e / an integer 3..40 / a non-integer in "
            "(1.2, 12) / a base below one; reached through the constructor on log values, copy(base), a plain copy of such "
            "a copy, set_base on a fresh object, or copy([base]) of an older member; dense / named / untrimmed / custom "
            "sample space at random - come into being one after another while callables of the registry are applied to "
            "pairs of the live ones; after every step the snapshot of every live distribution (arguments and bystanders) "
            "and the globals are compared with those before it, and every deterministic call is repeated on the same "
            "members at the end. Non-trivial = at least 3 distributions and 6 distinct callables")
    tolerances = {'repeatability': 'results rounded to 1e-10 (optimiser-based callables: the same starting point gives the same iterates)'}
    exhaustive = {}
    modelled = "the theorem is the model's frame condition; the force for dit comes from this differential run"

    def gen(self, rng, tier):
        # quick: 12 cycles of the 7 representations; cycle b calls registry entries 12b .. 12b+11, so that every
        # callable of the quick registry meets every representation at least once per run
        n_cases = 84 if tier == 'quick' else 240
        start_pristine()     # nothing has been executed yet in this process: sessions start from a copy of this state
        # as many cycles of the 7 representations as it takes for every callable of the tier's registry to be called
        # systematically (12 per case in the quick tier, 10 in the thorough one: see run_interleaving)
        n_reg = len(build_registry(import_dit(), tier))
        per_case = 12 if tier == 'quick' else 10
        n_cases = max(n_cases, len(REPRESENTATIONS) * (-(-n_reg // per_case)))
        for i in range(n_cases):
            c = gen.rand_dist_case(rng, nmin=3, nmax=3, amax=2, bases=['linear'], allow_space=False, allow_names=False,
                                   max_support=7, klasses=('str', 'tuple'))
            # mostly non-degenerate arguments (>= 4 outcomes, no constant variable): purity bugs hide behind fixed points
            tries = 0
            while (i % 6 != 5 and tries < 50
                   and (len(c['outs']) < 4 or any(len(set(o[k] for o in c['outs'])) < 2 for k in range(3))
                        or sum(1 for p in c['pmf'] if Fraction(p) > Fraction(1, 50)) < 4)):
                c = gen.rand_dist_case(rng, nmin=3, nmax=3, amax=2, bases=['linear'], allow_space=False,
                                       allow_names=False, max_support=7, klasses=('str', 'tuple'))
                tries += 1
            gen.avoid_subnull(c)
            pv, _ = gen.rand_prob_vector(rng, len(c['outs']), 'small')
            if all(p > 0 for p in pv):
                c['pmf2'] = [str(p) for p in pv]
            else:
                c['pmf2'] = c['pmf'][1:] + c['pmf'][:1]
            c['rep'] = REPRESENTATIONS[i % len(REPRESENTATIONS)]
            c['seed'] = rng.randrange(2 ** 31)
            c['ncalls'] = 12 if tier == 'quick' else 20
            c['slot'] = i // len(REPRESENTATIONS)
            c['config'] = CONFIGS[rng.randrange(len(CONFIGS))]
            yield c
            if i % 3 == 2:
                yield self.gen_session(rng, tier, c)
            if i % 4 == 1:
                # the memo behind get_ops against the model memoRun (Props/C10Memo), see _c10memo.py
                yield _c10memo.gen_case(rng)

    def gen_session(self, rng, tier, c):
        """Several live distributions over the outcome table of `c`, in many representations, and an interleaving of
        their creation with calls on the ones that exist already."""
        nd = rng.choice([2, 3, 4, 5, 6, 8, 8, 9, 10, 10, 12, 12])
        k = len(c['outs'])
        dists = []
        for m in range(nd):
            pv, _ = gen.rand_prob_vector(rng, k, 'small')
            if m == 0 or not all(p > 0 for p in pv):
                rot = m % k
                pmf = c['pmf'][rot:] + c['pmf'][:rot]
            else:
                pmf = [str(p) for p in pv]
            u = rng.random()
            if u < 0.08:
                base = 'linear'
            elif u < 0.16:
                base = rng.choice([2, 'e'])
            elif u < 0.40:
                base = rng.randint(3, 40)
            elif u < 0.94:
                base = round(rng.uniform(1.2, 12.0), 3)
            else:
                base = round(rng.uniform(0.15, 0.85), 3)
            if base == 'linear':
                route = 'ctor'
            elif m > 0 and rng.random() < 0.2:
                route = 'derive'
            else:
                route = rng.choice(['ctor', 'ctor', 'copy-of-copy', 'copy-base', 'set_base'])
            spec = {'pmf': pmf, 'base': base, 'route': route, 'dense': rng.random() < 0.3, 'named': rng.random() < 0.3,
                    'shape': rng.choice(['plain', 'plain', 'plain', 'untrimmed', 'custom-space'])}
            if route == 'derive':
                spec['from'] = rng.randrange(m)
                spec['rebase'] = rng.random() < 0.6    # copy(base=b) of the older member, else a plain copy()
                if not spec['rebase']:
                    spec['base'] = None                # a plain copy keeps the base of its source
            dists.append(spec)
        ncalls = 12 if tier == 'quick' else 20
        # creation steps in order, call steps spread between them (the first distribution always comes first)
        marks = sorted(rng.randrange(1, nd + 1) for _ in range(ncalls))
        steps = []
        for m in range(nd):
            steps.append({'op': 'new', 'k': m})
            for _ in range(sum(1 for x in marks if x == m + 1)):
                i = rng.randrange(m + 1)
                j = rng.randrange(m + 1)
                if j == i and m > 0:
                    j = (i + 1) % (m + 1)
                steps.append({'op': 'call', 'fn': rng.randrange(10 ** 6), 'i': i, 'j': j})
        return {'kind': 'session', 'klass': c['klass'], 'outs': c['outs'], 'dists': dists, 'steps': steps,
                'tier': tier, 'rep': 'session', 'config': CONFIGS[rng.randrange(len(CONFIGS))]}

    def shrink(self, case):
        if case.get('kind') == 'memo':
            for c in _c10memo.shrink(case):
                yield c
            return
        if case.get('kind') == 'session':
            for c in self.shrink_session(case):
                yield c
            return
        if case.get('only'):
            return
        for name in case.get('_called', []):
            c = dict(case)
            c['only'] = name
            yield c

    def represent(self, case, pmf_key):
        dit = import_dit()
        klass = case['klass']
        rep = case['rep']
        outs = [gen.to_py(o, klass) for o in case['outs']]
        pmf = [float(Fraction(p)) for p in case[pmf_key]]
        kw = {}
        if rep == 'untrimmed':
            alph = [sorted(set(o[i] for o in case['outs'])) for i in range(3)]
            extra = [gen.to_py(list(o), klass) for o in itertools.product(*alph) if list(o) not in case['outs']][:2]
            outs, pmf = outs + extra, pmf + [0.0] * len(extra)
            kw['trim'] = False
        if rep == 'custom-space':
            alph = [sorted(set(o[i] for o in case['outs'])) for i in range(3)]
            kw['sample_space'] = [gen.to_py(list(o), klass) for o in itertools.product(*alph)][::-1]
        d = dit.Distribution(outs, pmf, **kw)
        if rep.startswith('dense'):
            d.make_dense()
        if rep.endswith('log2'):
            d.set_base(2)
        if rep.endswith('loge'):
            d.set_base('e')
        if rep == 'named':
            d.set_rv_names('XYZ')
        return d

    def represent_scalar(self, case, pmf_key, shift=0):
        """A ScalarDistribution with numerical outcomes carrying the case's probabilities, in the scalar analogue of the
        case's representation (base, dense, stored zeros, a sample space of its own)."""
        dit = import_dit()
        rep = case['rep']
        pmf = [float(Fraction(p)) for p in case[pmf_key]]
        outs = [shift - 1 + k for k in range(len(pmf))]          # ..., -1, 0, 1, 2, ...: negative, zero and positive outcomes
        kw = {}
        if rep == 'untrimmed':
            outs, pmf = outs + [outs[-1] + 2, outs[-1] + 5], pmf + [0.0, 0.0]
            kw['trim'] = False
        if rep == 'custom-space':
            kw['sample_space'] = list(range(outs[0] - 2, outs[-1] + 3))
        s = dit.ScalarDistribution(outs, pmf, **kw)
        if rep.startswith('dense'):
            s.make_dense()
        if rep.endswith('log2'):
            s.set_base(2)
        if rep.endswith('loge'):
            s.set_base('e')
        return s

    def run(self, case, drv):
        if case.get('kind') == 'memo':
            return _c10memo.run(case, drv)
        if case.get('kind') == 'session':
            return self.run_session(case)
        dit = import_dit()
        saved = configure(dit, case.get('config'))
        try:
            r = self.run_interleaving(case, dit)
        finally:
            restore(dit, saved)
        if case.get('config'):
            r.features.append('config=' + '+'.join(sorted(case['config'])))
        return r

    def run_interleaving(self, case, dit):
        r = core.Result()
        r.site = 'C10.purity'
        r.features = ['rep=%s' % case['rep']]
        tier = 'thorough' if case['ncalls'] > 12 else 'quick'
        reg = build_registry(dit, tier)
        names = sorted(reg)
        rs = np.random.RandomState(case['seed'])
        d = self.represent(case, 'pmf')
        e = self.represent(case, 'pmf2')
        s = self.represent_scalar(case, 'pmf')
        t = self.represent_scalar(case, 'pmf2')
        if case.get('only'):
            seq = [case['only']] * 2
        else:
            nsys = 12 if tier == 'quick' else 10
            sysnames = [names[(case.get('slot', 0) * nsys + j) % len(names)] for j in range(nsys)]
            seq = sysnames + [names[int(i)] for i in rs.randint(len(names), size=case['ncalls'] - nsys)]
            seq = [seq[int(i)] for i in rs.permutation(len(seq))]
        case['_called'] = sorted(set(seq))
        r.nontrivial = len(set(seq)) >= 8
        for nm in set(seq):
            r.features.append('fn=' + nm.split('.')[0])
        first = {}

        def call(nm):
            a, b = (s, t) if is_scalar_entry(nm) else (d, e)
            try:
                with np.errstate(all='ignore'):
                    return ('ok', canon_value(reg[nm](a, b)))
            except ArgumentChanged as ex:
                return ('argument-changed', str(ex))
            except Exception as ex:  # noqa
                return ('raised', type(ex).__name__)
        for k, nm in enumerate(seq + sorted(set(seq))):
            sd, se, sg = snapshot(d), snapshot(e), global_snapshot(dit)
            ss, st = snapshot(s), snapshot(t)
            val = call(nm)
            ad, ae, ag = snapshot(d), snapshot(e), global_snapshot(dit)
            as_, at = snapshot(s), snapshot(t)
            randomised = is_randomised(nm)
            if val[0] == 'argument-changed':
                r.oracle_fail = '%s: %s (representation %s)' % (nm, val[1], case['rep'])
                r.site = 'C10.' + nm
                r.detail = {'callable': nm}
                return r
            if is_scalar_entry(nm):
                watched = (('first argument', ss, as_), ('second argument', st, at),
                           ('bystander (the first joint distribution)', sd, ad), ('bystander (the second joint distribution)', se, ae))
            else:
                watched = (('first argument', sd, ad), ('second argument', se, ae),
                           ('bystander (the first scalar distribution)', ss, as_), ('bystander (the second scalar distribution)', st, at))
            for label, before, after in watched:
                diff = [key for key in before if before[key] != after[key]]
                if diff:
                    r.oracle_fail = '%s changed %s of its %s (representation %s)' % (nm, diff, label, case['rep'])
                    r.site = 'C10.' + nm
                    r.detail = {'callable': nm, 'changed': diff, 'before': {x: repr(before[x])[:200] for x in diff},
                                'after': {x: repr(after[x])[:200] for x in diff}}
                    return r
            gdiff = [key for key in sg if sg[key] != ag[key]]
            if gdiff:
                r.oracle_fail = '%s changed the global %s' % (nm, gdiff)
                r.site = 'C10.' + nm
                r.detail = {'callable': nm, 'before': {x: sg[x][:300] for x in gdiff}, 'after': {x: ag[x][:300] for x in gdiff}}
                return r
            if not randomised:
                tol = 1e-4 if any(x in nm for x in OPTIMISER) else 0.0
                if nm in first and not close_value(first[nm], val, tol):
                    r.oracle_fail = 'repeating %s after other calls gave a different result (representation %s)' % (nm, case['rep'])
                    r.site = 'C10.' + nm
                    r.detail = {'callable': nm, 'first': repr(first[nm])[:400], 'again': repr(val)[:400]}
                    return r
                first.setdefault(nm, val)
        r.detail = {'calls': seq}
        return r

    # ------------------------------------------------------------------------------------------------ sessions

    def shrink_session(self, case):
        """Drop one step (a creation goes together with everything that refers to the distribution)."""
        steps = case['steps']
        for n in range(len(steps) - 1, -1, -1):
            st = steps[n]
            if st['op'] == 'call':
                keep = steps[:n] + steps[n + 1:]
            else:
                gone = {st['k']}
                grew = True
                while grew:   # members derived from a dropped one go too
                    grew = False
                    for m, sp in enumerate(case['dists']):
                        if sp['route'] == 'derive' and sp['from'] in gone and m not in gone:
                            gone.add(m)
                            grew = True
                keep = [x for x in steps if not ((x['op'] == 'new' and x['k'] in gone)
                                                 or (x['op'] == 'call' and (x['i'] in gone or x['j'] in gone)))]
            if not any(x['op'] == 'new' for x in keep):
                continue
            c = dict(case)
            c['steps'] = keep
            yield c

    def build_member(self, case, spec, pool):
        """The distribution described by `spec`, in its representation, by its route."""
        dit = import_dit()
        klass, base, route = case['klass'], spec['base'], spec['route']
        if route == 'derive':
            src = pool[spec['from']]
            return src.copy(base=base) if spec['rebase'] else src.copy()
        outs = [gen.to_py(o, klass) for o in case['outs']]
        probs = list(spec['pmf'])
        kw = {}
        alph = [sorted(set(o[i] for o in case['outs'])) for i in range(3)]
        if spec['shape'] == 'untrimmed':
            extra = [gen.to_py(list(o), klass) for o in itertools.product(*alph) if list(o) not in case['outs']][:2]
            outs, probs = outs + extra, probs + ['0'] * len(extra)
            kw['trim'] = False
        if spec['shape'] == 'custom-space':
            kw['sample_space'] = [gen.to_py(list(o), klass) for o in itertools.product(*alph)][::-1]
        if route == 'ctor':
            # the constructor is handed the stored representation itself (log values in the given base)
            d = dit.Distribution(outs, [gen.log_of(p, base) for p in probs], base=base, **kw)
        else:
            d = dit.Distribution(outs, [float(Fraction(p)) for p in probs], **kw)
            if route == 'set_base':
                d.set_base(base)
            elif route == 'copy-base':
                d = d.copy(base=base)
            elif route == 'copy-of-copy':
                d = d.copy(base=base).copy()
        if spec['dense']:
            d.make_dense()
        if spec['named']:
            d.set_rv_names('XYZ')
        return d

    def run_session(self, case):
        try:
            r = in_pristine_process(case)
        except (OSError, ValueError):
            r = None
        if r is None:
            # no process of its own to be had: the session is executed here, after whatever this process did before
            r = self.run_session_here(case)
            r.features.append('session-in-shared-process')
        return r

    def run_session_here(self, case):
        dit = import_dit()
        r = core.Result()
        r.site = 'C10.session'
        r.features = ['rep=session']
        tier = case.get('tier', 'quick')
        reg = build_registry(dit, tier)
        names = sorted(reg)
        configure(dit, case.get('config'))     # a session has a process of its own: nothing to put back
        if case.get('config'):
            r.features.append('config=' + '+'.join(sorted(case['config'])))
        pool = {}        # index in case['dists'] -> live distribution
        snaps = {}       # index -> snapshot taken when it came into being (and confirmed after every step since)
        spool = {}       # index -> the member's scalar companion (same stored values, base and sparseness; outcomes 0, 1, ...)
        ssnaps = {}
        first = {}       # (callable, i, j) -> first value
        called = []
        log = []

        def base_of(m):
            sp = case['dists'][m]
            return base_of(sp['from']) if sp['route'] == 'derive' and not sp['rebase'] else sp['base']

        def describe(m):
            sp = case['dists'][m]
            if sp['route'] == 'derive':
                how = ('copy(base=%r) of #%d' if sp['rebase'] else 'copy() of #%d, base %r') % (
                    (sp['base'], sp['from']) if sp['rebase'] else (sp['from'], base_of(m)))
                return '#%d (%s)' % (m, how)
            return '#%d (base %r, %s)' % (m, sp['base'], sp['route'])

        def call(nm, i, j):
            a, b = (spool[i], spool[j]) if is_scalar_entry(nm) else (pool[i], pool[j])
            try:
                with np.errstate(all='ignore'):
                    return ('ok', canon_value(reg[nm](a, b)))
            except ArgumentChanged as ex:
                return ('argument-changed', str(ex))
            except Exception as ex:  # noqa
                return ('raised', type(ex).__name__)

        def frame(what, args, sg):
            """Every live distribution reads back as before the step; so do the globals."""
            for m in sorted(snaps):
                after = snapshot(pool[m])
                diff = [key for key in snaps[m] if snaps[m][key] != after[key]]
                if diff:
                    role = 'its argument' if m in args else 'the bystander'
                    r.oracle_fail = ('%s changed %s of %s %s, which reads back differently than before the step'
                                     % (what, diff, role, describe(m)))
                    r.detail = {'step': what, 'changed': diff, 'distribution': describe(m), 'was_argument': m in args,
                                'before': {x: repr(snaps[m][x])[:200] for x in diff},
                                'after': {x: repr(after[x])[:200] for x in diff}, 'steps_so_far': log}
                    return False
            for m in sorted(ssnaps):
                after = snapshot(spool[m])
                diff = [key for key in ssnaps[m] if ssnaps[m][key] != after[key]]
                if diff:
                    r.oracle_fail = ('%s changed %s of the scalar companion of %s, which reads back differently than before the step'
                                     % (what, diff, describe(m)))
                    r.detail = {'step': what, 'changed': diff, 'distribution': 'scalar companion of ' + describe(m),
                                'before': {x: repr(ssnaps[m][x])[:200] for x in diff},
                                'after': {x: repr(after[x])[:200] for x in diff}, 'steps_so_far': log}
                    return False
            ag = global_snapshot(dit, session=True)
            gdiff = [key for key in sg if sg[key] != ag[key]]
            if gdiff:
                r.oracle_fail = '%s changed the global %s' % (what, gdiff)
                r.detail = {'step': what, 'before': {x: sg[x][:300] for x in gdiff}, 'after': {x: ag[x][:300] for x in gdiff},
                            'steps_so_far': log}
                return False
            return True

        def compare(nm, i, j, val):
            if val[0] == 'argument-changed':
                r.oracle_fail = '%s on %s and %s: %s' % (nm, describe(i), describe(j), val[1])
                r.site = 'C10.' + nm
                r.detail = {'callable': nm, 'steps_so_far': log}
                return False
            if is_randomised(nm):
                return True
            tol = 1e-4 if any(x in nm for x in OPTIMISER) else 0.0
            key = (nm, i, j)
            if key in first and not close_value(first[key], val, tol):
                r.oracle_fail = ('repeating %s on %s and %s after other calls gave a different result'
                                 % (nm, describe(i), describe(j)))
                r.site = 'C10.' + nm
                r.detail = {'callable': nm, 'first': repr(first[key])[:400], 'again': repr(val)[:400], 'steps_so_far': log}
                return False
            first.setdefault(key, val)
            return True

        for st in case['steps']:
            sg = global_snapshot(dit, session=True)
            if st['op'] == 'new':
                m = st['k']
                sp = case['dists'][m]
                if sp['route'] == 'derive' and sp['from'] not in pool:
                    continue
                what = 'bringing %s into being' % describe(m)
                log.append(what)
                d = self.build_member(case, sp, pool)
                # constructors are not queries: the globals are only watched when the new member is derived from an
                # older one by the non-mutating method copy
                if not frame(what, {sp['from']} if sp['route'] == 'derive' else set(), sg if sp['route'] == 'derive' else {}):
                    return r
                pool[m] = d
                snaps[m] = snapshot(d)
                # the scalar companion: constructor on the member's stored values (a copy of the array), in its base
                spool[m] = dit.ScalarDistribution(list(range(len(d.pmf))), np.array(d.pmf, copy=True), base=d.get_base(),
                                                  trim=False, sparse=d.is_sparse())
                ssnaps[m] = snapshot(spool[m])
                b = base_of(m)
                r.features.append('base=%s' % (b if b in ('linear', 2, 'e') else 'integer' if isinstance(b, int)
                                               else 'below-one' if b < 1 else 'non-integer'))
                r.features.append('route=' + sp['route'])
            else:
                i, j = st['i'], st['j']
                if i not in pool or j not in pool:
                    continue
                nm = names[st['fn'] % len(names)]
                what = '%s(%s, %s)' % (nm, describe(i), describe(j))
                log.append(what)
                called.append((nm, i, j))
                val = call(nm, i, j)
                if not frame(what, {i, j}, sg):
                    r.site = 'C10.' + nm
                    return r
                if not compare(nm, i, j, val):
                    return r
        # every deterministic call once more, on the same members, after everything else
        for nm, i, j in sorted(set(called)):
            sg = global_snapshot(dit, session=True)
            what = '%s(%s, %s) [repeated at the end]' % (nm, describe(i), describe(j))
            log.append(what)
            val = call(nm, i, j)
            if not frame(what, {i, j}, sg):
                r.site = 'C10.' + nm
                return r
            if not compare(nm, i, j, val):
                return r
        fns = set(nm for nm, _, _ in called)
        for nm in fns:
            r.features.append('fn=' + nm.split('.')[0])
        custom = set(base_of(m) for m in pool) - {'linear', 2, 'e'}
        r.features.append('session-dists=%d' % len(pool))
        r.features.append('session-custom-bases=%s' % (len(custom) if len(custom) < 6 else '6+'))
        r.nontrivial = len(pool) >= 3 and len(fns) >= 6
        r.detail = {'steps': log}
        return r


PROP = C10()
