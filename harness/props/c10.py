"""
C10 — Queries and measures are pure and repeatable.

A registry of public callables that take a distribution is built by introspection of dit's
packages (plus explicit argument recipes for those that need more than a distribution); random
interleavings are executed on several representations of an argument; before and after every
call the harness snapshots every argument, the global configuration, the operations cache and
NumPy's error state, and deterministic calls are repeated.

A second kind of case, the *session*, keeps several distributions alive at once: they are brought into being one
after another, each in its own representation - any logarithm base (integers, non-integers, below one), reached
through the constructor, a copy, an in-place change of a fresh object, or derived from an older member - and the
callables of the registry are applied to some of them in between.  After every step *every* live distribution
(arguments and bystanders alike) must read back exactly as before, and every deterministic call is repeated at the
end of the session.  A session is a whole history: it is executed in a process of its own that has imported dit and
done nothing else (forked from a pristine copy of the check's main process), so that its verdict does not depend on
what the check happened to run before it and a stored session replays to the same verdict.
"""
import copy
import inspect
import itertools
import json
import math
import os
import select
import signal
import socket
import tempfile
from fractions import Fraction

import numpy as np

import core
import covtrace
import gen
from env import import_dit

REPRESENTATIONS = ['sparse-linear', 'dense-linear', 'sparse-log2', 'dense-loge', 'named', 'untrimmed', 'custom-space']
SLOW = {'exact_common_information', 'wyner_common_information', 'deweese_total_correlation',
        'deweese_caekl_mutual_information', 'stochastic_gk_common_information', 'moment_maxent_dists',
        'maximize_convex_function', 'hypercontractivity_coefficient', 'deweese_coinformation',
        'deweese_dual_total_correlation', 'marginal_maxent_dists', 'functional_common_information'}
RANDOMISED = {'random_distribution', 'random_scalar_distribution', 'jittered', 'perturb_support'}
# stochastic optimisers (random restarts drawn from NumPy's global generator): results are compared with a
# tolerance instead of exactly - the property exempts them from exact repeatability
OPTIMISER = {'maxent_dist', 'marginal_maxent_dists', 'PID_CCS', 'ConnectedInformations', 'DependencyDecomposition',
             'intrinsic', 'secrecy_capacity', 'deweese', 'exact_common_information', 'wyner_common_information',
             'moment_maxent_dists', 'hypercontractivity', 'MUIProfile', 'stochastic_gk'}


# non-convex problems solved from random starting points (basin hopping): "stochastic optimisers" in the words
# of the property; their values are not compared across repetitions, purity still is
STOCHASTIC = {'wyner_common_information', 'exact_common_information', 'intrinsic', 'deweese', 'secrecy_capacity',
              'hypercontractivity', 'stochastic_gk', 'DependencyDecomposition', 'necessary_intrinsic'}


def close_value(a, b, tol):
    if a == b:
        return True
    if (isinstance(a, tuple) and isinstance(b, tuple) and len(a) == 4 and len(b) == 4 and a[0] == 'dist' and b[0] == 'dist'
            and tol > 0):
        # distributions returned by an optimiser: entries below its clipping threshold may come and go
        da, db = dict(zip(a[1], a[2])), dict(zip(b[1], b[2]))
        return a[3] == b[3] and all(abs(da.get(k, 0.0) - db.get(k, 0.0)) <= tol for k in set(da) | set(db))
    if isinstance(a, tuple) and isinstance(b, tuple):
        return len(a) == len(b) and all(close_value(x, y, tol) for x, y in zip(a, b))
    if isinstance(a, float) and isinstance(b, float):
        return abs(a - b) <= tol
    return a == b


def snapshot(d):
    """Everything observable about a distribution (and a few private fields named in the property)."""
    return {
        'outcomes': tuple(d.outcomes), 'pmf': d.pmf.tobytes(), 'base': d.get_base(), 'sparse': bool(d.is_sparse()),
        'alphabet': repr(tuple(map(tuple, d.alphabet))), 'space': tuple(d.sample_space()),
        'names': None if d.get_rv_names() is None else tuple(d.get_rv_names()),
        'mask': tuple(getattr(d, '_mask', ())), 'rv_mode': getattr(d, '_rv_mode', None),
        'prng': repr(d.prng.get_state()[1][:8].tolist()) + str(d.prng.get_state()[2]),
        'len': len(d), 'index': tuple(sorted(map(repr, d._outcomes_index.items()))),
    }


def global_snapshot(dit, session=False):
    import dit.math.ops as ops
    if session:
        # a session brings new logarithm bases into being, so the set of memoised bases legitimately grows (or, for a
        # bounded memo, turns over); what must not change is what each memoised base stands for
        cache = repr(sorted(repr(k) for k, o in list(ops.cache.items()) if o.get_base() != k))
    else:
        cache = repr(sorted(map(repr, ops.cache.keys())))
    return {'params': repr(sorted((k, repr(v)) for k, v in dit.ditParams.items())),
            'ops_cache': cache, 'np_err': repr(np.geterr()),
            'prng': repr(dit.math.prng.get_state()[1][:8].tolist()) + str(dit.math.prng.get_state()[2])}


def canon_value(v):
    dit = import_dit()
    if isinstance(v, dit.distribution.BaseDistribution):
        return ('dist', tuple(v.outcomes), tuple(round(float(x), 10) for x in v.pmf), v.get_base())
    if isinstance(v, (list, tuple)):
        return tuple(canon_value(x) for x in v)
    if isinstance(v, dict):
        return tuple(sorted((repr(k), canon_value(x)) for k, x in v.items()))
    if isinstance(v, np.ndarray):
        return tuple(np.round(v.astype(float), 10).ravel().tolist()) if v.dtype.kind in 'fiub' else repr(v)
    if isinstance(v, (float, np.floating)):
        return 'nan' if math.isnan(float(v)) else round(float(v), 10)
    if isinstance(v, (int, str, bool, type(None), np.integer)):
        return v
    if hasattr(v, 'atoms') and isinstance(getattr(v, 'atoms'), dict):
        return canon_value(v.atoms)
    if hasattr(v, 'profile'):
        return canon_value(v.profile)
    if hasattr(v, '_pis'):
        return canon_value({repr(k): x for k, x in v._pis.items()})
    if hasattr(v, 'points'):
        return canon_value(v.points)
    return repr(type(v))


def build_registry(dit, tier):
    """name -> callable(d, e) ; deterministic unless listed in RANDOMISED."""
    import dit.shannon, dit.multivariate, dit.other, dit.divergences, dit.algorithms, dit.profiles, dit.pid
    reg = {}
    n = 3

    def add(name, f):
        reg[name] = f
    for M in (dit.shannon, dit.multivariate, dit.other, dit.divergences, dit.algorithms):
        mod = M.__name__.split('.')[-1]
        for name in sorted(x for x in dir(M) if not x.startswith('_')):
            f = getattr(M, name)
            if not callable(f) or inspect.isclass(f) or inspect.ismodule(f):
                continue
            if name in SLOW and tier == 'quick':
                continue
            try:
                ps = list(inspect.signature(f).parameters.values())
            except (TypeError, ValueError):
                continue
            req = [p.name for p in ps if p.default is inspect._empty and p.kind in (p.POSITIONAL_OR_KEYWORD, p.POSITIONAL_ONLY)]
            key = '%s.%s' % (mod, name)
            if req in (['dist'], ['d']):
                add(key, lambda d, e, f=f: f(d))
            elif req == ['dist', 'order']:
                add(key, lambda d, e, f=f: f(d, 2))
            elif req == ['dist1', 'dist2']:
                add(key, lambda d, e, f=f: f(d, e))
            elif req == ['dists']:
                add(key, lambda d, e, f=f: f([d, e]))
            elif req == ['dist', 'k']:
                add(key, lambda d, e, f=f: f(d, 2))
    A = lambda d, g: [d.get_rv_names()[i] for i in g] if d.get_rv_names() else list(g)
    mv, alg, D = dit.multivariate, dit.algorithms, dit.divergences
    add('shannon.conditional_entropy', lambda d, e: dit.shannon.conditional_entropy(d, A(d, [0]), A(d, [1, 2])))
    add('shannon.mutual_information', lambda d, e: dit.shannon.mutual_information(d, A(d, [0, 1]), A(d, [2])))
    add('multivariate.coinformation[rvs,crvs]', lambda d, e: mv.coinformation(d, [A(d, [0]), A(d, [1])], A(d, [2])))
    add('multivariate.caekl[rvs]', lambda d, e: mv.caekl_mutual_information(d, [A(d, [0]), A(d, [1, 2])]))
    add('divergences.maximum_correlation', lambda d, e: D.maximum_correlation(d, [A(d, [0]), A(d, [1])]))
    add('divergences.maximum_correlation[crvs]', lambda d, e: D.maximum_correlation(d, [A(d, [0]), A(d, [1])], A(d, [2])))
    add('divergences.copy_mutual_information', lambda d, e: D.copy_mutual_information(d, A(d, [0]), A(d, [1])))
    add('divergences.kl[rvs,crvs]', lambda d, e: D.kullback_leibler_divergence(d, e, A(d, [0]), A(d, [1])))
    add('algorithms.maxent_dist', lambda d, e: alg.maxent_dist(d, [A(d, [0, 1]), A(d, [1, 2])]))
    add('algorithms.channel_capacity_joint', lambda d, e: alg.channel_capacity_joint(d, A(d, [0]), A(d, [2])))
    add('algorithms.insert_join', lambda d, e: alg.insert_join(d, -1, [A(d, [0]), A(d, [1])]))
    add('algorithms.insert_meet', lambda d, e: alg.insert_meet(d, -1, [A(d, [0]), A(d, [1])]))
    add('algorithms.insert_mss', lambda d, e: alg.insert_mss(d, -1, A(d, [0]), A(d, [1, 2])))
    add('algorithms.mss', lambda d, e: alg.mss(d, A(d, [0]), A(d, [1, 2])))
    for cname in ('ShannonPartition', 'ExtropyPartition', 'ComplexityProfile', 'EntropyTriangle', 'EntropyTriangle2',
                  'MUIProfile', 'ConnectedInformations'):
        if hasattr(dit.profiles, cname) and not (cname in ('ConnectedInformations', 'MUIProfile') and tier == 'quick'):
            add('profiles.' + cname, lambda d, e, c=getattr(dit.profiles, cname): c(d))
    for cname in ('PID_WB', 'PID_MMI', 'PID_GK', 'PID_PM', 'PID_RDR', 'PID_CCS'):
        add('pid.' + cname, lambda d, e, c=getattr(dit.pid, cname): c(d, [A(d, [0]), A(d, [1])], A(d, [2])))
    # distribution methods
    add('Distribution.marginal', lambda d, e: d.marginal(A(d, [0, 2])))
    add('Distribution.marginalize', lambda d, e: d.marginalize(A(d, [1])))
    add('Distribution.coalesce', lambda d, e: d.coalesce([A(d, [0, 1]), A(d, [1, 2])]))
    add('Distribution.condition_on', lambda d, e: d.condition_on(A(d, [0])))
    add('Distribution.copy', lambda d, e: d.copy())
    add('Distribution.copy(base)', lambda d, e: d.copy(base='e'))
    add('Distribution.to_dict', lambda d, e: d.to_dict())
    add('Distribution.to_string', lambda d, e: d.to_string())
    add('Distribution.zipped(atoms)', lambda d, e: list(d.zipped(mode='atoms')))
    add('Distribution.zipped(patoms)', lambda d, e: list(d.zipped(mode='patoms')))
    add('Distribution.is_approx_equal', lambda d, e: d.is_approx_equal(e))
    add('Distribution.event_probability', lambda d, e: d.event_probability(list(d.sample_space())[:2]))
    add('Distribution.has_outcome', lambda d, e: [d.has_outcome(o, null=False) for o in d.sample_space()])
    add('Distribution.__getitem__', lambda d, e: [d[o] for o in d.sample_space()])
    add('Distribution.validate', lambda d, e: d.validate())
    add('Distribution.atoms', lambda d, e: list(d.atoms()))
    add('Distribution.is_homogeneous', lambda d, e: d.is_homogeneous())
    add('Distribution.__add__(mixture)', lambda d, e: (0.5 * d + 0.5 * e) if (not d.is_log() and not e.is_log()) else None)
    add('Distribution.rand(explicit)', lambda d, e: d.rand(size=3, rand=np.array([0.1, 0.5, 0.9])))
    # constructors from distributions
    add('distconst.modify_outcomes', lambda d, e: dit.modify_outcomes(d, lambda o: o[:2]))
    add('distconst.insert_rvf', lambda d, e: dit.insert_rvf(d, lambda o: o[:1]))
    add('distconst.product_distribution', lambda d, e: dit.product_distribution(d))
    add('distconst.mixture_distribution', lambda d, e: dit.mixture_distribution([d, e.copy(base=d.get_base())],
                                                                                [d.ops.log(0.25) if d.is_log() else 0.25,
                                                                                 d.ops.log(0.75) if d.is_log() else 0.75], merge=True))
    add('distconst.uniform_like', lambda d, e: dit.uniform_like(d))
    add('distconst.RVFunctions.xor', lambda d, e: dit.insert_rvf(d, dit.RVFunctions(d).xor([0, 1])))
    add('ScalarDistribution.from_distribution', lambda d, e: dit.ScalarDistribution.from_distribution(d.marginal(A(d, [0]))))
    add('Distribution.from_distribution', lambda d, e: dit.Distribution.from_distribution(d))
    if tier == 'thorough':
        add('multivariate.intrinsic_total_correlation', lambda d, e: mv.intrinsic_total_correlation(d, [A(d, [0]), A(d, [1])], A(d, [2])))
        add('multivariate.lower_intrinsic_mutual_information', lambda d, e: mv.lower_intrinsic_mutual_information(d, [A(d, [0]), A(d, [1])], A(d, [2])))
        add('multivariate.necessary_intrinsic_mutual_information', lambda d, e: mv.necessary_intrinsic_mutual_information(d, [A(d, [0]), A(d, [1])], A(d, [2])))
        add('multivariate.secrecy_capacity_skar', lambda d, e: mv.secrecy_capacity_skar(d, [A(d, [0]), A(d, [1])], A(d, [2])))
        add('profiles.DependencyDecomposition', lambda d, e: dit.profiles.DependencyDecomposition(d))
    return reg


# ---------------------------------------------------------------------------------- a pristine process per session
#
# `start_pristine` forks a copy of the calling process at a moment when it has imported dit and executed no case (the
# generator calls it in the check's main process; a replay calls it before its only case).  The copy listens on a
# Unix socket; for every session it is sent it forks once more, the child executes the session and answers with the
# result and the lines of dit it reached.  Worker processes forked from the main process later find the same socket.
# The copy ends when the last process that could talk to it is gone (end-of-file on a pipe they all hold open).

_PRISTINE = {'path': None, 'keep': None}


def start_pristine():
    if _PRISTINE['path'] is not None or not hasattr(os, 'fork'):
        return
    import_dit()
    path = os.path.join(tempfile.mkdtemp(prefix='verif-c10-'), 's')
    srv = socket.socket(socket.AF_UNIX, socket.SOCK_STREAM)
    srv.bind(path)
    srv.listen(64)
    rfd, wfd = os.pipe()
    if os.fork() == 0:
        try:
            os.close(wfd)
            _serve(srv, rfd, path)
        finally:
            os._exit(0)
    srv.close()
    os.close(rfd)
    _PRISTINE['path'], _PRISTINE['keep'] = path, wfd


def _serve(srv, rfd, path):
    signal.signal(signal.SIGCHLD, signal.SIG_IGN)
    seen = set(covtrace.snapshot())
    try:
        while True:
            ready, _, _ = select.select([srv, rfd], [], [])
            if rfd in ready:
                return
            conn, _ = srv.accept()
            if os.fork() == 0:
                try:
                    signal.signal(signal.SIGCHLD, signal.SIG_DFL)
                    srv.close()
                    os.close(rfd)
                    _answer(conn, seen)
                finally:
                    os._exit(0)
            conn.close()
    finally:
        try:
            os.unlink(path)
            os.rmdir(os.path.dirname(path))
        except OSError:
            pass


def _answer(conn, seen):
    f = conn.makefile('rw')
    case = json.loads(f.readline())
    r = PROP.run_session_here(case)
    hits = [h for h in covtrace.snapshot() if tuple(h) not in seen]
    f.write(json.dumps({'result': r.__dict__, 'hits': hits}, default=str) + '\n')
    f.flush()
    conn.close()


def in_pristine_process(case):
    """Result of the session executed in a fresh copy of the pristine process (None if that is not available)."""
    start_pristine()
    if _PRISTINE['path'] is None:
        return None
    conn = socket.socket(socket.AF_UNIX, socket.SOCK_STREAM)
    try:
        conn.connect(_PRISTINE['path'])     # no time limit: a session takes as long here as it would in this process
        f = conn.makefile('rw')
        f.write(json.dumps(case, default=str) + '\n')
        f.flush()
        line = f.readline()
    finally:
        conn.close()
    if not line:
        return None
    out = json.loads(line)
    covtrace.merge([tuple(h) for h in out['hits']])
    r = core.Result()
    r.__dict__.update(out['result'])
    return r


class C10(object):
    id = 'C10'
    rule = ("registry of public callables built by introspection of dit.shannon / multivariate / other / divergences / "
            "algorithms plus explicit recipes (profiles, PID classes, distribution methods, constructors-from-"
            "distributions; optimisation-based ones in the thorough tier) x 7 representations of a 3-variable argument (every callable of the tier's registry meets every representation in each run) "
            "(sparse/dense, linear/log2/loge, named, untrimmed with stored zeros, custom sample space) x random "
            "interleavings of 12 calls; snapshot of every argument (outcomes, pmf bytes, base, sparse flag, alphabet, "
            "sample space, names, mask, rv mode, PRNG state, index), of ditParams, the ops cache keys, NumPy's error "
            "state and the global PRNG before/after each call; every deterministic call repeated at the end of the "
            "interleaving. Non-trivial = the interleaving has >= 8 distinct callables. "
            "Sessions (one for every three interleavings): 2-12 distributions over one outcome table, each with its own "
            "probabilities and its own representation - base linear / 2 / e / an integer 3..40 / a non-integer in "
            "(1.2, 12) / a base below one; reached through the constructor on log values, copy(base), a plain copy of such "
            "a copy, set_base on a fresh object, or copy([base]) of an older member; dense / named / untrimmed / custom "
            "sample space at random - come into being one after another while callables of the registry are applied to "
            "pairs of the live ones; after every step the snapshot of every live distribution (arguments and bystanders) "
            "and the globals are compared with those before it, and every deterministic call is repeated on the same "
            "members at the end. Non-trivial = at least 3 distributions and 6 distinct callables")
    tolerances = {'repeatability': 'results rounded to 1e-10 (optimiser-based callables: the same starting point gives the same iterates)'}
    exhaustive = {}
    modelled = "the theorem is the model's frame condition; the force for dit comes from this differential run"

    def gen(self, rng, tier):
        # quick: 12 cycles of the 7 representations; cycle b calls registry entries 12b .. 12b+11, so that every
        # callable of the quick registry meets every representation at least once per run
        n_cases = 84 if tier == 'quick' else 240
        start_pristine()     # nothing has been executed yet in this process: sessions start from a copy of this state
        for i in range(n_cases):
            c = gen.rand_dist_case(rng, nmin=3, nmax=3, amax=2, bases=['linear'], allow_space=False, allow_names=False,
                                   max_support=7, klasses=('str', 'tuple'))
            # mostly non-degenerate arguments (>= 4 outcomes, no constant variable): purity bugs hide behind fixed points
            tries = 0
            while (i % 6 != 5 and tries < 50
                   and (len(c['outs']) < 4 or any(len(set(o[k] for o in c['outs'])) < 2 for k in range(3))
                        or sum(1 for p in c['pmf'] if Fraction(p) > Fraction(1, 50)) < 4)):
                c = gen.rand_dist_case(rng, nmin=3, nmax=3, amax=2, bases=['linear'], allow_space=False,
                                       allow_names=False, max_support=7, klasses=('str', 'tuple'))
                tries += 1
            gen.avoid_subnull(c)
            pv, _ = gen.rand_prob_vector(rng, len(c['outs']), 'small')
            if all(p > 0 for p in pv):
                c['pmf2'] = [str(p) for p in pv]
            else:
                c['pmf2'] = c['pmf'][1:] + c['pmf'][:1]
            c['rep'] = REPRESENTATIONS[i % len(REPRESENTATIONS)]
            c['seed'] = rng.randrange(2 ** 31)
            c['ncalls'] = 12 if tier == 'quick' else 20
            c['slot'] = i // len(REPRESENTATIONS)
            yield c
            if i % 3 == 2:
                yield self.gen_session(rng, tier, c)

    def gen_session(self, rng, tier, c):
        """Several live distributions over the outcome table of `c`, in many representations, and an interleaving of
        their creation with calls on the ones that exist already."""
        nd = rng.choice([2, 3, 4, 5, 6, 8, 8, 9, 10, 10, 12, 12])
        k = len(c['outs'])
        dists = []
        for m in range(nd):
            pv, _ = gen.rand_prob_vector(rng, k, 'small')
            if m == 0 or not all(p > 0 for p in pv):
                rot = m % k
                pmf = c['pmf'][rot:] + c['pmf'][:rot]
            else:
                pmf = [str(p) for p in pv]
            u = rng.random()
            if u < 0.08:
                base = 'linear'
            elif u < 0.16:
                base = rng.choice([2, 'e'])
            elif u < 0.40:
                base = rng.randint(3, 40)
            elif u < 0.94:
                base = round(rng.uniform(1.2, 12.0), 3)
            else:
                base = round(rng.uniform(0.15, 0.85), 3)
            if base == 'linear':
                route = 'ctor'
            elif m > 0 and rng.random() < 0.2:
                route = 'derive'
            else:
                route = rng.choice(['ctor', 'ctor', 'copy-of-copy', 'copy-base', 'set_base'])
            spec = {'pmf': pmf, 'base': base, 'route': route, 'dense': rng.random() < 0.3, 'named': rng.random() < 0.3,
                    'shape': rng.choice(['plain', 'plain', 'plain', 'untrimmed', 'custom-space'])}
            if route == 'derive':
                spec['from'] = rng.randrange(m)
                spec['rebase'] = rng.random() < 0.6    # copy(base=b) of the older member, else a plain copy()
                if not spec['rebase']:
                    spec['base'] = None                # a plain copy keeps the base of its source
            dists.append(spec)
        ncalls = 12 if tier == 'quick' else 20
        # creation steps in order, call steps spread between them (the first distribution always comes first)
        marks = sorted(rng.randrange(1, nd + 1) for _ in range(ncalls))
        steps = []
        for m in range(nd):
            steps.append({'op': 'new', 'k': m})
            for _ in range(sum(1 for x in marks if x == m + 1)):
                i = rng.randrange(m + 1)
                j = rng.randrange(m + 1)
                if j == i and m > 0:
                    j = (i + 1) % (m + 1)
                steps.append({'op': 'call', 'fn': rng.randrange(10 ** 6), 'i': i, 'j': j})
        return {'kind': 'session', 'klass': c['klass'], 'outs': c['outs'], 'dists': dists, 'steps': steps,
                'tier': tier, 'rep': 'session'}

    def shrink(self, case):
        if case.get('kind') == 'session':
            for c in self.shrink_session(case):
                yield c
            return
        if case.get('only'):
            return
        for name in case.get('_called', []):
            c = dict(case)
            c['only'] = name
            yield c

    def represent(self, case, pmf_key):
        dit = import_dit()
        klass = case['klass']
        rep = case['rep']
        outs = [gen.to_py(o, klass) for o in case['outs']]
        pmf = [float(Fraction(p)) for p in case[pmf_key]]
        kw = {}
        if rep == 'untrimmed':
            alph = [sorted(set(o[i] for o in case['outs'])) for i in range(3)]
            extra = [gen.to_py(list(o), klass) for o in itertools.product(*alph) if list(o) not in case['outs']][:2]
            outs, pmf = outs + extra, pmf + [0.0] * len(extra)
            kw['trim'] = False
        if rep == 'custom-space':
            alph = [sorted(set(o[i] for o in case['outs'])) for i in range(3)]
            kw['sample_space'] = [gen.to_py(list(o), klass) for o in itertools.product(*alph)][::-1]
        d = dit.Distribution(outs, pmf, **kw)
        if rep.startswith('dense'):
            d.make_dense()
        if rep.endswith('log2'):
            d.set_base(2)
        if rep.endswith('loge'):
            d.set_base('e')
        if rep == 'named':
            d.set_rv_names('XYZ')
        return d

    def run(self, case, drv):
        if case.get('kind') == 'session':
            return self.run_session(case)
        dit = import_dit()
        r = core.Result()
        r.site = 'C10.purity'
        r.features = ['rep=%s' % case['rep']]
        tier = 'thorough' if case['ncalls'] > 12 else 'quick'
        reg = build_registry(dit, tier)
        names = sorted(reg)
        rs = np.random.RandomState(case['seed'])
        d = self.represent(case, 'pmf')
        e = self.represent(case, 'pmf2')
        if case.get('only'):
            seq = [case['only']] * 2
        else:
            nsys = 12 if tier == 'quick' else 10
            sysnames = [names[(case.get('slot', 0) * nsys + j) % len(names)] for j in range(nsys)]
            seq = sysnames + [names[int(i)] for i in rs.randint(len(names), size=case['ncalls'] - nsys)]
            seq = [seq[int(i)] for i in rs.permutation(len(seq))]
        case['_called'] = sorted(set(seq))
        r.nontrivial = len(set(seq)) >= 8
        for nm in set(seq):
            r.features.append('fn=' + nm.split('.')[0])
        first = {}

        def call(nm):
            try:
                with np.errstate(all='ignore'):
                    return ('ok', canon_value(reg[nm](d, e)))
            except Exception as ex:  # noqa
                return ('raised', type(ex).__name__)
        for k, nm in enumerate(seq + sorted(set(seq))):
            sd, se, sg = snapshot(d), snapshot(e), global_snapshot(dit)
            val = call(nm)
            ad, ae, ag = snapshot(d), snapshot(e), global_snapshot(dit)
            randomised = any(x in nm for x in RANDOMISED) or any(x in nm for x in STOCHASTIC)
            for label, before, after in (('first argument', sd, ad), ('second argument', se, ae)):
                diff = [key for key in before if before[key] != after[key]]
                if diff:
                    r.oracle_fail = '%s changed %s of its %s (representation %s)' % (nm, diff, label, case['rep'])
                    r.site = 'C10.' + nm
                    r.detail = {'callable': nm, 'changed': diff, 'before': {x: repr(before[x])[:200] for x in diff},
                                'after': {x: repr(after[x])[:200] for x in diff}}
                    return r
            gdiff = [key for key in sg if sg[key] != ag[key]]
            if gdiff:
                r.oracle_fail = '%s changed the global %s' % (nm, gdiff)
                r.site = 'C10.' + nm
                r.detail = {'callable': nm, 'before': {x: sg[x][:300] for x in gdiff}, 'after': {x: ag[x][:300] for x in gdiff}}
                return r
            if not randomised:
                tol = 1e-4 if any(x in nm for x in OPTIMISER) else 0.0
                if nm in first and not close_value(first[nm], val, tol):
                    r.oracle_fail = 'repeating %s after other calls gave a different result (representation %s)' % (nm, case['rep'])
                    r.site = 'C10.' + nm
                    r.detail = {'callable': nm, 'first': repr(first[nm])[:400], 'again': repr(val)[:400]}
                    return r
                first.setdefault(nm, val)
        r.detail = {'calls': seq}
        return r

    # ------------------------------------------------------------------------------------------------ sessions

    def shrink_session(self, case):
        """Drop one step (a creation goes together with everything that refers to the distribution)."""
        steps = case['steps']
        for n in range(len(steps) - 1, -1, -1):
            st = steps[n]
            if st['op'] == 'call':
                keep = steps[:n] + steps[n + 1:]
            else:
                gone = {st['k']}
                grew = True
                while grew:   # members derived from a dropped one go too
                    grew = False
                    for m, sp in enumerate(case['dists']):
                        if sp['route'] == 'derive' and sp['from'] in gone and m not in gone:
                            gone.add(m)
                            grew = True
                keep = [x for x in steps if not ((x['op'] == 'new' and x['k'] in gone)
                                                 or (x['op'] == 'call' and (x['i'] in gone or x['j'] in gone)))]
            if not any(x['op'] == 'new' for x in keep):
                continue
            c = dict(case)
            c['steps'] = keep
            yield c

    def build_member(self, case, spec, pool):
        """The distribution described by `spec`, in its representation, by its route."""
        dit = import_dit()
        klass, base, route = case['klass'], spec['base'], spec['route']
        if route == 'derive':
            src = pool[spec['from']]
            return src.copy(base=base) if spec['rebase'] else src.copy()
        outs = [gen.to_py(o, klass) for o in case['outs']]
        probs = list(spec['pmf'])
        kw = {}
        alph = [sorted(set(o[i] for o in case['outs'])) for i in range(3)]
        if spec['shape'] == 'untrimmed':
            extra = [gen.to_py(list(o), klass) for o in itertools.product(*alph) if list(o) not in case['outs']][:2]
            outs, probs = outs + extra, probs + ['0'] * len(extra)
            kw['trim'] = False
        if spec['shape'] == 'custom-space':
            kw['sample_space'] = [gen.to_py(list(o), klass) for o in itertools.product(*alph)][::-1]
        if route == 'ctor':
            # the constructor is handed the stored representation itself (log values in the given base)
            d = dit.Distribution(outs, [gen.log_of(p, base) for p in probs], base=base, **kw)
        else:
            d = dit.Distribution(outs, [float(Fraction(p)) for p in probs], **kw)
            if route == 'set_base':
                d.set_base(base)
            elif route == 'copy-base':
                d = d.copy(base=base)
            elif route == 'copy-of-copy':
                d = d.copy(base=base).copy()
        if spec['dense']:
            d.make_dense()
        if spec['named']:
            d.set_rv_names('XYZ')
        return d

    def run_session(self, case):
        try:
            r = in_pristine_process(case)
        except (OSError, ValueError):
            r = None
        if r is None:
            # no process of its own to be had: the session is executed here, after whatever this process did before
            r = self.run_session_here(case)
            r.features.append('session-in-shared-process')
        return r

    def run_session_here(self, case):
        dit = import_dit()
        r = core.Result()
        r.site = 'C10.session'
        r.features = ['rep=session']
        tier = case.get('tier', 'quick')
        reg = build_registry(dit, tier)
        names = sorted(reg)
        pool = {}        # index in case['dists'] -> live distribution
        snaps = {}       # index -> snapshot taken when it came into being (and confirmed after every step since)
        first = {}       # (callable, i, j) -> first value
        called = []
        log = []

        def base_of(m):
            sp = case['dists'][m]
            return base_of(sp['from']) if sp['route'] == 'derive' and not sp['rebase'] else sp['base']

        def describe(m):
            sp = case['dists'][m]
            if sp['route'] == 'derive':
                how = ('copy(base=%r) of #%d' if sp['rebase'] else 'copy() of #%d, base %r') % (
                    (sp['base'], sp['from']) if sp['rebase'] else (sp['from'], base_of(m)))
                return '#%d (%s)' % (m, how)
            return '#%d (base %r, %s)' % (m, sp['base'], sp['route'])

        def call(nm, i, j):
            try:
                with np.errstate(all='ignore'):
                    return ('ok', canon_value(reg[nm](pool[i], pool[j])))
            except Exception as ex:  # noqa
                return ('raised', type(ex).__name__)

        def frame(what, args, sg):
            """Every live distribution reads back as before the step; so do the globals."""
            for m in sorted(snaps):
                after = snapshot(pool[m])
                diff = [key for key in snaps[m] if snaps[m][key] != after[key]]
                if diff:
                    role = 'its argument' if m in args else 'the bystander'
                    r.oracle_fail = ('%s changed %s of %s %s, which reads back differently than before the step'
                                     % (what, diff, role, describe(m)))
                    r.detail = {'step': what, 'changed': diff, 'distribution': describe(m), 'was_argument': m in args,
                                'before': {x: repr(snaps[m][x])[:200] for x in diff},
                                'after': {x: repr(after[x])[:200] for x in diff}, 'steps_so_far': log}
                    return False
            ag = global_snapshot(dit, session=True)
            gdiff = [key for key in sg if sg[key] != ag[key]]
            if gdiff:
                r.oracle_fail = '%s changed the global %s' % (what, gdiff)
                r.detail = {'step': what, 'before': {x: sg[x][:300] for x in gdiff}, 'after': {x: ag[x][:300] for x in gdiff},
                            'steps_so_far': log}
                return False
            return True

        def compare(nm, i, j, val):
            if any(x in nm for x in RANDOMISED) or any(x in nm for x in STOCHASTIC):
                return True
            tol = 1e-4 if any(x in nm for x in OPTIMISER) else 0.0
            key = (nm, i, j)
            if key in first and not close_value(first[key], val, tol):
                r.oracle_fail = ('repeating %s on %s and %s after other calls gave a different result'
                                 % (nm, describe(i), describe(j)))
                r.site = 'C10.' + nm
                r.detail = {'callable': nm, 'first': repr(first[key])[:400], 'again': repr(val)[:400], 'steps_so_far': log}
                return False
            first.setdefault(key, val)
            return True

        for st in case['steps']:
            sg = global_snapshot(dit, session=True)
            if st['op'] == 'new':
                m = st['k']
                sp = case['dists'][m]
                if sp['route'] == 'derive' and sp['from'] not in pool:
                    continue
                what = 'bringing %s into being' % describe(m)
                log.append(what)
                d = self.build_member(case, sp, pool)
                # constructors are not queries: the globals are only watched when the new member is derived from an
                # older one by the non-mutating method copy
                if not frame(what, {sp['from']} if sp['route'] == 'derive' else set(), sg if sp['route'] == 'derive' else {}):
                    return r
                pool[m] = d
                snaps[m] = snapshot(d)
                b = base_of(m)
                r.features.append('base=%s' % (b if b in ('linear', 2, 'e') else 'integer' if isinstance(b, int)
                                               else 'below-one' if b < 1 else 'non-integer'))
                r.features.append('route=' + sp['route'])
            else:
                i, j = st['i'], st['j']
                if i not in pool or j not in pool:
                    continue
                nm = names[st['fn'] % len(names)]
                what = '%s(%s, %s)' % (nm, describe(i), describe(j))
                log.append(what)
                called.append((nm, i, j))
                val = call(nm, i, j)
                if not frame(what, {i, j}, sg):
                    r.site = 'C10.' + nm
                    return r
                if not compare(nm, i, j, val):
                    return r
        # every deterministic call once more, on the same members, after everything else
        for nm, i, j in sorted(set(called)):
            sg = global_snapshot(dit, session=True)
            what = '%s(%s, %s) [repeated at the end]' % (nm, describe(i), describe(j))
            log.append(what)
            val = call(nm, i, j)
            if not frame(what, {i, j}, sg):
                r.site = 'C10.' + nm
                return r
            if not compare(nm, i, j, val):
                return r
        fns = set(nm for nm, _, _ in called)
        for nm in fns:
            r.features.append('fn=' + nm.split('.')[0])
        custom = set(base_of(m) for m in pool) - {'linear', 2, 'e'}
        r.features.append('session-dists=%d' % len(pool))
        r.features.append('session-custom-bases=%s' % (len(custom) if len(custom) < 6 else '6+'))
        r.nontrivial = len(pool) >= 3 and len(fns) >= 6
        r.detail = {'steps': log}
        return r


PROP = C10()
