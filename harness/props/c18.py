"""
C18 — Information profiles and partitions account for all of the information.
"""
import itertools
import math
from fractions import Fraction

import core
import gen
import symtrace
from canon import f2bits, bits2f
from driver import unq
from env import import_dit


class C18(object):
    id = 'C18'
    rule = ("joint linear distributions of 2..4 variables (zeros, named or unnamed): ShannonPartition atoms (symbolic "
            "coefficient vectors from the real code vs the model, and numeric values), queries partition[(rvs, crvs)] "
            "for random group lists and conditioning sets (all of them for n <= 3 in the thorough tier), "
            "ExtropyPartition (atoms sum to the joint extropy, queries = alternating sums of conditional extropies), "
            "ComplexityProfile (every scale; scale 1 = H; sum = sum of marginal entropies), ConnectedInformations "
            "(non-negative, sum from order 2 = total correlation), both entropy triangles (non-negative, sum to one; both "
            "points against their definitions, H_U = sum of log2 of the alphabet sizes; single distribution or a list), "
            "ConnectedDualInformations (kind `dual`, the same chain of marginal maximum-entropy distributions measured by the "
            "dual total correlation: orders 1..n, order 1 = 0, sum from order 2 = the dual total correlation). "
            "Distributions also come with a declared sample space (SampleSpace / list of members / Cartesian product of "
            "larger alphabets) or after pruned_samplespace / expanded_samplespace, and from a weakly dependent family "
            "(product of marginals mixed with a small perturbation, optionally one variable through a Z-channel: atoms of "
            "1e-5..1e-2). A partition object may be looked at (str, repr with and without ditParams['repr.print'], "
            "to_string(digits=0..6), get_atoms) before or after it is read; every atom and query is then evaluated "
            "again on the same object. Sessions (third stream, kinds `connected` / `dual` with `before`): one or two "
            "connected / connected dual profiles of other tables of the same number of variables are taken first in the "
            "same process (the case's positive weights in the same order on another support, the same table again, or an "
            "unrelated one; also xor-like tables with uniform or 4:3:2:1 weights) and every member is judged by the "
            "statement. Non-trivial = n >= 3 and at least 3 positive outcomes")
    tolerances = {'closed forms': 'atol 1e-9', 'connected informations (maxent optimiser inside)': '2e-3',
                  'symbolic atoms': 'exact rational coefficients',
                  'connected dual informations (sum from order 2, order 1)': 'atol 1e-9 + 2 (n + 1) (h + m (H_P + 2 log2 e)), h and m '
                                                                             'as for EntropyTriangle below (the sum telescopes to '
                                                                             'the end points of the chain: no optimiser error enters)',
                  'EntropyTriangle first two coordinates': 'atol 1e-9 + (h + m (H_P + 2 log2 e)) / H_U, h and m the entropy and '
                                                           'the mass of the cells of the product of the marginals within the null '
                                                           'tolerance 1e-8 (0 for almost every case)'}
    exhaustive = {'thorough': True}

    def gen(self, rng, tier):
        n_cases = 120 if tier == 'quick' else 8000
        if tier == 'thorough':
            for n in (2, 3):
                base = gen.rand_dist_case(rng, nmin=n, nmax=n, amax=2, bases=['linear'], allow_space=False, max_support=8,
                                          allow_names=False, klasses=('tuple',))
                subsets = [list(s) for r in range(1, n + 1) for s in itertools.combinations(range(n), r)]
                for ng in (1, 2, 3):
                    for groups in itertools.product(subsets, repeat=ng):
                        for r in range(0, n + 1):
                            for crvs in itertools.combinations(range(n), r):
                                c = dict(base)
                                c.update({'kind': 'query', 'groups': [list(g) for g in groups], 'crvs': list(crvs)})
                                yield c
        for _ in range(n_cases):
            n = rng.randint(2, 4)
            c = gen.rand_dist_case(rng, nmin=n, nmax=n, amax=2 if n == 4 else 3, bases=['linear'], allow_space=False,
                                   max_support=10, klasses=('str', 'tuple'))
            if c['names']:
                c['names'] = list('XYZW')[:n]
            gen.avoid_subnull(c)
            kind = rng.choice(['atoms', 'query', 'query', 'extropy', 'profile', 'connected', 'triangle'])
            if kind == 'connected' and n == 4 and rng.random() < 0.5:
                kind = 'profile'
            c['kind'] = kind
            if kind in ('atoms', 'query', 'extropy', 'profile', 'triangle') and rng.random() < 0.25:
                self.weak_family(rng, c)
                n = c['n']
            if kind == 'connected' and rng.random() < 0.35:
                # three independent bits with a rare joint outcome (between 1e-6 and 1e-4): every connected information
                # from order 2 on is 0, and the rare outcome must survive the optimiser's cut-off at 1e-6
                qs = [Fraction(45, 1000), Fraction(45, 1000), Fraction(rng.choice([45, 30, 400]), 1000)]
                outs3 = [list(o) for o in itertools.product([0, 1], repeat=3)]
                pm3 = []
                for o in outs3:
                    p_ = Fraction(1)
                    for b_, q_ in zip(o, qs):
                        p_ *= q_ if b_ else 1 - q_
                    pm3.append(p_)
                c.update({'n': 3, 'outs': outs3, 'pmf': [str(p_) for p_ in pm3], 'alphabets': [[0, 1]] * 3, 'space': None,
                          'sparse': True, 'trim': True, 'style': 'rare-outcome', 'rare': True,
                          'names': list('XYZ') if c['names'] else None})
                n = 3
            ng = rng.randint(1, 3)
            c['groups'] = [sorted(rng.sample(range(n), rng.randint(1, min(2, n)))) for _ in range(ng)]
            c['crvs'] = sorted(rng.sample(range(n), rng.randint(0, n - 1)))
            if not c.get('rare') and rng.random() < 0.45:
                self.add_space(rng, c)
            if kind in ('atoms', 'query', 'extropy') and rng.random() < 0.6:
                # the object is looked at (rendered / listed) between its construction and the reads, or after them
                c['render'] = [rng.choice(self.LOOKS) for _ in range(rng.randint(1, 3))]
                c['render_first'] = rng.random() < 0.5
            if kind == 'triangle':
                c['aslist'] = rng.random() < 0.4
            yield c
        # ---- a second stream, after the first so that the cases above stay what they were: ConnectedDualInformations
        # (an optimiser runs for every order strictly between 1 and n: few cases, two or three variables mostly)
        for _ in range(n_cases // 8):
            n = rng.choice([2, 2, 3, 3, 3, 4])
            c = gen.rand_dist_case(rng, nmin=n, nmax=n, amax=2 if n == 4 else 3, bases=['linear'], allow_space=False,
                                   max_support=10, klasses=('str', 'tuple'))
            if c['names']:
                c['names'] = list('XYZW')[:n]
            gen.avoid_subnull(c)
            c['kind'] = 'dual'
            if rng.random() < 0.25:
                self.weak_family(rng, c)
            if rng.random() < 0.45:
                self.add_space(rng, c)
            yield c
        # ---- a third stream: sessions.  The statement holds for every distribution whatever was profiled before it in
        # the same process: a connected / connected dual profile is preceded by one or two profiles (of either class)
        # of OTHER distributions of the same number of variables -- the same positive weights, in the same order, on
        # another support (what a result remembered by the probabilities alone would confuse), the same distribution
        # again, or an unrelated one.  Every member of the session is judged by the statement.
        for _ in range(n_cases // 6):
            n = rng.choice([2, 3, 3, 3, 3, 4])
            c = gen.rand_dist_case(rng, nmin=n, nmax=n, amax=2 if n == 4 else 3, bases=['linear'], allow_space=False,
                                   max_support=8, klasses=('str', 'tuple'))
            if c['names']:
                c['names'] = list('XYZW')[:n]
            gen.avoid_subnull(c)
            c['kind'] = rng.choice(['connected', 'connected', 'dual'])
            if rng.random() < 0.3:
                c.update(rng.choice(self.NAMED3))
                c['names'] = list('XYZ') if c['names'] else None
                n = 3
            if rng.random() < 0.3:
                self.add_space(rng, c)
            c['before'] = []
            for _k in range(rng.choice([1, 1, 2])):
                how = rng.choice(['same-weights', 'same-weights', 'same-weights', 'same', 'unrelated'])
                c['before'].append(self.session_member(rng, c, how))
            yield c

    # three-variable tables whose positive weights are few and simple (uniform on four outcomes, or 4:3:2:1): many
    # different supports carry the very same weights
    NAMED3 = [dict(n=3, outs=[[0, 0, 0], [0, 1, 1], [1, 0, 1], [1, 1, 0]], pmf=[w_ for w_ in ws_], alphabets=[[0, 1]] * 3,
                   space=None, spacekind='none', style='named3')
              for ws_ in (['1/4'] * 4, ['2/5', '3/10', '1/5', '1/10'])]

    @staticmethod
    def session_member(rng, c, how):
        """An earlier member of the session of case `c`: which profile class is asked for, and of which table."""
        n = c['n']
        cls = rng.choice(['connected', 'dual'])
        if how == 'same':
            return {'how': how, 'kind': cls, 'outs': [list(o) for o in c['outs']], 'pmf': list(c['pmf'])}
        if how == 'unrelated':
            o = gen.rand_dist_case(rng, nmin=n, nmax=n, amax=2, bases=['linear'], allow_space=False, max_support=6,
                                   klasses=(c['klass'],))
            gen.avoid_subnull(o)
            return {'how': how, 'kind': cls, 'outs': o['outs'], 'pmf': o['pmf']}
        # the positive weights of c in the order of its outcomes (ranks; the order dit lists them in when no sample
        # space is declared), laid on another support of the same size
        pos = sorted((list(o), p) for o, p in zip(c['outs'], c['pmf']) if Fraction(p) > 0)
        w = [p for _, p in pos]
        alphs = [sorted(set(o[i] for o in c['outs'])) for i in range(n)]
        size = math.prod(len(a) for a in alphs)
        if size <= len(w) or all(len(a) == 1 for a in alphs) or (n <= 3 and size <= 12 and rng.random() < 0.25):
            i = rng.randrange(n)
            alphs[i] = sorted(alphs[i] + [rng.choice([s for s in range(6) if s not in alphs[i]])])
        full = [list(o) for o in itertools.product(*alphs)]
        outs = sorted(rng.sample(full, len(w)))
        for _t in range(20):
            if outs != [o for o, _ in pos]:
                break
            outs = sorted(rng.sample(full, len(w)))
        return {'how': how, 'kind': cls, 'outs': outs, 'pmf': w}

    LOOKS = ['str', 'str', 'repr', 'repr-print', 'to_string:0', 'to_string:1', 'to_string:2', 'to_string:3', 'to_string:4',
             'to_string:6', 'get_atoms', 'get_atoms:raw']

    @staticmethod
    def weak_family(rng, c):
        """Weakly dependent variables: a product of strictly positive marginals mixed (weight eps) with a uniform
        distribution on a few outcomes; optionally the last variable is the first one sent through a Z-channel (which
        lists impossible outcomes with probability zero). Dependence atoms come out at 1e-5..1e-2, all exact rationals."""
        n = c['n']
        zchan = n >= 3 and rng.random() < 0.4
        m = n - 1 if zchan else n
        alphs = [[0, 1] if (n == 4 or rng.random() < 0.7) else [0, 1, 2] for _ in range(m)]
        margs = []
        for a in alphs:
            w = [rng.choice([1, 2, 3, 5]) for _ in a]
            margs.append([Fraction(x, sum(w)) for x in w])
        outs = [list(o) for o in itertools.product(*alphs)]
        eps = Fraction(1, rng.choice([20, 50, 200, 1000]))
        bump = rng.sample(range(len(outs)), rng.randint(1, min(4, len(outs) - 1)))
        pmf = []
        for k, o in enumerate(outs):
            p_ = Fraction(1)
            for i, x in enumerate(o):
                p_ *= margs[i][alphs[i].index(x)]
            pmf.append((1 - eps) * p_ + (eps / len(bump) if k in bump else 0))
        if zchan:
            flip = Fraction(rng.choice([3, 5, 7]), 10)
            outs2, pmf2 = [], []
            for o, p_ in zip(outs, pmf):
                for z in (0, 1):
                    if o[0] == alphs[0][0]:
                        pz = Fraction(1 - z)
                    else:
                        pz = flip if z == 1 else 1 - flip
                    outs2.append(o + [z])
                    pmf2.append(p_ * pz)
            outs, pmf, alphs = outs2, pmf2, alphs + [[0, 1]]
        c.update({'outs': outs, 'pmf': [str(p_) for p_ in pmf], 'alphabets': alphs, 'space': None, 'spacekind': 'none',
                  'style': 'weak-zchannel' if zchan else 'weak'})
        return c

    @staticmethod
    def add_space(rng, c):
        """The same table carried by another sample space: declared explicitly (members = the listed outcomes plus some
        others of the product; a Cartesian product of possibly larger alphabets) or obtained from dit's own
        pruned_samplespace / expanded_samplespace after construction."""
        how = rng.choice(['ss', 'list', 'cart', 'prune', 'prune', 'expand'])
        alphs = [sorted(set(o[i] for o in c['outs'])) for i in range(c['n'])]
        if how in ('ss', 'list'):
            full = [list(o) for o in itertools.product(*alphs)]
            extra = [o for o in full if o not in c['outs']]
            rng.shuffle(extra)
            members = [list(o) for o in c['outs']] + extra[:rng.choice([0, 0, 1, 2, len(extra)])]
            rng.shuffle(members)
            c['space'] = [how, members]
        elif how == 'cart':
            c['space'] = ['cart', [sorted(set(a) | set(rng.sample(range(6), rng.randint(0, 1)))) for a in alphs]]
        else:
            c['post'] = how
        c['spacekind'] = how
        return c

    @staticmethod
    def spec_alphabets(case):
        """The alphabet of each variable as the case specifies it (ranks): the symbols of the declared sample space, or
        of the listed outcomes when none is declared; of the outcomes of positive probability after pruning; the union
        over the variables after expanded_samplespace (its default)."""
        n = case['n']
        sp = case.get('space')
        if sp is None:
            members = case['outs']
            alphs = [set(o[i] for o in members) for i in range(n)]
        elif sp[0] == 'cart':
            alphs = [set(a) for a in sp[1]]
        else:
            alphs = [set(o[i] for o in sp[1]) for i in range(n)]
        if case.get('post') == 'prune':
            pos = [o for o, p in zip(case['outs'], case['pmf']) if Fraction(p) > 0]
            alphs = [set(o[i] for o in pos) for i in range(n)]
        elif case.get('post') == 'expand':
            u = set().union(*alphs)
            alphs = [set(u) for _ in range(n)]
        return alphs

    def shrink(self, case):
        return []

    # ------------------------------------------------------------------
    def run(self, case, drv):
        r = core.Result()
        r.site = 'dit.profiles.' + case['kind']
        r.features = ['kind=%s' % case['kind'], 'n=%d' % case['n'], 'names=%s' % bool(case.get('names')),
                      'space=%s' % (case.get('spacekind') or 'none'), 'pstyle=%s' % case.get('style')]
        if case['kind'] in ('atoms', 'query', 'extropy'):
            r.features.append('looked-at=%s' % (('before-reads' if case.get('render_first') else 'after-reads')
                                                if case.get('render') else 'never'))
            r.features += ['look=%s' % s for s in sorted(set(case.get('render') or []))]
        if case['kind'] in ('connected', 'dual'):
            r.features.append('session=%d-earlier-profiles' % len(case.get('before') or []))
            r.features += ['earlier=%s:%s' % (m['how'], m['kind']) for m in case.get('before') or []]
        try:
            getattr(self, 'run_' + case['kind'])(case, drv, r)
        except core.DriverError:
            raise
        except Exception as e:  # noqa
            import traceback
            r.oracle_fail = '%s raised %s: %s' % (case['kind'], type(e).__name__, str(e)[:160])
            r.detail = {'traceback': traceback.format_exc()[-700:]}
        return r

    def setup(self, case):
        d = gen.build(case)
        if case.get('post'):
            dit = import_dit()
            d = dit.pruned_samplespace(d) if case['post'] == 'prune' else dit.expanded_samplespace(d)
            if case.get('names'):
                d.set_rv_names(case['names'])
        klass = case['klass']
        rows = [(gen.from_py(o, klass), float(v)) for o, v in zip(d.outcomes, d.pmf)]
        ftab = [[o, f2bits(v)] for o, v in rows]

        def H(S):
            m = {}
            for o, p in rows:
                k = tuple(o[i] for i in sorted(S))
                m[k] = m.get(k, 0.0) + p
            return -sum(p * math.log2(p) for p in m.values() if p > 0)

        def X(S):
            m = {}
            for o, p in rows:
                k = tuple(o[i] for i in sorted(S))
                m[k] = m.get(k, 0.0) + p
            return -sum((1 - p) * math.log2(1 - p) for p in m.values() if p < 1) if S else 0.0
        return d, rows, ftab, H, X

    @staticmethod
    def coinfo(F, groups, crvs):
        Z = set(crvs)
        tot = 0.0
        for r in range(1, len(groups) + 1):
            for sub in itertools.combinations(groups, r):
                U = set().union(*map(set, sub))
                tot += (-1) ** (r + 1) * (F(U | Z) - F(Z))
        return tot

    def var(self, case, i):
        return case['names'][i] if case.get('names') else i

    # ------------------------------------------------------------------ looking at a partition object
    @staticmethod
    def look(part, steps):
        """Apply the read-only presentation calls named in `steps` to a partition object."""
        dit = import_dit()
        for step in steps:
            if step == 'str':
                out = str(part)
            elif step == 'repr':
                out = repr(part)
            elif step == 'repr-print':
                old = dit.ditParams['repr.print']
                dit.ditParams['repr.print'] = True
                try:
                    out = repr(part)
                finally:
                    dit.ditParams['repr.print'] = old
            elif step.startswith('to_string:'):
                out = part.to_string(digits=int(step.split(':')[1]))
            elif step == 'get_atoms':
                out = part.get_atoms()
            elif step == 'get_atoms:raw':
                out = part.get_atoms(string=False)
            else:
                raise ValueError(step)
            if out is None:
                raise ValueError('%s returned None' % step)

    @staticmethod
    def look_text(steps):
        names = {'str': 'str(p)', 'repr': 'repr(p)', 'repr-print': "repr(p) with ditParams['repr.print']",
                 'get_atoms': 'p.get_atoms()', 'get_atoms:raw': 'p.get_atoms(string=False)'}
        return ', '.join(names.get(s, 'p.to_string(digits=%s)' % s.split(':')[-1]) for s in steps)

    def partition_holds(self, part, F, case, what):
        """The statement evaluated on a partition object as it is now: one atom per non-empty set of variables,
        conditioned on all the others; the atoms sum to F(all); each atom is the conditional co-information of its
        variables given the rest (F = entropy or extropy of a set of variables); the case's query and its regroupings
        are the sums the definition gives. Returns None or the first clause that fails."""
        n = case['n']
        inv = {self.var(case, i): i for i in range(n)}
        atoms = part.atoms
        seen = []
        for (a_rvs, a_crvs), val in atoms.items():
            S = sorted(inv[v[0]] for v in a_rvs)
            rest = [i for i in range(n) if i not in S]
            seen.append(tuple(S))
            if sorted(inv[v] for v in a_crvs) != rest:
                return '%s atom %s is conditioned on %s' % (what, S, a_crvs)
            ref = self.coinfo(F, [[i] for i in S], rest)
            if not abs(val - ref) <= 1e-9:
                return '%s atom %s|%s = %r, the conditional co-information is %r' % (what, S, rest, val, ref)
        want = sorted(s for k in range(1, n + 1) for s in itertools.combinations(range(n), k))
        if sorted(seen) != want:
            return '%s atoms are %s, not one per non-empty set of variables' % (what, sorted(seen))
        total = sum(atoms.values())
        if not abs(total - F(range(n))) <= 1e-9:
            return '%s atoms sum to %r, the joint value is %r' % (what, total, F(range(n)))
        groups, crvs = case['groups'], case['crvs']
        union = sorted(set(i for g in groups for i in g))
        for g2 in [groups, [union], [[i] for i in union]]:
            item = (tuple(tuple(self.var(case, i) for i in g) for g in g2), tuple(self.var(case, i) for i in crvs))
            val = part[item]
            ref = self.coinfo(F, g2, crvs)
            if not abs(val - ref) <= 1e-9:
                return '%s partition[%s | %s] = %r, the definition gives %r' % (what, g2, crvs, val, ref)
        return None

    def looked_at(self, part, F, case, r, what, first):
        """`first`: the presentation calls of the case, made right after construction (the reads that follow are then
        reads of an object that has been looked at). Otherwise, made after the reads, and everything is read again."""
        steps = case.get('render')
        if not steps or bool(case.get('render_first')) != first:
            return
        if first:
            self.look(part, steps)
            return
        if r.oracle_fail:
            return
        msg = self.partition_holds(part, F, case, what)
        if msg:                      # already wrong before anything was shown
            r.oracle_fail = msg
            return
        self.look(part, steps)
        msg = self.partition_holds(part, F, case, what)
        if msg:
            r.oracle_fail = 'after %s on the same object p: %s' % (self.look_text(steps), msg)

    def tag_looked(self, case, r):
        if r.oracle_fail and case.get('render') and case.get('render_first') and not r.oracle_fail.startswith('after '):
            r.oracle_fail = 'after %s on the freshly built object p: %s' % (self.look_text(case['render']), r.oracle_fail)

    def run_atoms(self, case, drv, r):
        dit = import_dit()
        from dit.profiles import ShannonPartition
        import dit.profiles.information_partitions as ip
        d, rows, ftab, H, X = self.setup(case)
        n = case['n']
        r.nontrivial = n >= 3 and len(rows) >= 3
        sp = ShannonPartition(d)
        self.looked_at(sp, H, case, r, 'Shannon', True)
        atoms = sp.atoms
        total = sum(atoms.values())
        if abs(total - H(range(n))) > 1e-9:
            r.oracle_fail = 'atoms sum to %r, joint entropy is %r' % (total, H(range(n)))
            self.tag_looked(case, r)
            return
        inv = {self.var(case, i): i for i in range(n)}
        for (a_rvs, a_crvs), val in atoms.items():
            S = sorted(inv[v[0]] for v in a_rvs)
            rest = [i for i in range(n) if i not in S]
            ref = self.coinfo(H, [[i] for i in S], rest)
            if abs(val - ref) > 1e-9:
                r.oracle_fail = 'atom %s = %r, conditional co-information gives %r' % (S, val, ref)
                self.tag_looked(case, r)
                return
            if sorted(inv[v] for v in a_crvs) != rest:
                r.oracle_fail = 'atom %s is conditioned on %s' % (S, a_crvs)
                return
            mv = bits2f(drv.call('combf', ['atom', n, [S], [], ftab]))
            if abs(val - mv) > 1e-9:
                r.mismatch = 'atom %s: impl %r model %r' % (S, val, mv)
        if not r.oracle_fail and (case.get('render_first') or not case.get('render')):
            r.oracle_fail = self.partition_holds(sp, H, case, 'Shannon')
            self.tag_looked(case, r)
        self.looked_at(sp, H, case, r, 'Shannon', False)
        # symbolic leg: run the partition construction under the entropy oracle
        real = ip.ShannonPartition._measure
        with symtrace.traced_entropy(dit, d):
            import dit.shannon.shannon as sh
            ip.ShannonPartition._measure = staticmethod(lambda dd, node: sh.entropy(dd, list(node)) if len(node) else 0.0)
            try:
                sp2 = ShannonPartition(d)
            finally:
                ip.ShannonPartition._measure = staticmethod(real)
        for (a_rvs, a_crvs), val in sp2.atoms.items():
            if not isinstance(val, symtrace.Lin):
                continue
            S = sorted(inv[v[0]] for v in a_rvs)
            mo = drv.call('comb', ['atom', n, [S], []])[0]
            want = sorted([(s, unq(c)) for c, s in mo], key=lambda t: t[0])
            if val.canon() != want:
                r.mismatch = 'atom %s coefficient vector: impl %s model %s' % (S, val.canon(), want)
                break

    def run_query(self, case, drv, r):
        from dit.profiles import ShannonPartition
        d, rows, ftab, H, X = self.setup(case)
        n = case['n']
        groups, crvs = case['groups'], case['crvs']
        r.nontrivial = n >= 3 and len(groups) >= 2
        sp = ShannonPartition(d)
        self.looked_at(sp, H, case, r, 'Shannon', True)
        item = (tuple(tuple(self.var(case, i) for i in g) for g in groups), tuple(self.var(case, i) for i in crvs))
        val = sp[item]
        ref = self.coinfo(H, groups, crvs)
        if abs(val - ref) > 1e-9:
            r.oracle_fail = 'partition[%s | %s] = %r, the conditional co-information is %r' % (groups, crvs, val, ref)
        mv = bits2f(drv.call('combf', ['query', n, groups, crvs, ftab]))
        if abs(val - mv) > 1e-9:
            r.mismatch = 'query %s | %s: impl %r model %r' % (groups, crvs, val, mv)
        # further queries on the SAME object over the same variables, grouped differently, and the first one again
        union = sorted(set(i for g in groups for i in g))
        regroupings = [[union], [[i] for i in union], groups]
        for g2 in regroupings:
            if r.oracle_fail:
                break
            item2 = (tuple(tuple(self.var(case, i) for i in g) for g in g2), tuple(self.var(case, i) for i in crvs))
            v2 = sp[item2]
            ref2 = self.coinfo(H, g2, crvs)
            if abs(v2 - ref2) > 1e-9:
                r.oracle_fail = ('after the query %s | %s on the same partition object, partition[%s | %s] = %r, the '
                                 'conditional co-information is %r' % (groups, crvs, g2, crvs, v2, ref2))
        self.tag_looked(case, r)
        self.looked_at(sp, H, case, r, 'Shannon', False)
        # the model's query combination equals its co-information combination (exact)
        a = drv.call('comb', ['query', n, groups, crvs])[0]
        b = drv.call('comb', ['coinformation', 0, groups, crvs])[0]
        if a != b and not r.mismatch:
            r.mismatch = 'model: query and co-information combinations differ for %s | %s' % (groups, crvs)

    def run_extropy(self, case, drv, r):
        from dit.profiles import ExtropyPartition
        d, rows, ftab, H, X = self.setup(case)
        n = case['n']
        r.nontrivial = n >= 3
        xp = ExtropyPartition(d)
        self.looked_at(xp, X, case, r, 'Extropy', True)
        total = sum(xp.atoms.values())
        if abs(total - X(range(n))) > 1e-9:
            r.oracle_fail = 'extropy atoms sum to %r, joint extropy is %r' % (total, X(range(n)))
            self.tag_looked(case, r)
            return
        groups, crvs = case['groups'], case['crvs']
        item = (tuple(tuple(self.var(case, i) for i in g) for g in groups), tuple(self.var(case, i) for i in crvs))
        val = xp[item]
        ref = self.coinfo(X, groups, crvs)
        if abs(val - ref) > 1e-9:
            r.oracle_fail = 'extropy partition[%s | %s] = %r, alternating sum of conditional extropies %r' % (groups, crvs, val, ref)
        if not r.oracle_fail:
            # every atom: the alternating sum of conditional extropies of its variables given the rest
            r.oracle_fail = self.partition_holds(xp, X, case, 'Extropy')
        self.tag_looked(case, r)
        self.looked_at(xp, X, case, r, 'Extropy', False)

    def run_profile(self, case, drv, r):
        from dit.profiles import ComplexityProfile
        d, rows, ftab, H, X = self.setup(case)
        n = case['n']
        r.nontrivial = n >= 3
        # a sibling with the same probability vector on a different support is profiled first (a result cached
        # by probabilities alone would leak into the next call)
        import dit as _dit
        sib_outs = [tuple((x + 1) % 2 if i == 0 else x for i, x in enumerate(o)) if o[0] in (0, 1) else tuple(o)
                    for o in [gen.from_py(o, case['klass']) for o in d.outcomes]]
        sib_outs = [tuple([o[-1]] * len(o)) if k == 0 else o for k, o in enumerate(sib_outs)]
        if len(set(sib_outs)) == len(sib_outs):
            try:
                ComplexityProfile(_dit.Distribution(sib_outs, [float(v) for v in d.pmf]))
            except Exception:  # noqa
                pass
        cp = ComplexityProfile(d).profile
        if sorted(cp) != list(range(1, n + 1)):
            r.oracle_fail = 'profile scales %s' % sorted(cp)
            return
        for k in range(1, n + 1):
            ref = 0.0
            for sz in range(k, n + 1):
                for S in itertools.combinations(range(n), sz):
                    rest = [i for i in range(n) if i not in S]
                    ref += self.coinfo(H, [[i] for i in S], rest)
            if abs(cp[k] - ref) > 1e-9:
                r.oracle_fail = 'profile at scale %d = %r, sum of atoms shared by >= %d variables = %r' % (k, cp[k], k, ref)
                return
            mv = bits2f(drv.call('combf', ['profile', n, [], [k], ftab]))
            if abs(cp[k] - mv) > 1e-9:
                r.mismatch = 'profile[%d]: impl %r model %r' % (k, cp[k], mv)
        if abs(cp[1] - H(range(n))) > 1e-9:
            r.oracle_fail = 'scale 1 = %r, joint entropy %r' % (cp[1], H(range(n)))
        elif abs(sum(cp.values()) - sum(H([i]) for i in range(n))) > 1e-9:
            r.oracle_fail = 'scales sum to %r, marginal entropies sum to %r' % (sum(cp.values()), sum(H([i]) for i in range(n)))

    def session(self, case, drv, r):
        """The earlier members of the case's session (case['before']): each is profiled in this process, in order, and
        judged by the statement like any other case.  False if one of them already fails."""
        for k, m in enumerate(case.get('before') or []):
            sc = dict(case)
            sc.update({'kind': m['kind'], 'outs': m['outs'], 'pmf': m['pmf'], 'before': None, 'space': None,
                       'spacekind': 'none', 'post': None, 'rare': False,
                       'alphabets': [sorted(set(o[i] for o in m['outs'])) for i in range(case['n'])]})
            r2 = core.Result()
            getattr(self, 'judge_' + m['kind'])(sc, drv, r2)
            if r2.bad():
                what = 'member %d of the session (%s profile of %s with weights %s, the table of the case %s)' % (
                    k + 1, m['kind'], m['outs'], m['pmf'],
                    {'same': 'itself', 'same-weights': 'with its positive weights on another support',
                     'unrelated': 'replaced by an unrelated one'}[m['how']])
                if r2.oracle_fail:
                    r.oracle_fail = '%s: %s' % (what, r2.oracle_fail)
                if r2.mismatch:
                    r.mismatch = '%s: %s' % (what, r2.mismatch)
                r.detail = r2.detail
                return False
        return True

    def after_session(self, case, r):
        if case.get('before') and r.oracle_fail:
            r.oracle_fail = 'after the profiles %s in the same process: %s' % (
                ', '.join('%s(%s; %s)' % (m['kind'], m['outs'], ' '.join(m['pmf'])) for m in case['before']), r.oracle_fail)

    def run_connected(self, case, drv, r):
        if self.session(case, drv, r):
            self.judge_connected(case, drv, r)
            self.after_session(case, r)

    def run_dual(self, case, drv, r):
        if self.session(case, drv, r):
            self.judge_dual(case, drv, r)
            self.after_session(case, r)

    def judge_connected(self, case, drv, r):
        from dit.profiles import ConnectedInformations
        d, rows, ftab, H, X = self.setup(case)
        n = case['n']
        r.nontrivial = n >= 3
        prof = ConnectedInformations(d).profile
        tc = sum(H([i]) for i in range(n)) - H(range(n))
        if sorted(prof) != list(range(1, n + 1)):
            r.oracle_fail = 'connected informations orders %s' % sorted(prof)
        elif any(v < (-3e-4 if case.get('rare') else -2e-3) for v in prof.values()):
            r.oracle_fail = 'a connected information is negative: %s' % prof
        elif abs(sum(v for k, v in prof.items() if k >= 2) - tc) > 2e-3:
            r.oracle_fail = 'connected informations from order 2 sum to %r, total correlation is %r' % (
                sum(v for k, v in prof.items() if k >= 2), tc)

    @staticmethod
    def null_cells(rows, n, HP):
        """What the cells of the product of the marginals within the library's null tolerance (p <= 1e-8, DESIGN 11 "Null
        tolerance") can change in an entropy of that product held as a sparse distribution: the entropy they carry plus
        the effect of the missing mass on the rest (0 unless marginal probabilities multiply to <= 1e-8).  Same
        allowance as in run_triangle."""
        margs = []
        for i in range(n):
            m = {}
            for o, p in rows:
                m[o[i]] = m.get(o[i], 0.0) + p
            margs.append([v for v in m.values() if v > 0])
        dropped = 0.0
        dmass = 0.0
        for cell in itertools.product(*margs):
            q_ = math.prod(cell)
            if 0 < q_ <= 2e-8:
                dropped += -q_ * math.log2(q_)
                dmass += q_
        return dropped + dmass * (HP + 2 / math.log(2))

    def judge_dual(self, case, drv, r):
        """ConnectedDualInformations: the chain of ConnectedInformations (uniform, product of the marginals, maximum
        entropy given all k-way marginals, ..., the distribution itself) measured by the dual total correlation B.
        Order k is B(chain[k]) - B(chain[k-1]); B is 0 on the uniform distribution of a product space and on a product of
        marginals, and the last member is the distribution itself, so order 1 is 0 and the orders from 2 on sum to
        B(d) = H(all) - sum_i H(X_i | the others) whatever the optimiser returned in between.  Non-negativity is NOT
        claimed for this profile (B need not grow along the chain) and is not judged."""
        from dit.profiles import ConnectedDualInformations
        d, rows, ftab, H, X = self.setup(case)
        n = case['n']
        r.nontrivial = n >= 3 and sum(1 for _, p in rows if p > 0) >= 3
        prof = ConnectedDualInformations(d).profile
        full = list(range(n))
        B = H(full) - sum(H(full) - H([j for j in full if j != i]) for i in full)
        slack = 1e-9 + 2 * (n + 1) * self.null_cells(rows, n, sum(H([i]) for i in full))
        if sorted(prof) != list(range(1, n + 1)):
            r.oracle_fail = 'connected dual informations orders %s' % sorted(prof)
            return
        prof = {k: float(v) for k, v in prof.items()}
        s2 = sum(v for k, v in prof.items() if k >= 2)
        r.detail = {'profile': prof, 'dual total correlation': B}
        if not abs(prof[1]) <= slack:
            r.oracle_fail = ('connected dual information of order 1 is %r; the dual total correlations of the uniform '
                             'distribution and of the product of the marginals are both 0 (%s)' % (prof[1], prof))
        elif not abs(s2 - B) <= slack:
            r.oracle_fail = ('connected dual informations from order 2 sum to %r, the dual total correlation is %r (%s)'
                             % (s2, B, prof))
        mv = bits2f(drv.call('combf', ['dual_total_correlation', n, [[i] for i in full], [], ftab]))
        if not abs(s2 - mv) <= slack:
            r.mismatch = 'connected dual informations from order 2 sum to %r, model dual total correlation %r' % (s2, mv)

    def run_triangle(self, case, drv, r):
        from dit.profiles import EntropyTriangle, EntropyTriangle2
        d, rows, ftab, H, X = self.setup(case)
        n = case['n']
        r.nontrivial = n >= 3
        if H(range(n)) < 1e-9:
            return
        for cls in (EntropyTriangle, EntropyTriangle2):
            pt = cls(d).points[0]
            if any(v < -1e-9 for v in pt) or abs(sum(pt) - 1) > 1e-9:
                r.oracle_fail = '%s point %s is not a non-negative point summing to one' % (cls.__name__, pt)
                return
        R = sum(H(range(n)) - H([j for j in range(n) if j != i]) for i in range(n))
        T = sum(H([i]) for i in range(n)) - H(range(n))
        B = H(range(n)) - R
        pt = EntropyTriangle2(d).points[0]
        ref = (R / (R + B + T), T / (R + B + T), B / (R + B + T))
        if any(abs(a - b) > 1e-9 for a, b in zip(pt, ref)):
            r.oracle_fail = 'EntropyTriangle2 point %s, definition %s' % (pt, ref)
            return
        # first triangle against its definition: H_U is the entropy of the uniform distribution over the product of the
        # variables' alphabets (taken from the case's specification), H_P the sum of the marginal entropies.  The same
        # table is also presented on its pruned sample space (alphabets = symbols of the outcomes of positive
        # probability) and on its expanded one (every alphabet = the union of the alphabets).
        import dit as _dit
        HP = sum(H([i]) for i in range(n))
        alphs = self.spec_alphabets(case)
        pos = [o for o, p in rows if p > 0]
        shown = [('', d, [len(a) for a in alphs]),
                 (' on its pruned sample space', _dit.pruned_samplespace(d), [len(set(o[i] for o in pos)) for i in range(n)]),
                 (' on its expanded sample space', _dit.expanded_samplespace(d), [len(set().union(*alphs))] * n)]
        # dit forms H_P as the entropy of the product of the marginals held as a sparse distribution, which drops cells
        # within the library's null tolerance (p <= 1e-8, DESIGN 11 "Null tolerance"): the entropy those cells carry is
        # allowed for in the first two coordinates (it is 0 unless marginal probabilities multiply to <= 1e-8), together
        # with the effect of the missing mass on the entropy of the table that is left, whichever way it is normalised
        margs = []
        for i in range(n):
            m = {}
            for o, p in rows:
                m[o[i]] = m.get(o[i], 0.0) + p
            margs.append([v for v in m.values() if v > 0])
        dropped = 0.0
        dmass = 0.0
        for cell in itertools.product(*margs):
            q_ = math.prod(cell)
            if 0 < q_ <= 2e-8:
                dropped += -q_ * math.log2(q_)
                dmass += q_
        dropped += dmass * (HP + 2 / math.log(2))

        def same1(pt_, ref_, HU_):
            tol = 1e-9 + dropped / HU_
            return abs(pt_[0] - ref_[0]) <= tol and abs(pt_[1] - ref_[1]) <= tol and abs(pt_[2] - ref_[2]) <= 1e-9
        refs1 = []
        for label, dd, sizes in shown:
            if dd is not d and case.get('names'):
                dd.set_rv_names(case['names'])
            HU = sum(math.log2(k) for k in sizes)
            ref1 = ((HU - HP) / HU, (HP - R) / HU, R / HU)
            refs1.append((ref1, HU))
            pt1 = EntropyTriangle(dd).points[0]
            if any(v < -1e-9 for v in pt1) or abs(sum(pt1) - 1) > 1e-9:
                r.oracle_fail = 'EntropyTriangle point %s%s is not a non-negative point summing to one' % (
                    tuple(map(float, pt1)), label)
                return
            if not same1(pt1, ref1, HU):
                r.oracle_fail = ('EntropyTriangle point %s%s, definition %s (alphabet sizes %s, H_U = %r, sum of marginal '
                                 'entropies %r, residual entropy %r)' % (tuple(map(float, pt1)), label, ref1, sizes, HU, HP, R))
                return
            pt2 = EntropyTriangle2(dd).points[0]
            if not all(abs(a - b) <= 1e-9 for a, b in zip(pt2, ref)):
                r.oracle_fail = 'EntropyTriangle2 point %s%s, definition %s' % (tuple(map(float, pt2)), label, ref)
                return
        if case.get('aslist'):
            # several distributions at once: one point each, in order
            dists = [dd for _, dd, _ in shown]
            for cls, refs in ((EntropyTriangle, refs1), (EntropyTriangle2, [(ref, None)] * len(dists))):
                pts = cls(dists).points
                if len(pts) != len(dists):
                    r.oracle_fail = '%s of a list of %d distributions has %d points' % (cls.__name__, len(dists), len(pts))
                    return
                for k, (pt_, (ref_, HU_)) in enumerate(zip(pts, refs)):
                    if not (same1(pt_, ref_, HU_) if HU_ else all(abs(a - b) <= 1e-9 for a, b in zip(pt_, ref_))):
                        r.oracle_fail = '%s of a list: point %d (the table%s) is %s, definition %s' % (
                            cls.__name__, k, shown[k][0] or ' as given', tuple(map(float, pt_)), ref_)
                        return

PROP = C18()
