"""
C18 — Information profiles and partitions account for all of the information.
"""
import itertools
import math
from fractions import Fraction

import core
import gen
import symtrace
from canon import f2bits, bits2f
from driver import unq
from env import import_dit


class C18(object):
    id = 'C18'
    rule = ("joint linear distributions of 2..4 variables (zeros, named or unnamed): ShannonPartition atoms (symbolic "
            "coefficient vectors from the real code vs the model, and numeric values), queries partition[(rvs, crvs)] "
            "for random group lists and conditioning sets (all of them for n <= 3 in the thorough tier), "
            "ExtropyPartition (atoms sum to the joint extropy, queries = alternating sums of conditional extropies), "
            "ComplexityProfile (every scale; scale 1 = H; sum = sum of marginal entropies), ConnectedInformations "
            "(non-negative, sum from order 2 = total correlation), both entropy triangles (non-negative, sum to one). "
            "Non-trivial = n >= 3 and at least 3 positive outcomes")
    tolerances = {'closed forms': 'atol 1e-9', 'connected informations (maxent optimiser inside)': '2e-3',
                  'symbolic atoms': 'exact rational coefficients'}
    exhaustive = {'thorough': True}

    def gen(self, rng, tier):
        n_cases = 90 if tier == 'quick' else 8000
        if tier == 'thorough':
            for n in (2, 3):
                base = gen.rand_dist_case(rng, nmin=n, nmax=n, amax=2, bases=['linear'], allow_space=False, max_support=8,
                                          allow_names=False, klasses=('tuple',))
                subsets = [list(s) for r in range(1, n + 1) for s in itertools.combinations(range(n), r)]
                for ng in (1, 2, 3):
                    for groups in itertools.product(subsets, repeat=ng):
                        for r in range(0, n + 1):
                            for crvs in itertools.combinations(range(n), r):
                                c = dict(base)
                                c.update({'kind': 'query', 'groups': [list(g) for g in groups], 'crvs': list(crvs)})
                                yield c
        for _ in range(n_cases):
            n = rng.randint(2, 4)
            c = gen.rand_dist_case(rng, nmin=n, nmax=n, amax=2 if n == 4 else 3, bases=['linear'], allow_space=False,
                                   max_support=10, klasses=('str', 'tuple'))
            if c['names']:
                c['names'] = list('XYZW')[:n]
            gen.avoid_subnull(c)
            kind = rng.choice(['atoms', 'query', 'query', 'extropy', 'profile', 'connected', 'triangle'])
            if kind == 'connected' and n == 4 and rng.random() < 0.5:
                kind = 'profile'
            c['kind'] = kind
            if kind == 'connected' and rng.random() < 0.35:
                # three independent bits with a rare joint outcome (between 1e-6 and 1e-4): every connected information
                # from order 2 on is 0, and the rare outcome must survive the optimiser's cut-off at 1e-6
                qs = [Fraction(45, 1000), Fraction(45, 1000), Fraction(rng.choice([45, 30, 400]), 1000)]
                outs3 = [list(o) for o in itertools.product([0, 1], repeat=3)]
                pm3 = []
                for o in outs3:
                    p_ = Fraction(1)
                    for b_, q_ in zip(o, qs):
                        p_ *= q_ if b_ else 1 - q_
                    pm3.append(p_)
                c.update({'n': 3, 'outs': outs3, 'pmf': [str(p_) for p_ in pm3], 'alphabets': [[0, 1]] * 3, 'space': None,
                          'sparse': True, 'trim': True, 'style': 'rare-outcome', 'rare': True,
                          'names': list('XYZ') if c['names'] else None})
                n = 3
            ng = rng.randint(1, 3)
            c['groups'] = [sorted(rng.sample(range(n), rng.randint(1, min(2, n)))) for _ in range(ng)]
            c['crvs'] = sorted(rng.sample(range(n), rng.randint(0, n - 1)))
            yield c

    def shrink(self, case):
        return []

    # ------------------------------------------------------------------
    def run(self, case, drv):
        r = core.Result()
        r.site = 'dit.profiles.' + case['kind']
        r.features = ['kind=%s' % case['kind'], 'n=%d' % case['n'], 'names=%s' % bool(case.get('names'))]
        try:
            getattr(self, 'run_' + case['kind'])(case, drv, r)
        except core.DriverError:
            raise
        except Exception as e:  # noqa
            import traceback
            r.oracle_fail = '%s raised %s: %s' % (case['kind'], type(e).__name__, str(e)[:160])
            r.detail = {'traceback': traceback.format_exc()[-700:]}
        return r

    def setup(self, case):
        d = gen.build(case)
        klass = case['klass']
        rows = [(gen.from_py(o, klass), float(v)) for o, v in zip(d.outcomes, d.pmf)]
        ftab = [[o, f2bits(v)] for o, v in rows]

        def H(S):
            m = {}
            for o, p in rows:
                k = tuple(o[i] for i in sorted(S))
                m[k] = m.get(k, 0.0) + p
            return -sum(p * math.log2(p) for p in m.values() if p > 0)

        def X(S):
            m = {}
            for o, p in rows:
                k = tuple(o[i] for i in sorted(S))
                m[k] = m.get(k, 0.0) + p
            return -sum((1 - p) * math.log2(1 - p) for p in m.values() if p < 1) if S else 0.0
        return d, rows, ftab, H, X

    @staticmethod
    def coinfo(F, groups, crvs):
        Z = set(crvs)
        tot = 0.0
        for r in range(1, len(groups) + 1):
            for sub in itertools.combinations(groups, r):
                U = set().union(*map(set, sub))
                tot += (-1) ** (r + 1) * (F(U | Z) - F(Z))
        return tot

    def var(self, case, i):
        return case['names'][i] if case.get('names') else i

    def run_atoms(self, case, drv, r):
        dit = import_dit()
        from dit.profiles import ShannonPartition
        import dit.profiles.information_partitions as ip
        d, rows, ftab, H, X = self.setup(case)
        n = case['n']
        r.nontrivial = n >= 3 and len(rows) >= 3
        sp = ShannonPartition(d)
        atoms = sp.atoms
        total = sum(atoms.values())
        if abs(total - H(range(n))) > 1e-9:
            r.oracle_fail = 'atoms sum to %r, joint entropy is %r' % (total, H(range(n)))
            return
        inv = {self.var(case, i): i for i in range(n)}
        for (a_rvs, a_crvs), val in atoms.items():
            S = sorted(inv[v[0]] for v in a_rvs)
            rest = [i for i in range(n) if i not in S]
            ref = self.coinfo(H, [[i] for i in S], rest)
            if abs(val - ref) > 1e-9:
                r.oracle_fail = 'atom %s = %r, conditional co-information gives %r' % (S, val, ref)
                return
            if sorted(inv[v] for v in a_crvs) != rest:
                r.oracle_fail = 'atom %s is conditioned on %s' % (S, a_crvs)
                return
            mv = bits2f(drv.call('combf', ['atom', n, [S], [], ftab]))
            if abs(val - mv) > 1e-9:
                r.mismatch = 'atom %s: impl %r model %r' % (S, val, mv)
        # symbolic leg: run the partition construction under the entropy oracle
        real = ip.ShannonPartition._measure
        with symtrace.traced_entropy(dit, d):
            import dit.shannon.shannon as sh
            ip.ShannonPartition._measure = staticmethod(lambda dd, node: sh.entropy(dd, list(node)) if len(node) else 0.0)
            try:
                sp2 = ShannonPartition(d)
            finally:
                ip.ShannonPartition._measure = staticmethod(real)
        for (a_rvs, a_crvs), val in sp2.atoms.items():
            if not isinstance(val, symtrace.Lin):
                continue
            S = sorted(inv[v[0]] for v in a_rvs)
            mo = drv.call('comb', ['atom', n, [S], []])[0]
            want = sorted([(s, unq(c)) for c, s in mo], key=lambda t: t[0])
            if val.canon() != want:
                r.mismatch = 'atom %s coefficient vector: impl %s model %s' % (S, val.canon(), want)
                break

    def run_query(self, case, drv, r):
        from dit.profiles import ShannonPartition
        d, rows, ftab, H, X = self.setup(case)
        n = case['n']
        groups, crvs = case['groups'], case['crvs']
        r.nontrivial = n >= 3 and len(groups) >= 2
        sp = ShannonPartition(d)
        item = (tuple(tuple(self.var(case, i) for i in g) for g in groups), tuple(self.var(case, i) for i in crvs))
        val = sp[item]
        ref = self.coinfo(H, groups, crvs)
        if abs(val - ref) > 1e-9:
            r.oracle_fail = 'partition[%s | %s] = %r, the conditional co-information is %r' % (groups, crvs, val, ref)
        mv = bits2f(drv.call('combf', ['query', n, groups, crvs, ftab]))
        if abs(val - mv) > 1e-9:
            r.mismatch = 'query %s | %s: impl %r model %r' % (groups, crvs, val, mv)
        # further queries on the SAME object over the same variables, grouped differently, and the first one again
        union = sorted(set(i for g in groups for i in g))
        regroupings = [[union], [[i] for i in union], groups]
        for g2 in regroupings:
            if r.oracle_fail:
                break
            item2 = (tuple(tuple(self.var(case, i) for i in g) for g in g2), tuple(self.var(case, i) for i in crvs))
            v2 = sp[item2]
            ref2 = self.coinfo(H, g2, crvs)
            if abs(v2 - ref2) > 1e-9:
                r.oracle_fail = ('after the query %s | %s on the same partition object, partition[%s | %s] = %r, the '
                                 'conditional co-information is %r' % (groups, crvs, g2, crvs, v2, ref2))
        # the model's query combination equals its co-information combination (exact)
        a = drv.call('comb', ['query', n, groups, crvs])[0]
        b = drv.call('comb', ['coinformation', 0, groups, crvs])[0]
        if a != b and not r.mismatch:
            r.mismatch = 'model: query and co-information combinations differ for %s | %s' % (groups, crvs)

    def run_extropy(self, case, drv, r):
        from dit.profiles import ExtropyPartition
        d, rows, ftab, H, X = self.setup(case)
        n = case['n']
        r.nontrivial = n >= 3
        xp = ExtropyPartition(d)
        total = sum(xp.atoms.values())
        if abs(total - X(range(n))) > 1e-9:
            r.oracle_fail = 'extropy atoms sum to %r, joint extropy is %r' % (total, X(range(n)))
            return
        groups, crvs = case['groups'], case['crvs']
        item = (tuple(tuple(self.var(case, i) for i in g) for g in groups), tuple(self.var(case, i) for i in crvs))
        val = xp[item]
        ref = self.coinfo(X, groups, crvs)
        if abs(val - ref) > 1e-9:
            r.oracle_fail = 'extropy partition[%s | %s] = %r, alternating sum of conditional extropies %r' % (groups, crvs, val, ref)

    def run_profile(self, case, drv, r):
        from dit.profiles import ComplexityProfile
        d, rows, ftab, H, X = self.setup(case)
        n = case['n']
        r.nontrivial = n >= 3
        # a sibling with the same probability vector on a different support is profiled first (a result cached
        # by probabilities alone would leak into the next call)
        import dit as _dit
        sib_outs = [tuple((x + 1) % 2 if i == 0 else x for i, x in enumerate(o)) if o[0] in (0, 1) else tuple(o)
                    for o in [gen.from_py(o, case['klass']) for o in d.outcomes]]
        sib_outs = [tuple([o[-1]] * len(o)) if k == 0 else o for k, o in enumerate(sib_outs)]
        if len(set(sib_outs)) == len(sib_outs):
            try:
                ComplexityProfile(_dit.Distribution(sib_outs, [float(v) for v in d.pmf]))
            except Exception:  # noqa
                pass
        cp = ComplexityProfile(d).profile
        if sorted(cp) != list(range(1, n + 1)):
            r.oracle_fail = 'profile scales %s' % sorted(cp)
            return
        for k in range(1, n + 1):
            ref = 0.0
            for sz in range(k, n + 1):
                for S in itertools.combinations(range(n), sz):
                    rest = [i for i in range(n) if i not in S]
                    ref += self.coinfo(H, [[i] for i in S], rest)
            if abs(cp[k] - ref) > 1e-9:
                r.oracle_fail = 'profile at scale %d = %r, sum of atoms shared by >= %d variables = %r' % (k, cp[k], k, ref)
                return
            mv = bits2f(drv.call('combf', ['profile', n, [], [k], ftab]))
            if abs(cp[k] - mv) > 1e-9:
                r.mismatch = 'profile[%d]: impl %r model %r' % (k, cp[k], mv)
        if abs(cp[1] - H(range(n))) > 1e-9:
            r.oracle_fail = 'scale 1 = %r, joint entropy %r' % (cp[1], H(range(n)))
        elif abs(sum(cp.values()) - sum(H([i]) for i in range(n))) > 1e-9:
            r.oracle_fail = 'scales sum to %r, marginal entropies sum to %r' % (sum(cp.values()), sum(H([i]) for i in range(n)))

    def run_connected(self, case, drv, r):
        from dit.profiles import ConnectedInformations
        d, rows, ftab, H, X = self.setup(case)
        n = case['n']
        r.nontrivial = n >= 3
        prof = ConnectedInformations(d).profile
        tc = sum(H([i]) for i in range(n)) - H(range(n))
        if sorted(prof) != list(range(1, n + 1)):
            r.oracle_fail = 'connected informations orders %s' % sorted(prof)
        elif any(v < (-3e-4 if case.get('rare') else -2e-3) for v in prof.values()):
            r.oracle_fail = 'a connected information is negative: %s' % prof
        elif abs(sum(v for k, v in prof.items() if k >= 2) - tc) > 2e-3:
            r.oracle_fail = 'connected informations from order 2 sum to %r, total correlation is %r' % (
                sum(v for k, v in prof.items() if k >= 2), tc)

    def run_triangle(self, case, drv, r):
        from dit.profiles import EntropyTriangle, EntropyTriangle2
        d, rows, ftab, H, X = self.setup(case)
        n = case['n']
        r.nontrivial = n >= 3
        if H(range(n)) < 1e-9:
            return
        for cls in (EntropyTriangle, EntropyTriangle2):
            pt = cls(d).points[0]
            if any(v < -1e-9 for v in pt) or abs(sum(pt) - 1) > 1e-9:
                r.oracle_fail = '%s point %s is not a non-negative point summing to one' % (cls.__name__, pt)
                return
        R = sum(H(range(n)) - H([j for j in range(n) if j != i]) for i in range(n))
        T = sum(H([i]) for i in range(n)) - H(range(n))
        B = H(range(n)) - R
        pt = EntropyTriangle2(d).points[0]
        ref = (R / (R + B + T), T / (R + B + T), B / (R + B + T))
        if any(abs(a - b) > 1e-9 for a, b in zip(pt, ref)):
            r.oracle_fail = 'EntropyTriangle2 point %s, definition %s' % (pt, ref)


PROP = C18()
