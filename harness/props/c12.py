"""
C12 — Sampling is exact inverse-CDF selection in stored outcome order.

Correspondence: the real `rand`/`sample` against the Lean scan instantiated at `Float`
(IEEE double addition, the same operation CPython performs), compared index by index,
exactly.  Oracle: a direct reading of the statement on the real code.
"""
import math

import numpy as np

import core
from canon import f2bits
from env import import_dit

BASES = ['linear', 2, 'e', 10, 3.5, 0.5]


class C12(object):
    id = 'C12'
    rule = ("pmfs of 1..10 stored outcomes (dyadic, tenths, random, with leading/trailing/interior stored zeros, "
            "float sum below 1), bases linear/2/e/10/3.5/0.5, scalar and joint; for each pmf the random numbers are "
            "every float partial sum F_i, its two float neighbours, 0, the largest float below 1 and interior points; "
            "a case is non-trivial when it has >= 2 positive entries and at least one boundary u")
    tolerances = {'indices': 'exact'}
    exhaustive = {}
    modelled = ("IEEE-754 double addition is shared by CPython and the Lean runtime (trusted); theorems are over an "
                "arbitrary linearly ordered field, not over floats")

    # ------------------------------------------------------------------ generation
    def gen(self, rng, tier):
        n_cases = 150 if tier == 'quick' else 30000
        for _ in range(n_cases):
            yield self.gen_one(rng)

    def gen_one(self, rng):
        kind = rng.choice(['dyadic', 'tenths', 'random', 'random', 'thirds'])
        n = rng.randint(1, 10)
        if kind == 'dyadic':
            k = rng.choice([2, 3, 4, 6])
            w = [rng.randint(0, 4) for _ in range(n)]
            if sum(w) == 0:
                w[rng.randrange(n)] = 1
            tot = sum(w)
            # scale to a power of two total where possible, else plain normalisation
            pmf = [x / tot for x in w]
        elif kind == 'tenths':
            n = rng.choice([2, 5, 10])
            pmf = [1.0 / n] * n if n != 10 else [0.1] * 10
        elif kind == 'thirds':
            n = rng.choice([3, 6, 7])
            pmf = [1.0 / n] * n
        else:
            w = [rng.random() ** rng.choice([1, 3]) for _ in range(n)]
            tot = sum(w)
            pmf = [x / tot for x in w]
        # stored zeros
        zs = rng.choice(['none', 'lead', 'trail', 'inner', 'many'])
        if zs == 'lead':
            pmf = [0.0] + pmf
        elif zs == 'trail':
            pmf = pmf + [0.0]
        elif zs == 'inner' and len(pmf) >= 2:
            i = rng.randrange(1, len(pmf))
            pmf = pmf[:i] + [0.0] + pmf[i:]
        elif zs == 'many':
            out = []
            for p in pmf:
                if rng.random() < 0.4:
                    out.append(0.0)
                out.append(p)
            pmf = out + [0.0]
        base = rng.choice(BASES)
        joint = rng.random() < 0.4
        # random numbers
        us = [0.0, float(np.nextafter(1.0, 0.0))]
        tot = 0.0
        for p in pmf:
            tot += p
            for u in (tot, float(np.nextafter(tot, 0.0)), float(np.nextafter(tot, 2.0))):
                if 0.0 <= u < 1.0:
                    us.append(u)
        for _ in range(4):
            us.append(rng.random())
        rng.shuffle(us)
        return {'pmf': [f2bits(p) for p in pmf], 'base': base, 'joint': joint, 'us': [f2bits(u) for u in us],
                'seed': rng.randrange(2 ** 31), 'zeros': zs, 'kind': kind, 'big': rng.choice([130, 130, 257, 1000])}

    @staticmethod
    def near_boundary(cums, us, eps=1e-9):
        """Is some uniform within eps of a cumulative boundary (a base conversion may then move it across)?"""
        return any(abs(u - c) <= eps for u in us for c in cums)

    def shrink(self, case):
        us = case['us']
        if len(us) > 1:
            for i in range(len(us)):
                c = dict(case)
                c['us'] = us[:i] + us[i + 1:]
                yield c
        if case['base'] != 'linear':
            c = dict(case)
            c['base'] = 'linear'
            yield c
        if case['joint']:
            c = dict(case)
            c['joint'] = False
            yield c

    # ------------------------------------------------------------------ execution
    def build(self, case):
        dit = import_dit()
        from canon import bits2f
        pmf = [bits2f(b) for b in case['pmf']]
        n = len(pmf)
        if case['joint']:
            outcomes = [(i // 4, i % 4) for i in range(n)]
            d = dit.Distribution(outcomes, pmf, sparse=True, trim=False, validate=False)
        else:
            d = dit.ScalarDistribution(list(range(n)), pmf, sparse=True, trim=False, validate=False)
        if case['base'] != 'linear':
            d.set_base(case['base'])
        return d, pmf

    def run(self, case, drv):
        from canon import bits2f
        r = core.Result()
        r.site = 'Distribution.rand'
        d, pmf_in = self.build(case)
        us = [bits2f(b) for b in case['us']]
        outcomes = list(d.outcomes)
        index = {o: i for i, o in enumerate(outcomes)}
        # the linear pmf the sampler works from
        if d.is_log():
            lin = [float(x) for x in d.ops.exp(d.pmf)]
        else:
            lin = [float(x) for x in d.pmf]
        r.features = ['base=%s' % case['base'], 'zeros=%s' % case['zeros'], 'kind=%s' % case['kind'],
                      'joint=%s' % case['joint'], 'n=%d' % len(lin)]
        r.nontrivial = sum(1 for p in lin if p > 0) >= 2 and len(us) > 2

        impl_single = []
        err = None
        try:
            for u in us:
                o = d.rand(rand=u)
                impl_single.append(index.get(o, 'not-an-outcome:%r' % (o,)))
            st0 = repr(d.prng.get_state())
            many = d.rand(size=len(us), rand=np.array(us))
            impl_many = [index.get(o, 'not-an-outcome:%r' % (o,)) for o in many]
            # large batches (a vectorised path may take over): the same numbers tiled to 130, 257 or 1000 draws
            reps = -(-case.get('big', 130) // len(us))
            big = (us * reps)
            impl_big = [index.get(o, 'not-an-outcome:%r' % (o,)) for o in d.rand(size=len(big), rand=np.array(big))]
            ext = np.random.RandomState(case['seed'])
            ext0 = repr(ext.get_state())
            d.rand(size=len(us), rand=np.array(us), prng=ext)
            explicit_touches_prng = (repr(d.prng.get_state()) != st0) or (repr(ext.get_state()) != ext0)
        except Exception as e:  # noqa
            err = '%s: %s' % (type(e).__name__, e)
        if err is not None:
            r.oracle_fail = 'rand raised %s for explicit random numbers in [0,1)' % err
            r.detail = {'pmf': lin, 'us': us}
            return r

        # ---- model (Float scan + fallback)
        scan, scanf = drv.call('samplef', [[f2bits(p) for p in lin], [f2bits(u) for u in us]])

        # ---- oracle: direct reading of the statement in float arithmetic
        cums = []
        tot = 0.0
        for p in lin:
            tot += p
            cums.append(tot)
        if explicit_touches_prng:
            r.oracle_fail = 'drawing with explicit random numbers advanced a generator (the draws of a later call are no longer the generator\'s next uniforms)'
        for which, got, uu in (('single', impl_single, us), ('size', impl_many, us), ('size>=130', impl_big, big)):
            if r.oracle_fail:
                break
            for u, i in zip(uu, got):
                if not isinstance(i, int):
                    r.oracle_fail = 'rand(%s) returned %s' % (which, i)
                elif not (lin[i] > 0):
                    r.oracle_fail = 'rand(%s) returned stored outcome #%d of probability %r for u=%r' % (which, i, lin[i], u)
                elif u < cums[-1]:
                    lo = cums[i - 1] if i > 0 else 0.0
                    if not (lo <= u < cums[i]):
                        r.oracle_fail = ('rand(%s) returned outcome #%d for u=%r, but its cumulative interval is [%r, %r)'
                                         % (which, i, u, lo, cums[i]))
                else:
                    lastpos = max(j for j, p in enumerate(lin) if p > 0)
                    if i != lastpos:
                        r.oracle_fail = ('u=%r is at or above the float total %r; expected the last positive outcome #%d, got #%d'
                                         % (u, cums[-1], lastpos, i))
                if r.oracle_fail:
                    break
            if r.oracle_fail:
                break
        # exponentiation of log pmfs: the linear pmf used must be the specified one
        if not r.oracle_fail:
            for a, b in zip(lin, pmf_in):
                if not (abs(a - b) <= 1e-12 + 1e-9 * abs(b)):
                    r.oracle_fail = 'linear pmf used for sampling %r differs from the specified %r' % (lin, pmf_in)
                    break
        # generator-driven draws
        if not r.oracle_fail:
            seed = case['seed']
            k = 6
            a = d.rand(size=k, prng=np.random.RandomState(seed))
            b = d.rand(size=k, prng=np.random.RandomState(seed))
            usg = np.random.RandomState(seed).rand(k)
            c = d.rand(size=k, rand=usg)
            if list(a) != list(b):
                r.oracle_fail = 'equal generator states gave different samples'
            elif list(a) != list(c):
                r.oracle_fail = 'generator draws differ from the scan of its next uniforms'
            else:
                d.prng.seed(seed)
                cp = d.copy()
                other = [b_ for b_ in BASES if b_ != case['base']][seed % (len(BASES) - 1)]
                cpb = d.copy(base=other)
                d.rand(rand=0.25)                       # explicit numbers in between do not consume the generator
                x = d.rand(size=k)
                y = cp.rand(size=k)
                z = cpb.rand(size=k)
                if list(x) != list(y):
                    r.oracle_fail = 'copy does not reproduce the future draws of its source'
                elif list(x) != list(z) and not self.near_boundary(cums, np.random.RandomState(seed).rand(k)):
                    r.oracle_fail = 'copy(base=%r) does not reproduce the future draws of its source' % (other,)
        # ---- correspondence
        if impl_single != scanf:
            r.mismatch = 'rand(rand=u) indices %s != model %s' % (impl_single, scanf)
        elif impl_many != scanf:
            r.mismatch = 'rand(size=n, rand=us) indices %s != model %s' % (impl_many, scanf)
        elif impl_big != scanf * reps:
            r.mismatch = 'rand(size=%d, rand=us tiled) differs from the model scan' % len(big)
        r.detail = {'pmf_linear': lin, 'us': us, 'impl_single': impl_single, 'impl_many': impl_many,
                    'model_scan': scan, 'model_with_fallback': scanf}
        return r


PROP = C12()
