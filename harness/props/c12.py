"""
C12 — Sampling is exact inverse-CDF selection in stored outcome order.

Correspondence: the real `rand`/`sample` against the Lean scan instantiated at `Float`
(IEEE double addition, the same operation CPython performs), compared index by index,
exactly.  Oracle: a direct reading of the statement on the real code.

The statement speaks of the distribution's probabilities at the time of the draw: every case may continue with
a history (`hist`) in which the object that has just been sampled is edited in place and sampled again; the
expected probabilities of each round come from a plain table the edits are defined on (`run_history`).
"""
import math

import numpy as np

import core
from canon import f2bits
from env import import_dit

BASES = ['linear', 2, 'e', 10, 3.5, 0.5]


class _Uniforms(object):
    """A random number generator in the documented sense (an object with a `rand` method) that is not a RandomState:
    it hands out the uniforms of RandomState(seed), with or without a count, and records them in order."""

    def __init__(self, seed):
        self._rs = np.random.RandomState(seed % (2 ** 32))
        self.given = []

    def rand(self, *shape):
        x = self._rs.rand(*shape)
        self.given.extend(float(v) for v in np.atleast_1d(x).ravel())
        return x


class C12(object):
    id = 'C12'
    rule = ("pmfs of 1..10 stored outcomes (dyadic, tenths, random, with leading/trailing/interior stored zeros, "
            "float sum below 1), bases linear/2/e/10/3.5/0.5, scalar and joint; for each pmf the random numbers are "
            "every float partial sum F_i, its two float neighbours, 0, the largest float below 1 and interior points; "
            "a case is non-trivial when it has >= 2 positive entries and at least one boundary u; "
            "then 0-3 rounds of edits of the same, already sampled object (d[o]=v on stored and on new members, "
            "moves/swaps of probability, del d[o], normalize(), writes into d.pmf, set_base), each round followed by "
            "the whole check (explicit single/size/size>=130, seeded and own generator) with the random numbers "
            "recomputed from the partial sums of the edited table; every case also draws from a generator object that "
            "is not a RandomState (any object with rand(): judged on the uniforms it handed out) and is offered "
            "generators without rand() (numpy's Generator, a bare object: a rejection is accepted, a returned sample is "
            "judged, the object's own generator still decides the next draws); every case and every round ends with a "
            "program of 3-9 generator-driven calls in arbitrary order on the one object (single and batched draws on its "
            "own and on an outside generator, explicit numbers, re-seeding, saving/restoring the state, copies), judged "
            "on the uniforms a reference generator in the same state hands out")
    tolerances = {'indices': 'exact'}
    exhaustive = {}
    modelled = ("IEEE-754 double addition is shared by CPython and the Lean runtime (trusted); theorems are over an "
                "arbitrary linearly ordered field, not over floats")

    # ------------------------------------------------------------------ generation
    def gen(self, rng, tier):
        n_cases = 150 if tier == 'quick' else 30000
        for _ in range(n_cases):
            yield self.gen_one(rng)

    def gen_one(self, rng):
        kind = rng.choice(['dyadic', 'tenths', 'random', 'random', 'thirds'])
        n = rng.randint(1, 10)
        if kind == 'dyadic':
            k = rng.choice([2, 3, 4, 6])
            w = [rng.randint(0, 4) for _ in range(n)]
            if sum(w) == 0:
                w[rng.randrange(n)] = 1
            tot = sum(w)
            # scale to a power of two total where possible, else plain normalisation
            pmf = [x / tot for x in w]
        elif kind == 'tenths':
            n = rng.choice([2, 5, 10])
            pmf = [1.0 / n] * n if n != 10 else [0.1] * 10
        elif kind == 'thirds':
            n = rng.choice([3, 6, 7])
            pmf = [1.0 / n] * n
        else:
            w = [rng.random() ** rng.choice([1, 3]) for _ in range(n)]
            tot = sum(w)
            pmf = [x / tot for x in w]
        # stored zeros
        zs = rng.choice(['none', 'lead', 'trail', 'inner', 'many'])
        if zs == 'lead':
            pmf = [0.0] + pmf
        elif zs == 'trail':
            pmf = pmf + [0.0]
        elif zs == 'inner' and len(pmf) >= 2:
            i = rng.randrange(1, len(pmf))
            pmf = pmf[:i] + [0.0] + pmf[i:]
        elif zs == 'many':
            out = []
            for p in pmf:
                if rng.random() < 0.4:
                    out.append(0.0)
                out.append(p)
            pmf = out + [0.0]
        base = rng.choice(BASES)
        joint = rng.random() < 0.4
        # random numbers
        us = [0.0, float(np.nextafter(1.0, 0.0))]
        tot = 0.0
        for p in pmf:
            tot += p
            for u in (tot, float(np.nextafter(tot, 0.0)), float(np.nextafter(tot, 2.0))):
                if 0.0 <= u < 1.0:
                    us.append(u)
        for _ in range(4):
            us.append(rng.random())
        rng.shuffle(us)
        case = {'pmf': [f2bits(p) for p in pmf], 'base': base, 'joint': joint, 'us': [f2bits(u) for u in us],
                'seed': rng.randrange(2 ** 31), 'zeros': zs, 'kind': kind, 'big': rng.choice([130, 130, 257, 1000])}
        case['hist'] = self.gen_hist(rng, len(pmf), joint)
        case['prog'] = self.gen_prog(rng)
        return case

    # A program of generator-driven calls on ONE distribution object (no explicit numbers unless stated), in any order:
    #   ['one']            d.rand()                    ['many', n]      d.rand(size=n)
    #   ['ext_one']        d.rand(prng=g)              ['ext_many', n]  d.rand(size=n, prng=g)   (g: one outside generator)
    #   ['explicit', u]    d.rand(rand=u)              (consumes nothing)
    #   ['seed', s]        d.prng.seed(s)              ['save'] / ['restore']   get_state / set_state of d.prng
    #   ['copy', sizes]    c = d.copy(); c.rand(size) for each size (None = single): the source's future draws
    PROG_KINDS = ['one', 'one', 'one', 'many', 'many', 'seed', 'save', 'restore', 'copy', 'explicit', 'ext_one',
                  'ext_many']

    def gen_prog(self, rng):
        ops = []
        for _ in range(rng.randint(3, 9)):
            k = rng.choice(self.PROG_KINDS)
            if k in ('many', 'ext_many'):
                ops.append([k, rng.choice([1, 2, 3, 5, 40])])
            elif k == 'seed':
                ops.append([k, rng.randrange(2 ** 31)])
            elif k == 'copy':
                ops.append([k, [rng.choice([None, None, 1, 3]) for _ in range(rng.randint(1, 4))]])
            elif k == 'explicit':
                ops.append([k, f2bits(rng.random())])
            else:
                ops.append([k])
        return {'seed': rng.randrange(2 ** 31), 'ops': ops}

    # A history: the SAME object, already sampled, is changed (rounds of edits) and sampled again after every round.
    # Operations name stored outcomes by their position in the initial table and are interpreted on a plain
    # probability table kept by `run` (never on dit's internals):
    #   ['set', i, w]        d[o_i] = w (a weight; the round is normalised at its end)
    #   ['move', i, j, f]    a fraction f of the probability of o_i goes to o_j (two assignments; f = 1 empties o_i)
    #   ['swap', i, j]       o_i and o_j exchange their probabilities (two assignments)
    #   ['del', i]           del d[o_i]
    #   ['normalize']        d.normalize()
    #   ['pmfwrite', ws]     d.pmf[:] = the weights ws (cut to the stored length, normalised) in the object's base
    #   ['setbase', b]       d.set_base(b)
    EDIT_KINDS = ['move', 'move', 'swap', 'set', 'set', 'del', 'pmfwrite', 'setbase', 'new']

    def gen_hist(self, rng, n, joint):
        rounds = []
        for _ in range(rng.choice([0, 1, 1, 2, 2, 3])):
            ops = []
            for _ in range(rng.choice([1, 1, 2, 3])):
                k = rng.choice(self.EDIT_KINDS)
                i = rng.randrange(n)
                j = rng.randrange(n)
                if k == 'move':
                    ops.append(['move', i, j, rng.choice([1.0, 1.0, 0.5, 0.25, round(rng.random(), 3)])])
                elif k == 'swap':
                    ops.append(['swap', i, j])
                elif k == 'set':
                    ops.append(['set', i, rng.choice([0.0, 0.0, 0.125, 0.25, 0.5, 1.0, 3.0, round(rng.random(), 3)])])
                elif k == 'new':
                    # joint tables: a member of the sample space that may not be stored yet
                    top = 4 * ((n - 1) // 4 + 1) if (joint and n >= 4) else n
                    ops.append(['set', rng.randrange(top), rng.choice([0.125, 0.5, 1.0])])
                elif k == 'del':
                    ops.append(['del', i])
                    if rng.random() < 0.5:
                        ops.append(['normalize'])
                elif k == 'pmfwrite':
                    ops.append(['pmfwrite', [rng.choice([0, 0, 1, 1, 2, 3, 5]) for _ in range(24)]])
                else:
                    ops.append(['setbase', rng.choice(BASES)])
            rounds.append({'ops': ops, 'us': [f2bits(rng.random()) for _ in range(3)],
                           'seed': rng.randrange(2 ** 31)})
        return rounds

    @staticmethod
    def near_boundary(cums, us, eps=1e-9):
        """Is some uniform within eps of a cumulative boundary (a base conversion may then move it across)?"""
        return any(abs(u - c) <= eps for u in us for c in cums)

    @staticmethod
    def judge(lin, groups):
        """The statement read directly in float arithmetic: every returned stored index has positive probability and
        its cumulative interval [F(i-1), F(i)) contains u (u at or above the float total: the last positive one).
        `groups` = (label, returned indices, uniforms); returns the first violation as a message, or None."""
        cums = []
        tot = 0.0
        for p in lin:
            tot += p
            cums.append(tot)
        for which, got, uu in groups:
            for u, i in zip(uu, got):
                if not isinstance(i, int):
                    return 'rand(%s) returned %s' % (which, i)
                elif not (lin[i] > 0):
                    return 'rand(%s) returned stored outcome #%d of probability %r for u=%r' % (which, i, lin[i], u)
                elif u < cums[-1]:
                    lo = cums[i - 1] if i > 0 else 0.0
                    if not (lo <= u < cums[i]):
                        return ('rand(%s) returned outcome #%d for u=%r, but its cumulative interval is [%r, %r)'
                                % (which, i, u, lo, cums[i]))
                else:
                    lastpos = max(j for j, p in enumerate(lin) if p > 0)
                    if i != lastpos:
                        return ('u=%r is at or above the float total %r; expected the last positive outcome #%d, got #%d'
                                % (u, cums[-1], lastpos, i))
        return None

    def shrink(self, case):
        hist = case.get('hist') or []
        if hist:
            c = dict(case)
            c['hist'] = hist[:-1]
            yield c
            for ri, rd in enumerate(hist):
                for oi in range(len(rd['ops'])):
                    if len(rd['ops']) > 1:
                        c = dict(case)
                        c['hist'] = hist[:ri] + [dict(rd, ops=rd['ops'][:oi] + rd['ops'][oi + 1:])] + hist[ri + 1:]
                        yield c
        prog = case.get('prog')
        if prog and prog['ops']:
            c = dict(case)
            c['prog'] = None
            yield c
            for i in range(len(prog['ops'])):
                c = dict(case)
                c['prog'] = dict(prog, ops=prog['ops'][:i] + prog['ops'][i + 1:])
                yield c
        us = case['us']
        if len(us) > 1:
            for i in range(len(us)):
                c = dict(case)
                c['us'] = us[:i] + us[i + 1:]
                yield c
        if case['base'] != 'linear':
            c = dict(case)
            c['base'] = 'linear'
            yield c
        if case['joint']:
            c = dict(case)
            c['joint'] = False
            yield c

    # ------------------------------------------------------------------ execution
    def build(self, case):
        dit = import_dit()
        from canon import bits2f
        pmf = [bits2f(b) for b in case['pmf']]
        n = len(pmf)
        if case['joint']:
            outcomes = [(i // 4, i % 4) for i in range(n)]
            d = dit.Distribution(outcomes, pmf, sparse=True, trim=False, validate=False)
        else:
            d = dit.ScalarDistribution(list(range(n)), pmf, sparse=True, trim=False, validate=False)
        if case['base'] != 'linear':
            d.set_base(case['base'])
        return d, pmf

    def run(self, case, drv):
        from canon import bits2f
        r = core.Result()
        r.site = 'Distribution.rand'
        d, pmf_in = self.build(case)
        us = [bits2f(b) for b in case['us']]
        outcomes = list(d.outcomes)
        index = {o: i for i, o in enumerate(outcomes)}
        # the linear pmf the sampler works from
        if d.is_log():
            lin = [float(x) for x in d.ops.exp(d.pmf)]
        else:
            lin = [float(x) for x in d.pmf]
        r.features = ['base=%s' % case['base'], 'zeros=%s' % case['zeros'], 'kind=%s' % case['kind'],
                      'joint=%s' % case['joint'], 'n=%d' % len(lin)]
        r.nontrivial = sum(1 for p in lin if p > 0) >= 2 and len(us) > 2

        impl_single = []
        err = None
        try:
            for u in us:
                o = d.rand(rand=u)
                impl_single.append(index.get(o, 'not-an-outcome:%r' % (o,)))
            st0 = repr(d.prng.get_state())
            many = d.rand(size=len(us), rand=np.array(us))
            impl_many = [index.get(o, 'not-an-outcome:%r' % (o,)) for o in many]
            # large batches (a vectorised path may take over): the same numbers tiled to 130, 257 or 1000 draws
            reps = -(-case.get('big', 130) // len(us))
            big = (us * reps)
            impl_big = [index.get(o, 'not-an-outcome:%r' % (o,)) for o in d.rand(size=len(big), rand=np.array(big))]
            ext = np.random.RandomState(case['seed'])
            ext0 = repr(ext.get_state())
            d.rand(size=len(us), rand=np.array(us), prng=ext)
            explicit_touches_prng = (repr(d.prng.get_state()) != st0) or (repr(ext.get_state()) != ext0)
        except Exception as e:  # noqa
            err = '%s: %s' % (type(e).__name__, e)
        if err is not None:
            r.oracle_fail = 'rand raised %s for explicit random numbers in [0,1)' % err
            r.detail = {'pmf': lin, 'us': us}
            return r

        # ---- model (Float scan + fallback)
        scan, scanf = drv.call('samplef', [[f2bits(p) for p in lin], [f2bits(u) for u in us]])

        # ---- oracle: direct reading of the statement in float arithmetic
        cums = []
        tot = 0.0
        for p in lin:
            tot += p
            cums.append(tot)
        if explicit_touches_prng:
            r.oracle_fail = 'drawing with explicit random numbers advanced a generator (the draws of a later call are no longer the generator\'s next uniforms)'
        if not r.oracle_fail:
            r.oracle_fail = self.judge(lin, (('single', impl_single, us), ('size', impl_many, us),
                                             ('size>=130', impl_big, big)))
        # the single-draw scan of dit.math.sampling (`_sample`, the pure-Python `_sample_discrete__python` here): same
        # selection rule as the batch scan, compared index by index with the model on the same numbers
        if not r.oracle_fail:
            import dit.math.sampling as smp
            arr = np.array(lin, dtype=float)
            for u, want in zip(us, scanf):
                got = smp._sample(arr, float(u))
                if got != want:
                    if got is None or not (0 <= int(got) < len(lin)) or lin[int(got)] <= 0:
                        r.oracle_fail = ('dit.math.sampling._sample(pmf, %r) returned %r: not a stored outcome of positive '
                                         'probability (pmf %s)' % (u, got, lin))
                    else:
                        r.mismatch = 'single-draw scan: _sample(pmf, %r) = %r, model %r (pmf %s)' % (u, got, want, lin)
                    break
            r.features.append('single-draw-scan')
        # exponentiation of log pmfs: the linear pmf used must be the specified one
        if not r.oracle_fail:
            for a, b in zip(lin, pmf_in):
                if not (abs(a - b) <= 1e-12 + 1e-9 * abs(b)):
                    r.oracle_fail = 'linear pmf used for sampling %r differs from the specified %r' % (lin, pmf_in)
                    break
        # generator-driven draws
        if not r.oracle_fail:
            seed = case['seed']
            k = 6
            a = d.rand(size=k, prng=np.random.RandomState(seed))
            b = d.rand(size=k, prng=np.random.RandomState(seed))
            usg = np.random.RandomState(seed).rand(k)
            c = d.rand(size=k, rand=usg)
            if list(a) != list(b):
                r.oracle_fail = 'equal generator states gave different samples'
            elif list(a) != list(c):
                r.oracle_fail = 'generator draws differ from the scan of its next uniforms'
            else:
                d.prng.seed(seed)
                cp = d.copy()
                other = [b_ for b_ in BASES if b_ != case['base']][seed % (len(BASES) - 1)]
                cpb = d.copy(base=other)
                d.rand(rand=0.25)                       # explicit numbers in between do not consume the generator
                x = d.rand(size=k)
                y = cp.rand(size=k)
                z = cpb.rand(size=k)
                if list(x) != list(y):
                    r.oracle_fail = 'copy does not reproduce the future draws of its source'
                elif list(x) != list(z) and not self.near_boundary(cums, np.random.RandomState(seed).rand(k)):
                    r.oracle_fail = 'copy(base=%r) does not reproduce the future draws of its source' % (other,)
                else:
                    # every LATER draw too (Props/C12More `copy_draws`), and a draw advances the generator by exactly
                    # the uniforms it handed out (`randN_add`): n, then m, then one = n + m + 1 at once
                    x2, y2 = list(d.rand(size=3)) + [d.rand()], list(cp.rand(size=3)) + [cp.rand()]
                    n_, m_ = 1 + seed % 4, 1 + (seed // 4) % 3
                    g = np.random.RandomState(seed)
                    seq = list(d.rand(size=n_, prng=g)) + list(d.rand(size=m_, prng=g)) + [d.rand(prng=g)]
                    once = list(d.rand(size=n_ + m_ + 1, prng=np.random.RandomState(seed)))
                    r.features.append('generator-sequential')
                    if x2 != y2:
                        r.oracle_fail = 'copy does not reproduce the later draws of its source (second batch %s vs %s)' % (x2, y2)
                    elif seq != once:
                        r.oracle_fail = ('rand(size=%d), rand(size=%d), rand() on one generator gave %s but rand(size=%d) from the '
                                         'same state gave %s' % (n_, m_, seq, n_ + m_ + 1, once))
        # generators that are not RandomState objects
        if not r.oracle_fail:
            self.other_generators(case, d, lin, index, drv, r)
        # a program of generator-driven calls in arbitrary order on the one object
        if not r.oracle_fail and not r.mismatch:
            self.run_program(case, d, lin, index, drv, r, '')
        # ---- correspondence
        if r.mismatch:
            pass
        elif impl_single != scanf:
            r.mismatch = 'rand(rand=u) indices %s != model %s' % (impl_single, scanf)
        elif impl_many != scanf:
            r.mismatch = 'rand(size=n, rand=us) indices %s != model %s' % (impl_many, scanf)
        elif impl_big != scanf * reps:
            r.mismatch = 'rand(size=%d, rand=us tiled) differs from the model scan' % len(big)
        r.detail = {'pmf_linear': lin, 'us': us, 'impl_single': impl_single, 'impl_many': impl_many,
                    'model_scan': scan, 'model_with_fallback': scanf}
        # ---- the same object, edited after it has been sampled, and sampled again
        if not r.bad() and case.get('hist'):
            table = dict((o, p) for o, p in zip(outcomes, lin))
            self.run_history(case, d, table, r, drv)
        return r

    def other_generators(self, case, d, lin, index, drv, r):
        """`prng` is documented as any object with a `rand` method.  (1) Such an object that is not a RandomState (it
        hands out, and records, uniforms): the draws must be those its uniforms select, for size=n and for a single
        draw.  (2) An object without `rand` (numpy's newer Generator, a bare object) cannot hand out numbers in that
        way: a rejection is accepted whatever its type (the statement does not speak of it); a sample returned from
        numpy's Generator would have to be the one its next uniforms select, a sample from a bare object is from
        nowhere; and after the rejection the distribution's own generator still decides its next draws."""
        seed = case['seed']
        k = 5

        def idx(sample):
            return [index.get(o, 'not-an-outcome:%r' % (o,)) for o in sample]
        try:
            g = _Uniforms(seed)
            a = idx(d.rand(size=k, prng=g))
            g1 = _Uniforms(seed + 1)
            a1 = idx([d.rand(prng=g1)])
        except Exception as e:  # noqa
            r.oracle_fail = 'rand raised %s: %s for a generator object with a rand() method' % (type(e).__name__, e)
            return
        r.features.append('prng=object-with-rand')
        if len(a) != k or len(g.given) < k or len(g1.given) < 1:
            r.oracle_fail = ('rand(size=%d, prng=object with rand()) returned %d draws after asking the generator for %d '
                             'numbers (single draw: %d numbers)' % (k, len(a), len(g.given), len(g1.given)))
            return
        msg = self.judge(lin, (('size, prng=object with rand()', a, g.given[:k]),
                               ('single, prng=object with rand()', a1, g1.given[:1])))
        if msg:
            r.oracle_fail = msg
            return
        _, want = drv.call('samplef', [[f2bits(p) for p in lin], [f2bits(u) for u in g.given[:k] + g1.given[:1]]])
        if a + a1 != want:
            r.mismatch = 'rand(prng=object with rand()) indices %s != model %s' % (a + a1, want)
        # one generator, several successive requests: the model's `randN` on the stream the generator hands out
        # (Core/Generator.lean; Props/C12More `randN_add`): each request consumes exactly its own count of uniforms
        if not r.mismatch:
            sizes = [1 + (seed >> s_) % 4 for s_ in (0, 2, 4)]
            gs = _Uniforms(seed + 2)
            stream = [float(v) for v in np.random.RandomState((seed + 2) % (2 ** 32)).rand(sum(sizes) + 3)]
            try:
                got = [idx(d.rand(size=n_, prng=gs)) for n_ in sizes]
            except Exception as e:  # noqa
                r.oracle_fail = 'successive rand(size=n, prng=g) raised %s: %s' % (type(e).__name__, e)
                return
            want_seq, left = drv.call('randn', [[f2bits(p) for p in lin], [f2bits(u) for u in stream], sizes])
            r.features.append('generator-stream-model')
            if gs.given != stream[:len(gs.given)] or len(stream) - len(gs.given) != left:
                r.oracle_fail = ('successive rand(size=%s, prng=g) asked the generator for %d uniforms; each request is to '
                                 'consume exactly its own count (%d in all)' % (sizes, len(gs.given), sum(sizes)))
                return
            if got != want_seq:
                r.mismatch = 'successive rand(size=%s, prng=g): indices %s != model randN %s' % (sizes, got, want_seq)
        for label, bad in (('numpy.random.Generator', np.random.default_rng(seed)), ('object()', object())):
            try:
                got = d.rand(size=k, prng=bad)
            except Exception:  # noqa
                r.features.append('prng-without-rand=rejected')
            else:
                r.features.append('prng-without-rand=accepted')
                if label == 'object()':
                    r.oracle_fail = 'rand(size=%d, prng=object()) returned %r: no generator handed out numbers' % (k, got)
                    return
                msg = self.judge(lin, (('prng=' + label, idx(got), [float(x) for x in np.random.default_rng(seed).random(k)]),))
                if msg:
                    r.oracle_fail = msg
                    return
            own = np.random.RandomState()
            own.set_state(d.prng.get_state())
            o_us = [float(x) for x in own.rand(k)]
            try:
                o_a = idx(d.rand(size=k))
            except Exception as e:  # noqa
                r.oracle_fail = 'rand(size=%d) raised %s: %s after a call with prng=%s' % (k, type(e).__name__, e, label)
                return
            msg = self.judge(lin, (('own prng, after a call with prng=%s' % label, o_a, o_us),))
            if msg:
                r.oracle_fail = msg
                return

    def run_program(self, case, d, lin, index, drv, r, where):
        """Single draws, batched draws, draws from an outside generator, explicit numbers, re-seeding, saving and
        restoring the generator state and copies, interleaved on ONE object.  Reference, from the statement alone: a
        generator of the same kind put into the same state (`ref`; for the outside generator `xref`) hands out the
        uniforms the real generator is to hand out next -- n of them for a request of n draws, none for a request
        with explicit numbers; seeding / saving / restoring is done to both; a copy continues from a clone of `ref`.
        Every returned outcome must be the one whose cumulative interval contains its uniform (`judge`)."""
        from canon import bits2f
        prog = case.get('prog')
        if not prog or not prog['ops']:
            return
        seed = prog['seed']

        def idx(sample):
            return [index.get(o, 'not-an-outcome:%r' % (o,)) for o in sample]

        def clone(g):
            h = np.random.RandomState()
            h.set_state(g.get_state())
            return h

        def nxt(g, n):
            return [float(x) for x in g.rand(n)]
        ops = prog['ops']
        groups = []
        step = -1
        try:
            d.prng.seed(seed)
            ref = np.random.RandomState(seed)
            ext = np.random.RandomState((seed + 1) % (2 ** 32))
            xref = np.random.RandomState((seed + 1) % (2 ** 32))
            saved = None
            for step, op in enumerate(ops):
                k = op[0]
                lab = 'step %d %s' % (step, op)
                if k == 'one':
                    groups.append((lab + ': d.rand()', idx([d.rand()]), nxt(ref, 1)))
                elif k == 'many':
                    groups.append((lab + ': d.rand(size=%d)' % op[1], idx(d.rand(size=op[1])), nxt(ref, op[1])))
                elif k == 'ext_one':
                    groups.append((lab + ': d.rand(prng=g)', idx([d.rand(prng=ext)]), nxt(xref, 1)))
                elif k == 'ext_many':
                    groups.append((lab + ': d.rand(size=%d, prng=g)' % op[1], idx(d.rand(size=op[1], prng=ext)),
                                   nxt(xref, op[1])))
                elif k == 'explicit':
                    u = bits2f(op[1])
                    groups.append((lab + ': d.rand(rand=u)', idx([d.rand(rand=u)]), [u]))
                elif k == 'seed':
                    d.prng.seed(op[1])
                    ref.seed(op[1])
                elif k == 'save':
                    saved = (d.prng.get_state(), ref.get_state())
                elif k == 'restore':
                    if saved is not None:
                        d.prng.set_state(saved[0])
                        ref.set_state(saved[1])
                elif k == 'copy':
                    cp = d.copy()
                    cref = clone(ref)
                    for sz in op[1]:
                        if sz is None:
                            groups.append((lab + ': c = d.copy(); c.rand()', idx([cp.rand()]), nxt(cref, 1)))
                        else:
                            groups.append((lab + ': c = d.copy(); c.rand(size=%d)' % sz, idx(cp.rand(size=sz)),
                                           nxt(cref, sz)))
                else:
                    raise ValueError(op)
        except Exception as e:  # noqa
            r.oracle_fail = where + 'program of generator-driven calls %s (d.prng seeded with %d) raised %s: %s at step %d' % (
                ops, seed, type(e).__name__, e, step)
            return
        r.features.append('program')
        for a, b in zip(ops, ops[1:]):
            r.features.append('prog=%s>%s' % (a[0], b[0]))
        for lab, got, uu in groups:
            if len(got) != len(uu):
                r.oracle_fail = where + 'program %s: %s returned %d draws' % (ops, lab, len(got))
                return
        msg = self.judge(lin, groups)
        if msg:
            r.oracle_fail = (where + 'program of generator-driven calls %s on one object (d.prng seeded with %d; u = the next '
                             'uniform of a generator in the same state): %s' % (ops, seed, msg))
            return
        allu = [u for _, _, uu in groups for u in uu]
        if allu:
            _, want = drv.call('samplef', [[f2bits(p) for p in lin], [f2bits(u) for u in allu]])
            got = [i for _, g_, _ in groups for i in g_]
            if got != want:
                r.mismatch = where + 'program %s: indices %s != model scan of the generator stream %s' % (ops, got, want)

    def outcome_of(self, case, i):
        return (i // 4, i % 4) if case['joint'] else i

    def run_history(self, case, d, table, r, drv):
        """Rounds of edits of the already-sampled object `d`, each followed by the whole sampling check on the
        object's CURRENT probabilities.  `table` (outcome -> linear probability) is the plain table the edits are
        defined on; the expected probabilities come from it, the order of the stored outcomes from `d.outcomes`."""
        from canon import bits2f
        log = []
        r.detail['history'] = log
        r.features.append('hist=%d' % len(case['hist']))
        for ri, rd in enumerate(case['hist']):
            applied = []
            try:
                for op in rd['ops']:
                    self.apply_edit(case, d, table, op, applied, r)
                mass = math.fsum(table.values())
                if not (mass > 0):
                    r.features.append('hist-null-mass')          # nothing left to sample from: the history ends
                    return
                if abs(mass - 1.0) > 1e-9:                       # rand is specified for normalised tables only
                    self.apply_edit(case, d, table, ['normalize'], applied, r)
                # observation: stored order and the current linear probabilities
                outs = list(d.outcomes)
                lin = [float(x) for x in (d.ops.exp(d.pmf) if d.is_log() else d.pmf)]
            except Exception as e:  # noqa
                r.oracle_fail = 'round %d of edits %s raised %s: %s' % (ri, applied, type(e).__name__, e)
                return
            where = 'after round %d of edits %s on the sampled object: ' % (ri, applied)
            entry = {'round': ri, 'edits': applied, 'outcomes': [repr(o) for o in outs], 'pmf_linear': lin,
                     'table': sorted((repr(o), p) for o, p in table.items())}
            log.append(entry)
            # the current probabilities are those of the edited table
            if len(lin) != len(outs) or len(set(outs)) != len(outs):
                r.oracle_fail = where + 'outcomes %r and pmf %r are not a table' % (outs, lin)
                return
            for o, p in table.items():
                if p > 0 and o not in outs:
                    r.oracle_fail = where + 'outcome %r of probability %r is not stored' % (o, p)
                    return
            for o, a in zip(outs, lin):
                b = table.get(o, 0.0)
                if not (abs(a - b) <= 1e-12 + 1e-9 * abs(b)):
                    r.oracle_fail = where + 'probability of %r is %r, the edited table has %r' % (o, a, b)
                    return
            if sum(1 for p in lin if p > 0) >= 2:
                r.features.append('hist-nontrivial')
            # random numbers chosen for the CURRENT table: every float partial sum and its neighbours, 0, max below 1
            us = [0.0, float(np.nextafter(1.0, 0.0))] + [bits2f(b) for b in rd['us']]
            tot = 0.0
            for p in lin:
                tot += p
                for u in (tot, float(np.nextafter(tot, 0.0)), float(np.nextafter(tot, 2.0))):
                    if 0.0 <= u < 1.0:
                        us.append(u)
            index = {o: i for i, o in enumerate(outs)}

            def idx(sample):
                return [index.get(o, 'not-an-outcome:%r' % (o,)) for o in sample]
            try:
                single = idx([d.rand(rand=u) for u in us])
                many = idx(d.rand(size=len(us), rand=np.array(us)))
                reps = -(-130 // len(us))
                big = us * reps
                bigs = idx(d.rand(size=len(big), rand=np.array(big)))
                k = 6
                g_us = [float(x) for x in np.random.RandomState(rd['seed']).rand(k)]
                g_a = idx(d.rand(size=k, prng=np.random.RandomState(rd['seed'])))
                own = np.random.RandomState()
                own.set_state(d.prng.get_state())
                o_us = [float(x) for x in own.rand(k)]
                o_a = idx(d.rand(size=k))
            except Exception as e:  # noqa
                r.oracle_fail = where + 'rand raised %s: %s' % (type(e).__name__, e)
                return
            entry.update({'us': us, 'impl_single': single, 'impl_many': many})
            msg = self.judge(lin, (('single', single, us), ('size', many, us), ('size>=130', bigs, big),
                                   ('prng=RandomState(seed)', g_a, g_us), ('own prng', o_a, o_us)))
            if msg:
                r.oracle_fail = where + msg
                return
            # correspondence with the model scan on the current table
            scan, scanf = drv.call('samplef', [[f2bits(p) for p in lin], [f2bits(u) for u in us]])
            entry['model_with_fallback'] = scanf
            if single != scanf:
                r.mismatch = where + 'rand(rand=u) indices %s != model %s' % (single, scanf)
            elif many != scanf:
                r.mismatch = where + 'rand(size=n, rand=us) indices %s != model %s' % (many, scanf)
            elif bigs != scanf * reps:
                r.mismatch = where + 'rand(size=%d, rand=us tiled) differs from the model scan' % len(big)
            if r.mismatch:
                return
            self.run_program(case, d, lin, index, drv, r, where)
            if r.oracle_fail or r.mismatch:
                return

    def apply_edit(self, case, d, table, op, applied, r):
        """One edit on the real object and, by its definition, on the plain table."""
        def val(p):                                            # a probability in the object's current base
            return float(d.ops.log(p)) if d.is_log() else float(p)

        def assign(o, p):
            d[o] = val(p)
            table[o] = float(p)
        kind = op[0]
        if kind == 'set':
            assign(self.outcome_of(case, op[1]), op[2])
        elif kind == 'move':
            a, b = self.outcome_of(case, op[1]), self.outcome_of(case, op[2])
            if a == b:
                return
            pa, pb = table.get(a, 0.0), table.get(b, 0.0)
            delta = pa if op[3] == 1.0 else pa * op[3]
            assign(a, pa - delta)
            assign(b, pb + delta)
        elif kind == 'swap':
            a, b = self.outcome_of(case, op[1]), self.outcome_of(case, op[2])
            pa, pb = table.get(a, 0.0), table.get(b, 0.0)
            if a == b:
                return
            assign(a, pb)
            assign(b, pa)
        elif kind == 'del':
            o = self.outcome_of(case, op[1])
            if o not in table and o not in d.outcomes:
                return                                         # nothing to delete (not part of this check)
            del d[o]
            table.pop(o, None)
        elif kind == 'normalize':
            z = math.fsum(table.values())
            if not (z > 0):
                r.features.append('normalize-skipped')
                return
            d.normalize()
            for o in table:
                table[o] = table[o] / z
        elif kind == 'pmfwrite':
            outs = list(d.outcomes)
            ws = [float(w) for w in op[1][:len(outs)]]
            if not outs:
                return
            if not (sum(ws) > 0):
                ws[0] = 1.0
            z = sum(ws)
            ps = [w / z for w in ws] + [0.0] * (len(outs) - len(ws))
            d.pmf[:] = [val(p) for p in ps]
            table.clear()
            table.update(zip(outs, ps))
        elif kind == 'setbase':
            d.set_base(op[1])
        else:
            raise ValueError(op)
        applied.append(op if kind != 'pmfwrite' else ['pmfwrite', op[1][:len(d.outcomes)]])
        r.features.append('edit=%s' % kind)


PROP = C12()
