"""
C09 — Any history of mutations tracks a plain probability-table model.
"""
import itertools
import math
from fractions import Fraction

import numpy as np

import core
import gen
from canon import exc_enum
from driver import q
from env import import_dit

VALUE_MENU = [Fraction(0), Fraction(1), Fraction(1, 2), Fraction(1, 4), Fraction(3, 8), Fraction(1, 3),
              Fraction(5, 10 ** 9), Fraction(1, 5), Fraction(7, 10)]


OP_KINDS = ['set', 'set', 'set', 'del', 'del', 'dense', 'sparse', 'sparse', 'normalize', 'setbase', 'copy', 'copy-mutate']
# tail of a directed history: assignments dominate, every other operation still occurs
TAIL_KINDS = ['set', 'set', 'set', 'set', 'del', 'dense', 'sparse', 'normalize', 'normalize', 'setbase', 'copy', 'copy-mutate']
# the boundary states of the stored table a directed history is steered into before it goes on at random
BOUNDARY_KINDS = ['del-all', 'del-all', 'zero-all', 'zero-all', 'keep-one', 'fill-all']
# third stream (after the two above, which therefore stay what they were): entry points and argument shapes of the
# anchored functions that the operation alphabet above never uses - copy(base=b), outcomes that are not even a
# sequence of symbols, and initial distributions declared through the unsafe constructor `_make_distribution`
EXT_KINDS = OP_KINDS + ['copy-base', 'copy-base', 'set', 'del']
# things that are no sequence of symbols at all (hashable, as the docstrings of d[o] / d[o]=v / del d[o] require)
ATOMS = [9, None, 2.5]
# Outcomes given in the other sequence class (['#as', o]: ('1', '0') for a str distribution, 'ab' for a tuple one) used
# to fail - assignment / deletion stored or looked up the foreign key verbatim on Cartesian spaces - and were repaired
# in dit (0d91d3e); they are generated in the third stream and judged like the member, or the non-member, they spell.


class C09(object):
    id = 'C09'
    rule = ("initial joint or scalar distributions (sparse/dense, trimmed or not, 6 bases, Cartesian or custom spaces) x "
            "histories of 1-25 operations over {d[o]=v, del d[o], make_dense, make_sparse(trim), normalize, set_base(b), "
            "copy (continue on the copy, mutate the original behind its back)} with outcomes inside and outside the "
            "sample space and values incl. 0, 1 and the null log-probability; plus directed histories that first steer "
            "the stored table into a boundary state (every stored outcome deleted / every value zeroed [and trimmed away: "
            "nothing stored], all but one removed, every member of the space stored), then change the representation "
            "(make_dense / make_sparse / set_base / copy) and go on at random; plus histories over the alphabet extended by "
            "copy(base=b) and by set / del of things that are no sequence of symbols (9, None, 2.5), three quarters of them "
            "on initial distributions declared through the unsafe constructor _make_distribution (sample_space None / a "
            "plain list, base None = default base, scalar: values alone) whose declared table is the model's initial "
            "state; every set / del outside the sample space is preceded by the same lookup (InvalidOutcome, no change); "
            "state compared after every operation; "
            "non-trivial = the history contains a set of an unstored outcome or a delete of a stored one, and >= 3 ops")
    tolerances = {'values': 'rtol 1e-9 in the linear domain (normalize/set_base involve float arithmetic); read-back of a just-written value is bit-exact (oracle)'}
    exhaustive = {'thorough': True}

    def gen(self, rng, tier):
        n = 160 if tier == 'quick' else 15000
        if tier == 'thorough':
            for c in self.exhaustive_small():
                yield c
        for _ in range(n):
            c = gen.rand_dist_case(rng, nmin=1, nmax=3, amax=3, max_support=8)
            c['scalar'] = c['n'] == 1 and c['space'] is None and rng.random() < 0.5
            members = self.space_members(c)
            ops = []
            for _ in range(rng.randint(1, 25)):
                ops.append(self.rand_op(rng, c, members, OP_KINDS))
            c['ops'] = ops
            yield c
        # directed histories (after the random stream, which therefore is what it always was)
        for _ in range(80 if tier == 'quick' else 4000):
            yield self.directed_case(rng)
        for _ in range(110 if tier == 'quick' else 5000):
            yield self.extension_case(rng)

    def rand_op(self, rng, c, members, kinds, atoms=False):
        op = self.rand_op0(rng, c, members, kinds, atoms)
        # in the third stream (atoms=True: joint distributions only) an outcome - member or not, of the right length or
        # not - is given in the other sequence class one time out of three, where the symbols allow one
        if atoms and op[0] in ('set', 'del') and op[1][:1] != ['#atom'] and c['klass'] in ('str', 'str2', 'mixed') \
                and rng.random() < 0.34:
            op[1] = ['#as', op[1]]
        return op

    def rand_op0(self, rng, c, members, kinds, atoms=False):
        k = rng.choice(kinds)
        if k == 'copy-base':
            return ['copy-base', rng.choice(gen.BASES)]
        if k in ('set', 'del') and atoms and rng.random() < 0.15:
            o = ['#atom', rng.choice(ATOMS)]
            return ['set', o, str(rng.choice(VALUE_MENU))] if k == 'set' else ['del', o]
        if k in ('set', 'del'):
            if rng.random() < 0.12:
                o = [9] * c['n']
            elif rng.random() < 0.08:
                # an outcome of the wrong length whose symbols are all valid ones
                m_ = rng.choice(members)
                o = rng.choice([m_[:-1], m_ + [m_[-1]], m_ + m_])
            else:
                o = rng.choice(members)
            if k == 'set':
                return ['set', o, str(rng.choice(VALUE_MENU))]
            return ['del', o]
        if k == 'sparse':
            return ['sparse', rng.random() < 0.6]
        if k == 'setbase':
            return ['setbase', rng.choice(gen.BASES)]
        if k == 'copy-mutate':
            return ['copy-mutate', rng.choice(members), str(rng.choice(VALUE_MENU))]
        return [k]

    def directed_case(self, rng):
        """A history in three parts: (1) a prelude that steers the stored table into a boundary state - nothing
        stored / everything null / a single stored outcome / the whole space stored -, (2) one to three changes of
        representation in that state, (3) a random tail in which assignments dominate.  The random stream reaches
        these states only by accident (all of up to eight stored outcomes deleted one by one)."""
        c = gen.rand_dist_case(rng, nmin=1, nmax=3, amax=3, max_support=5,
                               bases=['linear', 'linear', 'linear'] + gen.BASES)
        c['scalar'] = c['n'] == 1 and c['space'] is None and rng.random() < 0.5
        members = self.space_members(c)
        kind = rng.choice(BOUNDARY_KINDS)
        c['directed'] = kind
        outs = [list(o) for o in c['outs']]
        rng.shuffle(outs)
        ops = []
        if kind in ('del-all', 'zero-all', 'keep-one'):
            victims = outs[1:] if kind == 'keep-one' else outs
            for o in victims:
                ops.append(['del', o] if kind != 'zero-all' else ['set', o, '0'])
            if rng.random() < (0.7 if kind == 'zero-all' or not c['sparse'] else 0.3):
                ops.append(['sparse', True])
        else:
            ms = [list(m) for m in members]
            rng.shuffle(ms)
            for o in ms[:12]:
                ops.append(['set', o, str(rng.choice(VALUE_MENU[1:]))])
        for _ in range(rng.randint(1, 3)):
            k = rng.choice(['dense', 'dense', 'dense', 'sparse', 'sparse', 'setbase', 'copy'])
            if k == 'sparse':
                ops.append(['sparse', rng.random() < 0.5])
            elif k == 'setbase':
                ops.append(['setbase', rng.choice(gen.BASES)])
            else:
                ops.append([k])
        # the tail opens with an assignment to a member (normalize on a null table would end the history: 0/0)
        ops.append(['set', rng.choice(members), str(rng.choice(VALUE_MENU))])
        for _ in range(rng.randint(1, 7)):
            ops.append(self.rand_op(rng, c, members, TAIL_KINDS))
        c['ops'] = ops
        return c

    def extension_case(self, rng):
        """Random histories over the extended alphabet (copy(base=b); set / del of something that is no sequence of
        symbols) on initial distributions that are, three times out of four, declared through the unsafe constructor
        `_make_distribution` (the anchored function `copy` is built on) from the outcomes and values of a regularly
        constructed one: `via` says with which argument shapes (see `build_unsafe`)."""
        c = gen.rand_dist_case(rng, nmin=1, nmax=3, amax=3, max_support=6,
                               bases=['linear', 'linear', 'linear'] + gen.BASES)
        c['scalar'] = c['n'] == 1 and c['space'] is None and rng.random() < 0.5
        if rng.random() < 0.15:
            # a scalar distribution given by its values alone: the outcomes are 0 .. k-1
            k = rng.randint(1, 6)
            pmf, style = gen.rand_prob_vector(rng, k)
            c.update({'klass': 'tuple', 'n': 1, 'alphabets': [list(range(k))], 'outs': [[i] for i in range(k)],
                      'pmf': [str(p) for p in pmf], 'space': None, 'spacekind': 'none', 'names': None, 'style': style,
                      'scalar': True, 'trim': False})
            c['via'] = {'space': rng.choice(['none', 'list']), 'pmf_none': True, 'extra': rng.randint(0, 2),
                        'base_none': rng.random() < 0.35}
        elif rng.random() < 0.75:
            c['via'] = {'space': rng.choice(['none', 'none', 'list']), 'base_none': rng.random() < 0.35}
        if c.get('via') and c['via']['base_none']:
            # base=None stands for the library's default base: a legal use gives the values in that base
            db = import_dit().params.ditParams['base']
            if db in gen.BASE_ID:
                c['base'] = db
        members = self.space_members(c)
        ops = []
        for _ in range(rng.randint(1, 14)):
            ops.append(self.rand_op(rng, c, members, EXT_KINDS, atoms=not c['scalar']))
        c['ops'] = ops
        return c

    def space_members(self, c):
        sp = c.get('space')
        if sp is None:
            alph = c['alphabets']
        elif sp[0] == 'cart':
            alph = sp[1]
        else:
            return [list(o) for o in sp[1]]
        out = [[]]
        for a in alph:
            out = [o + [s] for o in out for s in a]
        return out

    def exhaustive_small(self):
        """All histories of length <= 4 over a reduced alphabet on a two-outcome space, three bases."""
        alphabet = [['set', [0], '1/2'], ['set', [1], '0'], ['del', [0]], ['del', [1]], ['dense'],
                    ['sparse', True], ['sparse', False], ['copy']]
        for base in ('linear', 2, 0.5):
            for L in range(1, 5):
                for ops in itertools.product(alphabet, repeat=L):
                    yield {'klass': 'tuple', 'n': 1, 'alphabets': [[0, 1]], 'outs': [[0], [1]], 'pmf': ['1/2', '1/2'],
                           'space': None, 'base': base, 'sparse': True, 'trim': True, 'names': None,
                           'style': 'exhaustive', 'spacekind': 'none', 'scalar': False, 'ops': [list(o) for o in ops]}

    def shrink(self, case):
        ops = case['ops']
        for i in range(len(ops)):
            c = dict(case)
            c['ops'] = ops[:i] + ops[i + 1:]
            if c['ops']:
                yield c
        if case['base'] != 'linear':
            c = dict(case)
            c['base'] = 'linear'
            yield c
        if case.get('via'):
            c = dict(case)
            del c['via']
            yield c

    # ------------------------------------------------------------------
    def run(self, case, drv):
        dit = import_dit()
        r = core.Result()
        r.site = 'mutation-history'
        klass = case['klass']
        scalar = case.get('scalar')
        r.features = gen.case_features(case) + ['scalar=%s' % scalar, 'len=%d' % len(case['ops'])]
        for op in case['ops']:
            r.features.append('op=%s' % op[0])
        r.features.append('directed=%s' % case.get('directed'))
        seen = set()

        def note(f):
            if f not in seen:
                seen.add(f)
                r.features.append(f)

        # initial state on both sides
        if scalar:
            u = gen.UNIVERSE[klass]
            inv = {s: i for i, s in enumerate(u)}
            outs = [u[o[0]] for o in case['outs']]
            vals = [gen.log_of(Fraction(p), case['base']) for p in case['pmf']]
            d = dit.ScalarDistribution(outs, vals, base=case['base'], sparse=case['sparse'], trim=case['trim'])
            topy = lambda o: u[o[0]] if len(o) == 1 else tuple(u[x] for x in o)
            obs = lambda dd: self.obs_scalar(dd, klass)
            margs = gen.model_construct_args(case)
            margs[2] = ['ss', case['outs']]
        else:
            d = gen.build(case)
            topy = lambda o: gen.to_py(o, klass)
            obs = lambda dd: gen.obs_py(dd, klass)
            margs = gen.model_construct_args(case)
        mj = drv.call('construct', margs)
        diff0 = 'the model rejects the specification' if mj[0] != 'ok' else gen.compare_obs(obs(d), gen.obs_model(mj[1]))
        if diff0 is not None:
            # every history starts from the constructed object: if that already differs from the table model, say so
            r.features.append('construct-disagree')
            r.mismatch = 'initial state: ' + diff0
            return r
        mdist = mj[2]

        # ---- the same table declared through the unsafe constructor (direct entry point of an anchored function)
        via = case.get('via')
        pre = 0
        given = None
        if via:
            built = self.build_unsafe(dit, d, mdist, via, scalar)
            if built is None:
                r.features.append('via=not-a-legal-use')
            else:
                d, mdist, given = built
                pre = 1
                r.features += ['via:space=%s' % via['space'], 'via:base=%s' % ('default' if given['base_arg'] is None else 'given'),
                               'via:pmf=%s' % ('none' if via.get('pmf_none') else 'given'),
                               'via:declared=%s' % ('sparse' if given['sparse'] else 'dense')]

        # set / del / lookup of something that is not a sequence of symbols: on the model side it is an outcome
        # outside the sample space like any other (rank 9 is in no alphabet)
        def is_atom(o):
            return len(o) == 2 and o[0] == '#atom'

        # ['#as', o]: the outcome o given in the *other* sequence class (a tuple of the symbols for a distribution whose
        # outcomes are strings, the joined string for one whose outcomes are tuples of strings).  It names the same
        # outcome - the table model sees o itself - unless joining is not faithful (a symbol of several characters:
        # the string then spells an outcome of another length, which is outside every sample space).
        def is_as(o):
            return len(o) == 2 and o[0] == '#as'

        def mout_of(o):
            if is_atom(o):
                return [9] * case['n']
            if is_as(o):
                if gen.is_str_class(klass) or all(len(gen.UNIVERSE[klass][x]) == 1 for x in o[1]):
                    return o[1]
                return [9] * case['n']
            return o

        def foreign_py(o):
            u_ = gen.UNIVERSE[klass]
            return tuple(u_[x] for x in o) if gen.is_str_class(klass) else ''.join(u_[x] for x in o)

        topy0 = topy
        topy = lambda o: o[1] if is_atom(o) else foreign_py(o[1]) if is_as(o) else topy0(o)

        # model history (`mix[i]`: index in the model's answers of the state after operation i; the initial state of
        # an unsafely declared distribution is read off a leading `copy`, which the model proves observationally
        # neutral (copy_obs))
        mops = [['copy']] * pre
        mix = []
        for op in case['ops']:
            if op[0] == 'set':
                mops.append(['set', mout_of(op[1]), q(Fraction(op[2]))])
            elif op[0] == 'del':
                mops.append(['del', mout_of(op[1])])
            elif op[0] == 'copy-base':
                # copy(base=b) is, by its docstring, "copy and change the base of the copied distribution"
                mops.append(['copy'])
                mops.append(['setbase', gen.BASE_ID[op[1]]])
            elif op[0] == 'sparse':
                mops.append(['sparse', op[1]])
            elif op[0] == 'setbase':
                mops.append(['setbase', gen.BASE_ID[op[1]]])
            elif op[0] == 'copy-mutate':
                mops.append(['copy'])
            else:
                mops.append([op[0]])
            mix.append(len(mops) - 1)
        mres = drv.call('hist', [mdist, mops])

        if pre:
            # what the unsafe constructor declares, by its docstring: the outcomes and values given, in the order
            # given (never reordered, never made sparse or dense), the declared sparse flag, the base given or the
            # default one; and that table is the initial state of the history
            r.site = 'unsafe-constructor'
            o0 = obs(d)
            if [o for o, _ in o0['tab']] != given['outs']:
                r.oracle_fail = '_make_distribution stores outcomes %s, given %s' % ([o for o, _ in o0['tab']], given['outs'])
            elif [v for _, v in o0['tab']] != given['vals']:
                r.oracle_fail = '_make_distribution stores values %s, given %s' % ([v for _, v in o0['tab']], given['vals'])
            elif o0['sparse'] != given['sparse']:
                r.oracle_fail = '_make_distribution declared %s reports is_sparse() = %s' % (
                    'sparse' if given['sparse'] else 'dense', o0['sparse'])
            elif o0['base'] != given['base']:
                r.oracle_fail = '_make_distribution with base %r has base %r (expected %r)' % (given['base_arg'], o0['base'], given['base'])
            if r.oracle_fail:
                return r
            m0 = gen.obs_model(mres[0][1])
            diff0 = gen.compare_obs(o0, m0)
            if diff0 is None:
                try:
                    d.validate()
                    verdict0 = 'valid'
                except Exception as e:  # noqa
                    verdict0 = exc_enum(e)
                if verdict0 != mres[0][2] and not self.near_threshold(o0):
                    diff0 = 'validate() impl %s model %s' % (verdict0, mres[0][2])
            if diff0 is not None:
                r.features.append('construct-disagree')
                r.mismatch = 'initial state declared through _make_distribution (%s): %s' % (given['how'], diff0)
                r.detail = {'impl': o0, 'model': mres[0][1], 'given': given}
                return r
            r.site = 'mutation-history'
        mres = [mres[j] for j in mix]

        space0 = obs(d)['space']
        alph0 = obs(d)['alphabets']
        names0 = d.get_rv_names() if not scalar else None
        stored_now = set(tuple(o) for o, _ in obs(d)['tab'])
        interesting = False
        for i, (op, (mout, mobs, mvalid)) in enumerate(zip(case['ops'], mres)):
            before = obs(d)
            base = d.get_base()
            out = 'ok'
            written = None
            om = mout_of(op[1]) if op[0] in ('set', 'del') else None     # the outcome the table model sees
            if om is not None and is_as(op[1]):
                note('other-class=%s' % ('member' if om in space0 else 'non-member'))
                if om in space0:
                    # lookups: the member given in the other class reads exactly what the member itself reads
                    try:
                        a_, b_ = float(d[topy(op[1])]), float(d[topy0(om)])
                        if not (a_ == b_ or (math.isnan(a_) and math.isnan(b_))):
                            r.oracle_fail = 'op %d: d[%r] reads %r, d[%r] reads %r (same outcome, other sequence class)' % (
                                i, topy(op[1]), a_, topy0(om), b_)
                    except Exception as e:  # noqa
                        r.oracle_fail = 'op %d: lookup of the member %r given as %r raised %s' % (i, topy0(om), topy(op[1]), exc_enum(e))
                    if r.oracle_fail:
                        break
            if op[0] in ('set', 'del') and om not in space0:
                # what is outside the sample space for assignment and deletion is outside it for lookups too
                # (the model's `get` is undefined there; `__getitem__` documents InvalidOutcome), and asking changes nothing
                try:
                    look = 'ok: %r' % (d[topy(op[1])],)
                except Exception as e:  # noqa
                    look = exc_enum(e)
                note('lookup-outside=%s' % ('atom' if is_atom(op[1]) else 'wrong-length' if len(op[1][1] if is_as(op[1]) else op[1]) != case['n'] else 'symbols'))
                if look != 'InvalidOutcome':
                    r.oracle_fail = 'op %d: lookup d[o] of %s, which is outside the sample space, gave %s, not InvalidOutcome' % (i, op[1], look)
                elif obs(d) != before:
                    r.oracle_fail = 'op %d: the rejected lookup of %s changed the state' % (i, op[1])
                if r.oracle_fail:
                    break
            try:
                if op[0] == 'set':
                    v = gen.log_of(Fraction(op[2]), base)
                    if tuple(om) not in stored_now and om in space0:
                        interesting = True
                    d[topy(op[1])] = v
                    written = (op[1], v)
                elif op[0] == 'del':
                    if tuple(om) in stored_now:
                        interesting = True
                    del d[topy(op[1])]
                elif op[0] == 'dense':
                    d.make_dense()
                elif op[0] == 'sparse':
                    d.make_sparse(trim=op[1])
                elif op[0] == 'normalize':
                    tot = sum(gen.lin_of(v, base) for _, v in before['tab'])
                    if not (tot > 1e-6):
                        # 0/0 is outside the statement: skip on both sides
                        r.features.append('normalize-skipped')
                        break
                    z = d.normalize()
                    out = gen.lin_of(z, base)
                elif op[0] == 'setbase':
                    d.set_base(op[1])
                elif op[0] == 'copy':
                    c = d.copy()
                    co, so = obs(c), obs(d)
                    if co != so:
                        r.oracle_fail = 'copy is not observationally identical to its source (op %d)' % i
                    elif (not scalar) and c.get_rv_names() != d.get_rv_names():
                        r.oracle_fail = 'copy has different variable names'
                    else:
                        if len(d) > 0 and self.samplable(d):
                            d.prng.seed(1234 + i)
                            c2 = d.copy()
                            if [repr(x) for x in c2.rand(4)] != [repr(x) for x in d.rand(4)]:
                                r.oracle_fail = 'copy does not reproduce the future random draws of its source'
                    d = c      # continue on the copy
                elif op[0] == 'copy-base':
                    c = d.copy(base=op[1])
                    if obs(d) != before:
                        r.oracle_fail = 'copy(base=%r) changed its source (op %d)' % (op[1], i)
                    elif c.get_base() != op[1]:
                        r.oracle_fail = 'copy(base=%r) has base %r (op %d)' % (op[1], c.get_base(), i)
                    elif (not scalar) and c.get_rv_names() != d.get_rv_names():
                        r.oracle_fail = 'copy(base=%r) has different variable names' % (op[1],)
                    elif obs(c)['space'] != before['space'] or obs(c)['alphabets'] != before['alphabets'] or \
                            [o for o, _ in obs(c)['tab']] != [o for o, _ in before['tab']] or obs(c)['sparse'] != before['sparse']:
                        r.oracle_fail = 'copy(base=%r) differs from its source in sample space, alphabets, stored outcomes or sparse flag (op %d)' % (op[1], i)
                    elif len(d) > 0 and self.samplable(d):
                        d.prng.seed(4321 + i)
                        c2 = d.copy(base=op[1])
                        if [repr(x) for x in c2.rand(4)] != [repr(x) for x in d.rand(4)]:
                            r.oracle_fail = 'copy(base=%r) does not reproduce the future random draws of its source' % (op[1],)
                    note('copy-base:%s->%s' % ('log' if base != 'linear' else 'linear', 'log' if op[1] != 'linear' else 'linear'))
                    d = c      # continue on the copy; its values are compared with the model's copy + set_base below
                elif op[0] == 'copy-mutate':
                    c = d.copy()
                    snap = obs(c)
                    try:
                        d[topy(op[1])] = gen.log_of(Fraction(op[2]), base)
                        d.make_dense()
                    except Exception:  # noqa
                        pass
                    if obs(c) != snap:
                        r.oracle_fail = 'mutating the source changed its copy (op %d)' % i
                    d = c
            except Exception as e:  # noqa
                out = exc_enum(e)
                if out == 'InvalidOutcome' and obs(d) != before:
                    r.oracle_fail = 'an illegal operation changed the state (op %d: %s)' % (i, op)
            if r.oracle_fail:
                break
            now = obs(d)
            stored_now = set(tuple(o) for o, _ in now['tab'])
            # which boundary states of the stored table the history passed through, and what was done there
            nb, n_space = len(before['tab']), len(space0)
            bstate = 'nothing-stored' if nb == 0 else 'all-null' if all(gen.lin_of(v, base) == 0.0 for _, v in before['tab']) \
                else 'one-stored' if nb == 1 and n_space > 1 else 'whole-space-stored' if nb == n_space and before['sparse'] else None
            if bstate is not None:
                note('%s:%s' % (bstate, op[0]))
            if len(now['tab']) == 0:
                note('reached=nothing-stored')
            # ---- oracle clauses that need no model
            if op[0] in ('set', 'del') and om not in space0 and out != 'InvalidOutcome':
                r.oracle_fail = 'op %d %s with an outcome outside the sample space gave %s, not InvalidOutcome' % (i, op, out)
            elif op[0] in ('set', 'del') and om in space0 and out != 'ok':
                r.oracle_fail = 'op %d %s on a member of the sample space raised %s' % (i, op, out)
            elif op[0] == 'del' and out == 'ok' and gen.lin_of(float(d[topy(op[1])]), d.get_base()) != 0.0:
                r.oracle_fail = 'op %d: after del d[%s] the outcome still reads %r' % (i, op[1], float(d[topy(op[1])]))
            elif op[0] == 'del' and out == 'ok' and is_as(op[1]) and gen.lin_of(float(d[topy0(om)]), d.get_base()) != 0.0:
                r.oracle_fail = 'op %d: after del d[%r] (the member %r in the other sequence class) d[%r] still reads %r' % (
                    i, topy(op[1]), topy0(om), topy0(om), float(d[topy0(om)]))
            elif written is not None and out == 'ok':
                got = float(d[topy(written[0])])
                if not (got == written[1] or (math.isnan(got) and math.isnan(written[1]))):
                    r.oracle_fail = 'read-back after d[o]=v: wrote %r, read %r' % (written[1], got)
                elif is_as(written[0]):
                    # the member written through its other-class spelling is the member: it reads the value too
                    got = float(d[topy0(om)])
                    if not (got == written[1] or (math.isnan(got) and math.isnan(written[1]))):
                        r.oracle_fail = 'op %d: wrote %r to d[%r]; the same outcome spelled %r reads %r' % (
                            i, written[1], topy(written[0]), topy0(om), got)
            elif op[0] in ('dense', 'sparse', 'normalize', 'setbase', 'copy', 'copy-mutate', 'copy-base') and isinstance(out, str) \
                    and out != 'ok' and (mout == 'ok' or self.is_rat(mout)):
                # these take no outcome: in the table model they are total (normalize: on a table of non-null mass,
                # the only kind it is run on), so there is nothing for them to reject
                r.oracle_fail = 'op %d %s takes no outcome and is defined on every table (%d stored, %s), but raised %s' % (
                    i, op, nb, 'sparse' if before['sparse'] else 'dense', out)
            if not r.oracle_fail and (now['space'] != space0 or now['alphabets'] != alph0):
                r.oracle_fail = 'sample space or alphabets changed at op %d %s' % (i, op)
            if not r.oracle_fail and not scalar and d.get_rv_names() != names0:
                r.oracle_fail = 'variable names changed at op %d %s' % (i, op)
            if r.oracle_fail:
                break
            # ---- correspondence: output, state, validate verdict
            try:
                d.validate()
                verdict = 'valid'
            except Exception as e:  # noqa
                verdict = exc_enum(e)
            mo = gen.obs_model(mobs)
            if isinstance(out, float):
                ok = isinstance(mout, (int, str)) and mout not in ('ok',) and self.is_rat(mout) and \
                    abs(out - float(Fraction(mout))) <= 1e-9 * max(1.0, abs(out))
                if not ok:
                    r.mismatch = 'op %d normalize returned %r, model %s' % (i, out, mout)
            elif out != mout:
                r.mismatch = 'op %d %s: impl %s model %s' % (i, op, out, mout)
            if not r.mismatch:
                diff = gen.compare_obs(now, mo, check_alphabets=False)
                if diff:
                    r.mismatch = 'after op %d %s: %s' % (i, op, diff)
                elif verdict != mvalid and not self.near_threshold(now):
                    r.mismatch = 'after op %d %s: validate() impl %s model %s' % (i, op, verdict, mvalid)
            if r.mismatch:
                r.detail = {'op_index': i, 'op': op, 'impl': now, 'model': mobs, 'impl_verdict': verdict, 'model_verdict': mvalid}
                break
        r.nontrivial = interesting and len(case['ops']) >= 3
        return r

    def build_unsafe(self, dit, d, mdist, via, scalar):
        """Declare the table of the regularly constructed `d` (model state `mdist`, already found equal) through the
        unsafe constructor `_make_distribution` with the argument shapes `via` names, and say what that declares
        (model state).  Only legal uses (docstring: outcomes and values in the order of the sample space; nothing is
        reordered, made sparse or dense; the sparse flag is just declared) are built - None otherwise.

          joint,  space 'none': sample_space=None -> the Cartesian product of the alphabets of the given outcomes,
                                each in order of first appearance (`construct_alphabets` does not sort);
                  space 'list': sample_space = a plain list.  The list is the list of the given outcomes: the code
                                takes the sample space from the *outcomes* whenever `sample_space` is neither None nor
                                a SampleSpace object, so only then is what it declares unambiguous (NOT JUDGED: a
                                list with further members - they are silently dropped; reported, not a statement
                                of C09);
          scalar, space 'none': sample_space=None -> the given outcomes are the sample space;
                  space 'list': sample_space = the members of the source's sample space as a plain list;
                  pmf_none:     only the values are given: the outcomes are 0 .. k-1 (with space 'list': 0 .. k-1+extra);
          base_none:            base=None -> ditParams['base'] (legal only if the values are in that base).
        """
        space, tab, sparse, bid = mdist
        outs = tuple(d.outcomes)
        pmf = np.array(d.pmf, copy=True)
        if len(outs) == 0 or len(outs) != len(tab):
            return None
        base = d.get_base()
        default_base = dit.params.ditParams['base']
        base_arg = None if (via.get('base_none') and base == default_base) else base
        routs = [o for o, _ in tab]
        how = dict(via)
        if scalar:
            from dit.npscalardist import _make_distribution as mk
            if via.get('pmf_none'):
                if not all(isinstance(x, int) for x in outs):
                    return None
                routs = [[i] for i in range(len(pmf))]
                tab = [[o, v] for o, (_, v) in zip(routs, tab)]
                if via['space'] == 'none':
                    d2 = mk(pmf.tolist(), base=base_arg, sparse=sparse)
                    mspace = ['expl', routs]
                else:
                    k = len(pmf) + via.get('extra', 0)
                    if k > 10:
                        return None        # the harness reads the symbols 0 .. 9 only
                    if k != len(pmf):
                        sparse = True      # a dense table stores its whole sample space
                    d2 = mk(pmf.tolist(), sample_space=list(range(k)), base=base_arg, sparse=sparse)
                    mspace = ['expl', [[i] for i in range(k)]]
            elif via['space'] == 'none':
                d2 = mk(outs, pmf, base=base_arg, sparse=sparse)
                mspace = ['expl', routs]
            else:
                d2 = mk(outs, pmf, sample_space=list(d.sample_space()), base=base_arg, sparse=sparse)
                mspace = space
        else:
            from dit.npdist import _make_distribution as mk
            if via['space'] == 'none':
                alph = [[] for _ in routs[0]]
                for o in routs:
                    for a, x in zip(alph, o):
                        if x not in a:
                            a.append(x)
                prod = [[]]
                for a in alph:
                    prod = [o + [x] for o in prod for x in a]
                idx = [prod.index(o) for o in routs]
                if idx != sorted(idx):
                    return None            # the given outcomes are not in the order of the space they induce
                if len(routs) != len(prod):
                    sparse = True          # a dense table stores its whole sample space
                d2 = mk(outs, pmf, base_arg, sparse=sparse)
                mspace = ['cart', alph]
            else:
                d2 = mk(outs, pmf, base_arg, sample_space=list(outs), sparse=sparse)
                mspace = ['expl', routs]
        given = {'outs': routs, 'vals': [float(v) for v in pmf], 'sparse': bool(sparse), 'base': base,
                 'base_arg': base_arg, 'how': how}
        return d2, [mspace, tab, bool(sparse), bid], given

    @staticmethod
    def is_rat(x):
        try:
            Fraction(x)
            return True
        except Exception:  # noqa
            return False

    @staticmethod
    def samplable(d):
        try:
            p = d.ops.exp(d.pmf) if d.is_log() else d.pmf
            return abs(float(np.sum(p)) - 1.0) < 1e-6 and np.all(p >= 0)
        except Exception:  # noqa
            return False

    @staticmethod
    def near_threshold(o):
        """Is the total mass or some value within a hair of a validation threshold? (then the float
        and the exact verdict may legitimately differ; generators avoid it, normalize may create it)."""
        base = o['base']
        vals = [gen.lin_of(v, base) for _, v in o['tab']]
        tot = sum(vals)
        tol = 1.001e-5 if base == 'linear' else 1e-7
        if abs(abs(tot - 1.0) - tol) < 1e-6 * max(tol, 1e-3) or (base != 'linear' and 1e-10 < abs(tot - 1) < 1e-5):
            return True
        return False

    def obs_scalar(self, d, klass):
        u = gen.UNIVERSE[klass]
        inv = {s: i for i, s in enumerate(u)}
        conv = lambda s: [inv[s]]
        return {'space': [conv(o) for o in d.sample_space()], 'alphabets': [sorted(inv[s] for s in d.alphabet)],
                'tab': [[conv(o), float(v)] for o, v in zip(d.outcomes, d.pmf)], 'sparse': bool(d.is_sparse()),
                'base': d.get_base(), 'lookups': [float(d[o]) for o in d.sample_space()], 'len': len(d),
                'outcome_length': 1}


PROP = C09()
