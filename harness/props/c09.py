"""
C09 — Any history of mutations tracks a plain probability-table model.
"""
import itertools
import math
from fractions import Fraction

import numpy as np

import core
import gen
from canon import exc_enum
from driver import q
from env import import_dit

VALUE_MENU = [Fraction(0), Fraction(1), Fraction(1, 2), Fraction(1, 4), Fraction(3, 8), Fraction(1, 3),
              Fraction(5, 10 ** 9), Fraction(1, 5), Fraction(7, 10)]


OP_KINDS = ['set', 'set', 'set', 'del', 'del', 'dense', 'sparse', 'sparse', 'normalize', 'setbase', 'copy', 'copy-mutate']
# tail of a directed history: assignments dominate, every other operation still occurs
TAIL_KINDS = ['set', 'set', 'set', 'set', 'del', 'dense', 'sparse', 'normalize', 'normalize', 'setbase', 'copy', 'copy-mutate']
# the boundary states of the stored table a directed history is steered into before it goes on at random
BOUNDARY_KINDS = ['del-all', 'del-all', 'zero-all', 'zero-all', 'keep-one', 'fill-all']


class C09(object):
    id = 'C09'
    rule = ("initial joint or scalar distributions (sparse/dense, trimmed or not, 6 bases, Cartesian or custom spaces) x "
            "histories of 1-25 operations over {d[o]=v, del d[o], make_dense, make_sparse(trim), normalize, set_base(b), "
            "copy (continue on the copy, mutate the original behind its back)} with outcomes inside and outside the "
            "sample space and values incl. 0, 1 and the null log-probability; plus directed histories that first steer "
            "the stored table into a boundary state (every stored outcome deleted / every value zeroed [and trimmed away: "
            "nothing stored], all but one removed, every member of the space stored), then change the representation "
            "(make_dense / make_sparse / set_base / copy) and go on at random; state compared after every operation; "
            "non-trivial = the history contains a set of an unstored outcome or a delete of a stored one, and >= 3 ops")
    tolerances = {'values': 'rtol 1e-9 in the linear domain (normalize/set_base involve float arithmetic); read-back of a just-written value is bit-exact (oracle)'}
    exhaustive = {'thorough': True}

    def gen(self, rng, tier):
        n = 160 if tier == 'quick' else 15000
        if tier == 'thorough':
            for c in self.exhaustive_small():
                yield c
        for _ in range(n):
            c = gen.rand_dist_case(rng, nmin=1, nmax=3, amax=3, max_support=8)
            c['scalar'] = c['n'] == 1 and c['space'] is None and rng.random() < 0.5
            members = self.space_members(c)
            ops = []
            for _ in range(rng.randint(1, 25)):
                ops.append(self.rand_op(rng, c, members, OP_KINDS))
            c['ops'] = ops
            yield c
        # directed histories (after the random stream, which therefore is what it always was)
        for _ in range(80 if tier == 'quick' else 4000):
            yield self.directed_case(rng)

    def rand_op(self, rng, c, members, kinds):
        k = rng.choice(kinds)
        if k in ('set', 'del'):
            if rng.random() < 0.12:
                o = [9] * c['n']
            elif rng.random() < 0.08:
                # an outcome of the wrong length whose symbols are all valid ones
                m_ = rng.choice(members)
                o = rng.choice([m_[:-1], m_ + [m_[-1]], m_ + m_])
            else:
                o = rng.choice(members)
            if k == 'set':
                return ['set', o, str(rng.choice(VALUE_MENU))]
            return ['del', o]
        if k == 'sparse':
            return ['sparse', rng.random() < 0.6]
        if k == 'setbase':
            return ['setbase', rng.choice(gen.BASES)]
        if k == 'copy-mutate':
            return ['copy-mutate', rng.choice(members), str(rng.choice(VALUE_MENU))]
        return [k]

    def directed_case(self, rng):
        """A history in three parts: (1) a prelude that steers the stored table into a boundary state - nothing
        stored / everything null / a single stored outcome / the whole space stored -, (2) one to three changes of
        representation in that state, (3) a random tail in which assignments dominate.  The random stream reaches
        these states only by accident (all of up to eight stored outcomes deleted one by one)."""
        c = gen.rand_dist_case(rng, nmin=1, nmax=3, amax=3, max_support=5,
                               bases=['linear', 'linear', 'linear'] + gen.BASES)
        c['scalar'] = c['n'] == 1 and c['space'] is None and rng.random() < 0.5
        members = self.space_members(c)
        kind = rng.choice(BOUNDARY_KINDS)
        c['directed'] = kind
        outs = [list(o) for o in c['outs']]
        rng.shuffle(outs)
        ops = []
        if kind in ('del-all', 'zero-all', 'keep-one'):
            victims = outs[1:] if kind == 'keep-one' else outs
            for o in victims:
                ops.append(['del', o] if kind != 'zero-all' else ['set', o, '0'])
            if rng.random() < (0.7 if kind == 'zero-all' or not c['sparse'] else 0.3):
                ops.append(['sparse', True])
        else:
            ms = [list(m) for m in members]
            rng.shuffle(ms)
            for o in ms[:12]:
                ops.append(['set', o, str(rng.choice(VALUE_MENU[1:]))])
        for _ in range(rng.randint(1, 3)):
            k = rng.choice(['dense', 'dense', 'dense', 'sparse', 'sparse', 'setbase', 'copy'])
            if k == 'sparse':
                ops.append(['sparse', rng.random() < 0.5])
            elif k == 'setbase':
                ops.append(['setbase', rng.choice(gen.BASES)])
            else:
                ops.append([k])
        # the tail opens with an assignment to a member (normalize on a null table would end the history: 0/0)
        ops.append(['set', rng.choice(members), str(rng.choice(VALUE_MENU))])
        for _ in range(rng.randint(1, 7)):
            ops.append(self.rand_op(rng, c, members, TAIL_KINDS))
        c['ops'] = ops
        return c

    def space_members(self, c):
        sp = c.get('space')
        if sp is None:
            alph = c['alphabets']
        elif sp[0] == 'cart':
            alph = sp[1]
        else:
            return [list(o) for o in sp[1]]
        out = [[]]
        for a in alph:
            out = [o + [s] for o in out for s in a]
        return out

    def exhaustive_small(self):
        """All histories of length <= 4 over a reduced alphabet on a two-outcome space, three bases."""
        alphabet = [['set', [0], '1/2'], ['set', [1], '0'], ['del', [0]], ['del', [1]], ['dense'],
                    ['sparse', True], ['sparse', False], ['copy']]
        for base in ('linear', 2, 0.5):
            for L in range(1, 5):
                for ops in itertools.product(alphabet, repeat=L):
                    yield {'klass': 'tuple', 'n': 1, 'alphabets': [[0, 1]], 'outs': [[0], [1]], 'pmf': ['1/2', '1/2'],
                           'space': None, 'base': base, 'sparse': True, 'trim': True, 'names': None,
                           'style': 'exhaustive', 'spacekind': 'none', 'scalar': False, 'ops': [list(o) for o in ops]}

    def shrink(self, case):
        ops = case['ops']
        for i in range(len(ops)):
            c = dict(case)
            c['ops'] = ops[:i] + ops[i + 1:]
            if c['ops']:
                yield c
        if case['base'] != 'linear':
            c = dict(case)
            c['base'] = 'linear'
            yield c

    # ------------------------------------------------------------------
    def run(self, case, drv):
        dit = import_dit()
        r = core.Result()
        r.site = 'mutation-history'
        klass = case['klass']
        scalar = case.get('scalar')
        r.features = gen.case_features(case) + ['scalar=%s' % scalar, 'len=%d' % len(case['ops'])]
        for op in case['ops']:
            r.features.append('op=%s' % op[0])
        r.features.append('directed=%s' % case.get('directed'))
        seen = set()

        def note(f):
            if f not in seen:
                seen.add(f)
                r.features.append(f)

        # initial state on both sides
        if scalar:
            u = gen.UNIVERSE[klass]
            inv = {s: i for i, s in enumerate(u)}
            outs = [u[o[0]] for o in case['outs']]
            vals = [gen.log_of(Fraction(p), case['base']) for p in case['pmf']]
            d = dit.ScalarDistribution(outs, vals, base=case['base'], sparse=case['sparse'], trim=case['trim'])
            topy = lambda o: u[o[0]] if len(o) == 1 else tuple(u[x] for x in o)
            obs = lambda dd: self.obs_scalar(dd, klass)
            margs = gen.model_construct_args(case)
            margs[2] = ['ss', case['outs']]
        else:
            d = gen.build(case)
            topy = lambda o: gen.to_py(o, klass)
            obs = lambda dd: gen.obs_py(dd, klass)
            margs = gen.model_construct_args(case)
        mj = drv.call('construct', margs)
        diff0 = 'the model rejects the specification' if mj[0] != 'ok' else gen.compare_obs(obs(d), gen.obs_model(mj[1]))
        if diff0 is not None:
            # every history starts from the constructed object: if that already differs from the table model, say so
            r.features.append('construct-disagree')
            r.mismatch = 'initial state: ' + diff0
            return r
        mdist = mj[2]

        # model history
        mops = []
        for op in case['ops']:
            if op[0] == 'set':
                mops.append(['set', op[1], q(Fraction(op[2]))])
            elif op[0] == 'del':
                mops.append(['del', op[1]])
            elif op[0] == 'sparse':
                mops.append(['sparse', op[1]])
            elif op[0] == 'setbase':
                mops.append(['setbase', gen.BASE_ID[op[1]]])
            elif op[0] == 'copy-mutate':
                mops.append(['copy'])
            else:
                mops.append([op[0]])
        mres = drv.call('hist', [mdist, mops])

        space0 = obs(d)['space']
        alph0 = obs(d)['alphabets']
        names0 = d.get_rv_names() if not scalar else None
        stored_now = set(tuple(o) for o, _ in obs(d)['tab'])
        interesting = False
        for i, (op, (mout, mobs, mvalid)) in enumerate(zip(case['ops'], mres)):
            before = obs(d)
            base = d.get_base()
            out = 'ok'
            written = None
            try:
                if op[0] == 'set':
                    v = gen.log_of(Fraction(op[2]), base)
                    if tuple(op[1]) not in stored_now and op[1] in space0:
                        interesting = True
                    d[topy(op[1])] = v
                    written = (op[1], v)
                elif op[0] == 'del':
                    if tuple(op[1]) in stored_now:
                        interesting = True
                    del d[topy(op[1])]
                elif op[0] == 'dense':
                    d.make_dense()
                elif op[0] == 'sparse':
                    d.make_sparse(trim=op[1])
                elif op[0] == 'normalize':
                    tot = sum(gen.lin_of(v, base) for _, v in before['tab'])
                    if not (tot > 1e-6):
                        # 0/0 is outside the statement: skip on both sides
                        r.features.append('normalize-skipped')
                        break
                    z = d.normalize()
                    out = gen.lin_of(z, base)
                elif op[0] == 'setbase':
                    d.set_base(op[1])
                elif op[0] == 'copy':
                    c = d.copy()
                    co, so = obs(c), obs(d)
                    if co != so:
                        r.oracle_fail = 'copy is not observationally identical to its source (op %d)' % i
                    elif (not scalar) and c.get_rv_names() != d.get_rv_names():
                        r.oracle_fail = 'copy has different variable names'
                    else:
                        if len(d) > 0 and self.samplable(d):
                            d.prng.seed(1234 + i)
                            c2 = d.copy()
                            if [repr(x) for x in c2.rand(4)] != [repr(x) for x in d.rand(4)]:
                                r.oracle_fail = 'copy does not reproduce the future random draws of its source'
                    d = c      # continue on the copy
                elif op[0] == 'copy-mutate':
                    c = d.copy()
                    snap = obs(c)
                    try:
                        d[topy(op[1])] = gen.log_of(Fraction(op[2]), base)
                        d.make_dense()
                    except Exception:  # noqa
                        pass
                    if obs(c) != snap:
                        r.oracle_fail = 'mutating the source changed its copy (op %d)' % i
                    d = c
            except Exception as e:  # noqa
                out = exc_enum(e)
                if out == 'InvalidOutcome' and obs(d) != before:
                    r.oracle_fail = 'an illegal operation changed the state (op %d: %s)' % (i, op)
            if r.oracle_fail:
                break
            now = obs(d)
            stored_now = set(tuple(o) for o, _ in now['tab'])
            # which boundary states of the stored table the history passed through, and what was done there
            nb, n_space = len(before['tab']), len(space0)
            bstate = 'nothing-stored' if nb == 0 else 'all-null' if all(gen.lin_of(v, base) == 0.0 for _, v in before['tab']) \
                else 'one-stored' if nb == 1 and n_space > 1 else 'whole-space-stored' if nb == n_space and before['sparse'] else None
            if bstate is not None:
                note('%s:%s' % (bstate, op[0]))
            if len(now['tab']) == 0:
                note('reached=nothing-stored')
            # ---- oracle clauses that need no model
            if op[0] in ('set', 'del') and op[1] not in space0 and out != 'InvalidOutcome':
                r.oracle_fail = 'op %d %s with an outcome outside the sample space gave %s, not InvalidOutcome' % (i, op, out)
            elif op[0] in ('set', 'del') and op[1] in space0 and out != 'ok':
                r.oracle_fail = 'op %d %s on a member of the sample space raised %s' % (i, op, out)
            elif op[0] == 'del' and out == 'ok' and gen.lin_of(float(d[topy(op[1])]), d.get_base()) != 0.0:
                r.oracle_fail = 'op %d: after del d[%s] the outcome still reads %r' % (i, op[1], float(d[topy(op[1])]))
            elif written is not None and out == 'ok':
                got = float(d[topy(written[0])])
                if not (got == written[1] or (math.isnan(got) and math.isnan(written[1]))):
                    r.oracle_fail = 'read-back after d[o]=v: wrote %r, read %r' % (written[1], got)
            elif op[0] in ('dense', 'sparse', 'normalize', 'setbase', 'copy', 'copy-mutate') and isinstance(out, str) \
                    and out != 'ok' and (mout == 'ok' or self.is_rat(mout)):
                # these take no outcome: in the table model they are total (normalize: on a table of non-null mass,
                # the only kind it is run on), so there is nothing for them to reject
                r.oracle_fail = 'op %d %s takes no outcome and is defined on every table (%d stored, %s), but raised %s' % (
                    i, op, nb, 'sparse' if before['sparse'] else 'dense', out)
            if not r.oracle_fail and (now['space'] != space0 or now['alphabets'] != alph0):
                r.oracle_fail = 'sample space or alphabets changed at op %d %s' % (i, op)
            if not r.oracle_fail and not scalar and d.get_rv_names() != names0:
                r.oracle_fail = 'variable names changed at op %d %s' % (i, op)
            if r.oracle_fail:
                break
            # ---- correspondence: output, state, validate verdict
            try:
                d.validate()
                verdict = 'valid'
            except Exception as e:  # noqa
                verdict = exc_enum(e)
            mo = gen.obs_model(mobs)
            if isinstance(out, float):
                ok = isinstance(mout, (int, str)) and mout not in ('ok',) and self.is_rat(mout) and \
                    abs(out - float(Fraction(mout))) <= 1e-9 * max(1.0, abs(out))
                if not ok:
                    r.mismatch = 'op %d normalize returned %r, model %s' % (i, out, mout)
            elif out != mout:
                r.mismatch = 'op %d %s: impl %s model %s' % (i, op, out, mout)
            if not r.mismatch:
                diff = gen.compare_obs(now, mo, check_alphabets=False)
                if diff:
                    r.mismatch = 'after op %d %s: %s' % (i, op, diff)
                elif verdict != mvalid and not self.near_threshold(now):
                    r.mismatch = 'after op %d %s: validate() impl %s model %s' % (i, op, verdict, mvalid)
            if r.mismatch:
                r.detail = {'op_index': i, 'op': op, 'impl': now, 'model': mobs, 'impl_verdict': verdict, 'model_verdict': mvalid}
                break
        r.nontrivial = interesting and len(case['ops']) >= 3
        return r

    @staticmethod
    def is_rat(x):
        try:
            Fraction(x)
            return True
        except Exception:  # noqa
            return False

    @staticmethod
    def samplable(d):
        try:
            p = d.ops.exp(d.pmf) if d.is_log() else d.pmf
            return abs(float(np.sum(p)) - 1.0) < 1e-6 and np.all(p >= 0)
        except Exception:  # noqa
            return False

    @staticmethod
    def near_threshold(o):
        """Is the total mass or some value within a hair of a validation threshold? (then the float
        and the exact verdict may legitimately differ; generators avoid it, normalize may create it)."""
        base = o['base']
        vals = [gen.lin_of(v, base) for _, v in o['tab']]
        tot = sum(vals)
        tol = 1.001e-5 if base == 'linear' else 1e-7
        if abs(abs(tot - 1.0) - tol) < 1e-6 * max(tol, 1e-3) or (base != 'linear' and 1e-10 < abs(tot - 1) < 1e-5):
            return True
        return False

    def obs_scalar(self, d, klass):
        u = gen.UNIVERSE[klass]
        inv = {s: i for i, s in enumerate(u)}
        conv = lambda s: [inv[s]]
        return {'space': [conv(o) for o in d.sample_space()], 'alphabets': [sorted(inv[s] for s in d.alphabet)],
                'tab': [[conv(o), float(v)] for o, v in zip(d.outcomes, d.pmf)], 'sparse': bool(d.is_sparse()),
                'base': d.get_base(), 'lookups': [float(d[o]) for o in d.sample_space()], 'len': len(d),
                'outcome_length': 1}


PROP = C09()
