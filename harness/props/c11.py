"""
C11 — Distribution constructors and algebra compute the defined table operations.
"""
import itertools
import math
import operator
from fractions import Fraction

import numpy as np

import core
import gen
from canon import exc_enum
from driver import q, unq
from env import import_dit

OPS = {'add': operator.add, 'sub': operator.sub, 'mul': operator.mul, 'truediv': operator.truediv,
       'floordiv': operator.floordiv, 'mod': operator.mod, 'lt': operator.lt, 'le': operator.le,
       'eq': operator.eq, 'ne': operator.ne, 'gt': operator.gt, 'ge': operator.ge}
KINDS = ['modify', 'insert_rvf', 'product', 'mixture', 'mixture2', 'combine', 'combine', 'matmul', 'uniform',
         'noisy', 'erasure', 'prune_expand', 'prune_expand_scalar', 'example', 'example', 'stats', 'stats_seq', 'stats_seq']
# every binary operator of ScalarDistribution; 'div' stands for the methods __div__ / __rdiv__ (documented as division,
# not bound to an operator symbol under Python 3), which are called by name
ALL_OPS = sorted(OPS) + ['div']
DIVIDING = ('truediv', 'floordiv', 'mod', 'div')
STAT_NAMES = ['mean', 'central_moment', 'standard_deviation', 'standard_moment', 'median', 'mode']


class C11(object):
    id = 'C11'
    rule = ("per kind: modify_outcomes with random (mostly non-injective) outcome maps; insert_rvf with index -1, 0..n; "
            "product_distribution over disjoint groups by index or name; mixtures with weights incl. zeros (merge and "
            "aligned forms); all 12 binary operators x (dist,dist)/(dist,number)/(number,dist) with integer outcomes and "
            "division guards; @; uniform_scalar_distribution / uniform_distribution / uniform_like / uniform; noisy; "
            "erasure; pruned / expanded sample spaces; giant_bit, n_mod_m, iid_sum, summed_dice, And/Or/Xor, bernoulli, "
            "binomial, hypergeometric, uniform(a,b) over their documented domains; mean / central / standard moments / "
            "std / median / mode; stats_seq: ONE numeric distribution object (scalar, or joint with tuple outcomes: "
            "statistics per coordinate), dense or sparse, put through a history of queries (any subset of the six "
            "statistics) interleaved with changes of its probabilities through the public interface -- d[o] = p on "
            "stored and unstored outcomes, d.pmf[i] = p, d.pmf[:] = v, d[o] = p + normalize(), del d[o] + normalize(), "
            "make_dense / make_sparse, copy, set_base round trip, points of simplex_grid(using=d, inplace=True) -- every "
            "query judged against the definitions on the table the history specifies; the object of the history is held "
            "linear or, half the time, re-based in place to a log base (2, e, 10, 3.5, 0.5) right after construction, "
            "every write then storing the logarithm and every query asked of that very object. Source distributions in 6 bases "
            "where the constructor supports them. Non-trivial = the "
            "result merges at least two source outcomes or has >= 3 outcomes (stats_seq: a query after a change of a "
            "table with >= 2 positive outcomes). Once per run whatever the seed (gen_sweep): each of the 12 operators and "
            "the methods __div__/__rdiv__ in each operand form dist-dist / dist-number / number-dist (reflected methods), "
            "b.__rmatmul__(a), @ of operands in different bases, product_distribution(base=), mixture_distribution("
            "merge=False) on components listing the same outcomes or sharing one sample space, expanded_samplespace with "
            "given alphabets, ScalarDistributions through pruned_samplespace / expanded_samplespace(d, alphabets)")
    tolerances = {'tables': 'exact when all probabilities are dyadic and the base is linear, else rtol 1e-9; statistics 1e-12 relative'}
    exhaustive = {}

    # ------------------------------------------------------------------ generation
    def gen(self, rng, tier):
        n_cases = 365 if tier == 'quick' else 45000
        for c in self.gen_sweep(rng):
            yield self.desubnull(c)
        for _ in range(n_cases):
            kind = rng.choice(KINDS)
            yield self.desubnull(getattr(self, 'gen_' + kind)(rng))

    @classmethod
    def desubnull(cls, c):
        """Sparse, trimmed sources drop probabilities within the null tolerance at construction (by design, C01); the
        exact references below are about the table that was specified, so such entries are not generated here."""
        if isinstance(c, dict):
            if 'pmf' in c and 'outs' in c and all(isinstance(p, str) for p in c['pmf']):
                gen.avoid_subnull(c)
            for v in c.values():
                cls.desubnull(v)
        elif isinstance(c, list):
            for v in c:
                cls.desubnull(v)
        return c

    def gen_sweep(self, rng):
        """Every entry point and option once per run, whatever the seed: each operator in each operand form (the
        reflected methods __radd__, __rmul__, __rtruediv__, __rfloordiv__, ... are reached by number-op-distribution
        only, and a division needs a divisor without the outcome 0), the reflected @, product_distribution(base=),
        mixture_distribution(merge=False), explicit alphabets for expanded_samplespace, scalar distributions through
        pruned_samplespace / expanded_samplespace."""
        for op in ALL_OPS:
            for form in ('dd', 'dn', 'nd'):
                yield self.gen_combine(rng, op=op, form=form)
        yield self.gen_matmul(rng, reflected=True)
        yield self.gen_matmul(rng, reflected=False, anybase=True)
        for ob in ('linear', 2, 0.5):
            yield self.gen_product(rng, outbase=ob)
        for shape in ('same-outs', 'same-outs', 'common-space', 'common-space'):
            yield self.gen_mixture(rng, shape=shape, merge=False)
        for union in (True, False):
            yield self.gen_prune_expand(rng, explicit=True, union=union)
        for _ in range(4):
            yield self.gen_prune_expand_scalar(rng)

    def scalar_case(self, rng, base=None, nonzero=False):
        k = rng.randint(1, 4)
        outs = sorted(rng.sample([x for x in range(-3, 6) if x or not nonzero], k))
        pv, _ = gen.rand_prob_vector(rng, k, rng.choice(['dyadic', 'small', 'uneven']))
        return {'outs': outs, 'pmf': [str(p) for p in pv], 'base': base or rng.choice(gen.BASES)}

    def gen_modify(self, rng):
        c = gen.rand_dist_case(rng, nmin=1, nmax=3, allow_space=False)
        targets = [[rng.choice(range(6)) for _ in range(c['n'])] for _ in range(rng.randint(1, 3))]
        c.update({'kind': 'modify', 'map': [[o, rng.choice(targets + [o])] for o in c['outs']]})
        return c

    def gen_insert_rvf(self, rng):
        c = gen.rand_dist_case(rng, nmin=1, nmax=3, allow_space=False)
        m = rng.randint(1, 2)
        c.update({'kind': 'insert_rvf', 'map': [[o, [rng.randrange(3) for _ in range(m)]] for o in c['outs']],
                  'index': rng.choice([-1] + list(range(c['n'] + 1)))})
        return c

    def gen_product(self, rng, outbase=None):
        c = gen.rand_dist_case(rng, nmin=2, nmax=4)
        n = c['n']
        vars_ = list(range(n))
        rng.shuffle(vars_)
        if rng.random() < 0.25:
            groups = None
        else:
            ng = rng.randint(1, n)
            cut = sorted(rng.sample(range(1, n), ng - 1)) if ng > 1 else []
            groups = [vars_[a:b] for a, b in zip([0] + cut, cut + [n])]
            if rng.random() < 0.3 and len(groups) > 1:
                groups = groups[:-1]
        c.update({'kind': 'product', 'groups': groups, 'byname': bool(c['names']) and rng.random() < 0.5})
        # product_distribution(..., base=): the base the product is to be returned in
        c['outbase'] = outbase if outbase is not None else (rng.choice(gen.BASES) if rng.random() < 0.3 else None)
        return c

    def gen_mixture(self, rng, shape=None, merge=None):
        shape = shape or rng.choice(['free', 'free', 'free', 'same-outs', 'common-space'])
        base = rng.choice(gen.BASES)
        klass = rng.choice(['str', 'tuple'])
        n = rng.randint(1, 3)
        comps = []
        for _ in range(rng.randint(1, 3)):
            c = gen.rand_dist_case(rng, nmin=n, nmax=n, bases=[base], klasses=(klass,), allow_space=False,
                                   allow_names=False, zeros=False)
            comps.append({'outs': c['outs'], 'pmf': c['pmf']})
        w, _ = gen.rand_prob_vector(rng, len(comps), rng.choice(['dyadic', 'small']))
        c = {'kind': 'mixture', 'klass': klass, 'n': n, 'base': base, 'comps': comps, 'w': [str(x) for x in w],
             'shape': shape}
        if shape == 'same-outs':
            # the components list the same outcomes: both merge=True and merge=False are legal
            for comp in comps[1:]:
                pv, _ = gen.rand_prob_vector(rng, len(comps[0]['outs']), rng.choice(['uneven', 'dyadic', 'small']))
                comp['outs'] = comps[0]['outs']
                comp['pmf'] = [str(p) for p in pv]
            c['merge'] = rng.random() < 0.5 if merge is None else merge
        elif shape == 'common-space':
            # the components store different outcomes of one common sample space ("each distribution is assumed to have
            # the same base and sample space"): merge=False is legal, an outcome a component does not store reads as 0
            c['space'] = sorted(set(tuple(o) for comp in comps for o in comp['outs']))
            c['space'] = [list(o) for o in c['space']]
            c['merge'] = rng.random() < 0.3 if merge is None else merge
        else:
            c['merge'] = True
        return c

    def gen_mixture2(self, rng):
        c = self.gen_mixture(rng, shape='free')
        c.pop('merge')
        outs = c['comps'][0]['outs']
        for comp in c['comps']:
            pv, _ = gen.rand_prob_vector(rng, len(outs), rng.choice(['uneven', 'near-degenerate']))
            comp['outs'] = outs
            comp['pmf'] = [str(p) for p in pv]
        c['kind'] = 'mixture2'
        return c

    def gen_combine(self, rng, op=None, form=None):
        forced = op is not None
        op = op or rng.choice(ALL_OPS)
        form = form or rng.choice(['dd', 'dd', 'dn', 'nd'])
        # a forced division gets a divisor that cannot be 0 (otherwise the case is skipped as outside the domain)
        a = self.scalar_case(rng, nonzero=forced and op in DIVIDING and form == 'nd')
        b = self.scalar_case(rng, base=rng.choice([a['base'], 'linear'] + list(gen.BASES)),   # any pair of bases
                             nonzero=forced and op in DIVIDING and form == 'dd')
        return {'kind': 'combine', 'a': a, 'b': b, 'op': op, 'form': form,
                'num': rng.choice([-2, 1, 2, 3])}

    def gen_matmul(self, rng, reflected=None, anybase=None):
        a = self.scalar_case(rng)
        anybase = rng.random() < 0.4 if anybase is None else anybase
        b = self.scalar_case(rng, base=rng.choice(gen.BASES) if anybase else a['base'])
        # reflected: the same joint asked of the right operand, b.__rmatmul__(a)
        return {'kind': 'matmul', 'a': a, 'b': b, 'reflected': rng.random() < 0.3 if reflected is None else reflected}

    def gen_uniform(self, rng):
        return {'kind': 'uniform', 'which': rng.choice(['scalar', 'dist-int', 'dist-alph', 'like', 'outcomes']),
                'n': rng.randint(1, 5), 'L': rng.randint(1, 3), 'k': rng.randint(1, 3),
                'base': rng.choice([None, 2, 'e', 0.5]), 'src': gen.rand_dist_case(rng, nmin=1, nmax=3, allow_space=False)}

    def gen_noisy(self, rng):
        c = gen.rand_dist_case(rng, nmin=1, nmax=3, bases=['linear'], allow_space=False, klasses=('str', 'tuple'))
        c.update({'kind': 'noisy', 'noise': str(rng.choice([Fraction(0), Fraction(1, 2), Fraction(1, 4), Fraction(1)]))})
        return c

    def gen_erasure(self, rng):
        c = gen.rand_dist_case(rng, nmin=1, nmax=3, bases=['linear'], allow_space=False, klasses=('str',))
        c.update({'kind': 'erasure', 'eps': str(rng.choice([Fraction(0), Fraction(1, 2), Fraction(1, 4), Fraction(1)]))})
        return c

    def gen_prune_expand(self, rng, explicit=None, union=None):
        c = gen.rand_dist_case(rng, nmin=1, nmax=3)
        c.update({'kind': 'prune_expand', 'union': rng.random() < 0.5 if union is None else union,
                  'sparse': rng.random() < 0.5, 'trim': False,
                  'keep_seed': rng.randrange(2 ** 31) if rng.random() < 0.6 else None})
        if rng.random() < 0.3 if explicit is None else explicit:
            # expanded_samplespace(d, alphabets): one alphabet per variable, each the variable's alphabet and these extras
            c['alph_extra'] = [sorted(rng.sample(range(6), rng.randint(0, 2))) for _ in range(c['n'])]
            c['alph_form'] = rng.choice(['list', 'tuple'])
        return c

    def gen_prune_expand_scalar(self, rng):
        """A ScalarDistribution (outcomes: numbers or one-letter strings) through pruned_samplespace (with and without
        outcomes to keep) and expanded_samplespace(d, alphabets) with alphabets = the new sample space."""
        klass = rng.choice(['tuple', 'tuple2', 'str2'])
        k = rng.randint(1, 5)
        ranks = sorted(rng.sample(range(8), k))
        pv, _ = gen.rand_prob_vector(rng, k)
        rest = [x for x in range(10) if x not in ranks]
        return {'kind': 'prune_expand_scalar', 'klass': klass, 'outs': [[x] for x in ranks], 'pmf': [str(p) for p in pv],
                'base': rng.choice(gen.BASES), 'sparse': rng.random() < 0.5, 'trim': rng.random() < 0.5,
                'keep': [x for x in ranks if rng.random() < 0.4] if rng.random() < 0.6 else None,
                'extra': sorted(rng.sample(rest, rng.randint(0, 3)))}

    def gen_example(self, rng):
        which = rng.choice(['giant_bit', 'n_mod_m', 'iid_sum', 'summed_dice', 'gates', 'binomial', 'hypergeometric',
                            'bernoulli', 'uniform_ab'])
        p = {'which': which, 'kind': 'example'}
        if which == 'giant_bit':
            p.update(n=rng.randint(1, 4), k=rng.randint(1, 4))
        elif which == 'n_mod_m':
            p.update(n=rng.randint(1, 4), m=rng.randint(1, 4))
        elif which == 'iid_sum':
            p.update(n=rng.randint(1, 3), k=rng.randint(1, 4))
        elif which == 'summed_dice':
            p.update(a=str(rng.choice([Fraction(1), Fraction(0), Fraction(1, 2), Fraction(1, 4)])), b=rng.choice([1, 2, -1]))
        elif which == 'gates':
            p.update(gate=rng.choice(['Xor', 'And', 'Or']), k=rng.randint(2, 4))
        elif which in ('binomial', 'bernoulli'):
            p.update(n=rng.randint(0, 6), p=str(rng.choice([Fraction(0), Fraction(1), Fraction(1, 2), Fraction(1, 4), Fraction(3, 8)])))
        elif which == 'hypergeometric':
            N = rng.randint(1, 6)
            p.update(N=N, K=rng.randint(0, N), n=rng.randint(0, N))
        else:
            a = rng.randint(-3, 3)
            p.update(a=a, b=rng.choice([None, a + rng.randint(1, 5)]))
            if p['b'] is None and a <= 0:
                p['a'] = 3
        return p

    def gen_stats(self, rng):
        a = self.scalar_case(rng, base='linear')
        if rng.random() < 0.3 and len(a['outs']) >= 2:
            # near ties: the mode is the strict maximum however close the runner-up is
            k = len(a['outs'])
            base = [Fraction(1, k)] * k
            eps = Fraction(1, rng.choice([10 ** 6, 10 ** 7, 3 * 10 ** 6]))
            i, j = rng.sample(range(k), 2)
            base[i] += eps
            base[j] -= eps
            a['pmf'] = [str(p) for p in base]
        return {'kind': 'stats', 'a': a, 'k': rng.randint(0, 4)}

    # A history on one object: queries of the statistics interleaved with changes of the probabilities.
    MUTATIONS = ['assign', 'assign', 'assign', 'set_norm', 'set_norm', 'del_norm', 'dense', 'sparse', 'copy', 'rebase',
                 'grid']

    def gen_stats_query(self, rng):
        which = rng.choice([STAT_NAMES, rng.sample(STAT_NAMES, rng.randint(1, 3)), [rng.choice(STAT_NAMES[:4])]])
        return {'op': 'query', 'stats': sorted(which), 'k': rng.randint(0, 4)}

    def gen_stats_seq(self, rng):
        joint = rng.random() < 0.4
        if joint:
            n = rng.randint(1, 3)
            alph = [sorted(rng.sample(range(-2, 5), rng.randint(1, 3))) for _ in range(n)]
            if all(len(a) == 1 for a in alph):
                alph[rng.randrange(n)] = sorted(rng.sample(range(-2, 5), 2))
            space = [list(o) for o in itertools.product(*alph)]
            outs = sorted(rng.sample(space, rng.randint(1, min(5, len(space)))))
            # every letter of every alphabet occurs in a listed outcome (possibly with probability zero)
            for i, a in enumerate(alph):
                for sym in a:
                    if not any(o[i] == sym for o in outs):
                        outs.append(rng.choice([o for o in space if o[i] == sym and o not in outs]))
            outs.sort()
        else:
            outs = sorted(rng.sample(range(-3, 6), rng.randint(1, 4)))
            space = list(outs)
        pv, _ = gen.rand_prob_vector(rng, len(outs), rng.choice(['dyadic', 'small', 'uneven']))
        sparse = rng.random() < 0.5
        steps = []
        if rng.random() < 0.85:
            steps.append(self.gen_stats_query(rng))
        for _ in range(rng.randint(1, 4)):
            op = rng.choice(self.MUTATIONS)
            st = {'op': op}
            if op == 'assign':
                supp = rng.sample(space, rng.randint(1, min(4, len(space))))
                nv, _ = gen.rand_prob_vector(rng, len(supp), rng.choice(['dyadic', 'small', 'uneven']))
                st.update(table=[[o, str(p)] for o, p in zip(supp, nv)], via=rng.choice(['setitem', 'pmf', 'pmfslice']))
            elif op == 'set_norm':
                st.update(out=rng.choice(space), p=str(rng.choice([Fraction(1, 4), Fraction(1, 2), Fraction(3, 4), Fraction(1),
                                                                  Fraction(2), Fraction(1, 3), Fraction(5, 8)])))
            elif op == 'del_norm':
                st.update(out=rng.choice(space))
            elif op == 'rebase':
                st.update(base=rng.choice([2, 'e', 10]))
            elif op == 'grid':
                st.update(sub=rng.randint(1, 4), visit=sorted(rng.sample(range(12), rng.randint(1, 3))), k=rng.randint(0, 4),
                          stats=sorted(rng.sample(STAT_NAMES[:4], rng.randint(1, 4))))
            steps.append(st)
            if rng.random() < 0.8:
                steps.append(self.gen_stats_query(rng))
        if steps[-1]['op'] != 'query' and steps[-1]['op'] != 'grid':
            steps.append(self.gen_stats_query(rng))
        return {'kind': 'stats_seq', 'joint': joint, 'outs': outs, 'pmf': [str(p) for p in pv], 'sparse': sparse,
                'trim': sparse and rng.random() < 0.7, 'steps': steps,
                # the statistics are also asked of a copy of the object held as log-probabilities ("numeric distributions",
                # whatever the base)
                'logbase': rng.choice([None, 2, 2, 'e', 10, 3.5, 0.5, 0.5]),
                # the object of the history may ITSELF be held as log-probabilities: it is re-based in place right after
                # construction, every later write stores the logarithm of the new probability, and the statistics are
                # asked of that very object before and after each change
                'hold': rng.choice([None, None, 2, 2, 'e', 10, 3.5, 0.5])}

    def shrink(self, case):
        if case.get('kind') != 'stats_seq':
            return []
        out = []
        steps = case['steps']
        for i in range(len(steps)):
            if len(steps) > 1:
                c = dict(case)
                c['steps'] = steps[:i] + steps[i + 1:]
                out.append(c)
        for i, st in enumerate(steps):
            if st['op'] in ('query', 'grid') and len(st['stats']) > 1:
                for name in st['stats']:
                    c = dict(case)
                    c['steps'] = steps[:i] + [dict(st, stats=[name])] + steps[i + 1:]
                    out.append(c)
        return out

    # ------------------------------------------------------------------ helpers
    def scalar_build(self, s):
        dit = import_dit()
        vals = [gen.log_of(Fraction(p), s['base']) for p in s['pmf']]
        return dit.ScalarDistribution(list(s['outs']), vals, base=s['base'], trim=False)

    @staticmethod
    def table_agrees(got, want, base, exact):
        """got: {key: stored float}; want: {key: Fraction}. Null entries may be absent."""
        for k in set(got) | set(want):
            w = Fraction(want.get(k, 0))
            if k not in got:
                if w != 0 and abs(float(w)) > 1e-8:
                    return 'outcome %s missing (expected %s)' % (k, w)
                continue
            if not gen.value_agrees(got[k], w, base, exact=exact):
                if abs(float(w)) <= 1e-8 and gen.lin_of(got[k], base) == 0:
                    continue
                return 'P(%s): got %r (base %s), expected %s' % (k, got[k], base, w)
        return None

    # ------------------------------------------------------------------ execution
    def run(self, case, drv):
        r = core.Result()
        kind = case['kind']
        r.site = 'C11.' + kind + (':' + case['which'] if kind in ('example', 'uniform') else '')
        a = case.get('a')
        r.features = ['kind=%s' % kind, 'base=%s' % case.get('base', a.get('base') if isinstance(a, dict) else None)]
        try:
            getattr(self, 'run_' + kind)(case, drv, r)
        except Exception as e:  # noqa
            import traceback
            if isinstance(e, core.DriverError):
                raise
            r.oracle_fail = '%s raised %s: %s' % (kind, type(e).__name__, str(e)[:160])
            r.detail = {'traceback': traceback.format_exc()[-600:]}
        return r

    def run_modify(self, case, drv, r):
        dit = import_dit()
        klass = case['klass']
        d = gen.build(case)
        mp = {gen.to_py(a, klass): gen.to_py(b, klass) for a, b in case['map']}
        m = dit.modify_outcomes(d, lambda o: mp.get(o, o))
        src = {tuple(o): Fraction(p) for o, p in zip(case['outs'], case['pmf'])}
        tab = [[list(k), q(src.get(k, 0))] for k in [tuple(gen.from_py(x, klass)) for x in d.outcomes]]
        mo = drv.call('modify', [tab, case['map']])
        want = {tuple(o): unq(v) for o, v in mo}
        got = {tuple(gen.from_py(o, klass)): float(v) for o, v in zip(m.outcomes, m.pmf)}
        exact = gen.is_dyadic(case) and case['base'] == 'linear'
        r.nontrivial = len(want) < len(tab) or len(want) >= 3
        r.mismatch = self.table_agrees(got, want, case['base'], exact)
        # oracle: fibre sums
        ref = {}
        mm = dict((tuple(a), b) for a, b in case['map'])
        for o, p in zip(case['outs'], case['pmf']):
            key = tuple(mm[tuple(o)])
            ref[key] = ref.get(key, 0) + Fraction(p)
        r.oracle_fail = self.table_agrees(got, ref, case['base'], exact)
        if not r.oracle_fail and m.get_base() != case['base']:
            r.oracle_fail = 'base of the result is %r' % (m.get_base(),)

    def run_insert_rvf(self, case, drv, r):
        dit = import_dit()
        klass = case['klass']
        d = gen.build(case)
        mp = {gen.to_py(a, klass): gen.to_py(b, klass) for a, b in case['map']}
        mlen = len(case['map'][0][1])
        fullmap = dict((tuple(a), list(b)) for a, b in case['map'])
        for x in d.outcomes:
            fullmap.setdefault(tuple(gen.from_py(x, klass)), [0] * mlen)
        mp = {gen.to_py(list(a), klass): gen.to_py(b, klass) for a, b in fullmap.items()}
        if mlen >= 2 and case['index'] % 2 == 0:
            # a list of functions, one per appended variable
            funcs = [(lambda o, j=j: mp[o][j:j + 1]) for j in range(mlen)]
            m = dit.insert_rvf(d, funcs, index=case['index'])
        else:
            m = dit.insert_rvf(d, lambda o: mp[o], index=case['index'])
        src = {tuple(o): Fraction(p) for o, p in zip(case['outs'], case['pmf'])}
        tab = [[list(k), q(src.get(k, 0))] for k in [tuple(gen.from_py(x, klass)) for x in d.outcomes]]
        mo = drv.call('insertrvf', [tab, [[list(a), b] for a, b in fullmap.items()], None if case['index'] == -1 else case['index']])
        want = {tuple(o): unq(v) for o, v in mo}
        got = {tuple(gen.from_py(o, klass)): float(v) for o, v in zip(m.outcomes, m.pmf)}
        exact = case['base'] == 'linear'
        r.nontrivial = len(tab) >= 2
        r.mismatch = self.table_agrees(got, want, case['base'], exact)
        n = case['n']
        i = n if case['index'] == -1 else case['index']
        old = list(range(i)) + list(range(i + mlen, n + mlen))
        back = m.marginal(old)
        gb = {tuple(gen.from_py(o, klass)): float(v) for o, v in zip(back.outcomes, back.pmf)}
        ref = {tuple(o): Fraction(p) for o, p in zip(case['outs'], case['pmf'])}
        r.oracle_fail = self.table_agrees(gb, ref, case['base'], False)
        if r.oracle_fail:
            r.oracle_fail = 'the old variables\' joint changed: ' + r.oracle_fail
        elif any(tuple(k[i:i + mlen]) != tuple(fullmap[tuple(k[:i] + k[i + mlen:])]) for k in got):
            r.oracle_fail = 'inserted symbols are not the function values'

    def run_product(self, case, drv, r):
        dit = import_dit()
        klass = case['klass']
        names = case.get('names')
        d = gen.build(case)
        groups = case['groups']
        outbase = case.get('outbase')
        kw = {} if outbase is None else {'base': outbase}
        eb = case['base'] if outbase is None else outbase      # the base the product is to come back in
        r.features.append('outbase=%s' % (outbase,))
        if groups is None:
            p = dit.product_distribution(d, **kw)
            g = [[i] for i in range(case['n'])]
        else:
            # product_distribution takes each group's marginal, and marginal() keeps variable order:
            # within a group the variables come out sorted by index
            g = [sorted(x) for x in groups]
            if case['byname']:
                p = dit.product_distribution(d, [[names[i] for i in x] for x in groups], rv_mode='names', **kw)
            else:
                p = dit.product_distribution(d, groups, rv_mode='indices', **kw)
        tab = [[gen.from_py(o, klass), q(Fraction(gen.lin_of(v, case['base'])))] for o, v in zip(d.outcomes, d.pmf)]
        src = {tuple(o): Fraction(pp) for o, pp in zip(case['outs'], case['pmf'])}
        tab = [[list(o), q(src.get(o, 0))] for o in [tuple(gen.from_py(x, klass)) for x in d.outcomes]]
        mo = drv.call('product', [tab, g])
        want = {tuple(o): unq(v) for o, v in mo}
        got = {tuple(gen.from_py(o, klass)): float(v) for o, v in zip(p.outcomes, p.pmf)}
        r.features.append('byname=%s' % case['byname'])
        r.nontrivial = len(g) >= 2 and len(want) >= 3
        r.mismatch = self.table_agrees(got, want, eb, False)
        # oracle: product of marginals, group marginals preserved
        ref = {}
        margs = []
        for grp in g:
            mg = {}
            for o, pp in src.items():
                key = tuple(o[i] for i in grp)
                mg[key] = mg.get(key, 0) + pp
            margs.append(mg)
        for combo in itertools.product(*[list(mg.items()) for mg in margs]):
            key = tuple(s for k, _ in combo for s in k)
            val = Fraction(1)
            for _, v in combo:
                val *= v
            ref[key] = ref.get(key, 0) + val
        r.oracle_fail = self.table_agrees(got, ref, eb, False)
        if not r.oracle_fail and p.get_base() != eb:
            r.oracle_fail = 'base of the product is %r, source %r, requested %r' % (p.get_base(), case['base'], outbase)

    def run_mixture(self, case, drv, r, aligned=False):
        dit = import_dit()
        klass = case['klass']
        base = case['base']
        ds = []
        for comp in case['comps']:
            outs = [gen.to_py(o, klass) for o in comp['outs']]
            vals = [gen.log_of(Fraction(p), base) for p in comp['pmf']]
            if case.get('space'):
                ds.append(dit.Distribution(outs, vals, base=base, trim=False, sparse=True,
                                           sample_space=[gen.to_py(o, klass) for o in case['space']]))
            else:
                ds.append(dit.Distribution(outs, vals, base=base, trim=False, sparse=True))
        w = [Fraction(x) for x in case['w']]
        wv = [gen.log_of(x, base) for x in w]
        if aligned:
            m = dit.mixture_distribution2(ds, wv)
        else:
            same = all(set(map(tuple, c['outs'])) == set(map(tuple, case['comps'][0]['outs'])) for c in case['comps'])
            merge = True if not same else bool(len(case['comps']) % 2)
            if 'merge' in case:
                # merge=False is legal when every component can be asked for every outcome: the same outcomes listed,
                # or one common sample space
                merge = case['merge'] or not (same or case.get('space'))
            r.features += ['merge=%s' % merge, 'shape=%s' % case.get('shape')]
            m = dit.mixture_distribution(ds, wv, merge=merge)
        tabs = []
        for dd, comp in zip(ds, case['comps']):
            src = {tuple(o): Fraction(p) for o, p in zip(comp['outs'], comp['pmf'])}
            tabs.append([[list(k), q(src.get(k, 0))] for k in [tuple(gen.from_py(x, klass)) for x in dd.outcomes]])
        mo = drv.call('mixture', ['aligned' if aligned else 'merge', tabs, [q(x) for x in w]])
        want = {tuple(o): unq(v) for o, v in mo}
        got = {tuple(gen.from_py(o, klass)): float(v) for o, v in zip(m.outcomes, m.pmf)}
        r.nontrivial = len(case['comps']) >= 2 and len(want) >= 2
        r.mismatch = self.table_agrees(got, want, base, False)
        ref = {}
        for comp, wi in zip(case['comps'], w):
            for o, p in zip(comp['outs'], comp['pmf']):
                ref[tuple(o)] = ref.get(tuple(o), 0) + wi * Fraction(p)
        r.oracle_fail = self.table_agrees(got, ref, base, False)
        if not r.oracle_fail:
            tot = sum(gen.lin_of(v, base) for v in m.pmf)
            if abs(tot - 1) > 1e-9:
                r.oracle_fail = 'mixture has total mass %r' % tot

    def run_mixture2(self, case, drv, r):
        self.run_mixture(case, drv, r, aligned=True)

    def run_combine(self, case, drv, r):
        dit = import_dit()
        a, b = case['a'], case['b']
        opn, form = case['op'], case['form']
        # __div__ / __rdiv__ are documented as the division X / Y (their examples are those of __truediv__)
        op = OPS['truediv' if opn == 'div' else opn]
        da, db = self.scalar_build(a), self.scalar_build(b)
        ta = [[q(Fraction(o)), q(Fraction(p))] for o, p in zip(a['outs'], a['pmf'])]
        tb = [[q(Fraction(o)), q(Fraction(p))] for o, p in zip(b['outs'], b['pmf'])]
        num = case['num']
        if form == 'dn':
            tb = [[num, 1]]
        elif form == 'nd':
            ta, tb = [[num, 1]], ta
        r.features += ['op=%s' % opn, 'form=%s' % form]
        mo = drv.call('combine', ['truediv' if opn == 'div' else opn, ta, tb])
        if mo is None:
            r.features.append('division-by-zero-skipped')
            return
        if opn == 'div':
            res = da.__div__(db) if form == 'dd' else da.__div__(num) if form == 'dn' else da.__rdiv__(num)
        elif form == 'dd':
            res = op(da, db)
        elif form == 'dn':
            res = op(da, num)
        else:
            res = op(num, da)
        want = {}
        for o, v in mo:
            want[float(unq(o))] = want.get(float(unq(o)), 0) + unq(v)
        got = {}
        for o, v in zip(res.outcomes, res.pmf):
            got[float(o)] = v
        base = a['base']
        r.nontrivial = len(want) >= 3 or len(want) < len(ta) * len(tb)
        r.mismatch = self.table_agrees(got, want, base, False)
        # oracle: the law of op(X, Y) for independent X, Y
        xs = [(Fraction(o), Fraction(p)) for o, p in zip(a['outs'], a['pmf'])]
        ys = [(Fraction(o), Fraction(p)) for o, p in zip(b['outs'], b['pmf'])]
        if form == 'dn':
            ys = [(Fraction(num), Fraction(1))]
        elif form == 'nd':
            xs, ys = [(Fraction(num), Fraction(1))], xs
        ref = {}
        for (x, px), (y, py) in itertools.product(xs, ys):
            xi, yi = (int(x) if x.denominator == 1 else x), (int(y) if y.denominator == 1 else y)
            key = float(op(xi, yi))
            ref[key] = ref.get(key, 0) + px * py
        r.oracle_fail = self.table_agrees(got, ref, base, False)
        if not r.oracle_fail and res.get_base() != base:
            r.oracle_fail = 'result base %r, operand base %r' % (res.get_base(), base)

    def run_matmul(self, case, drv, r):
        dit = import_dit()
        a, b = case['a'], case['b']
        da, db = self.scalar_build(a), self.scalar_build(b)
        r.features += ['reflected=%s' % bool(case.get('reflected')), 'samebase=%s' % (a['base'] == b['base'])]
        res = db.__rmatmul__(da) if case.get('reflected') else da @ db
        ta = [[q(Fraction(o)), q(Fraction(p))] for o, p in zip(a['outs'], a['pmf'])]
        tb = [[q(Fraction(o)), q(Fraction(p))] for o, p in zip(b['outs'], b['pmf'])]
        mo = drv.call('matmul', [ta, tb])
        want = {tuple(float(unq(x)) for x in o): unq(v) for o, v in mo}
        got = {tuple(float(x) for x in o): v for o, v in zip(res.outcomes, res.pmf)}
        r.nontrivial = len(want) >= 3
        r.mismatch = self.table_agrees(got, want, a['base'], False)
        r.oracle_fail = r.mismatch
        if not r.oracle_fail and (not res.is_joint() or res.outcome_length() != 2):
            r.oracle_fail = '@ did not produce a joint distribution of two variables'
        if not r.oracle_fail and res.get_base() != a['base']:
            r.oracle_fail = 'result base %r, left operand base %r' % (res.get_base(), a['base'])

    def run_uniform(self, case, drv, r):
        dit = import_dit()
        w = case['which']
        base = case['base']
        r.nontrivial = True
        if w == 'scalar':
            d = dit.uniform_scalar_distribution(case['n'], base=base)
            outs = [(i,) for i in range(case['n'])]
            got = {(o,): v for o, v in zip(d.outcomes, d.pmf)}
        elif w == 'dist-int':
            d = dit.uniform_distribution(case['L'], case['k'], base=base)
            outs = list(itertools.product(range(case['k']), repeat=case['L']))
            got = {tuple(o): v for o, v in zip(d.outcomes, d.pmf)}
        elif w == 'dist-alph':
            alph = [tuple(range(1 + (i + case['k']) % 3)) for i in range(case['L'])]
            d = dit.uniform_distribution(case['L'], alph, base=base)
            outs = list(itertools.product(*alph))
            got = {tuple(o): v for o, v in zip(d.outcomes, d.pmf)}
        elif w == 'like':
            src = gen.build(case['src'])
            d = dit.uniform_like(src)
            base = src.get_base()
            outs = [tuple(o) for o in itertools.product(*src.alphabet)]
            got = {tuple(o): v for o, v in zip(d.outcomes, d.pmf)}
        else:
            src = case['src']
            pouts = [gen.to_py(o, src['klass']) for o in src['outs']]
            d = dit.uniform(pouts, base=base)
            outs = [tuple(o) for o in pouts]
            got = {tuple(o): v for o, v in zip(d.outcomes, d.pmf)}
        eb = 'linear' if base is None else base
        ref = {o: Fraction(1, len(outs)) for o in outs}
        r.oracle_fail = self.table_agrees(got, ref, eb, False)
        if not r.oracle_fail and d.get_base() != eb:
            r.oracle_fail = 'base %r, requested %r' % (d.get_base(), eb)
        mo = drv.call('uniform', [[[0]] * 0 + [[i] for i in range(len(outs))]])
        if any(unq(v) != Fraction(1, len(outs)) for _, v in mo):
            r.mismatch = 'model uniform table differs'

    def run_noisy(self, case, drv, r):
        dit = import_dit()
        klass = case['klass']
        d = gen.build(case)
        noise = Fraction(case['noise'])
        m = dit.noisy(d, float(noise))
        alph = [sorted(gen.UNIVERSE[klass].index(s) for s in a) for a in d.alphabet]
        src = {tuple(o): Fraction(p) for o, p in zip(case['outs'], case['pmf'])}
        tab = [[list(k), q(src.get(k, 0))] for k in [tuple(gen.from_py(x, klass)) for x in d.outcomes]]
        mo = drv.call('noisy', [tab, alph, q(noise)])
        want = {tuple(o): unq(v) for o, v in mo}
        got = {tuple(gen.from_py(o, klass)): float(v) for o, v in zip(m.outcomes, m.pmf)}
        r.nontrivial = len(want) >= 3 and 0 < noise < 1
        r.mismatch = self.table_agrees(got, want, 'linear', False)
        N = 1
        for a in alph:
            N *= len(a)
        ref = {}
        for o in itertools.product(*alph):
            ref[tuple(o)] = (1 - noise) * src.get(tuple(o), 0) + noise / N
        r.oracle_fail = self.table_agrees(got, ref, 'linear', False)

    def run_erasure(self, case, drv, r):
        dit = import_dit()
        klass = case['klass']
        d = gen.build(case)
        eps = Fraction(case['eps'])
        m = dit.erasure(d, float(eps))
        src = {tuple(o): Fraction(p) for o, p in zip(case['outs'], case['pmf'])}
        tab = [[list(k), q(src.get(k, 0))] for k in [tuple(gen.from_py(x, klass)) for x in d.outcomes]]
        E = 99
        mo = drv.call('erasure', [tab, E, q(eps)])
        want = {tuple(o): unq(v) for o, v in mo}
        u = gen.UNIVERSE[klass]
        got = {}
        for o, v in zip(m.outcomes, m.pmf):
            got[tuple(E if s == '_' else u.index(s) for s in o)] = float(v)
        r.nontrivial = len(want) >= 3
        r.mismatch = self.table_agrees(got, want, 'linear', False)
        ref = {}
        for o, p in src.items():
            for mask in itertools.product([0, 1], repeat=len(o)):
                key = tuple(E if b else s for s, b in zip(o, mask))
                k = sum(mask)
                ref[key] = ref.get(key, 0) + p * eps ** k * (1 - eps) ** (len(o) - k)
        r.oracle_fail = self.table_agrees(got, ref, 'linear', False)

    def run_prune_expand(self, case, drv, r):
        dit = import_dit()
        from dit.algorithms import pruned_samplespace, expanded_samplespace
        klass = case['klass']
        d = gen.build(case)
        base = case['base']
        src = gen.obs_py(d, klass)
        positive = [o for o, v in zip(src['space'], src['lookups']) if gen.lin_of(v, base) != 0]
        # outcomes to keep although they have probability zero (and, harmlessly, some that have not)
        keep = []
        if case.get('keep_seed') is not None:
            import random as _r
            kr = _r.Random(case['keep_seed'])
            keep = [o for o in src['space'] if kr.random() < 0.4]
        r.features.append('keep=%d' % len(keep))
        pd = pruned_samplespace(d, [gen.to_py(o, klass) for o in keep]) if keep else pruned_samplespace(d)
        given = None
        if case.get('alph_extra') is not None:
            # explicit alphabets (sorted, as the default ones are): the variable's alphabet plus extra symbols
            given = [sorted(set(a) | set(x)) for a, x in zip(src['alphabets'], case['alph_extra'])]
            u = gen.UNIVERSE[klass]
            seq = list if case.get('alph_form') == 'list' else tuple
            ed = expanded_samplespace(d, [seq(u[s] for s in a) for a in given], union=case['union'])
        else:
            ed = expanded_samplespace(d, union=case['union'])
        r.features.append('alphabets=%s' % ('default' if given is None else 'given-' + str(case.get('alph_form'))))
        positive = [o for o in src['space'] if o in positive or o in keep]
        op_, oe = gen.obs_py(pd, klass), gen.obs_py(ed, klass)
        r.nontrivial = len(positive) < len(src['space'])
        look = lambda ob: {tuple(o): gen.lin_of(v, base) for o, v in zip(ob['space'], ob['lookups'])}
        if sorted(map(tuple, op_['space'])) != sorted(map(tuple, positive)):
            r.oracle_fail = 'pruned sample space %s is not the support plus the outcomes to keep %s' % (op_['space'], positive)
        elif any(abs(look(op_)[tuple(o)] - look(src)[tuple(o)]) > 1e-12 for o in positive):   # kept nulls read as 0
            r.oracle_fail = 'pruning changed a probability'
        else:
            n = case['n']
            alph = [sorted(set(a)) for a in src['alphabets']] if given is None else given
            if case['union']:
                un = sorted(set().union(*alph))
                alph = [un] * n
            want_space = [list(o) for o in itertools.product(*alph)]
            if sorted(map(tuple, oe['space'])) != sorted(map(tuple, want_space)):
                r.oracle_fail = 'expanded sample space is not the Cartesian product of the %salphabets%s' % (
                    'union of the ' if case['union'] else '', '' if given is None else ' given: %s' % given)
            elif any(abs(look(oe).get(tuple(o), 0.0) - p) > 1e-8 for o, p in look(src).items()):
                r.oracle_fail = 'expansion changed a probability'
            elif abs(sum(look(oe).values()) - sum(look(src).values())) > 1e-7:   # entries within the null tolerance may be dropped
                r.oracle_fail = 'expansion changed the total mass'
        # correspondence with Core/PruneExpand.lean (the rebuilt distribution's whole observable record)
        if base == 'linear' and not r.oracle_fail:
            dj = gen.dist_json(d, klass)
            # expansion with given alphabets = default expansion of the same table seated on their Cartesian product
            de = dj if given is None else [['cart', given]] + dj[1:]
            for name, args, ob in (('prune', [dj, keep], op_), ('expand', [de, bool(case['union'])], oe)):
                mo = drv.call(name, args)
                if mo[0] != 'ok':
                    r.mismatch = '%s: the model rejects the rebuilt distribution (%s)' % (name, mo[1])
                    break
                diff = gen.compare_obs(ob, gen.obs_model(mo[1]), exact=False)
                if diff:
                    r.mismatch = '%s: %s' % (name, diff)
                    break

    def run_prune_expand_scalar(self, case, drv, r):
        dit = import_dit()
        from dit.algorithms import pruned_samplespace, expanded_samplespace
        klass, base = case['klass'], case['base']
        u = gen.UNIVERSE[klass]
        inv = {s: i for i, s in enumerate(u)}
        ranks = [o[0] for o in case['outs']]
        T = {x: Fraction(p) for x, p in zip(ranks, case['pmf'])}
        d = dit.ScalarDistribution([u[x] for x in ranks], [gen.log_of(T[x], base) for x in ranks], base=base,
                                   sparse=case['sparse'], trim=case['trim'])
        keep = case['keep']
        r.features += ['klass=%s' % klass, 'keep=%s' % (None if keep is None else len(keep)), 'extra=%d' % len(case['extra'])]
        r.nontrivial = any(p == 0 for p in T.values()) or bool(case['extra'])

        def obs(x):
            sp = list(x.sample_space())
            return {'space': [[inv[o]] for o in sp], 'alphabets': [sorted(inv[o] for o in x.alphabet)],
                    'tab': [[[inv[o]], float(v)] for o, v in zip(x.outcomes, x.pmf)], 'sparse': bool(x.is_sparse()),
                    'base': x.get_base(), 'lookups': [float(x[o]) for o in sp]}

        def judge(x, what, want_space):
            if type(x) is not dit.ScalarDistribution or x.is_joint():
                return '%s of a ScalarDistribution is a %s' % (what, type(x).__name__)
            if x.get_base() != base:
                return '%s: base %r, source %r' % (what, x.get_base(), base)
            ob = obs(x)
            if sorted(o[0] for o in ob['space']) != sorted(want_space):
                return '%s: sample space %s, expected %s' % (what, [o[0] for o in ob['space']], sorted(want_space))
            got = {(o[0],): v for o, v in zip(ob['space'], ob['lookups'])}
            bad = self.table_agrees(got, {(x_,): T.get(x_, Fraction(0)) for x_ in want_space}, base, False)
            if bad:
                return '%s changed a probability: %s' % (what, bad)
            return None

        # pruned: the outcomes that are not exactly null, plus the null outcomes to keep
        pd = pruned_samplespace(d) if keep is None else pruned_samplespace(d, [u[x] for x in keep])
        want_p = [x for x in ranks if T[x] != 0 or x in (keep or [])]
        # expanded with given alphabets: the sample space given (the old one and extra outcomes)
        want_e = sorted(ranks + case['extra'])
        ed = expanded_samplespace(d, [u[x] for x in want_e], union=bool(len(case['extra']) % 2))
        r.oracle_fail = judge(pd, 'pruned_samplespace', want_p) or judge(ed, 'expanded_samplespace', want_e)
        # expanded with the default alphabets=None: the one variable's alphabet, i.e. the (sorted) old sample space
        # (this call used to raise TypeError for every ScalarDistribution; repaired in /repo 511aef5)
        ed0 = None
        if not r.oracle_fail:
            try:
                ed0 = expanded_samplespace(d, union=bool(len(ranks) % 2))
            except Exception as e:  # noqa
                r.oracle_fail = 'expanded_samplespace(d) with the default alphabets raised %s: %s for the ScalarDistribution %s' % (
                    type(e).__name__, str(e)[:120], dict(zip(d.outcomes, d.pmf)))
            else:
                r.oracle_fail = judge(ed0, 'expanded_samplespace (default alphabets)', ranks)
        # correspondence with Core/PruneExpand.lean: the scalar distribution as a joint of one variable
        if base == 'linear' and not r.oracle_fail:
            tab = [[[inv[o]], q(Fraction(float(v)))] for o, v in zip(d.outcomes, d.pmf)]
            dj = [['expl', [[inv[o]] for o in d.sample_space()]], tab, bool(d.is_sparse()), gen.BASE_ID[base]]
            de = [['cart', [want_e]]] + dj[1:]
            for name, args, x in (('prune', [dj, [[k] for k in (keep or [])]], pd), ('expand', [de, False], ed),
                                  ('expand', [dj, False], ed0)):
                mo = drv.call(name, args)
                if mo[0] != 'ok':
                    r.mismatch = '%s: the model rejects the rebuilt distribution (%s)' % (name, mo[1])
                    break
                diff = gen.compare_obs(obs(x), gen.obs_model(mo[1]), exact=False)
                if diff:
                    r.mismatch = '%s (scalar): %s' % (name, diff)
                    break

    def run_example(self, case, drv, r):
        dit = import_dit()
        import dit.example_dists as ex
        w = case['which']
        r.nontrivial = True
        F = Fraction
        if w == 'giant_bit':
            d = ex.giant_bit(case['n'], case['k'])
            ref = {str(a) * case['n']: F(1, case['k']) for a in range(case['k'])}
        elif w == 'n_mod_m':
            n, m = case['n'], case['m']
            d = ex.n_mod_m(n, m)
            ref = {}
            for wd in itertools.product(range(m), repeat=n - 1):
                ref[''.join(map(str, wd)) + str(sum(wd) % m)] = F(1, m ** (n - 1))
        elif w == 'iid_sum':
            n, k = case['n'], case['k']
            d = ex.iid_sum(n, k)
            ref = {o + (sum(o),): F(1, k ** n) for o in itertools.product(range(k), repeat=n)}
        elif w == 'summed_dice':
            a, b = F(case['a']), case['b']
            d = ex.summed_dice(float(a), b)
            ref = {(i, j, i + b * j): a / 36 + (1 - a) * (1 if i == j else 0) / 6
                   for i, j in itertools.product(range(1, 7), repeat=2)}
        elif w == 'gates':
            g, k = case['gate'], case['k']
            if g == 'Xor':
                d = ex.Xor()
                ref = {'%d%d%d' % (a, b, a ^ b): F(1, 4) for a in (0, 1) for b in (0, 1)}
            else:
                d = getattr(ex, g)(k)
                fn = all if g == 'And' else any
                ref = {''.join(map(str, o)) + ('1' if fn(o) else '0'): F(1, 2 ** k) for o in itertools.product((0, 1), repeat=k)}
        elif w in ('binomial', 'bernoulli'):
            n, p = (case['n'], F(case['p'])) if w == 'binomial' else (1, F(case['p']))
            d = ex.binomial(n, float(p)) if w == 'binomial' else ex.bernoulli(float(p))
            ref = {k: math.comb(n, k) * p ** k * (1 - p) ** (n - k) for k in range(n + 1)}
        elif w == 'hypergeometric':
            N, K, n = case['N'], case['K'], case['n']
            d = ex.hypergeometric(N, K, n)
            ref = {k: F(math.comb(K, k) * math.comb(N - K, n - k), math.comb(N, n)) for k in range(max(0, n + K - N), min(K, n) + 1)}
        else:
            a, b = case['a'], case['b']
            d = ex.uniform(a, b)
            lo, hi = (0, a) if b is None else (a, b)
            ref = {k: F(1, hi - lo) for k in range(lo, hi)}
        got = {o: float(v) for o, v in zip(d.outcomes, d.pmf)}
        r.oracle_fail = self.table_agrees(got, ref, d.get_base(), False)
        if not r.oracle_fail and abs(sum(gen.lin_of(v, d.get_base()) for v in d.pmf) - 1) > 1e-9:
            r.oracle_fail = 'not normalised'
        # correspondence with the model's constructor (Core/Examples.lean); outcomes become lists of naturals
        margs, off = None, 0
        if w in ('giant_bit', 'n_mod_m', 'iid_sum'):
            margs = [w, case['n'], case.get('k', case.get('m'))]
        elif w == 'summed_dice' and case['b'] >= 0:
            margs = [w, case['a'], case['b']]
        elif w == 'gates':
            margs = [case['gate'].lower(), 2 if case['gate'] == 'Xor' else case['k']]
        elif w in ('binomial', 'bernoulli'):
            margs = ['binomial', case['n'] if w == 'binomial' else 1, case['p']]
        elif w == 'hypergeometric':
            margs = [w, case['N'], case['K'], case['n']]
        elif w == 'uniform_ab':
            lo, hi = (0, case['a']) if case['b'] is None else (case['a'], case['b'])
            margs, off = ['uniform_range', hi - lo], lo
        if margs is not None:
            mo = drv.call('example', margs)
            want = {tuple(o): unq(v) for o, v in mo if unq(v) != 0}

            def key(o):
                if isinstance(o, str):
                    return tuple(int(ch) for ch in o)
                if isinstance(o, tuple):
                    return tuple(int(x) for x in o)
                return (int(o) - off,)
            gotk = {key(o): v for o, v in got.items() if gen.lin_of(v, d.get_base()) > 1e-12}
            r.mismatch = self.table_agrees(gotk, want, d.get_base(), False)

    def run_stats(self, case, drv, r):
        dit = import_dit()
        from dit.algorithms import stats as st
        a = case['a']
        k = case['k']
        d = self.scalar_build(a)
        rows = [(Fraction(o), Fraction(p)) for o, p in zip(a['outs'], a['pmf']) if Fraction(p) != 0]
        ta = [[q(o), q(p)] for o, p in rows]
        mean, cm, modes, cums = drv.call('stats', [ta, k])
        mean, cm = unq(mean), unq(cm)
        r.nontrivial = len(rows) >= 2
        vals = {'mean': (float(st.mean(d)), float(mean)), 'central_moment': (float(st.central_moment(d, k)), float(cm))}
        var = sum((o - mean) ** 2 * p for o, p in rows)
        vals['standard_deviation'] = (float(st.standard_deviation(d)), math.sqrt(float(var)))
        if var > 0:
            vals['standard_moment'] = (float(st.standard_moment(d, k)), float(cm) / math.sqrt(float(var)) ** k)
        for name, (g, w) in vals.items():
            if not (abs(g - w) <= 1e-12 + 1e-9 * abs(w)):
                r.mismatch = '%s: impl %r model %r' % (name, g, w)
                r.oracle_fail = '%s = %r, definition gives %r' % (name, g, w)
                return
        gm = sorted(float(x) for x in np.ravel(st.mode(d)[0]))
        wm = sorted(float(unq(x)) for x in modes)
        if gm != wm:
            r.mismatch = 'mode: impl %s model %s' % (gm, wm)
            r.oracle_fail = 'mode %s, outcomes of maximal probability %s' % (gm, wm)
            return
        med = float(st.median(d))
        cum = Fraction(0)
        lo = hi = None
        for o, p in sorted(rows):
            cum += p
            if hi is None and cum >= Fraction(1, 2):
                hi = o
            if lo is None and cum > Fraction(1, 2):
                lo = o
        want = float((lo + hi) / 2)
        if abs(med - want) > 1e-12:
            r.oracle_fail = 'median %r, definition gives %r' % (med, want)
        if k == 1 and abs(float(st.central_moment(d, 1))) > 1e-12:
            r.oracle_fail = 'first central moment is %r' % float(st.central_moment(d, 1))


    # ------------------------------------------------------------------ statistics along a history of one object
    @staticmethod
    def stats_definitions(rows, k):
        """The statistics of one numeric variable from their definitions. rows: [(x, p)] exact, p > 0, sum p = 1."""
        mean = sum(p * x for x, p in rows)
        cm = sum(p * (x - mean) ** k for x, p in rows)
        var = sum(p * (x - mean) ** 2 for x, p in rows)
        top = max(p for _, p in rows)
        cum = Fraction(0)
        lo = hi = None
        cums = []
        for x, p in sorted(rows):
            cum += p
            cums.append(cum)
            if hi is None and cum >= Fraction(1, 2):
                hi = x
            if lo is None and cum > Fraction(1, 2):
                lo = x
        return {'mean': mean, 'central_moment': cm, 'var': var, 'modes': sorted(x for x, p in rows if p == top),
                'median': (lo + hi) / 2, 'cums': cums,
                # distance of the maximum from the runner-up; 0 for an exact tie (mode() compares floats with ==, so a
                # tie is only decidable when every float sum involved is exact)
                'mode_margin': (Fraction(0) if sum(1 for _, p in rows if p == top) > 1
                                else min([top - p for _, p in rows if p != top] or [Fraction(1)]))}

    def run_stats_seq(self, case, drv, r):
        dit = import_dit()
        from dit.algorithms import stats as st
        joint = case['joint']
        key = (lambda o: tuple(int(x) for x in o)) if joint else (lambda o: int(o))
        outs = [key(o) for o in case['outs']]
        n = len(outs[0]) if joint else 1
        if joint:
            space = [tuple(o) for o in itertools.product(*[sorted(set(o[i] for o in outs)) for i in range(n)])]
            d = dit.Distribution(outs, [float(Fraction(p)) for p in case['pmf']], sparse=case['sparse'], trim=case['trim'])
        else:
            space = list(outs)
            d = dit.ScalarDistribution(outs, [float(Fraction(p)) for p in case['pmf']], sparse=case['sparse'], trim=case['trim'])
        T = {o: Fraction(0) for o in space}
        T.update({o: Fraction(p) for o, p in zip(outs, case['pmf'])})
        r.features += ['joint=%s' % joint, 'n=%d' % n, 'sparse=%s' % case['sparse'], 'steps=%d' % len(case['steps'])]
        tol = lambda g, w: abs(g - w) <= 1e-12 + 1e-9 * abs(w)
        hold = case.get('hold')
        if hold is not None:
            d.set_base(hold)
            r.features.append('held-in-log-base=%s' % hold)
        # the float that stores the exact probability p in the object (its logarithm when the object is held in a log base)
        enc = (lambda p: float(p)) if hold is None else (lambda p: gen.log_of(Fraction(p), hold))
        dec = (lambda v: float(v)) if hold is None else (lambda v: gen.lin_of(v, hold))
        state = {'d': d, 'T': T, 'changed': [], 'exact': True}

        def settable(os_):
            return all(state['d'].has_outcome(o, null=True) for o in os_)

        def readback():
            """The table of the object through d[o]; None if it is the table the history specifies."""
            dd, TT = state['d'], state['T']
            exact = True
            for o in space:
                if not dd.has_outcome(o, null=True):
                    if TT[o] != 0:
                        return 'P(%s) should be %s but the outcome left the sample space' % (o, TT[o])
                    continue
                v = dec(dd[o])
                if not tol(v, float(TT[o])):
                    return 'P(%s) reads %r, the history specifies %s' % (o, v, TT[o])
                den = TT[o].denominator
                if v != float(TT[o]) or den & (den - 1) or den > 2 ** 30:
                    exact = False
            # every probability is a dyadic stored without rounding: float sums are exact (never assumed of logarithms)
            state['exact'] = exact and hold is None
            return None

        def query(i, names, k, label):
            dd, TT = state['d'], state['T']
            bad = readback()
            if bad:
                r.mismatch = 'step %d (%s): %s' % (i, label, bad)
                return False
            positive = [(o, p) for o, p in TT.items() if p > 0]
            if state['changed'] and len(positive) >= 2:
                r.nontrivial = True
                r.features.append('query-after-change')
                if hold is not None:
                    r.features.append('query-after-change-of-log-object' + ('-queried-before' if state.get('asked') else ''))
            refs = []
            for c in range(n):
                mg = {}
                for o, p in positive:
                    x = Fraction(o[c] if joint else o)
                    mg[x] = mg.get(x, 0) + p
                rows = sorted(mg.items())
                ref = self.stats_definitions(rows, k)
                mo = drv.call('stats', [[[q(x), q(p)] for x, p in rows], k])
                ref['model'] = {'mean': unq(mo[0]), 'central_moment': unq(mo[1]), 'modes': sorted(unq(x) for x in mo[2])}
                refs.append(ref)
            where = 'step %d (%s; after %s)' % (i, label, ', '.join(state['changed'][-3:]) or 'construction')
            tab = '{%s}' % ', '.join('%s: %s' % (o, p) for o, p in sorted(positive))
            def ask(dd, exact, tag):
                where_ = where + tag
                for name in names:
                    if name == 'mode':
                        got = st.mode(dd)
                        if len(got) != n:
                            r.oracle_fail = '%s: mode has %d entries for %d variables' % (where_, len(got), n)
                            return False
                        for c, ref in enumerate(refs):
                            if not (exact or ref['mode_margin'] > Fraction(1, 10 ** 9)):
                                r.features.append('mode-unjudged-float-tie')
                                continue
                            gm = sorted(float(x) for x in np.ravel(got[c]))
                            if gm != [float(x) for x in ref['model']['modes']]:
                                r.mismatch = '%s: mode[%d] impl %s model %s' % (where_, c, gm, ref['model']['modes'])
                            if gm != [float(x) for x in ref['modes']]:
                                r.oracle_fail = '%s: mode[%d] = %s, outcomes of maximal probability are %s; table %s' % (
                                    where_, c, gm, [str(x) for x in ref['modes']], tab)
                                return False
                        continue
                    if name == 'median':
                        got = np.ravel(st.median(dd))
                        if len(got) != n:
                            r.oracle_fail = '%s: median has %d entries for %d variables' % (where_, len(got), n)
                            return False
                        # the median of each index is the median of that index's marginal (stats.median's docstring)
                        for c, ref in enumerate(refs):
                            if not (exact or all(abs(cu - Fraction(1, 2)) > Fraction(1, 10 ** 9) for cu in ref['cums'])):
                                r.features.append('median-unjudged-float-half')
                                continue
                            if joint:
                                r.features.append('median-joint-judged')
                            if abs(float(got[c]) - float(ref['median'])) > 1e-12:
                                r.oracle_fail = '%s: median[%d] = %s, definition gives %s; table %s' % (where_, c, got, ref['median'], tab)
                                return False
                        continue
                    if name == 'mean':
                        got = st.mean(dd)
                    elif name == 'central_moment':
                        got = st.central_moment(dd, k)
                    elif name == 'standard_deviation':
                        got = st.standard_deviation(dd)
                    else:
                        got = st.standard_moment(dd, k)
                    got = [float(x) for x in np.ravel(got)]
                    if len(got) != n:
                        r.oracle_fail = '%s: %s has %d entries for %d variables' % (where_, name, len(got), n)
                        return False
                    for c, ref in enumerate(refs):
                        model = None
                        if name == 'mean':
                            want, model = float(ref['mean']), float(ref['model']['mean'])
                        elif name == 'central_moment':
                            want, model = float(ref['central_moment']), float(ref['model']['central_moment'])
                        elif name == 'standard_deviation':
                            want = math.sqrt(float(ref['var']))
                        else:
                            if ref['var'] == 0:
                                r.features.append('standard_moment-unjudged-zero-variance')
                                continue
                            want = float(ref['central_moment']) / math.sqrt(float(ref['var'])) ** k
                        if model is not None and not tol(got[c], model):
                            r.mismatch = '%s: %s[%d] impl %r model %r' % (where_, name, c, got[c], model)
                        if not tol(got[c], want):
                            r.oracle_fail = '%s: %s%s[%d] = %r, definition gives %r; table %s' % (
                                where_, name, '' if name in ('mean', 'standard_deviation') else '(k=%d)' % k, c, got[c], want, tab)
                            return False
                return True
            if not ask(dd, state['exact'], '' if hold is None else ' [object held in log base %s]' % hold):
                return False
            state['asked'] = True
            lb = case.get('logbase')
            if lb is not None:
                # the same statistics of the same measure held as log-probabilities (float conversions: ties and the
                # half-way point of the median are judged only with a margin)
                r.features.append('stats-on-log-copy')
                if not ask(dd.copy(base=lb), False, ' [asked of its copy in log base %s]' % lb):
                    return False
            return True

        for i, step in enumerate(case['steps']):
            op = step['op']
            dd, TT = state['d'], state['T']
            if op == 'query':
                if not query(i, step['stats'], step['k'], 'query ' + '/'.join(step['stats'])):
                    return
                continue
            label = op
            if op == 'assign':
                new = {o: Fraction(0) for o in space}
                new.update({key(o): Fraction(p) for o, p in step['table']})
                if not settable([o for o in space if new[o] != TT[o]]):
                    r.features.append('step-skipped')
                    continue
                via = step['via']
                label = 'assign/' + via
                if via == 'setitem':
                    for o in space:
                        if new[o] != TT[o]:
                            dd[o] = enc(new[o])
                else:
                    stored = set(dd.outcomes)
                    for o in space:
                        if o not in stored and new[o] != 0:
                            dd[o] = enc(new[o])
                    vec = [enc(new[o]) for o in dd.outcomes]
                    if via == 'pmf':
                        for j, v in enumerate(vec):
                            dd.pmf[j] = v
                    else:
                        dd.pmf[:] = vec
                state['T'] = new
            elif op == 'set_norm':
                o, pnew = key(step['out']), Fraction(step['p'])
                if not settable([o]):
                    r.features.append('step-skipped')
                    continue
                dd[o] = enc(pnew)
                dd.normalize()
                TT[o] = pnew
                tot = sum(TT.values())
                state['T'] = {x: v / tot for x, v in TT.items()}
            elif op == 'del_norm':
                o = key(step['out'])
                if not settable([o]) or TT[o] == 1:
                    r.features.append('step-skipped')
                    continue
                del dd[o]
                dd.normalize()
                TT[o] = Fraction(0)
                tot = sum(TT.values())
                state['T'] = {x: v / tot for x, v in TT.items()}
            elif op == 'dense':
                dd.make_dense()
            elif op == 'sparse':
                dd.make_sparse()
            elif op == 'copy':
                state['d'] = dd.copy()
            elif op == 'rebase':
                dd.set_base(step['base'])
                dd.set_base('linear' if hold is None else hold)
            elif op == 'grid':
                length, sub = len(dd.pmf), step['sub']
                if length > 9 or hold is not None:
                    # (simplex_grid writes linear probabilities into the pmf: not a use of a log-base object)
                    r.features.append('step-skipped')
                    continue
                label = 'simplex_grid(%d, %d, using=d, inplace=True)' % (length, sub)
                for j, g in enumerate(dit.simplex_grid(length, sub, using=dd, inplace=True)):
                    if g is not dd:
                        r.oracle_fail = 'step %d: %s yields another object' % (i, label)
                        return
                    new = {}
                    for o in space:
                        v = float(dd[o]) if dd.has_outcome(o, null=True) else 0.0
                        f = Fraction(v).limit_denominator(sub)
                        new[o] = f if abs(float(f) - v) < 1e-12 else Fraction(v)
                    if abs(sum(new.values()) - 1) > Fraction(1, 10 ** 9):
                        r.mismatch = 'step %d: point %d of %s has total mass %s' % (i, j, label, float(sum(new.values())))
                        return
                    state['T'] = new
                    if j in step['visit']:
                        state['changed'].append('%s point %d' % (label, j))
                        if not query(i, step['stats'], step['k'], 'grid point %d' % j):
                            return
                    if j >= max(step['visit']):
                        break
            r.features.append('op=%s' % label.split('(')[0])
            state['changed'].append(label)


PROP = C11()
