"""
Known findings: genuine defects of dit that are recorded rather than repaired.
KNOWN_FINDINGS.txt is read-only at run time.  A `known:` line names a predicate
(`when=`) implemented here over the failing case; a failure that does not satisfy the
predicate is a new violation even for the same property and call site.  `fixed:` lines
suppress nothing.
"""
import os
import re

from env import VERIF

PREDICATES = {}


def predicate(name):
    def deco(f):
        PREDICATES[name] = f
        return f
    return deco


def load():
    path = os.path.join(VERIF, 'KNOWN_FINDINGS.txt')
    out = []
    if not os.path.exists(path):
        return out
    for line in open(path):
        line = line.strip()
        if not line.startswith('known:'):
            continue
        m = dict(re.findall(r'(\w+)=("[^"]*"|\S+)', line))
        m = {k: v.strip('"') for k, v in m.items()}
        out.append(m)
    return out


_KNOWN = None


def match(pid, case, res):
    """Return the description of the matching known finding, or None."""
    global _KNOWN
    if _KNOWN is None:
        _KNOWN = load()
    for k in _KNOWN:
        if k.get('property') != pid:
            continue
        if k.get('site') and res.site and not str(res.site).startswith(k['site']):
            continue
        pred = PREDICATES.get(k.get('when'))
        if pred is None:
            continue
        try:
            if pred(case, res):
                return 'site=%s when=%s what="%s"' % (k.get('site'), k.get('when'), k.get('what'))
        except Exception:
            continue
    return None


@predicate('multichar-rv-names')
def _multichar(case, res):
    """Variables addressed by names longer than one character: dit.utils.flatten splits such
    names into characters, so parse_rvs rejects them."""
    names = case.get('names') or []
    msg = (res.oracle_fail or '') + (res.mismatch or '')
    return bool(case.get('byname')) and any(len(str(n)) > 1 for n in names) and 'rvs' in msg and 'raised' in msg


@predicate('gh-named-variables')
def _gh_named(case, res):
    """PID_GH on a distribution whose variables have names."""
    msg = (res.oracle_fail or '')
    return case.get('cls') == 'PID_GH' and str(case.get('addr', '')).startswith('names') and 'raised ditException' in msg


@predicate('rdr-source-order')
def _rdr_order(case, res):
    """I_rdr of a node with two or more multi-source members depends on the order of the sources."""
    msg = (res.oracle_fail or '')
    return case.get('cls') == 'PID_RDR' and msg.startswith('permuting the sources')


@predicate('gh-constant-sources')
def _gh_constant(case, res):
    """PID_GH when every source is constant: its search loop over bounds is empty and `gho` stays unbound."""
    msg = (res.oracle_fail or '')
    ns = case.get('ns', 0)
    const = all(len(set(o[i] for o in case.get('outs', []))) == 1 for i in range(ns))
    return case.get('cls') == 'PID_GH' and 'UnboundLocalError' in msg and const


@predicate('ccs-near-sign-change')
def _ccs_sign(case, res):
    """I_ccs sums pointwise co-information over the events where the SIGNS of several pointwise terms agree, on a
    numerically optimised maximum-entropy distribution; when one of those terms is within optimiser noise of 0 the sum
    jumps, so permuting the sources (a different optimiser run) changes the value."""
    msg = (res.oracle_fail or '')
    return (case.get('cls') == 'PID_CCS' and msg.startswith('permuting the sources')
            and str(res.site).endswith('near-sign-change')
            and ((res.detail or {}).get('ccs_min_pointwise_term', 1.0) < 5e-3
                 or bool((res.detail or {}).get('ccs_sign_patterns_differ'))))


@predicate('gh-optimiser-random')
def _gh_random(case, res):
    """I_GH is the value of a randomised optimisation; on some inputs repeated runs on the SAME distribution land on
    different optima (spread measured by the harness: repeated decompositions of the input in either order of the sources), so the comparison
    with a permuted copy fails by chance. Matches only when that spread itself exceeds the equivariance tolerance."""
    msg = (res.oracle_fail or '')
    return (case.get('cls') == 'PID_GH' and msg.startswith('permuting the sources')
            and str(res.site).endswith('optimiser-random')
            and (res.detail or {}).get('gh_repeat_spread', 0.0) > 2e-2)


@predicate('fdiv-support-mismatch')
def _fdiv_support(case, res):
    """f_divergence sums q f(p/q) over the FIRST distribution's outcomes only and drops 0 * f(inf) with nansum: the terms
    q(x) f(0) for outcomes outside the first support and p(x) lim f(t)/t for outcomes outside the second are lost. The
    harness marks exactly that input class (supports differ in a way that makes one of those terms non-zero)."""
    return (str(res.site).endswith('f_divergence.support-mismatch')
            and (res.detail or {}).get('fdiv_support_mismatch') is True
            and (res.oracle_fail or '').startswith('f_divergence'))
