"""
Symbolic execution of dit's entropy-combination measures (translator-style tie).

Inside the harness process only, `dit.shannon.shannon.entropy` is replaced by an oracle
that returns a *linear form* over subset entropies (with a numeric shadow value for the
few comparisons the code makes: CAEKL's `min`, `np.isclose`).  Running the REAL measure
function then yields the exact rational coefficient vector it computes for the given
(arity, grouping, conditioning) - independent of the probabilities.
"""
import contextlib
from fractions import Fraction

import numpy as np


class Lin(object):
    """Σ c_S · H(S) with a numeric shadow value."""
    __array_priority__ = 1000

    def __init__(self, terms=None, val=0.0):
        self.terms = dict(terms or {})
        self.val = float(val)

    @staticmethod
    def lift(x):
        if isinstance(x, Lin):
            return x
        return None

    def _scale(self, k):
        kk = Fraction(k).limit_denominator(10 ** 9) if not isinstance(k, Fraction) else k
        if isinstance(k, (int, np.integer)):
            kk = Fraction(int(k))
        return Lin({s: c * kk for s, c in self.terms.items()}, self.val * float(k))

    def __add__(self, o):
        if isinstance(o, Lin):
            t = dict(self.terms)
            for s, c in o.terms.items():
                t[s] = t.get(s, 0) + c
            return Lin(t, self.val + o.val)
        if o == 0:
            return self
        return NotImplemented
    __radd__ = __add__

    def __neg__(self):
        return self._scale(-1)

    def __sub__(self, o):
        if isinstance(o, Lin):
            return self + (-o)
        if o == 0:
            return self
        return NotImplemented

    def __rsub__(self, o):
        if o == 0:
            return -self
        return NotImplemented

    def __mul__(self, k):
        if isinstance(k, Lin):
            return NotImplemented
        return self._scale(k)
    __rmul__ = __mul__

    def __truediv__(self, k):
        if isinstance(k, Lin):
            return NotImplemented
        if isinstance(k, (int, np.integer)):
            return self._scale(Fraction(1, int(k)))
        return self._scale(Fraction(1) / Fraction(k).limit_denominator(10 ** 9))

    def __float__(self):
        return self.val

    def __array__(self, dtype=None, copy=None):
        return np.array(self.val, dtype=dtype or float)

    def __lt__(self, o):
        return float(self) < float(o)

    def __le__(self, o):
        return float(self) <= float(o)

    def __gt__(self, o):
        return float(self) > float(o)

    def __ge__(self, o):
        return float(self) >= float(o)

    def __abs__(self):
        return abs(self.val)

    def canon(self):
        out = []
        for s, c in self.terms.items():
            if c != 0 and len(s) > 0:
                out.append((sorted(s), Fraction(c)))
        out.sort(key=lambda t: t[0])
        return out


@contextlib.contextmanager
def traced_entropy(dit, dist):
    """Patch the entropy used by dit.shannon (and everything built on it)."""
    import dit.shannon.shannon as sh
    from dit.helpers import parse_rvs
    real = sh.entropy

    def oracle(d, rvs=None, rv_mode=None):
        if d is not dist:
            return real(d, rvs, rv_mode)
        if rvs is None:
            idx = list(range(d.outcome_length()))
        else:
            idx = list(parse_rvs(d, list(rvs), rv_mode, unique=False, sort=True)[1]) if len(list(rvs)) else []
        key = frozenset(int(i) for i in idx)
        v = float(real(d, rvs, rv_mode)) if len(key) else 0.0
        return Lin({key: Fraction(1)}, v)

    sh.entropy = oracle
    try:
        yield
    finally:
        sh.entropy = real


def trace(dit, func, dist, *args, **kwargs):
    """Run the real `func` under the oracle; return (canonical form or None, raw result)."""
    with traced_entropy(dit, dist):
        res = func(dist, *args, **kwargs)
    if isinstance(res, Lin):
        return res.canon(), res
    return None, res
