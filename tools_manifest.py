#!/usr/bin/env python3
"""Regenerate MANIFEST.json from the table below (run from /verif)."""
import json

LEVEL_NOTE = ("Trusted: Lean 4.33 kernel + Mathlib; axioms limited to propext/Classical.choice/Quot.sound (audited per run); the "
              "hand-written model under lean/DitModel/DitModel/Core and the theorem statements under Props/; the correspondence "
              "harness (generators, canonicalisation, tolerances), the Lean runtime running the driver, the JSON line protocol. "
              "Modelled, not verified: IEEE-754/libm, NumPy/SciPy kernels, CPython dict order/sorted/deepcopy, RandomState.")

CHECKS = {
 'C01': ("Lean theorems about the model of the constructor (`construct`): lookups of specified / unspecified / outside outcomes, alignment, order, density, trimming, alphabets, one rejection theorem per malformed kind and totality; tied to dit by a correspondence check that constructs the same valid and malformed specifications with the real Distribution / ScalarDistribution (sequence, dict, ndarray, pmf-only forms; list / SampleSpace / CartesianProduct spaces; six bases) and compares the whole observable record or the exception kind, plus a direct oracle on the real object (bit-exact read-back, outsiders, printable messages).", "§5 C01"),
 'C02': ("41 Lean theorems: the pushforward-measure law for the dict-accumulating fold that models coalesce (any event, any table, duplicates included), fibre-sum lookups, mass, composition/staging, sortedness and duplicate-freeness of the result, dense and sparse (trimmed) Dist-level statements for marginal/coalesce, sample-space projection for Cartesian and explicit spaces, parse_rvs and name bookkeeping; tied to dit by running marginal / marginalize / coalesce (indices or names, repeats, overlaps, extract) on the real code and on the model and comparing the full observable record, names and mask; oracle recomputes fibre sums from d[o] over the source space.", "§5 C02"),
 'C03': ("17 Lean theorems about the model of condition_on / joint_from_factors: the conditioning marginal and its stored rows (non-null fibre sums, in order, one conditional per row), the chain rule P(c) P(r|c) = P(c,r) on the internal table and on the returned distributions (with the exact exception clauses caused by trimming), normalisation of every conditional, metadata, the mask interleaving restores variable order (injective), and recombination of the factors gives back the joint over the union variables for every event. Tied to dit by running condition_on (indices / names, rvs=None, dropped variables, extract, 6 bases, zero-probability conditioning values, unequal supports) and joint_from_factors on the real code and the model and comparing all observables; oracle multiplies back against d.marginal.", "§5 C03"),
 'C04': ("30 Lean theorems at the reals about the model's entropy definitions (the same generic definitions the driver evaluates in Float): entropyVals = -sum p log2 p, invariance under permutation and zero entries, entropy of a marginal = -sum over fibre sums, 0 <= H <= log2|support|, conditional entropy and mutual information as entropy differences incl. the X subset-of Z shortcut, Renyi orders 0/1/inf/generic, Tsallis (order 1 in nats), extropy, perplexity, and the genuine limits Renyi, Tsallis -> Shannon as the order tends to 1; tied to dit by evaluating H, H(X|Y), I(X:Y) for random and (thorough) all pairs of subsets, and the Renyi/Tsallis/extropy/perplexity family, on the real code and on the model in Float (1e-9), with a direct-definition oracle and finiteness checks.", "§5 C04"),
 'C05': ("29 Lean theorems: (a) over any commutative ring and any set function, each measure's model combination equals its defining formula, the canonical form preserves the value, interaction = (-1)^n coinformation, O = T - B, B = H - R, CAEKL candidates are normalised total correlations, two-group coincidence with I(X:Y|Z) (for B under the exact hypothesis needed, with a counterexample otherwise); (b) at the reals from Gibbs' inequality: I(X:Y|Z) >= 0, T >= 0 (any groups), B >= 0 (disjoint groups), CAEKL >= 0, for every non-negative table. Tied to dit two ways: the real functions are executed with a symbolic entropy oracle and their exact rational coefficient vectors are compared with the model's (distribution-independent; all shapes for n <= 4 in the thorough tier), and numerically in Float (1e-9).", "§5 C05"),
 'C07': ("28 Lean theorems at the reals about the model of dit's LogOperations (the same formulas the driver evaluates in Float), for every base b>0, b!=1 incl. b<1: add / add_reduce / mult / mult_reduce / invert / normalize exponentiate to linear arithmetic (also dit's generic-base code path through base 2), the null value as a limit, base-change chains (b->c->d = b->d, round trips), entropy / extropy / every entropy combination scale by 1/log2 b, perplexity is base-free. Tied to dit by running the real Operations objects on arrays with zeros and empty arrays against the model and against linear arithmetic, chains of set_base / copy(base=), and metamorphic runs: lookup, event probability, validate, normalize, marginal, coalesce, condition_on, product, mixture, sampling and 13 measures on a log distribution against its linear copy.", "§5 C07"),
 'C09': ("Refinement proof in Lean: the list-based mutation machine that mirrors dit (`Dist.step`) refines a plain table specification (`specStep` on a function outcome -> Option value) for every operation and, by induction, every history; invariant preservation; illegal operations are no-ops raising InvalidOutcome; sample space constant; set/get, del/get, dense/sparse round trips; construct establishes the invariant. Tied to dit by replaying random and (thorough) all short histories on the real object and on the model, comparing output, full state and validate() verdict after every operation; copy identity/independence and future random draws are checked on the real code.", "§5 C09"),
 'C11': ("41 Lean theorems about the models of the constructors: modify_outcomes and insert_rvf as pushforwards (old variables' joint preserved), product of marginals (lookup = product, mass, block marginals), mixtures (lookup = sum of w_i P_i, mass 1), law of op(X,Y) for independent X, Y with collisions merged, @ as independent joint, uniform / noisy / erasure tables, mean, central moments (first = 0), mode and median characterisations. Tied to dit by running every constructor on the real code and on the model in exact arithmetic (14 kinds, 12 binary operators with Python's floor-division / modulo semantics, 6 bases where supported) and the example-distribution constructors and statistics against exact rational references.", "§5 C11"),
 'C12': ("Theorems in Lean 4 about the model of the inverse-CDF scan over any linearly ordered field (interval, totality on [0,sum), positivity of the selected entry, surjectivity onto positive entries, half-open right end, fallback positivity), tied to dit by a correspondence check that runs the real rand/sample and the model's scan instantiated at IEEE doubles on the same pmfs and random numbers (all float interval boundaries included) and compares indices exactly.", "§5 C12"),
 'C19': ("18 Lean theorems about the sliding-window count model (number and content of windows, stored count = number of equal windows, counts sum to the number of windows so frequencies sum to one, conditional counts add up to history counts, totals), tied to dit by running distribution_from_data / counts_from_data / dist_from_timeseries / entropy_0,1,2 on the real code and the model's exact counts on the same data (all binary sequences up to length 10 in the thorough tier); binned() is decided by a direct oracle.", "§5 C19"),
 'C20': ("Lean theorems: slots/simplex_grid enumerate exactly the weak compositions, each once, in lexicographic order, C(n+k-1,k-1) of them; Aitchison clr/alr/ilr inverses, isometry and closure properties over the reals (where proved; see evidence.partial_theorems); tied to dit by comparing the real slots/simplex_grid output with the model's exactly and the real Aitchison / pmfops functions with the model's definitions evaluated in Float (1e-9) plus direct postcondition oracles (sum, sign, support, grid membership, round-trip error).", "§5 C20"),
}
ORDER = sorted(CHECKS)


def main(claimed):
    checks = []
    for pid in ORDER:
        if pid not in claimed:
            continue
        text, ref = CHECKS[pid]
        checks.append({
            "property_id": pid,
            "quick_cmd": "./check %s --tier quick" % pid,
            "thorough_cmd": "./check %s --tier thorough" % pid,
            "evidence_file": "evidence/%s.json" % pid,
            "replay_cmd_template": "./check %s --replay {path}" % pid,
            "engine": "lean-model+correspondence",
            "level_claimed": {"category": "proof", "text": text, "design_ref": "DESIGN.md " + ref},
            "level_note": LEVEL_NOTE,
            "technique": "machine-checked proof in Lean 4 about a hand-written executable model + differential correspondence check against the real code",
        })
    allp = ['C%02d' % i for i in range(1, 21)]
    na = [{"property_id": p, "reason": "not claimed yet: model/theorems/correspondence for this property are still being built (see DESIGN.md §5); no technique switch"} for p in allp if p not in claimed]
    m = {"version": 1,
         "setup_cmd": "./setup.sh",
         "hooks": {"guard": "DIT_VERIF",
                   "enable": "none needed: every observable is public API; checks import /repo's working tree directly (harness/env.py)",
                   "baseline_off_cmd": "cd /repo && /venv/bin/python -m pytest -ra -q -p no:cacheprovider --timeout=900 --continue-on-collection-errors",
                   "source_commits": [], "add_only": True},
         "engines": [{"name": "lean-model+correspondence", "path": "lean/DitModel + harness/", "serves_properties": [c['property_id'] for c in checks],
                      "kind_free_text": "Lean 4 model and theorems (lake build, forbidden-construct grep, #print axioms audit, leanchecker in the thorough tier) + Python differential harness driving the compiled Lean model over a JSON line protocol"}],
         "checks": checks,
         "notes": "See DESIGN.md. fix: commits made in /repo are recorded in KNOWN_FINDINGS.txt (fixed: lines suppress nothing).",
         "not_applicable": na}
    json.dump(m, open('MANIFEST.json', 'w'), indent=1)
    print('claimed', [c['property_id'] for c in checks])


if __name__ == '__main__':
    import sys
    main(sys.argv[1:])
