#!/bin/sh
# Build the framework from files on disk only (offline).
set -e
HERE="$(cd "$(dirname "$0")" && pwd)"
cd "$HERE/lean/DitModel"
lake build DitModel ditdriver
cd "$HERE"
if [ ! -d pydeps/networkx ]; then
  mkdir -p pydeps
  /venv/bin/python -m pip install --no-index --find-links /opt/veriftools/wheels --target pydeps -q networkx
fi
cd "$HERE/harness"
/venv/bin/python -B -c "
import env; env.import_dit()
from driver import Driver
d = Driver(); assert d.call('slots', [2, 2]) == [[0, 2], [1, 1], [2, 0]]; d.close()
print('setup ok')
"
