#!/usr/bin/env python3
"""Re-run the registered quick check of every stored seeded change (seeded/<Cxx_mN>/patch.diff) against /repo with
the change applied, and record whether it is detected.  /repo is restored after each one.  Usage:
    python3 tools_regress.py [name-prefix ...]     (writes seeded/REGRESSION.json)"""
import json, os, subprocess, sys, time
HERE = os.path.dirname(os.path.abspath(__file__))
REPO = os.environ.get('DIT_REPO', '/repo')

def sh(*a, **k):
    return subprocess.run(list(a), capture_output=True, text=True, **k)

def main():
    names = sorted(n for n in os.listdir(os.path.join(HERE, 'seeded')) if os.path.isdir(os.path.join(HERE, 'seeded', n)))
    if sys.argv[1:]:
        names = [n for n in names if any(n.startswith(p) for p in sys.argv[1:])]
    assert sh('git', '-C', REPO, 'status', '--porcelain').stdout.strip() == '', '/repo is not clean'
    out = {}
    path = os.environ.get('REGRESS_OUT') or os.path.join(HERE, 'seeded', 'REGRESSION.json')
    if os.path.exists(path):
        out = json.load(open(path))
    for n in names:
        prop = n.split('_')[0]
        patch = os.path.join(HERE, 'seeded', n, 'patch.diff')
        a = sh('git', '-C', REPO, 'apply', patch)
        if a.returncode != 0:
            out[n] = {'property': prop, 'applies': False, 'detected': None, 'note': a.stderr[-200:]}
            print(n, 'patch does not apply'); continue
        try:
            t0 = time.time()
            r = sh(os.path.join(HERE, 'check'), prop, '--tier', 'quick', cwd=HERE)
            lines = [l for l in r.stdout.splitlines() if l.startswith('VIOLATION')]
            out[n] = {'property': prop, 'applies': True, 'detected': r.returncode == 1 and bool(lines),
                      'exit': r.returncode, 'violation_lines': lines[:3], 'seconds': round(time.time() - t0, 1),
                      'with_input': any('no-failing-input-found' not in l for l in lines)}
            print(n, 'detected' if out[n]['detected'] else 'MISSED (exit %d)' % r.returncode, out[n]['seconds'])
            # keep the first failing input as a corpus case: it runs first in every later check, whatever the seed
            for l in lines:
                if 'no-failing-input-found' in l:
                    continue
                rp = os.path.join(HERE, l.split('replay=')[1].split()[0])
                try:
                    rep = json.load(open(rp))
                except Exception:
                    continue
                if rep.get('case') is not None:
                    cdir = os.path.join(HERE, 'corpus', prop)
                    os.makedirs(cdir, exist_ok=True)
                    case = {k: v for k, v in rep['case'].items() if not k.startswith('_')}
                    json.dump({'origin': 'seeded change %s: %s' % (n, str(rep.get('broken'))[:300]), 'case': case},
                              open(os.path.join(cdir, n + '.json'), 'w'), indent=1, sort_keys=True, default=str)
                    out[n]['corpus_case'] = 'corpus/%s/%s.json' % (prop, n)
                    break
        finally:
            sh('git', '-C', REPO, 'checkout', '--', '.')
            sh('git', '-C', REPO, 'clean', '-fdq', '--', 'dit')
        # a corpus case must hold on the unchanged tree (a minimised case can be ill-formed for the harness itself)
        cc = out[n].get('corpus_case')
        if cc:
            rr = sh(os.path.join(HERE, 'check'), prop, '--replay', os.path.join(HERE, cc), cwd=HERE)
            if rr.returncode != 0:
                os.remove(os.path.join(HERE, cc))
                out[n]['corpus_case'] = None
                out[n]['corpus_case_rejected'] = (rr.stdout + rr.stderr)[-300:]
                print(n, 'corpus case fails on the unchanged tree: dropped')
        json.dump(out, open(path, 'w'), indent=1, sort_keys=True)
    assert sh('git', '-C', REPO, 'status', '--porcelain').stdout.strip() == '', '/repo left dirty'
    missed = [n for n in names if out[n]['detected'] is False]
    print('%d changes, %d detected, missed: %s' % (len(names), sum(1 for n in names if out[n]['detected']), missed))

if __name__ == '__main__':
    main()
