/-
C05 (companion) — CAEKL mutual information is a minimum over ALL set partitions of the groups.

`caekl_mutual_information` takes `min` of the normalised excess entropies over the partitions `dit.utils.partitions`
yields (those with at least two blocks).  The model's candidates are indexed by `setPartitions groups`;
`Props/C16Fci.lean` proves that enumeration sound, complete and repetition-free.  Here the completeness is
carried to the candidates' VALUES: for any set function `H`, every set partition of the groups with at least
two blocks — listed in any order of blocks and of members — has its normalised excess entropy among the values
of `caeklCands`, and conversely every candidate is the value of a set partition with at least two blocks.  So
"the minimum of the candidates' values" is the minimum over all set partitions, as the definition of `J` demands.
-/
import DitModel.Props.C05
import DitModel.Props.C16Fci
import DitModel.Lemmas.Caekl

set_option linter.unusedSectionVars false

namespace Dit.Props.C05Partitions
open Dit Dit.Lemmas.InfoAlg Dit.Lemmas.Caekl Dit.Props.C16Fci

variable {R : Type} [Field R]

/-- **The value of a candidate depends on the partition as a set of sets only.** -/
theorem caeklCand_congr (cast : Rat →+* R) (H : VSet → R) (groups : List VSet) (Z : VSet)
    {P Q : List (List VSet)} (hP : IsSetPartition P groups) (hQ : IsSetPartition Q groups)
    (h : SameBlocks P Q) :
    Comb.eval cast H (caeklCand groups Z P) = Comb.eval cast H (caeklCand groups Z Q) := by
  have hP' := isPart_of hP
  have hQ' := isPart_of hQ
  rw [eval_caeklCand, eval_caeklCand, sum_Hc_eq H Z hP' hQ' h, Dit.Lemmas.SetPart.Same.length_eq hP' hQ' h]

/-- **Every set partition with at least two blocks is a candidate** (by value). -/
theorem caekl_candidates_complete (cast : Rat →+* R) (H : VSet → R) (groups : List VSet)
    (hnd : groups.Nodup) (Z : VSet) (Q : List (List VSet)) (hQ : IsSetPartition Q groups)
    (h2 : 1 < Q.length) :
    ∃ c ∈ caeklCands groups Z, Comb.eval cast H c = Comb.eval cast H (caeklCand groups Z Q) := by
  obtain ⟨P, hP, hs, hlen⟩ := setPartitions_complete hnd Q hQ
  refine ⟨caeklCand groups Z P, ?_, caeklCand_congr cast H groups Z (setPartitions_sound hnd P hP) hQ hs⟩
  unfold caeklCands
  refine List.mem_map.mpr ⟨P, List.mem_filter.mpr ⟨hP, ?_⟩, rfl⟩
  rw [hlen]
  exact decide_eq_true h2

/-- **Every candidate is the value of a set partition with at least two blocks.** -/
theorem caekl_candidates_sound (groups : List VSet) (hnd : groups.Nodup) (Z : VSet) :
    ∀ c ∈ caeklCands groups Z, ∃ P, IsSetPartition P groups ∧ 1 < P.length ∧ c = caeklCand groups Z P := by
  intro c hc
  unfold caeklCands at hc
  obtain ⟨P, hP, rfl⟩ := List.mem_map.mp hc
  obtain ⟨hP, hl⟩ := List.mem_filter.mp hP
  exact ⟨P, setPartitions_sound hnd P hP, of_decide_eq_true hl, rfl⟩

/-- **Hence the least candidate value is a lower bound for, and attained by, the set partitions**: over an
ordered field, if `m` is the minimum of the candidates' values then `m ≤` the normalised excess entropy of every
set partition with at least two blocks, and `m` is the value of one of them. -/
theorem caekl_min_over_all_partitions {K : Type} [Field K] [LinearOrder K] [IsStrictOrderedRing K]
    (cast : Rat →+* K) (H : VSet → K) (groups : List VSet) (hnd : groups.Nodup) (Z : VSet) (m : K)
    (hm : m ∈ (caeklCands groups Z).map (Comb.eval cast H))
    (hmin : ∀ v ∈ (caeklCands groups Z).map (Comb.eval cast H), m ≤ v) :
    (∀ Q, IsSetPartition Q groups → 1 < Q.length → m ≤ Comb.eval cast H (caeklCand groups Z Q))
      ∧ ∃ P, IsSetPartition P groups ∧ 1 < P.length ∧ m = Comb.eval cast H (caeklCand groups Z P) := by
  constructor
  · intro Q hQ h2
    obtain ⟨c, hc, he⟩ := caekl_candidates_complete cast H groups hnd Z Q hQ h2
    rw [← he]
    exact hmin _ (List.mem_map.mpr ⟨c, hc, rfl⟩)
  · obtain ⟨c, hc, rfl⟩ := List.mem_map.mp hm
    obtain ⟨P, hP, hl, rfl⟩ := caekl_candidates_sound groups hnd Z c hc
    exact ⟨P, hP, hl, rfl⟩

example : IsSetPartition [[[0], [2]], [[1]]] [[0], [1], [2]] ∧ 1 < [[[0], [2]], [[1]]].length := by
  refine ⟨⟨by decide, by decide, by decide, fun x => ?_⟩, by decide⟩
  simp only [List.mem_cons, List.not_mem_nil, or_false, exists_eq_or_imp, exists_eq_left]
  tauto

end Dit.Props.C05Partitions
