/-
C07 — A distribution held as log-probabilities in any valid base is observationally the same
measure as its linear copy.

Theorems about the model of `dit.math.ops.LogOperations` (`Core/Ops.lean`) instantiated at `ℝ`
with `realBase b` (`exp x = b^x`, `log = log_b`), for every base `b` with `0 < b`, `b ≠ 1`
(including `b < 1`): exponentiation and logarithm are mutually inverse; `add`, `mult`, `invert`,
`add_reduce`, `mult_reduce`, `normalize` on log values exponentiate to the linear operations
(and conversely are the logarithms of the linear results); the generic-base code path through
base 2 computes the same `add`; the null value (`−∞` for `b > 1`, `+∞` for `b < 1`) is the limit
in which `b^x → 0` and it is neutral for `add`; log→log base conversion `pmf *= log_c b`
preserves the measure, round-trips and composes along any chain of bases; the entropy family of
a base-`b` log distribution is the bit value divided by `log₂ b`, and perplexity does not depend
on the base.  Helper lemmas: Lemmas/LogOps.lean.
-/
import DitModel.Lemmas.LogOps

set_option linter.unusedSectionVars false

namespace Dit.Props.C07
open Dit Dit.Lemmas.LogOps Dit.Lemmas.InfoReal Filter

/-! ### Exponential and logarithm are mutually inverse -/

/-- **exp ∘ log.** The stored log value of a positive probability exponentiates back to it:
`b ^ log_b p = p`. (`p > 0` is needed: `log_b 0` is the null value, treated as a limit below.) -/
theorem exp_log (b p : ℝ) (hb : 0 < b) (hb1 : b ≠ 1) (hp : 0 < p) : b ^ (Real.logb b p) = p :=
  Real.rpow_logb hb hb1 hp

/-- **log ∘ exp.** Every real log value is the log of its exponential: `log_b (b^x) = x`. -/
theorem log_exp (b x : ℝ) (hb : 0 < b) (hb1 : b ≠ 1) : Real.logb b (b ^ x) = x :=
  Real.logb_rpow hb hb1

example : (0 : ℝ) < 1 / 2 ∧ (1 / 2 : ℝ) ≠ 1 := by norm_num
example : (0 : ℝ) < 10 ∧ (10 : ℝ) ≠ 1 := by norm_num
/-- In base `1/2` the log value `1` is the probability `1/2`. -/
example : ((1 : ℝ) / 2) ^ (1 : ℝ) = 1 / 2 := by simp
example : Real.logb (1 / 2) (1 / 2) = 1 := Real.logb_self_eq_one_iff.mpr (by norm_num)

/-! ### The operations objects -/

/-- **add.** `ops.add` on log values is linear addition of the probabilities:
`b ^ add(x, y) = b^x + b^y`. -/
theorem logAdd_hom (b x y : ℝ) (hb : 0 < b) (hb1 : b ≠ 1) :
    b ^ (logAdd (realBase b) x y) = b ^ x + b ^ y :=
  Dit.Lemmas.LogOps.logAdd_hom b hb hb1 x y

/-- **add, generic-base code path.** For a base other than 2 and e dit computes
`logaddexp2(x·log₂b, y·log₂b)·log_b 2`; this is the same value as the direct formula. -/
theorem logAddGeneric_eq (b x y : ℝ) (hb : 0 < b) (hb1 : b ≠ 1) :
    logAddGeneric (realBase b) x y = logAdd (realBase b) x y :=
  Dit.Lemmas.LogOps.logAddGeneric_eq b hb hb1 x y

/-- **mult.** `ops.mult` (addition of log values) is multiplication of the probabilities.
(`0 < b` suffices.) -/
theorem logMul_hom (b x y : ℝ) (hb : 0 < b) : b ^ (logMul x y) = b ^ x * b ^ y :=
  Real.rpow_add hb x y

/-- **invert.** `ops.invert` (negation) is the reciprocal of the probability. (`0 < b` suffices.) -/
theorem logInv_hom (b x : ℝ) (hb : 0 < b) : b ^ (logInv x) = (b ^ x)⁻¹ :=
  Real.rpow_neg hb.le x

/-- **add_reduce.** For a non-empty array of log values, `add_reduce` exponentiates to the sum
of the probabilities. (Non-emptiness is needed: the empty sum is probability 0, whose log is the
null value, not a real number.) This is also what marginalisation computes on each fibre. -/
theorem logAddReduce_hom (b : ℝ) (xs : List ℝ) (hb : 0 < b) (hb1 : b ≠ 1) (hne : xs ≠ []) :
    b ^ (logAddReduce (realBase b) xs) = (xs.map (fun x => b ^ x)).sum :=
  Dit.Lemmas.LogOps.logAddReduce_hom b hb hb1 xs hne

/-- **mult_reduce.** `mult_reduce` exponentiates to the product of the probabilities
(any list, `0 < b` suffices). -/
theorem logMulReduce_hom (b : ℝ) (xs : List ℝ) (hb : 0 < b) :
    b ^ (logMulReduce xs) = (xs.map (fun x => b ^ x)).prod := by
  unfold logMulReduce; rw [Dit.Lemmas.Table.lsum_eq_sum]; exact rpow_list_sum b hb xs

/-- **normalize.** Exponentiating `ops.normalize` of a non-empty array of log values entrywise
gives the linear normalisation of the exponentiated array, and the result has total mass 1. -/
theorem logNormalize_hom (b : ℝ) (xs : List ℝ) (hb : 0 < b) (hb1 : b ≠ 1) (hne : xs ≠ []) :
    (logNormalize (realBase b) xs).map (fun x => b ^ x) = linNormalize (xs.map (fun x => b ^ x))
      ∧ ((logNormalize (realBase b) xs).map (fun x => b ^ x)).sum = 1 :=
  ⟨Dit.Lemmas.LogOps.logNormalize_hom b hb hb1 xs hne, logNormalize_sum b hb hb1 xs hne⟩

example : ([-1, -2, 0] : List ℝ) ≠ [] := by simp

/-- **add, from the linear side.** The log of a sum of positive probabilities is `ops.add` of
their logs. -/
theorem log_add_hom (b p q : ℝ) (hb : 0 < b) (hb1 : b ≠ 1) (hp : 0 < p) (hq : 0 < q) :
    logAdd (realBase b) (Real.logb b p) (Real.logb b q) = Real.logb b (p + q) :=
  Dit.Lemmas.LogOps.log_add_hom b hb hb1 p q hp hq

/-- **mult, from the linear side.** (Only `p, q ≠ 0` is used; no condition on `b`.) -/
theorem log_mul_hom (b p q : ℝ) (hp : 0 < p) (hq : 0 < q) :
    logMul (Real.logb b p) (Real.logb b q) = Real.logb b (p * q) :=
  (Real.logb_mul hp.ne' hq.ne').symm

/-- **invert, from the linear side.** (Holds for every real `b`, `p`.) -/
theorem log_inv_hom (b p : ℝ) : logInv (Real.logb b p) = Real.logb b p⁻¹ :=
  Dit.Lemmas.LogOps.log_inv_hom b p

/-- **add_reduce / mult_reduce / normalize from the linear side**: on the logs of positive
probabilities they return the logs of the sum, of the product, and of the normalised list. -/
theorem log_reduce_hom (b : ℝ) (ps : List ℝ) (hb : 0 < b) (hb1 : b ≠ 1) (hne : ps ≠ [])
    (hp : ∀ p ∈ ps, 0 < p) :
    logAddReduce (realBase b) (ps.map (Real.logb b)) = Real.logb b ps.sum
      ∧ logMulReduce (ps.map (Real.logb b)) = Real.logb b ps.prod
      ∧ logNormalize (realBase b) (ps.map (Real.logb b)) = (linNormalize ps).map (Real.logb b) :=
  ⟨log_add_reduce_hom b hb hb1 ps hp, log_mul_reduce_hom b hb hb1 ps hp,
    log_normalize_hom b hb hb1 ps hne hp⟩

/-- Base 10, probabilities `1/4` and `3/4`: their log-sum is `log 1 = 0`. -/
example : logAdd (realBase 10) (Real.logb 10 (1 / 4)) (Real.logb 10 (3 / 4)) = 0 := by
  rw [log_add_hom 10 _ _ (by norm_num) (by norm_num) (by norm_num) (by norm_num)]; norm_num
/-- Base `1/2` (a base below 1). -/
example : logAdd (realBase (1 / 2)) (Real.logb (1 / 2) (1 / 4)) (Real.logb (1 / 2) (3 / 4)) = 0 := by
  rw [log_add_hom (1 / 2) _ _ (by norm_num) (by norm_num) (by norm_num) (by norm_num)]; norm_num
example : ∀ p ∈ ([1 / 4, 3 / 4] : List ℝ), 0 < p := by
  intro p hp; simp at hp; rcases hp with rfl | rfl <;> norm_num

/-! ### The null value -/

/-- **Null value, base above 1.** `b^x → 0` as `x → −∞`: `−∞` is "the log of probability 0". -/
theorem null_limit_gt_one (b : ℝ) (hb : 1 < b) : Tendsto (fun x : ℝ => b ^ x) atBot (nhds 0) :=
  Dit.Lemmas.LogOps.null_limit_gt_one b hb

/-- **Null value, base below 1.** `b^x → 0` as `x → +∞`: `+∞` is "the log of probability 0". -/
theorem null_limit_lt_one (b : ℝ) (hb : 0 < b) (hb1 : b < 1) :
    Tendsto (fun x : ℝ => b ^ x) atTop (nhds 0) :=
  Dit.Lemmas.LogOps.null_limit_lt_one b hb hb1

/-- **Adding the null probability changes nothing** (`b > 1`): `add(x, y) → x` as `y → −∞`. -/
theorem logAdd_null_gt_one (b : ℝ) (hb : 1 < b) (x : ℝ) :
    Tendsto (fun y => logAdd (realBase b) x y) atBot (nhds x) :=
  Dit.Lemmas.LogOps.logAdd_null_gt_one b hb x

/-- **Adding the null probability changes nothing** (`b < 1`): `add(x, y) → x` as `y → +∞`. -/
theorem logAdd_null_lt_one (b : ℝ) (hb : 0 < b) (hb1 : b < 1) (x : ℝ) :
    Tendsto (fun y => logAdd (realBase b) x y) atTop (nhds x) :=
  Dit.Lemmas.LogOps.logAdd_null_lt_one b hb hb1 x

example : (1 : ℝ) < 10 := by norm_num
example : (0 : ℝ) < 1 / 2 ∧ (1 / 2 : ℝ) < 1 := by norm_num

/-! ### Base changes -/

/-- **log→log conversion.** dit's `set_base` from base `b` to base `c` multiplies the stored
values by `log_c b`; applied to `log_b p` this gives `log_c p`. (Only the validity of the source
base `b` is used; the statement holds for every real `p`, in particular for `p > 0`.) -/
theorem rebase_chain (b c p : ℝ) (hb : 0 < b) (hb1 : b ≠ 1) :
    rebaseLogLog (Real.logb c b) (Real.logb b p) = Real.logb c p :=
  Dit.Lemmas.LogOps.rebase_chain b c p hb hb1

/-- **The conversion preserves the measure**: for every real log value `x`,
`c ^ (x · log_c b) = b ^ x`. -/
theorem rebase_measure (b c x : ℝ) (hb : 0 < b) (hc : 0 < c) (hc1 : c ≠ 1) :
    c ^ (rebaseLogLog (Real.logb c b) x) = b ^ x :=
  Dit.Lemmas.LogOps.rebase_measure b c x hb hc hc1

/-- **Round trip.** `b → c → b` is the identity on log values. -/
theorem rebase_roundtrip (b c x : ℝ) (hb : 0 < b) (hb1 : b ≠ 1) (hc : 0 < c) (hc1 : c ≠ 1) :
    rebaseLogLog (Real.logb b c) (rebaseLogLog (Real.logb c b) x) = x :=
  Dit.Lemmas.LogOps.rebase_roundtrip b c x hb hb1 hc hc1

/-- **Chains of bases.** `b → c → d` equals `b → d` (only the intermediate base must be valid),
so by induction any chain of conversions equals the direct one. -/
theorem rebase_trans (b c d x : ℝ) (hc : 0 < c) (hc1 : c ≠ 1) :
    rebaseLogLog (Real.logb d c) (rebaseLogLog (Real.logb c b) x)
      = rebaseLogLog (Real.logb d b) x :=
  Dit.Lemmas.LogOps.rebase_trans b c d x hc hc1

/-- **Linear → log → linear** round trip of a whole pmf of positive probabilities. -/
theorem lin_log_roundtrip (b : ℝ) (ps : List ℝ) (hb : 0 < b) (hb1 : b ≠ 1)
    (hp : ∀ p ∈ ps, 0 < p) :
    (ps.map (Real.logb b)).map (fun x => b ^ x) = ps :=
  map_rpow_logb b hb hb1 ps hp

/-- Base 2 → base 1/2 flips the sign of the stored values: `log_{1/2} 2 = −1`. -/
example (x : ℝ) : rebaseLogLog (Real.logb (1 / 2) 2) x = -x := by
  have h : Real.logb (1 / 2) 2 = -1 := by
    rw [one_div, Real.logb_inv_base, Real.logb_self_eq_one_iff.mpr (by norm_num)]
  rw [rebaseLogLog, h]; ring

/-! ### The entropy family of a log distribution -/

/-- **Entropy in base `b`.** `−Σ p log_b p` is the bit value divided by `log₂ b`. (Purely
algebraic: holds for every list of reals and every real `b`; for an invalid base both sides
are 0.) -/
theorem entropy_log_scale (b : ℝ) (ps : List ℝ) :
    entropyVals (Real.logb b) ps = entropyVals (Real.logb 2) ps / Real.logb 2 b :=
  Dit.Lemmas.LogOps.entropy_log_scale b ps

/-- **Entropy, the code's own form.** For a log distribution with stored values `vs` dit
computes `−Σ b^v · v`; this is the entropy in bits of the linear copy `b^v` divided by `log₂ b`. -/
theorem entropy_of_logs (b : ℝ) (vs : List ℝ) (hb : 0 < b) (hb1 : b ≠ 1) :
    -(vs.map (fun v => b ^ v * v)).sum
      = entropyVals (Real.logb 2) (vs.map (fun v => b ^ v)) / Real.logb 2 b :=
  Dit.Lemmas.LogOps.entropy_of_logs b hb hb1 vs

/-- **Extropy in base `b`** scales the same way. -/
theorem extropy_log_scale (b : ℝ) (ps : List ℝ) :
    extropyVals (Real.logb b) ps = extropyVals (Real.logb 2) ps / Real.logb 2 b :=
  Dit.Lemmas.LogOps.extropy_log_scale b ps

/-- **Extropy, the code's own form**: `npmf = log_b(1 − b^v)`, `terms = −b^npmf · npmf`.
The hypothesis `b^v ≤ 1` (each stored value is the log of a probability) is needed: for
`1 − b^v < 0` the real `log_b` returns `log_b |·|` and `b^npmf` would be `b^v − 1`. An entry with
`b^v = 1` contributes 0 on both sides (`nansum` drops the `0·∞` term in dit). -/
theorem extropy_of_logs (b : ℝ) (vs : List ℝ) (hb : 0 < b) (hb1 : b ≠ 1)
    (hle : ∀ v ∈ vs, b ^ v ≤ 1) :
    -(vs.map (fun v => b ^ (Real.logb b (1 - b ^ v)) * Real.logb b (1 - b ^ v))).sum
      = extropyVals (Real.logb 2) (vs.map (fun v => b ^ v)) / Real.logb 2 b :=
  Dit.Lemmas.LogOps.extropy_of_logs b hb hb1 vs hle

/-- **Every entropy-combination measure scales the same way**: evaluating a combination with the
set function `H/k` gives the value with `H` divided by `k` (any field, any coefficient cast), so
conditional entropy, mutual information, co-information, total correlation, … of a base-`b`
distribution are the bit values divided by `log₂ b`. -/
theorem comb_log_scale {α : Type} [Field α] (cast : Rat → α) (H : VSet → α) (k : α) (c : Comb) :
    Comb.eval cast (fun S => H S / k) c = Comb.eval cast H c / k :=
  Dit.Lemmas.LogOps.comb_log_scale cast H k c

/-- **Perplexity does not depend on the base**: `b ^ (entropy in base b) = 2 ^ (entropy in
bits)`; in terms of the model's `perplexityVals` (dit: `base ** entropy(dist)`), with the
logarithm of the operations record replaced by `log_b` and `two` by `b`. -/
theorem perplexity_base_free (b : ℝ) (ps : List ℝ) (hb : 0 < b) (hb1 : b ≠ 1) :
    b ^ (entropyVals (Real.logb b) ps) = (2 : ℝ) ^ (entropyVals (Real.logb 2) ps)
      ∧ perplexityVals { realOps with log := Real.logb b } b ps = perplexityVals realOps 2 ps :=
  ⟨Dit.Lemmas.LogOps.perplexity_base_free b hb hb1 ps,
    Dit.Lemmas.LogOps.perplexity_base_free b hb hb1 ps⟩

/-- A fair coin in base `1/2`: stored values `[1, 1]`, entropy `−1` (a base below 1 gives
negative entropies: 1 bit divided by `log₂ (1/2) = −1`). -/
example : -(([1, 1] : List ℝ).map (fun v => ((1 : ℝ) / 2) ^ v * v)).sum = -1 := by norm_num
example : ∀ v ∈ ([1, 1] : List ℝ), ((1 : ℝ) / 2) ^ v ≤ 1 := by
  intro v hv; simp at hv; subst hv; norm_num

end Dit.Props.C07
