/-
C10 (continued) — queries that keep a memo.  `get_ops(base)` WRITES hidden state (`dit.math.ops.cache`), so the
frame theorems of Props/C10 do not cover it.  What makes such a query repeatable is the cache invariant "every
entry stands for what would be built for its key": under it a memoised call returns exactly what the unmemoised
function returns, whatever calls came before, the invariant is preserved by every call, entries are never
overwritten or removed, and a repeated call changes nothing.
-/
import DitModel.Core.Memo

namespace Dit.Props.C10Memo
open Dit

variable {κ ν : Type} [DecidableEq κ]

/-- The cache invariant: every stored entry is what `build` gives for its key. -/
def MemoInv (build : κ → ν) (c : List (κ × ν)) : Prop := ∀ k v, memoGet c k = some v → v = build k

theorem memoGet_append (c : List (κ × ν)) (k k' : κ) (v : ν) :
    memoGet (c ++ [(k', v)]) k = match memoGet c k with
      | some w => some w
      | none => if k' = k then some v else none := by
  induction c with
  | nil => simp [memoGet]
  | cons e c ih =>
    obtain ⟨k1, v1⟩ := e
    simp only [List.cons_append, memoGet]
    split
    · rfl
    · exact ih

/-- **Transparency.** Under the invariant a memoised call returns what the plain function returns. -/
theorem memo_value (build : κ → ν) (c : List (κ × ν)) (h : MemoInv build c) (k : κ) :
    (memoCall build c k).1 = build k := by
  unfold memoCall
  split
  · rename_i v hv; exact h k v hv
  · rfl

/-- **The invariant is preserved** by every call. -/
theorem memo_inv (build : κ → ν) (c : List (κ × ν)) (h : MemoInv build c) (k : κ) :
    MemoInv build (memoCall build c k).2 := by
  unfold memoCall
  split
  · exact h
  · rename_i hnone
    intro k2 v2 hv
    rw [memoGet_append] at hv
    split at hv
    · rename_i w hw; cases hv; exact h k2 _ hw
    · split at hv
      · rename_i hk; cases hv; rw [hk]
      · cases hv

/-- **Entries are never overwritten or removed**: whatever a key stood for before a call it stands for after it. -/
theorem memo_stable (build : κ → ν) (c : List (κ × ν)) (k k2 : κ) (v : ν) (h : memoGet c k2 = some v) :
    memoGet (memoCall build c k).2 k2 = some v := by
  unfold memoCall
  split
  · exact h
  · simp only [memoGet_append, h]

/-- After a call its key is stored. -/
theorem memo_stored (build : κ → ν) (c : List (κ × ν)) (k : κ) :
    memoGet (memoCall build c k).2 k = some (memoCall build c k).1 := by
  unfold memoCall
  split
  · rename_i v hv; exact hv
  · rename_i hnone; simp [memoGet_append, hnone]

/-- **A repeated call changes nothing** and returns the same value (no invariant needed). -/
theorem memo_repeat (build : κ → ν) (c : List (κ × ν)) (k : κ) :
    memoCall build (memoCall build c k).2 k = ((memoCall build c k).1, (memoCall build c k).2) := by
  have h := memo_stored build c k
  generalize memoCall build c k = r at h
  unfold memoCall
  rw [h]

/-- **Any history.** Under the invariant, the values returned by any sequence of calls are those of the plain
function, call by call, and the invariant holds at the end. -/
theorem memo_history (build : κ → ν) (c : List (κ × ν)) (h : MemoInv build c) (ks : List κ) :
    (memoRun build c ks).1 = ks.map build ∧ MemoInv build (memoRun build c ks).2 := by
  induction ks generalizing c with
  | nil => exact ⟨rfl, h⟩
  | cons k ks ih =>
    have := ih (memoCall build c k).2 (memo_inv build c h k)
    refine ⟨?_, this.2⟩
    simp only [memoRun, List.map_cons, this.1, memo_value build c h k]

/-- **Repeatability after any other calls**: the value returned for `k` after any history of calls equals the value
returned at the start. -/
theorem memo_repeatable (build : κ → ν) (c : List (κ × ν)) (h : MemoInv build c) (ks : List κ) (k : κ) :
    (memoCall build (memoRun build c ks).2 k).1 = (memoCall build c k).1 := by
  rw [memo_value build _ (memo_history build c h ks).2, memo_value build c h]

/-- Even WITHOUT the invariant (a cache someone tampered with): once a key has been asked, every later call for
it returns the same value — the memo makes the call repeatable, the invariant makes it right. -/
theorem memo_sticky (build : κ → ν) (c : List (κ × ν)) (k : κ) (ks : List κ) :
    (memoCall build (memoRun build (memoCall build c k).2 ks).2 k).1 = (memoCall build c k).1 := by
  have hst : ∀ (c : List (κ × ν)) (ks : List κ) (v : ν), memoGet c k = some v →
      memoGet (memoRun build c ks).2 k = some v := by
    intro c ks
    induction ks generalizing c with
    | nil => intro v hv; exact hv
    | cons k2 ks ih => intro v hv; exact ih _ v (memo_stable build c k2 k v hv)
  have := hst _ ks _ (memo_stored build c k)
  unfold memoCall at this ⊢
  simp only [this]

/-- The keys of the cache only grow, in insertion order: a call appends at most its own key. -/
theorem memo_keys (build : κ → ν) (c : List (κ × ν)) (k : κ) :
    (memoCall build c k).2 = c ∨ ((memoCall build c k).2 = c ++ [(k, build k)] ∧ memoGet c k = none) := by
  unfold memoCall
  split
  · exact Or.inl rfl
  · rename_i hn; exact Or.inr ⟨rfl, hn⟩

/-- The empty cache and the cache built by calls satisfy the invariant. -/
theorem memo_inv_nil (build : κ → ν) : MemoInv build ([] : List (κ × ν)) := by
  intro k v h; simp [memoGet] at h

/-- Non-vacuity: dit's initial cache, keys standing for themselves (`ops.get_base() == key`), and a history with a
new base asked twice. -/
example : MemoInv (fun k : Nat => k) [(0, 0), (2, 2)]
    ∧ memoRun (fun k : Nat => k) [(0, 0), (2, 2)] [3, 2, 3] = ([3, 2, 3], [(0, 0), (2, 2), (3, 3)])
    ∧ memoHits (fun k : Nat => k) [(0, 0), (2, 2)] [3, 2, 3] = [false, true, true] := by
  refine ⟨?_, by decide, by decide⟩
  intro k v h
  simp only [memoGet] at h
  split at h
  · cases h; omega
  · split at h
    · cases h; omega
    · cases h

/-- The invariant is NECESSARY, and this is what an in-place re-basing of a shared, memoised operations object
produces (seeded changes C01_dm2, C07_dm1, C09_dm1): a memo in which key 2 stands for base 3 answers 3 for 2 - and by
`memo_sticky` keeps doing so. The harness's memo cases check exactly `MemoInv` on the real `dit.math.ops.cache`. -/
example : (memoCall (fun k : Nat => k) [(2, 3)] 2).1 = 3 ∧ ¬ MemoInv (fun k : Nat => k) [(2, 3)] := by
  refine ⟨by decide, ?_⟩
  intro h
  have h3 : (3 : Nat) = 2 := h 2 3 (by decide)
  omega

end Dit.Props.C10Memo
