/-
C13 — `channel_capacity`: the iteration itself (`Core/CapLoop.lean`, the code's own order:
`q = next_q(p, r)`, `r = next_r(p, q)`, `cc = calc_cc(p, q, r)`, stop when `isclose(cc, old_cc)`).

Theorems at `α := ℝ`, `log2 := Real.logb 2`, `exp2 := (2:ℝ)^·`, `ofNat := Nat.cast`, for an
`n × m` channel `IsChannel P n m` and input laws with strictly positive entries (`IsLaw r n`,
`∀ x < n, 0 < vec r x`: the uniform start is one and every pass returns one). Entries are read
with `vec r x = r.getD x 0`, `ent P x y = (P.getD x []).getD y 0`; `q` is a list over `y` of lists
over `x`, so `q(x|y) = ent q y x`.

* `next_q` is the posterior, `next_r` the normalised weights `w_x = 2^{Σ_y P(y|x) log₂ q(x|y)}`;
* Arimoto's functional `J(r, q) = calc_cc(p, q, r)` and its two half-step optimalities;
* one pass: `I(r;P) ≤ cc ≤ I(r';P) ≤ max_x D(P_x‖r'P)` — the reported value never exceeds the
  mutual information of the returned law, which never decreases from pass to pass;
* the loop / `capRun`: for ANY stopping predicate and fuel the returned `(cc, r, it)` is one pass
  applied to a positive law, so the sandwich holds for it; the tolerance theorem
  (`gap ≤ tol`, `|cc − I(r;P)| ≤ tol` ⟹ `cc` within `2·tol` of capacity);
* fixed points of the pass are exactly the KKT points (all row divergences equal), hence
  capacity-achieving.
No hypothesis "every output letter is reachable" is needed except for the posterior to sum to one:
terms with `P(y|x) = 0` are guarded in the code (`0 ** 0 = 1`, `nansum`) and in the model alike.
`Real.logb 2 0 = 0` (not `−∞`), which is why the half-step theorems ask `q` to be non-zero where
the weight multiplying its logarithm is. Helper lemmas: Lemmas/CapLoop.lean.
-/
import DitModel.Lemmas.CapLoop
import DitModel.Props.C13

set_option linter.unusedSectionVars false

namespace Dit.Props.C13Cap
open Dit Dit.Lemmas.Channel Dit.Lemmas.CapLoop Finset

/-! ## The two half-steps -/

/-- **`next_q` is the posterior** (item 1): for an input law `r` and a channel `P`, `capNextQ r P`
has one row per output letter `y`, of length `n`, with non-negative entries
`q(x|y) = r_x P(y|x) / Σ_x' r_x' P(y|x')` summing to at most one; if `r` is strictly positive and
the output letter `y` is reachable (some `P(y|x) ≠ 0` — otherwise the code divides `0/0`), that
row is a probability vector. -/
theorem capNextQ_posterior (r : List ℝ) (P : List (List ℝ)) (n m : ℕ) (hr : IsLaw r n)
    (hP : IsChannel P n m) :
    (capNextQ r P).length = m
    ∧ ∀ y < m, ((capNextQ r P).getD y []).length = n
      ∧ (∀ x < n, ent (capNextQ r P) y x
          = vec r x * ent P x y / ∑ x' ∈ range n, vec r x' * ent P x' y)
      ∧ (∀ x < n, 0 ≤ ent (capNextQ r P) y x)
      ∧ ∑ x ∈ range n, ent (capNextQ r P) y x ≤ 1
      ∧ ((∀ x < n, 0 < vec r x) → (∃ x < n, ent P x y ≠ 0) →
          IsLaw ((capNextQ r P).getD y []) n) := by
  have hn := hr.pos_len
  refine ⟨capNextQ_length r P n m hP.isMat hn, fun y hy => ?_⟩
  have hlen := capNextQ_row_length r P n m hr.len hP.isMat hn y hy
  refine ⟨hlen, ?_, fun x hx => capNextQ_nonneg r P n m hr hP y x hy hx,
    capNextQ_sum_le r P n m hr hP y hy, ?_⟩
  · intro x hx
    rw [ent_capNextQ r P n m hr.len hP.isMat y x hy hx, vec_outputLaw r P n m hr.len hP.isMat]
  · rintro hpos ⟨x, hx, hxy⟩
    apply isLaw_of_vec _ n hlen (fun x hx => capNextQ_nonneg r P n m hr hP y x hy hx)
    have h := capNextQ_sum r P n m hr hP y hy
    rw [div_self (out_pos r P n m ⟨hr, hpos⟩ hP x y hx hxy).ne'] at h
    exact h

/-- Non-vacuity: BSC(1/4) with the uniform input; every output letter is reachable. -/
example : IsLaw [(1 : ℝ) / 2, 1 / 2] 2 ∧ IsChannel (bsc (1 / 4)) 2 2
    ∧ (∀ x < 2, 0 < vec [(1 : ℝ) / 2, 1 / 2] x) ∧ ∀ y < 2, ∃ x < 2, ent (bsc (1 / 4)) x y ≠ 0 := by
  refine ⟨half_law, bsc_isChannel _ (by norm_num) (by norm_num), ?_, ?_⟩
  · intro x hx; interval_cases x <;> norm_num [vec]
  · intro y hy; exact ⟨0, by norm_num, by interval_cases y <;> norm_num [ent, vec, bsc]⟩
example : capNextQ [(1 : ℚ) / 3, 2 / 3] [[3 / 4, 1 / 4], [1 / 4, 3 / 4]]
    = [[3 / 5, 2 / 5], [1 / 7, 6 / 7]] := by decide +kernel

/-- **`next_r` returns a strictly positive law** (item 1): for an `n × m` matrix `P`, `n ≥ 1`, and
ANY `q`, `capNextR log₂ exp₂ P q` has length `n`, strictly positive entries summing to one, in the
closed form `r'_x = w_x / Σ_x' w_x'` with `w_x = 2^{Σ_y P(y|x) log₂ q(x|y)} = Π_y q(x|y)^{P(y|x)}`. -/
theorem capNextR_isLaw (P q : List (List ℝ)) (n m : ℕ) (hP : IsMat P n m) (hn : 0 < n) :
    IsLaw (capNextR (Real.logb 2) (fun x => (2 : ℝ) ^ x) P q) n
    ∧ (∀ x < n, 0 < vec (capNextR (Real.logb 2) (fun x => (2 : ℝ) ^ x) P q) x)
    ∧ ∀ x < n, vec (capNextR (Real.logb 2) (fun x => (2 : ℝ) ^ x) P q) x
        = (2 : ℝ) ^ (∑ y ∈ range m, ent P x y * Real.logb 2 (ent q y x))
          / ∑ x' ∈ range n, (2 : ℝ) ^ (∑ y ∈ range m, ent P x' y * Real.logb 2 (ent q y x')) :=
  ⟨(capNextR_posLaw P q n m hP hn).law, (capNextR_posLaw P q n m hP hn).pos,
    fun x hx => vec_capNextR P q n m hP x hx⟩

/-- Non-vacuity: a `2 × 2` matrix. -/
example : IsMat (bsc (1 / 4)) 2 2 ∧ 0 < 2 :=
  ⟨(bsc_isChannel _ (by norm_num) (by norm_num)).isMat, by norm_num⟩

/-- **The reported quantity, entrywise**: `calc_cc(p, q, r) = Σ_x Σ_y r_x P(y|x) log₂ (q(x|y)/r_x)`
(shapes only; the `nansum` guard agrees with `0 · log₂ _ = 0`). -/
theorem capCC_eq_def (P q : List (List ℝ)) (r : List ℝ) (n m : ℕ) (hP : IsMat P n m) :
    capCC (Real.logb 2) P q r = ∑ x ∈ range n, ∑ y ∈ range m,
      vec r x * ent P x y * Real.logb 2 (ent q y x / vec r x) :=
  capCC_eq P q r n m hP

/-- **Half-step (a), Gibbs** (item 2a): for a fixed input law `r`, among all families `q` of
sub-probability vectors over `x` (one per output letter) the posterior maximises `J(r, ·)`, and the
maximum is the mutual information: `J(r, q) ≤ J(r, next_q r) = I(r; P)`. The hypothesis
`q(x|y) = 0 → r_x P(y|x) = 0` is needed because `Real.logb 2 0 = 0` where the code has `−∞`. -/
theorem arimoto_q_step (P : List (List ℝ)) (n m : ℕ) (hP : IsChannel P n m) (r : List ℝ)
    (hr : IsLaw r n) (q : List (List ℝ)) (hq : ∀ y < m, ∀ x < n, 0 ≤ ent q y x)
    (hqs : ∀ y < m, ∑ x ∈ range n, ent q y x ≤ 1)
    (hdom : ∀ x < n, ∀ y < m, ent q y x = 0 → vec r x * ent P x y = 0) :
    capCC (Real.logb 2) P q r ≤ capCC (Real.logb 2) P (capNextQ r P) r
    ∧ capCC (Real.logb 2) P (capNextQ r P) r = channelMI (Real.logb 2) r P := by
  rw [capCC_posterior r P n m hr.len hP.isMat]
  exact ⟨capCC_le_channelMI P n m hP r hr q hq hqs hdom, rfl⟩

/-- Non-vacuity: the constant family `q(x|y) = 1/2` against BSC(1/4) and the uniform input. -/
example : (∀ y < 2, ∀ x < 2, 0 ≤ ent [[(1 : ℝ) / 2, 1 / 2], [1 / 2, 1 / 2]] y x)
    ∧ (∀ y < 2, ∑ x ∈ range 2, ent [[(1 : ℝ) / 2, 1 / 2], [1 / 2, 1 / 2]] y x ≤ 1)
    ∧ (∀ x < 2, ∀ y < 2, ent [[(1 : ℝ) / 2, 1 / 2], [1 / 2, 1 / 2]] y x = 0
        → vec [(1 : ℝ) / 2, 1 / 2] x * ent (bsc (1 / 4)) x y = 0) := by
  refine ⟨?_, ?_, ?_⟩
  · intro y hy x hx; interval_cases y <;> interval_cases x <;> norm_num [ent, vec]
  · intro y hy; interval_cases y <;> norm_num [sum_range_succ, ent, vec]
  · intro x hx y hy; interval_cases y <;> interval_cases x <;> norm_num [ent, vec]

/-- **Half-step (b)** (item 2b): for a fixed family `q` that is non-zero where `P` is (again
because `Real.logb 2 0 = 0`), among all input laws `r` the law `next_r q` maximises `J(·, q)`, and
the maximum is `log₂ Σ_x w_x`, `w_x = 2^{Σ_y P(y|x) log₂ q(x|y)}`. -/
theorem arimoto_r_step (P : List (List ℝ)) (n m : ℕ) (hP : IsChannel P n m) (hn : 0 < n)
    (q : List (List ℝ)) (hq : ∀ x < n, ∀ y < m, ent P x y ≠ 0 → ent q y x ≠ 0)
    (r : List ℝ) (hr : IsLaw r n) :
    capCC (Real.logb 2) P q r
      ≤ capCC (Real.logb 2) P q (capNextR (Real.logb 2) (fun x => (2 : ℝ) ^ x) P q)
    ∧ capCC (Real.logb 2) P q (capNextR (Real.logb 2) (fun x => (2 : ℝ) ^ x) P q)
      = Real.logb 2 (∑ x ∈ range n,
          (2 : ℝ) ^ (∑ y ∈ range m, ent P x y * Real.logb 2 (ent q y x))) := by
  rw [capCC_capNextR P n m hP hn q hq]
  exact ⟨capCC_le_log P n m hP q hq r hr, rfl⟩

/-- Non-vacuity: the constant family is non-zero everywhere. -/
example : ∀ x < 2, ∀ y < 2, ent (bsc (1 / 4)) x y ≠ 0
    → ent [[(1 : ℝ) / 2, 1 / 2], [1 / 2, 1 / 2]] y x ≠ 0 := by
  intro x hx y hy _; interval_cases y <;> interval_cases x <;> norm_num [ent, vec]

/-! ## One pass -/

/-- **The sandwich** (item 3): one pass `(cc, r') = capStep P r` from a strictly positive law `r`
returns a strictly positive law `r'` and a value with `I(r; P) ≤ cc ≤ I(r'; P)`: the reported
value never exceeds the mutual information its returned input law achieves. (Positivity of `r`
makes the posterior non-zero wherever `P` is.) -/
theorem capStep_sandwich (P : List (List ℝ)) (n m : ℕ) (hP : IsChannel P n m) (r : List ℝ)
    (hr : IsLaw r n) (hpos : ∀ x < n, 0 < vec r x) :
    IsLaw (capStep (Real.logb 2) (fun x => (2 : ℝ) ^ x) P r).2 n
    ∧ (∀ x < n, 0 < vec (capStep (Real.logb 2) (fun x => (2 : ℝ) ^ x) P r).2 x)
    ∧ channelMI (Real.logb 2) r P ≤ (capStep (Real.logb 2) (fun x => (2 : ℝ) ^ x) P r).1
    ∧ (capStep (Real.logb 2) (fun x => (2 : ℝ) ^ x) P r).1
        ≤ channelMI (Real.logb 2) (capStep (Real.logb 2) (fun x => (2 : ℝ) ^ x) P r).2 P :=
  ⟨(capStep_posLaw P n m hP.isMat hr.pos_len r).law,
    (capStep_posLaw P n m hP.isMat hr.pos_len r).pos,
    Lemmas.CapLoop.capStep_sandwich P n m hP r ⟨hr, hpos⟩⟩

/-- **Monotone ascent** (item 3): the mutual information achieved by the input law never
decreases from pass to pass. -/
theorem capStep_ascent (P : List (List ℝ)) (n m : ℕ) (hP : IsChannel P n m) (r : List ℝ)
    (hr : IsLaw r n) (hpos : ∀ x < n, 0 < vec r x) :
    channelMI (Real.logb 2) r P
      ≤ channelMI (Real.logb 2) (capStep (Real.logb 2) (fun x => (2 : ℝ) ^ x) P r).2 P :=
  le_trans (Lemmas.CapLoop.capStep_sandwich P n m hP r ⟨hr, hpos⟩).1
    (Lemmas.CapLoop.capStep_sandwich P n m hP r ⟨hr, hpos⟩).2

/-- **The value is below the dual bound** (item 3): `cc ≤ I(r'; P) ≤ max_x D(P_x ‖ r'P)`, and
every input law `r''` has `I(r''; P) ≤ max_x D(P_x ‖ r'P)` — so `cc ≤ C ≤ max_x D(P_x ‖ r'P)`. -/
theorem capStep_le_dual (P : List (List ℝ)) (n m : ℕ) (hP : IsChannel P n m) (r : List ℝ)
    (hr : IsLaw r n) (hpos : ∀ x < n, 0 < vec r x) :
    (capStep (Real.logb 2) (fun x => (2 : ℝ) ^ x) P r).1
      ≤ lmaxOf (P.map (fun px => klRow (Real.logb 2) px
          (outputLaw (capStep (Real.logb 2) (fun x => (2 : ℝ) ^ x) P r).2 P)))
    ∧ ∀ r'', IsLaw r'' n → channelMI (Real.logb 2) r'' P
        ≤ lmaxOf (P.map (fun px => klRow (Real.logb 2) px
            (outputLaw (capStep (Real.logb 2) (fun x => (2 : ℝ) ^ x) P r).2 P))) := by
  have hr' := capStep_posLaw P n m hP.isMat hr.pos_len r
  have hdual := fun r'' hr'' => Props.C13.capacity_dual_bound P n m hP _
    (outputLaw_isLaw _ P n m hr'.law hP)
    (Props.C13.dominates_of_pos _ P n m hr'.law hP hr'.pos) r'' hr''
  exact ⟨le_trans (Lemmas.CapLoop.capStep_sandwich P n m hP r ⟨hr, hpos⟩).2 (hdual _ hr'.law),
    hdual⟩

/-- Non-vacuity for the one-pass theorems: BSC(1/4) and the uniform input (see the first
`example`), and the non-uniform positive law `(1/3, 2/3)`. -/
example : IsLaw [(1 : ℝ) / 3, 2 / 3] 2 ∧ ∀ x < 2, 0 < vec [(1 : ℝ) / 3, 2 / 3] x := by
  refine ⟨⟨rfl, ?_, by norm_num⟩, ?_⟩
  · intro a ha; simp at ha; rcases ha with rfl | rfl <;> norm_num
  · intro x hx; interval_cases x <;> norm_num [vec]

/-- **One pass in closed form**: from a strictly positive law, with `D_x = D(P_x ‖ rP)`,
`r'_x = r_x 2^{D_x} / Σ_x' r_x' 2^{D_x'}` and `cc = log₂ Σ_x r_x 2^{D_x}`; and the returned law is
the model's one-step `baCapacityStep`. -/
theorem capStep_closed_form (P : List (List ℝ)) (n m : ℕ) (hP : IsChannel P n m) (r : List ℝ)
    (hr : IsLaw r n) (hpos : ∀ x < n, 0 < vec r x) :
    (∀ x < n, vec (capStep (Real.logb 2) (fun x => (2 : ℝ) ^ x) P r).2 x
      = vec r x * (2 : ℝ) ^ (klRow (Real.logb 2) (P.getD x []) (outputLaw r P))
        / ∑ x' ∈ range n, vec r x' *
            (2 : ℝ) ^ (klRow (Real.logb 2) (P.getD x' []) (outputLaw r P)))
    ∧ (capStep (Real.logb 2) (fun x => (2 : ℝ) ^ x) P r).1
      = Real.logb 2 (∑ x ∈ range n, vec r x *
          (2 : ℝ) ^ (klRow (Real.logb 2) (P.getD x []) (outputLaw r P)))
    ∧ (capStep (Real.logb 2) (fun x => (2 : ℝ) ^ x) P r).2
      = baCapacityStep (Real.logb 2) (fun x => (2 : ℝ) ^ x) r P := by
  have hn := hr.pos_len
  have e : ∑ x' ∈ range n, vec r x' *
        (2 : ℝ) ^ (klRow (Real.logb 2) (P.getD x' []) (outputLaw r P))
      = ∑ x' ∈ range n, vec r x' * (2 : ℝ) ^ (rowDiv r P m x') :=
    sum_congr rfl (fun x' hx' => by
      rw [rowDiv_eq_klRow r P n m hP.isMat hn x' (mem_range.mp hx')])
  refine ⟨fun x hx => ?_, ?_, capStep_snd_eq_baCapacityStep r P n m hr.len hP.isMat hn⟩
  · rw [e, ← rowDiv_eq_klRow r P n m hP.isMat hn x hx]
    exact vec_capStep_snd r P n m ⟨hr, hpos⟩ hP x hx
  · rw [e]
    exact capStep_fst_closed r P n m ⟨hr, hpos⟩ hP

/-! ## The loop and `channel_capacity` -/

/-- **Loop invariant** (item 4): if the state `(cc, r)` entering `capLoop` is one pass applied to
a strictly positive law, then — for ANY stopping predicate `close`, any fuel, any `old`, `it` — so
is the returned `(cc', r')`, and the pass counter grows by at most the fuel. -/
theorem capLoop_invariant (P : List (List ℝ)) (n m : ℕ) (hP : IsChannel P n m) (hn : 0 < n)
    (close : ℝ → ℝ → Bool) (fuel : ℕ) (old cc : ℝ) (r : List ℝ) (it : ℕ)
    (h : ∃ rp, IsLaw rp n ∧ (∀ x < n, 0 < vec rp x)
      ∧ capStep (Real.logb 2) (fun x => (2 : ℝ) ^ x) P rp = (cc, r)) :
    (∃ rp, IsLaw rp n ∧ (∀ x < n, 0 < vec rp x)
      ∧ capStep (Real.logb 2) (fun x => (2 : ℝ) ^ x) P rp
        = ((capLoop (Real.logb 2) (fun x => (2 : ℝ) ^ x) P close fuel old cc r it).1,
           (capLoop (Real.logb 2) (fun x => (2 : ℝ) ^ x) P close fuel old cc r it).2.1))
    ∧ it ≤ (capLoop (Real.logb 2) (fun x => (2 : ℝ) ^ x) P close fuel old cc r it).2.2
    ∧ (capLoop (Real.logb 2) (fun x => (2 : ℝ) ^ x) P close fuel old cc r it).2.2 ≤ it + fuel :=
  capLoop_spec P close
    (fun cc r => ∃ rp, IsLaw rp n ∧ (∀ x < n, 0 < vec rp x)
      ∧ capStep (Real.logb 2) (fun x => (2 : ℝ) ^ x) P rp = (cc, r))
    (by
      rintro cc r ⟨rp, _, _, he⟩
      have hr := capStep_posLaw P n m hP.isMat hn rp
      rw [he] at hr
      exact ⟨r, hr.law, hr.pos, rfl⟩)
    fuel old cc r it h

/-- Non-vacuity: the state after the first pass from the uniform law. -/
example : ∃ rp, IsLaw rp 2 ∧ (∀ x < 2, 0 < vec rp x)
    ∧ capStep (Real.logb 2) (fun x => (2 : ℝ) ^ x) (bsc (1 / 4)) rp
      = ((capStep (Real.logb 2) (fun x => (2 : ℝ) ^ x) (bsc (1 / 4)) [1 / 2, 1 / 2]).1,
         (capStep (Real.logb 2) (fun x => (2 : ℝ) ^ x) (bsc (1 / 4)) [1 / 2, 1 / 2]).2) :=
  ⟨[1 / 2, 1 / 2], half_law, by intro x hx; interval_cases x <;> norm_num [vec], rfl⟩

/-- **What `channel_capacity` returns** (item 4): for an `n × m` channel, `n ≥ 1`, ANY stopping
predicate and ANY fuel, the result `(cc, r, it)` of `capRun` satisfies: `r` is a strictly positive
input law; `(cc, r)` is one pass applied to a strictly positive law `r_prev`; `1 ≤ it ≤ fuel + 1`;
and `I(r_prev; P) ≤ cc ≤ I(r; P) ≤ max_x D(P_x ‖ rP)`. In particular the reported value is never
above the mutual information the returned law achieves, hence never above the capacity. -/
theorem capRun_spec (P : List (List ℝ)) (n m : ℕ) (hP : IsChannel P n m) (hn : 0 < n)
    (close : ℝ → ℝ → Bool) (fuel : ℕ) :
    ∀ cc r it, capRun (Real.logb 2) (fun x => (2 : ℝ) ^ x) (fun k => (k : ℝ)) P close fuel
        = (cc, r, it) →
      IsLaw r n ∧ (∀ x < n, 0 < vec r x) ∧ 1 ≤ it ∧ it ≤ fuel + 1
      ∧ ∃ rp, IsLaw rp n ∧ (∀ x < n, 0 < vec rp x)
        ∧ capStep (Real.logb 2) (fun x => (2 : ℝ) ^ x) P rp = (cc, r)
        ∧ channelMI (Real.logb 2) rp P ≤ cc
        ∧ cc ≤ channelMI (Real.logb 2) r P
        ∧ channelMI (Real.logb 2) r P
            ≤ lmaxOf (P.map (fun px => klRow (Real.logb 2) px (outputLaw r P))) := by
  intro cc r it hres
  obtain ⟨⟨rp, hrp, he⟩, h1, h2⟩ := capRun_inv P n m hP.isMat hn close fuel
  rw [hres] at he h1 h2
  simp only at he h1 h2
  have hr : PosLaw r n := by
    have := capStep_posLaw P n m hP.isMat hn rp
    rw [he] at this; exact this
  have hs := Lemmas.CapLoop.capStep_sandwich P n m hP rp hrp
  rw [he] at hs
  refine ⟨hr.law, hr.pos, h1, h2, rp, hrp.law, hrp.pos, he, hs.1, hs.2, ?_⟩
  exact Props.C13.capacity_dual_bound P n m hP _ (outputLaw_isLaw r P n m hr.law hP)
    (Props.C13.dominates_of_pos r P n m hr.law hP hr.pos) r hr.law

/-- Non-vacuity: a channel with at least one input letter; the model runs on the BSC. -/
example : IsChannel (bsc (1 / 4)) 2 2 ∧ 0 < 2 :=
  ⟨bsc_isChannel _ (by norm_num) (by norm_num), by norm_num⟩

/-- **From the measured quantities to the distance from capacity** (item 4): for the result
`(cc, r, it)` of `capRun`, `0 ≤ I(r;P) − cc`, and every input law `r''` has
`I(r'';P) − cc ≤ capacityGap r P + (I(r;P) − cc)`. Hence if a check measured
`capacityGap r P ≤ tol` and `|cc − I(r;P)| ≤ tol`, then `cc ≤ I(r;P)` (so `cc` is at most the
capacity) and no input law achieves more than `cc + 2·tol`: `cc` is within `2·tol` of capacity. -/
theorem capRun_gap (P : List (List ℝ)) (n m : ℕ) (hP : IsChannel P n m) (hn : 0 < n)
    (close : ℝ → ℝ → Bool) (fuel : ℕ) :
    ∀ cc r it, capRun (Real.logb 2) (fun x => (2 : ℝ) ^ x) (fun k => (k : ℝ)) P close fuel
        = (cc, r, it) →
      0 ≤ channelMI (Real.logb 2) r P - cc
      ∧ (∀ r'', IsLaw r'' n → channelMI (Real.logb 2) r'' P - cc
          ≤ capacityGap (Real.logb 2) r P + (channelMI (Real.logb 2) r P - cc))
      ∧ ∀ tol : ℝ, capacityGap (Real.logb 2) r P ≤ tol →
          |cc - channelMI (Real.logb 2) r P| ≤ tol →
          IsLaw r n ∧ cc ≤ channelMI (Real.logb 2) r P
          ∧ ∀ r'', IsLaw r'' n → channelMI (Real.logb 2) r'' P ≤ cc + 2 * tol := by
  intro cc r it hres
  obtain ⟨hr, hpos, _, _, rp, _, _, _, _, hle, _⟩ := capRun_spec P n m hP hn close fuel cc r it hres
  have hcert := fun r'' hr'' => Props.C13.capacity_gap_certificate r P n m hr hP
    (Props.C13.dominates_of_pos r P n m hr hP hpos) r'' hr''
  refine ⟨by linarith, fun r'' hr'' => by linarith [hcert r'' hr''], ?_⟩
  intro tol hgap habs
  refine ⟨hr, hle, fun r'' hr'' => ?_⟩
  have h1 := hcert r'' hr''
  have h2 := (abs_le.mp habs).1
  linarith

/-! ## Fixed points -/

/-- **A fixed point is capacity-achieving** (item 5): if one pass returns the strictly positive
law `r` it started from, then every row divergence `D(P_x ‖ rP)` equals `I(r; P)`, the gap is `0`,
the reported value is `I(r; P)`, and no input law does better. -/
theorem capStep_fixed_point (P : List (List ℝ)) (n m : ℕ) (hP : IsChannel P n m) (r : List ℝ)
    (hr : IsLaw r n) (hpos : ∀ x < n, 0 < vec r x)
    (hfix : (capStep (Real.logb 2) (fun x => (2 : ℝ) ^ x) P r).2 = r) :
    (∀ px ∈ P, klRow (Real.logb 2) px (outputLaw r P) = channelMI (Real.logb 2) r P)
    ∧ capacityGap (Real.logb 2) r P = 0
    ∧ (capStep (Real.logb 2) (fun x => (2 : ℝ) ^ x) P r).1 = channelMI (Real.logb 2) r P
    ∧ ∀ r'', IsLaw r'' n → channelMI (Real.logb 2) r'' P ≤ channelMI (Real.logb 2) r P := by
  have hn := hr.pos_len
  have hrows := klRow_of_ent P (outputLaw r P) n m hP.isMat
    (outputLaw_length r P n m hP.isMat hn) _
    (fun x hx => fixed_rows r P n m ⟨hr, hpos⟩ hP hfix x hx)
  obtain ⟨hmi, hgap, hbest⟩ := Props.C13.capacity_kkt r P n m hr hP
    (Props.C13.dominates_of_pos r P n m hr hP hpos) _ hrows
  have hs := Lemmas.CapLoop.capStep_sandwich P n m hP r ⟨hr, hpos⟩
  rw [hfix] at hs
  rw [← hmi] at hrows hbest
  exact ⟨hrows, hgap, le_antisymm hs.2 hs.1, hbest⟩

/-- **Conversely**, a strictly positive law whose row divergences `D(P_x ‖ rP)` are all equal to
some `C` is returned unchanged by one pass, with reported value `C` (`= I(r;P)`, the capacity, by
`C13.capacity_kkt`). So the fixed points of the pass with full support are exactly the KKT
points. -/
theorem capStep_fixed_of_kkt (P : List (List ℝ)) (n m : ℕ) (hP : IsChannel P n m) (r : List ℝ)
    (hr : IsLaw r n) (hpos : ∀ x < n, 0 < vec r x) (C : ℝ)
    (hC : ∀ px ∈ P, klRow (Real.logb 2) px (outputLaw r P) = C) :
    (capStep (Real.logb 2) (fun x => (2 : ℝ) ^ x) P r).2 = r
    ∧ (capStep (Real.logb 2) (fun x => (2 : ℝ) ^ x) P r).1 = C :=
  fixed_of_rows r P n m ⟨hr, hpos⟩ hP C (fun x hx => by
    rw [rowDiv_eq_klRow r P n m hP.isMat hr.pos_len x hx]
    exact hC _ (getD_mem P [] x (by rw [hP.len]; exact hx)))

/-- Non-vacuity of both fixed-point theorems: for BSC(1/4) the uniform input has equal row
divergences (`C13.bsc_rows`), so it is a fixed point of the pass. -/
example : (capStep (Real.logb 2) (fun x => (2 : ℝ) ^ x) (bsc (1 / 4)) [1 / 2, 1 / 2]).2
    = [1 / 2, 1 / 2] :=
  (capStep_fixed_of_kkt (bsc (1 / 4)) 2 2 (bsc_isChannel _ (by norm_num) (by norm_num))
    [1 / 2, 1 / 2] half_law (by intro x hx; interval_cases x <;> norm_num [vec]) _
    (bsc_rows (1 / 4))).1

/-- The model runs on `ℚ` with stand-in `log2`/`exp2` (structure of one pass and of the loop). -/
example : (capRun (fun x : ℚ => x) (fun x => x) (fun k => (k : ℚ)) [[3 / 4, 1 / 4], [1 / 4, 3 / 4]]
    (fun _ _ => true) 5).2 = ([1 / 2, 1 / 2], 1) := by decide +kernel

end Dit.Props.C13Cap
