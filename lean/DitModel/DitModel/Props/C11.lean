/-
C11 (table-operation part) — Distribution constructors and algebra build the tables their
definitions state.

Theorems about `modifyOutcomes`, `insertRvf`, `productTabs`, `productDistribution`, `mixture`,
`mixture2`, `combine`, `matmul`, `uniformTab`, `erasureTab`, `noisyTab`, `meanTab`,
`centralMoment`, `modeTab`, `cumVals` (Core/Constructors.lean) over commutative (semi)rings /
fields of "probabilities".  `wtBy p t` is the weight of the event `p` in the table `t` (all rows
count, also repeated keys), `lookupD 0 t k` the stored value of `k` or zero, `mass t` the total.
Helper lemmas and the auxiliary notions `insOut`/`oldPos` (new outcome of `insert_rvf` and the
positions of the old variables in it), `erasureExpand` (the local `expand` of `erasureTab`),
`argmaxBool`/`medianTab` (numpy's `argmax` on a Boolean array and dit's `median`):
Lemmas/Constructors.lean.
-/
import DitModel.Lemmas.Constructors
import Mathlib.Algebra.Field.Rat
import Mathlib.Algebra.Order.Ring.Rat

set_option linter.unusedSectionVars false

namespace Dit.Props.C11
open Dit Dit.Lemmas.Table Dit.Lemmas.Cond Dit.Lemmas.Constructors

/-! ### `modify_outcomes` -/

section Modify
variable {σ τ α : Type} [DecidableEq σ] [DecidableEq τ] [AddCommMonoid α]

/-- **`modify_outcomes` is the pushforward under the map**: the probability of every event is
the probability of its preimage (collisions are merged by addition). -/
theorem modify_event (p : τ → Prop) [DecidablePred p] (f : σ → τ) (t : Tab σ α) :
    wtBy p (modifyOutcomes f t) = wtBy (fun o => p (f o)) t :=
  wtBy_pushforward p f t

/-- Each new outcome stores the sum over its fibre, and is stored once. -/
theorem modify_lookup (f : σ → τ) (t : Tab σ α) (k : τ) :
    lookupD 0 (modifyOutcomes f t) k = wtBy (fun o => f o = k) t
      ∧ (keys (modifyOutcomes f t)).Nodup :=
  ⟨lookupD_pushforward f t k, keys_pushforward_nodup f t⟩

/-- The total mass is unchanged. -/
theorem modify_mass (f : σ → τ) (t : Tab σ α) : mass (modifyOutcomes f t) = mass t :=
  mass_pushforward f t

end Modify

/-! ### `insert_rvf` -/

section Insert
variable {σ α : Type} [DecidableEq σ] [AddCommMonoid α]

/-- **Appending `f`'s value.** For a table listing each outcome once, all of length `n`, a
stored row `(o, v)` reappears as `(o ++ f o, v)`; the new table again lists each outcome once
(no collisions: `o ↦ o ++ f o` is injective on outcomes of one length) and keeps the values in
order. -/
theorem insertRvf_append_lookup (f : List σ → List σ) (n : Nat) (t : Tab (List σ) α)
    (hnd : (keys t).Nodup) (hn : ∀ k ∈ keys t, k.length = n) :
    (∀ o v, (o, v) ∈ t → lookup? (insertRvf f none t) (o ++ f o) = some v)
      ∧ (keys (insertRvf f none t)).Nodup
      ∧ keys (insertRvf f none t) = (keys t).map (fun o => o ++ f o)
      ∧ vals (insertRvf f none t) = vals t :=
  ⟨fun o v h => lookup?_insertRvf f none n 0 t hnd hn (fun h => absurd rfl h) o v h,
    insertRvf_keys_nodup f none n 0 t hnd hn (fun h => absurd rfl h),
    keys_insertRvf f none t, vals_insertRvf f none t⟩

/-- **Inserting `f`'s value at position `i`.** As above, for `f` of constant output length `m`
on the stored outcomes: `(o, v)` reappears as `(o[:i] ++ f o ++ o[i:], v)`, without
collisions. -/
theorem insertRvf_insert_lookup (f : List σ → List σ) (i n m : Nat) (t : Tab (List σ) α)
    (hnd : (keys t).Nodup) (hn : ∀ k ∈ keys t, k.length = n)
    (hm : ∀ k ∈ keys t, (f k).length = m) :
    (∀ o v, (o, v) ∈ t →
        lookup? (insertRvf f (some i) t) (o.take i ++ f o ++ o.drop i) = some v)
      ∧ (keys (insertRvf f (some i) t)).Nodup
      ∧ keys (insertRvf f (some i) t) = (keys t).map (fun o => o.take i ++ f o ++ o.drop i)
      ∧ vals (insertRvf f (some i) t) = vals t :=
  ⟨fun o v h => lookup?_insertRvf f (some i) n m t hnd hn (fun _ => hm) o v h,
    insertRvf_keys_nodup f (some i) n m t hnd hn (fun _ => hm),
    keys_insertRvf f (some i) t, vals_insertRvf f (some i) t⟩

/-- **The old variables keep their distribution (append).** Marginalising the new table onto
the first `n` positions gives back every event probability of the original table (any table
whose outcomes have length `n`, also with repeated outcomes). -/
theorem insertRvf_append_old_marginal (p : List σ → Prop) [DecidablePred p]
    (f : List σ → List σ) (n : Nat) (t : Tab (List σ) α) (hn : ∀ k ∈ keys t, k.length = n) :
    wtBy p (pushforward (project (List.range n)) (insertRvf f none t)) = wtBy p t :=
  wtBy_insertRvf_old p f none n 0 t hn (fun h => absurd rfl h) (fun _ h => by cases h)

/-- **The old variables keep their distribution (insert at `i ≤ n`).** The old variables sit
at positions `0..i-1` and `i+m..n+m-1` of the new outcomes. -/
theorem insertRvf_insert_old_marginal (p : List σ → Prop) [DecidablePred p]
    (f : List σ → List σ) (i n m : Nat) (t : Tab (List σ) α) (hi : i ≤ n)
    (hn : ∀ k ∈ keys t, k.length = n) (hm : ∀ k ∈ keys t, (f k).length = m) :
    wtBy p (pushforward (project (List.range i ++ List.range' (i + m) (n - i)))
        (insertRvf f (some i) t)) = wtBy p t :=
  wtBy_insertRvf_old p f (some i) n m t hn (fun _ => hm) (fun j h => by cases h; exact hi)

/-- The new variables are the function of the old ones: every event of the new table is the
event of its preimage under `o ↦ new outcome` (`insOut`). -/
theorem insertRvf_event (p : List σ → Prop) [DecidablePred p] (f : List σ → List σ)
    (index : Option Nat) (t : Tab (List σ) α) :
    wtBy p (insertRvf f index t) = wtBy (fun o => p (insOut f index o)) t
      ∧ mass (insertRvf f index t) = mass t := by
  refine ⟨wtBy_insertRvf p f index t, ?_⟩
  rw [mass_eq_sum, mass_eq_sum, vals_insertRvf]

end Insert

/-! ### `product_distribution` -/

section Product
variable {σ α : Type} [DecidableEq σ] [CommSemiring α]

/-- **Value of a product at a concatenation of blocks** (any number of factors): if factor
`j` lists each outcome once and all its outcomes have the length of the block `o_j`, the value
at `o_1 ++ … ++ o_k` is `Π_j P_j(o_j)`. -/
theorem productTabs_lookup (ts : List (Tab (List σ) α)) (os : List (List σ))
    (h : List.Forall₂ (fun t o => (keys t).Nodup ∧ ∀ k ∈ keys t, k.length = o.length) ts os) :
    lookupD 0 (productTabs ts) os.flatten
      = (List.zipWith (fun t o => lookupD 0 t o) ts os).prod :=
  lookupD_productTabs ts os h

/-- Two factors. -/
theorem productTabs_lookup2 (t1 t2 : Tab (List σ) α) (o1 o2 : List σ)
    (h1 : (keys t1).Nodup) (h2 : (keys t2).Nodup)
    (hl1 : ∀ k ∈ keys t1, k.length = o1.length) (hl2 : ∀ k ∈ keys t2, k.length = o2.length) :
    lookupD 0 (productTabs [t1, t2]) (o1 ++ o2) = lookupD 0 t1 o1 * lookupD 0 t2 o2 := by
  have := lookupD_productTabs [t1, t2] [o1, o2]
    (List.Forall₂.cons ⟨h1, hl1⟩ (List.Forall₂.cons ⟨h2, hl2⟩ List.Forall₂.nil))
  simpa using this

/-- The product lists each outcome once (factors with duplicate-free keys and outcomes of a
fixed length each). -/
theorem productTabs_keys_nodup (ts : List (Tab (List σ) α))
    (h : ∀ t ∈ ts, (keys t).Nodup ∧ ∃ n, ∀ k ∈ keys t, k.length = n) :
    (keys (productTabs ts)).Nodup :=
  keys_productTabs_nodup ts h

/-- **Total mass of a product**: the product of the masses. -/
theorem productTabs_mass (ts : List (Tab (List σ) α)) :
    mass (productTabs ts) = (ts.map mass).prod :=
  mass_productTabs ts

/-- **Marginal of a product on its first block**: the first factor scaled by the mass of the
remaining factors — equal to the first factor when those have mass one. -/
theorem product_marginal (p : List σ → Prop) [DecidablePred p] (t : Tab (List σ) α)
    (rest : List (Tab (List σ) α)) (n : Nat) (hlen : ∀ k ∈ keys t, k.length = n) :
    wtBy p (pushforward (project (List.range n)) (productTabs (t :: rest)))
        = wtBy p t * (rest.map mass).prod
      ∧ ((∀ t' ∈ rest, mass t' = 1) →
          wtBy p (pushforward (project (List.range n)) (productTabs (t :: rest))) = wtBy p t) := by
  have h := wtBy_productTabs_first p t rest n hlen
  rw [mass_productTabs] at h
  refine ⟨h, fun h1 => ?_⟩
  rw [h]
  have : (rest.map mass).prod = 1 := by
    apply List.prod_eq_one
    intro x hx
    obtain ⟨t', ht', rfl⟩ := List.mem_map.mp hx
    exact h1 t' ht'
  rw [this, mul_one]

/-- **Marginal of a two-factor product on its second block**: the second factor scaled by the
mass of the first. -/
theorem product_marginal_snd (p : List σ → Prop) [DecidablePred p] (t1 t2 : Tab (List σ) α)
    (n m : Nat) (hl1 : ∀ k ∈ keys t1, k.length = n) (hl2 : ∀ k ∈ keys t2, k.length = m) :
    wtBy p (pushforward (project (List.range' n m)) (productTabs [t1, t2]))
      = mass t1 * wtBy p t2 := by
  rw [wtBy_productTabs_rest p t1 [t2] n m hl1 (by rw [keys_productTabs_single]; exact hl2),
    wtBy_productTabs_single]

/-- **`product_distribution` is the product of the requested marginals** (two groups): for
valid indices, the value at `o1 ++ o2` (blocks of the groups' sizes) is the product of the two
marginal probabilities of the source table. -/
theorem productDistribution_lookup2 (g1 g2 : List Nat) (t : Tab (List σ) α) (o1 o2 : List σ)
    (hv : ∀ k ∈ keys t, ∀ i ∈ g1 ++ g2, i < k.length)
    (ho1 : o1.length = g1.length) (ho2 : o2.length = g2.length) :
    lookupD 0 (productDistribution [g1, g2] t) (o1 ++ o2)
      = wtBy (fun k => project g1 k = o1) t * wtBy (fun k => project g2 k = o2) t := by
  have hlen : ∀ (g : List Nat) (o : List σ), o.length = g.length → (∀ i ∈ g, i ∈ g1 ++ g2) →
      ∀ k ∈ keys (pushforward (project g) t), k.length = o.length := by
    intro g o ho hsub k hk
    obtain ⟨k', hk', rfl⟩ := (mem_keys_pushforward _ _ _).mp hk
    rw [ho]
    exact length_project (fun i hi => hv k' hk' i (hsub i hi))
  show lookupD 0 (productTabs [pushforward (project g1) t, pushforward (project g2) t]) _ = _
  rw [productTabs_lookup2 _ _ o1 o2 (keys_pushforward_nodup _ _) (keys_pushforward_nodup _ _)
    (hlen g1 o1 ho1 (fun i hi => List.mem_append_left _ hi))
    (hlen g2 o2 ho2 (fun i hi => List.mem_append_right _ hi)),
    lookupD_pushforward, lookupD_pushforward]

/-- Total mass of `product_distribution`: `mass^k` for `k` groups (one for a normalised
source). -/
theorem productDistribution_mass (groups : List (List Nat)) (t : Tab (List σ) α) :
    mass (productDistribution groups t) = mass t ^ groups.length :=
  mass_productDistribution groups t

end Product

/-! ### `mixture_distribution`, `mixture_distribution2` -/

section Mixture
variable {σ α : Type} [DecidableEq σ] [Semiring α]

/-- **Value of a mixture**: `Σ_i w_i · P_i(o)` for every outcome `o` (an outcome a component
does not store counts as zero there; outside the union of the supports the value is zero);
the stored outcomes are the union of the components' outcomes in order of first appearance,
each once. -/
theorem mixture_lookup (ts : List (Tab σ α)) (w : List α) (o : σ) :
    lookupD 0 (mixture ts w) o = (List.zipWith (fun t wi => wi * lookupD 0 t o) ts w).sum
      ∧ keys (mixture ts w) = dedup (ts.flatMap keys)
      ∧ ((∀ t ∈ ts, o ∉ keys t) → lookupD 0 (mixture ts w) o = 0) := by
  refine ⟨lookupD_mixture ts w o, keys_mixture ts w, fun h => ?_⟩
  rw [lookupD_mixture, zipWith_sum_eq_zero ts w o h]

/-- **Mass of a mixture**: `Σ_i w_i · mass(P_i)` when every component lists each outcome
once; hence `1` for normalised components, as many weights as components, and `Σ w = 1`. -/
theorem mixture_mass (ts : List (Tab σ α)) (w : List α) (hnd : ∀ t ∈ ts, (keys t).Nodup) :
    mass (mixture ts w) = (List.zipWith (fun t wi => wi * mass t) ts w).sum
      ∧ (ts.length = w.length → (∀ t ∈ ts, mass t = 1) → w.sum = 1 →
          mass (mixture ts w) = 1) := by
  refine ⟨mass_mixture ts w hnd, fun hlen h1 hw => ?_⟩
  rw [mass_mixture ts w hnd, zipWith_mul_one_sum ts w hlen h1, hw]

/-- **`mixture_distribution2`, position-wise**: row `j` carries the `j`-th outcome of the
first table and `Σ_i w_i · pmf_i[j]`; there are as many rows as the first table has. -/
theorem mixture2_lookup (t : Tab σ α) (ts : List (Tab σ α)) (w : List α) (j : Nat) :
    (mixture2 (t :: ts) w)[j]?
        = (t[j]?).map (fun r =>
            (r.1, (List.zipWith (fun ti wi => wi * (vals ti).getD j 0) (t :: ts) w).sum))
      ∧ (mixture2 (t :: ts) w).length = t.length :=
  ⟨getElem?_mixture2 t ts w j, length_mixture2 t ts w⟩

end Mixture

/-! ### Arithmetic between scalar distributions, `@` -/

section Combine
variable {σ τ α : Type} [DecidableEq σ] [DecidableEq τ] [Semiring α]

/-- **Law of `op(X, Y)` for independent `X`, `Y`**: the probability of an event is the sum of
`P1(x) P2(y)` over the pairs of stored rows with `op x y` in the event. -/
theorem combine_event (p : τ → Prop) [DecidablePred p] (op : σ → σ → τ) (t1 t2 : Tab σ α) :
    wtBy p (combine op t1 t2)
      = (t1.map (fun r => (t2.map (fun s =>
          if p (op r.1 s.1) then r.2 * s.2 else 0)).sum)).sum :=
  wtBy_combine p op t1 t2

/-- Stored values of `op(X, Y)`: each result is stored once with the sum over the pairs that
produce it. -/
theorem combine_lookup (op : σ → σ → τ) (t1 t2 : Tab σ α) (k : τ) :
    lookupD 0 (combine op t1 t2) k
        = (t1.map (fun r => (t2.map (fun s =>
            if op r.1 s.1 = k then r.2 * s.2 else 0)).sum)).sum
      ∧ (keys (combine op t1 t2)).Nodup := by
  have hnd : (keys (combine op t1 t2)).Nodup := keys_pushforward_nodup _ _
  exact ⟨by rw [lookupD_eq_wtBy hnd, wtBy_combine], hnd⟩

/-- The total mass of `op(X, Y)` is the product of the masses. -/
theorem combine_mass (op : σ → σ → τ) (t1 t2 : Tab σ α) :
    mass (combine op t1 t2) = mass t1 * mass t2 :=
  mass_combine op t1 t2

/-- **`d1 @ d2` is the independent joint**: events. -/
theorem matmul_event (p : List σ → Prop) [DecidablePred p] (t1 t2 : Tab σ α) :
    wtBy p (matmul t1 t2)
      = (t1.map (fun r => (t2.map (fun s => if p [r.1, s.1] then r.2 * s.2 else 0)).sum)).sum :=
  wtBy_matmul p t1 t2

/-- **`d1 @ d2`**: for tables listing each outcome once, the value at `[a, b]` is
`P1(a) P2(b)`, and the joint lists each outcome once. -/
theorem matmul_lookup (t1 t2 : Tab σ α) (h1 : (keys t1).Nodup) (h2 : (keys t2).Nodup) (a b : σ) :
    lookupD 0 (matmul t1 t2) [a, b] = lookupD 0 t1 a * lookupD 0 t2 b
      ∧ (keys (matmul t1 t2)).Nodup :=
  ⟨lookupD_matmul t1 t2 h1 h2 a b, keys_matmul_nodup t1 t2 h1 h2⟩

/-- The total mass of `d1 @ d2` is the product of the masses. -/
theorem matmul_mass (t1 t2 : Tab σ α) : mass (matmul t1 t2) = mass t1 * mass t2 :=
  mass_matmul t1 t2

end Combine

/-! ### `uniform`, `noisy` -/

section Uniform
variable {σ α : Type} [DecidableEq σ] [Field α]

/-- **`uniform`**: every listed outcome has probability `1/n` (`n` the number of listed
outcomes), every other outcome zero; the outcomes are stored in the given order. -/
theorem uniform_lookup (ofNat : Nat → α) (outs : List σ) (o : σ) :
    lookupD 0 (uniformTab ofNat outs) o = (if o ∈ outs then 1 / ofNat outs.length else 0)
      ∧ keys (uniformTab ofNat outs) = outs :=
  ⟨lookupD_uniformTab ofNat outs o, keys_uniformTab ofNat outs⟩

/-- **`uniform` is normalised** for a non-empty list of outcomes, in characteristic zero
(where `n ≠ 0` as a number). -/
theorem uniform_mass [CharZero α] (outs : List σ) (hne : outs ≠ []) :
    mass (uniformTab (fun n : Nat => (n : α)) outs) = 1 :=
  mass_uniformTab_cast outs hne

/-- **`noisy`**: `(1 − noise) · P(o) + noise / N` on the Cartesian product of the alphabets
(`N` its size), `(1 − noise) · P(o)` elsewhere. -/
theorem noisy_lookup (ofNat : Nat → α) (alphabets : List (List σ)) (noise : α)
    (t : Tab (List σ) α) (o : List σ) :
    lookupD 0 (noisyTab ofNat alphabets noise t) o
      = (1 - noise) * lookupD 0 t o
        + noise * (if o ∈ cartesian alphabets
            then 1 / ofNat (cartesian alphabets).length else 0) :=
  lookupD_noisyTab ofNat alphabets noise t o

/-- **`noisy` is normalised** when the source is (listing each outcome once), the alphabets
have no repeated symbol and their product is non-empty. -/
theorem noisy_mass [CharZero α] (alphabets : List (List σ)) (noise : α) (t : Tab (List σ) α)
    (hnd : (keys t).Nodup) (hm : mass t = 1) (ha : ∀ a ∈ alphabets, a.Nodup)
    (hne : cartesian alphabets ≠ []) :
    mass (noisyTab (fun n : Nat => (n : α)) alphabets noise t) = 1 := by
  unfold noisyTab
  refine (mixture_mass _ _ ?_).2 rfl ?_ (by simp)
  · intro t' ht'
    rcases List.mem_cons.mp ht' with e | ht'
    · subst e; exact hnd
    · rw [List.mem_singleton] at ht'
      subst ht'; rw [keys_uniformTab]; exact nodup_cartesian ha
  · intro t' ht'
    rcases List.mem_cons.mp ht' with e | ht'
    · subst e; exact hm
    · rw [List.mem_singleton] at ht'
      subst ht'; exact mass_uniformTab_cast _ hne

end Uniform

/-! ### `erasure` -/

section Erasure
variable {σ α : Type} [DecidableEq σ] [CommRing α]

/-- **`erasure` preserves the total mass**, for every `ε`. -/
theorem erasure_mass (e : σ) (eps : α) (t : Tab (List σ) α) :
    mass (erasureTab e eps t) = mass t :=
  mass_erasureTab e eps t

/-- **`erasure`, events**: every stored row `(o, v)` contributes `v` times the weight of the
event under the channel output of `o`, and the channel acts symbol by symbol: the first symbol
is kept with weight `1 − ε` and replaced by the erasure symbol with weight `ε`, independently
of the rest. -/
theorem erasure_event (q : List σ → Prop) [DecidablePred q] (e : σ) (eps : α)
    (t : Tab (List σ) α) :
    wtBy q (erasureTab e eps t) = (t.map (fun r => r.2 * wtBy q (erasureExpand e eps r.1))).sum
      ∧ erasureExpand e eps [] = [([], 1)]
      ∧ ∀ s o, wtBy q (erasureExpand e eps (s :: o))
          = (1 - eps) * wtBy (fun k => q (s :: k)) (erasureExpand e eps o)
            + eps * wtBy (fun k => q (e :: k)) (erasureExpand e eps o) :=
  ⟨wtBy_erasureTab q e eps t, rfl, fun s o => wtBy_erasureExpand_cons q e eps s o⟩

/-- **`erasure` of single-symbol outcomes**: every event keeps `1 − ε` of its probability, and
the erasure outcome `[e]` receives `ε` times the total mass; in particular a symbol `x ≠ e`
has probability `(1 − ε) · P(x)` and `e` has `(1 − ε) · P(e) + ε · mass`. -/
theorem erasure_lookup (e : σ) (eps : α) (t : Tab (List σ) α)
    (h1 : ∀ k ∈ keys t, k.length = 1) (x : σ) :
    lookupD 0 (erasureTab e eps t) [x]
      = (1 - eps) * wtBy (fun k => k = [x]) t + eps * (if x = e then mass t else 0) := by
  have hnd : (keys (erasureTab e eps t)).Nodup := by
    rw [erasureTab_eq]; exact keys_pushforward_nodup _ _
  rw [lookupD_eq_wtBy hnd, wtBy_erasureTab_single _ e eps t h1]
  by_cases hx : x = e
  · subst hx; simp
  · have : ¬ [e] = [x] := fun h => hx (by injection h with h; exact h.symm)
    simp [hx, this]

end Erasure

/-! ### Mean, central moments -/

section Stats
variable {α : Type} [CommRing α]

/-- The mean is `Σ x · P(x)` and the `k`-th central moment `Σ (x − μ)^k · P(x)` (the model's
sequential sums and its own power function are the usual ones). -/
theorem mean_def (t : Tab α α) (k : Nat) :
    meanTab t = (t.map (fun r => r.1 * r.2)).sum
      ∧ centralMoment t k = (t.map (fun r => (r.1 - meanTab t) ^ k * r.2)).sum :=
  ⟨meanTab_eq t, centralMoment_eq t k⟩

/-- The zeroth central moment is the total mass. -/
theorem centralMoment_zero (t : Tab α α) : centralMoment t 0 = mass t := by
  rw [centralMoment_eq, mass_eq_sum]; simp [vals]

/-- The first central moment is `μ · (1 − mass)`: zero for a normalised table. -/
theorem centralMoment_one (t : Tab α α) :
    centralMoment t 1 = meanTab t - meanTab t * mass t
      ∧ (mass t = 1 → centralMoment t 1 = 0) := by
  have h : centralMoment t 1 = meanTab t - meanTab t * mass t := by
    rw [centralMoment_eq, sum_shift_one, ← meanTab_eq, ← mass_eq_sum]
  exact ⟨h, fun hm => by rw [h, hm]; ring⟩

/-- The second central moment of a normalised table is `E[x²] − μ²`. -/
theorem centralMoment_two (t : Tab α α) (hm : mass t = 1) :
    centralMoment t 2 = (t.map (fun r => r.1 ^ 2 * r.2)).sum - meanTab t ^ 2 := by
  rw [centralMoment_eq, sum_shift_two, ← meanTab_eq, ← mass_eq_sum, hm]; ring

/-- The mean of a constant is that constant times the mass. -/
theorem mean_const (t : Tab α α) (c : α) (h : ∀ r ∈ t, r.1 = c) : meanTab t = c * mass t :=
  meanTab_const t c h

end Stats

/-! ### Mode, cumulative values, median -/

section Order
variable {σ α : Type} [Field α] [LinearOrder α] [IsStrictOrderedRing α]

/-- **Mode.** For non-negative stored values, the returned outcomes are exactly the outcomes
of the rows of maximal value (in stored order, a repeated outcome once per such row). -/
theorem mode_spec (t : Tab σ α) (hnn : ∀ r ∈ t, 0 ≤ r.2) (o : σ) :
    o ∈ modeTab t ↔ ∃ v, (o, v) ∈ t ∧ ∀ s ∈ t, s.2 ≤ v := by
  rw [mem_modeTab]
  obtain ⟨h1, h2, h3⟩ := foldMax_spec t (0 : α)
  constructor
  · rintro ⟨v, hv, hlt⟩
    exact ⟨v, hv, fun s hs => le_trans (h2 s hs) (not_lt.mp hlt)⟩
  · rintro ⟨v, hv, hmax⟩
    refine ⟨v, hv, not_lt.mpr ?_⟩
    rcases h3 with h3 | ⟨r, hr, h3⟩
    · rw [h3]; exact hnn (o, v) hv
    · rw [← h3]; exact hmax r hr

/-- The mode list is the filtered list of outcomes: it keeps the stored order. -/
theorem mode_sublist (t : Tab σ α) : (modeTab t).Sublist (keys t) := by
  unfold modeTab keys
  exact List.filter_sublist.map _

/-- **Cumulative values**: as many as rows, the `j`-th being the sum of the first `j + 1`
stored values. -/
theorem cumVals_spec (t : Tab σ α) :
    (cumVals t).length = t.length
      ∧ ∀ j, j < t.length → (cumVals t)[j]? = some (((vals t).take (j + 1)).sum) := by
  refine ⟨length_cumVals t, fun j hj => ?_⟩
  have hj' : j < (cumVals t).length := by rw [length_cumVals]; exact hj
  rw [List.getElem?_eq_getElem hj', getElem_cumVals]

/-- **Median** (`medianTab`, the model of `dit.algorithms.stats.median` for a scalar numeric
distribution): if some cumulative value exceeds `1/2` (e.g. the table is normalised), the
median is the mean of the outcomes at positions `jg` and `jge`, where `jg` is the first
position whose cumulative value exceeds `1/2` and `jge` the first whose cumulative value
reaches `1/2`. -/
theorem median_spec (t : Tab α α) (h : ∃ v ∈ cumVals t, 1 / 2 < v) :
    ∃ jg jge og oge, (keys t)[jg]? = some og ∧ (keys t)[jge]? = some oge
      ∧ medianTab t = (og + oge) / 2
      ∧ 1 / 2 < ((vals t).take (jg + 1)).sum
      ∧ (∀ i, i < jg → ((vals t).take (i + 1)).sum ≤ 1 / 2)
      ∧ 1 / 2 ≤ ((vals t).take (jge + 1)).sum
      ∧ (∀ i, i < jge → ((vals t).take (i + 1)).sum < 1 / 2) := by
  have hg : ∃ v ∈ cumVals t, (fun v => decide ((1 : α) / 2 < v)) v = true := by
    obtain ⟨v, hv, hlt⟩ := h; exact ⟨v, hv, by simpa using hlt⟩
  have hge : ∃ v ∈ cumVals t, (fun v => decide ((1 : α) / 2 ≤ v)) v = true := by
    obtain ⟨v, hv, hlt⟩ := h; exact ⟨v, hv, by simpa using le_of_lt hlt⟩
  obtain ⟨a1, a2, a3⟩ := argmax_cumVals _ t hg
  obtain ⟨b1, b2, b3⟩ := argmax_cumVals _ t hge
  have ka : argmaxBool (fun v => decide ((1 : α) / 2 < v)) (cumVals t) < (keys t).length := by
    simpa [keys] using a1
  have kb : argmaxBool (fun v => decide ((1 : α) / 2 ≤ v)) (cumVals t) < (keys t).length := by
    simpa [keys] using b1
  refine ⟨_, _, _, _, List.getElem?_eq_getElem ka, List.getElem?_eq_getElem kb, ?_,
    by simpa using a2, fun i hi => by simpa using a3 i hi,
    by simpa using b2, fun i hi => by simpa using b3 i hi⟩
  unfold medianTab
  rw [List.getD_eq_getElem?_getD, List.getD_eq_getElem?_getD, List.getElem?_eq_getElem ka,
    List.getElem?_eq_getElem kb]
  rfl

end Order

/-! ### Non-vacuity: concrete instances over `Rat` -/

section Examples

/-- `modify_outcomes` with a non-injective map: `1` and `3` collide. -/
example : modifyOutcomes (fun x : Nat => x % 2)
      ([(0, 1 / 4), (1, 1 / 4), (3, 1 / 2)] : Tab Nat Rat) = [(0, 1 / 4), (1, 3 / 4)] := by
  decide +kernel

/-- `insert_rvf` with the XOR of two bits, appended and inserted at position 1; hypotheses of
the `insertRvf_*` theorems for this table. -/
example : insertRvf (fun o : List Nat => [(o.getD 0 0 + o.getD 1 0) % 2]) none
      ([([0, 0], 1 / 2), ([0, 1], 1 / 4), ([1, 1], 1 / 4)] : Tab (List Nat) Rat)
    = [([0, 0, 0], 1 / 2), ([0, 1, 1], 1 / 4), ([1, 1, 0], 1 / 4)] := by decide +kernel
example : insertRvf (fun o : List Nat => [(o.getD 0 0 + o.getD 1 0) % 2]) (some 1)
      ([([0, 0], 1 / 2), ([0, 1], 1 / 4), ([1, 1], 1 / 4)] : Tab (List Nat) Rat)
    = [([0, 0, 0], 1 / 2), ([0, 1, 1], 1 / 4), ([1, 0, 1], 1 / 4)] := by decide +kernel
example : (keys ([([0, 0], 1 / 2), ([0, 1], 1 / 4), ([1, 1], 1 / 4)] : Tab (List Nat) Rat)).Nodup
    ∧ (∀ k ∈ keys ([([0, 0], 1 / 2), ([0, 1], 1 / 4), ([1, 1], 1 / 4)] : Tab (List Nat) Rat),
        k.length = 2 ∧ [(k.getD 0 0 + k.getD 1 0) % 2].length = 1) ∧ 1 ≤ 2 := by
  decide +kernel
example : project (List.range 1 ++ List.range' (1 + 1) (2 - 1)) [1, 0, 1] = [1, 1] := by decide

/-- Product of two marginals (`product_distribution` with groups `[[0], [1]]`). -/
example : productDistribution [[0], [1]]
      ([([0, 0], 1 / 2), ([0, 1], 1 / 4), ([1, 1], 1 / 4)] : Tab (List Nat) Rat)
    = [([0, 0], 3 / 8), ([0, 1], 3 / 8), ([1, 0], 1 / 8), ([1, 1], 1 / 8)] := by decide +kernel
example : List.Forall₂ (fun (t : Tab (List Nat) Rat) o => (keys t).Nodup
      ∧ ∀ k ∈ keys t, k.length = o.length)
    [[([0], 3 / 4), ([1], 1 / 4)], [([0], 1 / 2), ([1], 1 / 2)]] [[1], [0]] := by
  refine List.Forall₂.cons ?_ (List.Forall₂.cons ?_ List.Forall₂.nil) <;> decide +kernel

/-- Mixture of two tables with different supports; weights summing to one. -/
example : mixture ([[(0, 1)], [(0, 1 / 2), (1, 1 / 2)]] : List (Tab Nat Rat)) [1 / 3, 2 / 3]
    = [(0, 2 / 3), (1, 1 / 3)] := by decide +kernel
example : mixture2 ([[(0, 1), (1, 0)], [(0, 1 / 2), (1, 1 / 2)]] : List (Tab Nat Rat))
      [1 / 3, 2 / 3] = [(0, 2 / 3), (1, 1 / 3)] := by decide +kernel

/-- Sum of two independent fair bits; `@`. -/
example : combine (fun a b : Nat => a + b) ([(0, 1 / 2), (1, 1 / 2)] : Tab Nat Rat)
      [(0, 1 / 2), (1, 1 / 2)] = [(0, 1 / 4), (1, 1 / 2), (2, 1 / 4)] := by decide +kernel
example : matmul ([(0, 1 / 3), (1, 2 / 3)] : Tab Nat Rat) [(5, 1 / 2), (6, 1 / 2)]
    = [([0, 5], 1 / 6), ([0, 6], 1 / 6), ([1, 5], 1 / 3), ([1, 6], 1 / 3)] := by decide +kernel

/-- `uniform`, `erasure` (ε = 1/4, erasure symbol 9), `noisy` (noise 1/2). -/
example : uniformTab (fun n : Nat => (n : Rat)) [7, 8, 9]
    = [(7, 1 / 3), (8, 1 / 3), (9, 1 / 3)] := by decide +kernel
example : erasureTab 9 (1 / 4 : Rat) [([0], 1 / 2), ([1], 1 / 2)]
    = [([0], 3 / 8), ([9], 1 / 4), ([1], 3 / 8)] := by decide +kernel
example : erasureTab 9 (1 / 2 : Rat) [([0, 1], 1)]
    = [([0, 1], 1 / 4), ([9, 1], 1 / 4), ([0, 9], 1 / 4), ([9, 9], 1 / 4)] := by decide +kernel
example : noisyTab (fun n : Nat => (n : Rat)) [[0, 1]] (1 / 2) [([0], 1)]
    = [([0], 3 / 4), ([1], 1 / 4)] := by decide +kernel
example : cartesian [[0, 1]] ≠ ([] : List (List Nat)) ∧ ∀ a ∈ [[0, 1]], a.Nodup := by decide

/-- Mean 5/4, variance 11/16, mode, cumulative values and median of a scalar table. -/
example : meanTab ([(0, 1 / 4), (1, 1 / 4), (2, 1 / 2)] : Tab Rat Rat) = 5 / 4 := by
  decide +kernel
example : centralMoment ([(0, 1 / 4), (1, 1 / 4), (2, 1 / 2)] : Tab Rat Rat) 1 = 0
    ∧ centralMoment ([(0, 1 / 4), (1, 1 / 4), (2, 1 / 2)] : Tab Rat Rat) 2 = 11 / 16 := by
  decide +kernel
example : modeTab ([(0, 3 / 8), (1, 1 / 4), (2, 3 / 8)] : Tab Nat Rat) = [0, 2] := by
  decide +kernel
example : cumVals ([(0, 1 / 4), (1, 1 / 4), (2, 1 / 2)] : Tab Nat Rat) = [1 / 4, 1 / 2, 1] := by
  decide +kernel
example : medianTab ([(0, 1 / 4), (1, 1 / 4), (2, 1 / 2)] : Tab Rat Rat) = 3 / 2 := by
  decide +kernel
example : ∃ v ∈ cumVals ([(0, 1 / 4), (1, 1 / 4), (2, 1 / 2)] : Tab Rat Rat), 1 / 2 < v :=
  ⟨1, by decide +kernel, by decide +kernel⟩
example : ∀ r ∈ ([(0, 3 / 8), (1, 1 / 4), (2, 3 / 8)] : Tab Nat Rat), 0 ≤ r.2 := by
  decide +kernel

/-- The theorems apply to the driver's number type `Rat`. -/
example (t1 t2 : Tab Nat Rat) : mass (combine (fun a b => a + b) t1 t2) = mass t1 * mass t2 :=
  combine_mass _ t1 t2
example (t : Tab Rat Rat) (hm : mass t = 1) : centralMoment t 1 = 0 :=
  (centralMoment_one t).2 hm
example (t : Tab Nat Rat) (hnn : ∀ r ∈ t, 0 ≤ r.2) (o : Nat) :
    o ∈ modeTab t ↔ ∃ v, (o, v) ∈ t ∧ ∀ s ∈ t, s.2 ≤ v :=
  mode_spec t hnn o
example (outs : List Nat) (hne : outs ≠ []) :
    mass (uniformTab (fun n : Nat => (n : Rat)) outs) = 1 :=
  uniform_mass outs hne

end Examples

end Dit.Props.C11
