/-
C08 (divergences and coefficients) — companion of Props/C08.lean. "Every information measure
depends only on the joint probabilities …: its value is unchanged when the symbols of any variable
are bijectively relabelled, …, the input order of outcomes is permuted, zero-probability outcomes
are added, stored or trimmed." Props/C08.lean covers the entropies, every entropy combination and
KL / variational distance / Bhattacharyya coefficient; this file covers the remaining quantities of
`Core/Diverge.lean`:

* Jensen–Shannon divergence `jsdVals` of any number of tables with arbitrary weights. Core has no
  table-level alignment of more than two tables, so the tables are aligned by
  `Lemmas.DivInv.alignMany` (labels `dedup (ts.flatMap keys)` in order of first appearance, absent
  labels read `0`; see `alignMany_def`; for two tables these are the two components of Core's
  `alignUnion`, `alignMany_pair`). It is exactly what the harness feeds to the driver's `jsdf`.
  The JSD statements hold over any ring with decidable equality and for any `log`.
* cross entropy `crossEntropyVals` (along `alignPair`, like KL), at `ℝ`;
* Hellinger distance `hellingerVals`, and the `powerSum` family `renyiDiv`, `tsallisDiv`
  (= Hellinger divergence), `alphaDiv`, over `alignUnion`, at `ℝ`, for arbitrary `sqrt`, `R`;
  Core has no generic f-divergence; the `pairSum_*` theorems cover every quantity of the form
  `Σ g(p, q)` over the union alignment (any f-divergence `Σ q f(p/q)` is one);
* maximum correlation: `maxcorrCompanion` takes the joint pmf matrix; `jointMat xs ys t` builds it
  from a table of outcomes `[x, y]` and alphabets `xs`, `ys` (`jointMat_def`). Relabelling,
  row order, zero padding and trimming of the table leave the matrix itself unchanged once the
  alphabets are renamed; listing the alphabets in another order (which is what a relabelling does
  to dit's sorted alphabets) permutes rows and columns, and `charPoly (maxcorrCompanion …)` — all
  the model returns — is unchanged. Over any field with decidable equality;
* earth mover's distance: `planCost` under a consistent permutation of both outcome lists, and
  `emdCategorical`.

Relabellings are injective maps `φ` of whole labels (any key types), with the per-variable
`relabelTab ρ` as an instance. Helper lemmas: Lemmas/DivInv.lean.
-/
import DitModel.Lemmas.DivInv

set_option linter.unusedSectionVars false

namespace Dit.Props.C08Div
open Dit Dit.Lemmas.Table Dit.Lemmas.Transform Dit.Lemmas.DivInv

/-! ## Aligning several tables -/

section Align
variable {κ κ' α : Type} [DecidableEq κ] [DecidableEq κ']

/-- What `alignMany` is: every table listed along the labels of all tables in order of first
appearance, absent labels read `0`. -/
theorem alignMany_def [Zero α] (ts : List (Tab κ α)) :
    alignMany ts = ts.map (fun t => (dedup (ts.flatMap keys)).map (lookupD 0 t)) := rfl

/-- For two tables `alignMany` lists the two components of Core's `alignUnion`. -/
theorem alignMany_pair [Ring α] [DecidableEq α] (t1 t2 : Tab κ α) :
    alignMany [t1, t2]
      = [(alignUnion t1 t2).map Prod.fst, (alignUnion t1 t2).map Prod.snd] :=
  Lemmas.DivInv.alignMany_pair t1 t2

/-- **Alignment of several tables is label-blind**: renaming the labels of all tables by one
injective map gives the very same aligned pmfs. Injectivity is needed (merged labels). -/
theorem alignMany_relabel [Ring α] [DecidableEq α] (φ : κ → κ') (hφ : Function.Injective φ)
    (ts : List (Tab κ α)) :
    alignMany (ts.map (fun t => t.map (fun r => (φ r.1, r.2)))) = alignMany ts :=
  alignMany_map_inj φ hφ ts

example : Function.Injective (fun b : Bool => if b then "heads" else "tails") := by
  intro a b h
  cases a <;> cases b <;> simp_all

end Align

/-! ## Jensen–Shannon divergence -/

section JSD
variable {κ κ' α : Type} [DecidableEq κ] [DecidableEq κ'] [Ring α] [DecidableEq α]

/-- **JSD, relabelling.** The Jensen–Shannon divergence of any number of tables with any weights
is unchanged when the labels of all tables are renamed by one injective map (also into another
label type). -/
theorem jsd_relabel (log : α → α) (φ : κ → κ') (hφ : Function.Injective φ)
    (ts : List (Tab κ α)) (w : List α) :
    jsdVals log (alignMany (ts.map (fun t => t.map (fun r => (φ r.1, r.2))))) w
      = jsdVals log (alignMany ts) w := by
  rw [alignMany_map_inj φ hφ]

/-- **JSD, per-variable relabelling** (`relabelTab` with every symbol map injective). -/
theorem jsd_relabelTab {σ τ : Type} [DecidableEq σ] [DecidableEq τ] (log : α → α)
    (ρ : Nat → σ → τ) (hρ : ∀ i, Function.Injective (ρ i)) (ts : List (Tab (List σ) α))
    (w : List α) :
    jsdVals log (alignMany (ts.map (relabelTab ρ))) w = jsdVals log (alignMany ts) w :=
  jsd_relabel log (relabelOutcome ρ) (relabelOutcome_injective ρ hρ) ts w

/-- **JSD, row order.** Storing the rows of each table in another order does not change the JSD;
the keys of each table must be pairwise distinct (a lookup finds the first of several rows). -/
theorem jsd_perm_rows (log : α → α) {ts ts' : List (Tab κ α)} (w : List α)
    (h : List.Forall₂ List.Perm ts' ts) (hnd : ∀ t ∈ ts, (keys t).Nodup) :
    jsdVals log (alignMany ts') w = jsdVals log (alignMany ts) w :=
  Lemmas.DivInv.jsd_perm_rows log w h hnd

example :
    let ts : List (Tab String Rat) := [[("a", 1 / 2), ("b", 1 / 2)], [("b", 1 / 4), ("c", 3 / 4)]]
    let ts' : List (Tab String Rat) := [[("b", 1 / 2), ("a", 1 / 2)], [("c", 3 / 4), ("b", 1 / 4)]]
    List.Forall₂ List.Perm ts' ts ∧ (∀ t ∈ ts, (keys t).Nodup)
      ∧ alignMany ts = [[1 / 2, 1 / 2, 0], [0, 1 / 4, 3 / 4]]
      ∧ alignMany ts' = [[1 / 2, 1 / 2, 0], [1 / 4, 0, 3 / 4]] := by
  refine ⟨?_, ?_, ?_, ?_⟩
  · exact List.Forall₂.cons (List.Perm.swap _ _ _)
      (List.Forall₂.cons (List.Perm.swap _ _ _) List.Forall₂.nil)
  · decide
  · decide +kernel
  · decide +kernel

/-- **JSD, zero padding.** Adding any zero-probability outcomes to each table (a different set
for each) does not change the JSD. -/
theorem jsd_padZeros {σ : Type} [DecidableEq σ] (log : α → α)
    (ets : List (List (List σ) × Tab (List σ) α)) (w : List α) :
    jsdVals log (alignMany (ets.map (fun r => padZeros r.1 r.2))) w
      = jsdVals log (alignMany (ets.map Prod.snd)) w :=
  Lemmas.DivInv.jsd_padZeros log ets w

/-- The same for arbitrary appended rows of value zero (also for labels already stored). -/
theorem jsd_append_zero (log : α → α) (tz : List (Tab κ α × Tab κ α)) (w : List α)
    (hz : ∀ r ∈ tz, ∀ x ∈ r.2, x.2 = 0) :
    jsdVals log (alignMany (tz.map (fun r => r.1 ++ r.2))) w
      = jsdVals log (alignMany (tz.map Prod.fst)) w :=
  Lemmas.DivInv.jsd_append_zero log tz w hz

example : ∀ r ∈ ([([("a", 1)], [("c", 0), ("a", 0)])] : List (Tab String Rat × Tab String Rat)),
    ∀ x ∈ r.2, x.2 = 0 := by decide

/-- **JSD, trimming.** Dropping the stored zeros of every table does not change the JSD; keys
pairwise distinct (a zero row could otherwise shadow a non-zero row with the same label). -/
theorem jsd_trim (log : α → α) (ts : List (Tab κ α)) (w : List α)
    (hnd : ∀ t ∈ ts, (keys t).Nodup) :
    jsdVals log (alignMany (ts.map (fun t => t.filter (fun r => decide (r.2 ≠ 0))))) w
      = jsdVals log (alignMany ts) w :=
  Lemmas.DivInv.jsd_trim log ts w hnd

/-- **JSD, symmetry.** Permuting the (distribution, weight) pairs together does not change the
JSD (no hypothesis: the common labels are found again in another order). -/
theorem jsd_perm_dists (log : α → α) {l l' : List (Tab κ α × α)} (h : l'.Perm l) :
    jsdVals log (alignMany (l'.map Prod.fst)) (l'.map Prod.snd)
      = jsdVals log (alignMany (l.map Prod.fst)) (l.map Prod.snd) :=
  Lemmas.DivInv.jsd_perm_dists log h

example : ([(([("b", 1)] : Tab String Rat), (1 : Rat) / 3), ([("a", 1)], 2 / 3)]).Perm
    [([("a", 1)], 2 / 3), ([("b", 1)], 1 / 3)] := List.Perm.swap _ _ _

/-- The statements apply to the real-valued JSD in bits of C06. -/
example (ρ : Nat → Bool → String) (hρ : ∀ i, Function.Injective (ρ i))
    (ts : List (Tab (List Bool) ℝ)) (w : List ℝ) :
    jsdVals (Real.logb 2) (alignMany (ts.map (relabelTab ρ))) w
      = jsdVals (Real.logb 2) (alignMany ts) w :=
  jsd_relabelTab _ ρ hρ ts w

end JSD

/-! ## Cross entropy -/

section CrossEntropy
variable {κ κ' : Type} [DecidableEq κ] [DecidableEq κ']

/-- **Cross entropy, relabelling** (value `+∞` included). -/
theorem ce_relabel (log : ℝ → ℝ) (φ : κ → κ') (hφ : Function.Injective φ) (t1 t2 : Tab κ ℝ) :
    crossEntropyVals log
        (alignPair (t1.map (fun r => (φ r.1, r.2))) (t2.map (fun r => (φ r.1, r.2))))
      = crossEntropyVals log (alignPair t1 t2) := by
  rw [alignPair_map_inj φ hφ]

/-- **Cross entropy, per-variable relabelling.** -/
theorem ce_relabelTab {σ τ : Type} [DecidableEq σ] [DecidableEq τ] (log : ℝ → ℝ)
    (ρ : Nat → σ → τ) (hρ : ∀ i, Function.Injective (ρ i)) (t1 t2 : Tab (List σ) ℝ) :
    crossEntropyVals log (alignPair (relabelTab ρ t1) (relabelTab ρ t2))
      = crossEntropyVals log (alignPair t1 t2) :=
  ce_relabel log (relabelOutcome ρ) (relabelOutcome_injective ρ hρ) t1 t2

/-- **Cross entropy, row order.** The keys of `t2` must be pairwise distinct (otherwise the
lookup finds the first of several rows, which depends on the order). -/
theorem ce_perm_rows (log : ℝ → ℝ) {t1 t1' t2 t2' : Tab κ ℝ} (h1 : t1'.Perm t1)
    (h2 : t2'.Perm t2) (hnd : (keys t2).Nodup) :
    crossEntropyVals log (alignPair t1' t2') = crossEntropyVals log (alignPair t1 t2) := by
  rw [← Lemmas.Diverge.alignPair_right_perm t1' h2.symm hnd]
  exact Lemmas.Diverge.xentVals_perm log (Lemmas.Diverge.alignPair_left_perm t2 h1)

example : (keys [("a", (1 : ℝ) / 2), ("b", 1 / 2)]).Nodup := by simp [keys]

/-- **Cross entropy, zero padding.** New rows of `t1` give pairs `(0, q)`, which contribute
nothing; new rows of `t2` are looked up as `0`, as absent labels are. -/
theorem ce_padZeros {σ : Type} [DecidableEq σ] (log : ℝ → ℝ) (e1 e2 : List (List σ))
    (t1 t2 : Tab (List σ) ℝ) :
    crossEntropyVals log (alignPair (padZeros e1 t1) (padZeros e2 t2))
      = crossEntropyVals log (alignPair t1 t2) := by
  obtain ⟨z1, E1, hz1, _⟩ := padZeros_eq_append e1 t1
  obtain ⟨z2, E2, hz2, _⟩ := padZeros_eq_append e2 t2
  rw [E1, E2, alignPair_append_zero_right _ _ _ hz2, Lemmas.Transform.alignPair_append_left]
  exact Lemmas.Diverge.xentVals_append_zero log _ _ (alignPair_zero_left z1 t2 hz1)

/-- **Cross entropy, trimming**; the keys of `t2` must be pairwise distinct. -/
theorem ce_trim (log : ℝ → ℝ) (t1 t2 : Tab κ ℝ) (hnd : (keys t2).Nodup) :
    crossEntropyVals log (alignPair (t1.filter (fun r => decide (r.2 ≠ 0)))
        (t2.filter (fun r => decide (r.2 ≠ 0)))) = crossEntropyVals log (alignPair t1 t2) := by
  rw [alignPair_trim t1 t2 hnd]
  exact (klVals_filter_fst log _).2

/-- **Cross entropy over the union alignment** equals cross entropy along `t1` (labels that only
`t2` has do not matter), so all of the above also hold for `alignUnion`. -/
theorem ce_alignUnion (log : ℝ → ℝ) (t1 t2 : Tab κ ℝ) (hnd : (keys t1).Nodup) :
    crossEntropyVals log (alignUnion t1 t2) = crossEntropyVals log (alignPair t1 t2) :=
  xent_alignUnion log t1 t2 hnd

end CrossEntropy

/-! ## Sums over the union alignment: Hellinger distance, power sums, f-divergences -/

section PairSums
variable {κ κ' α M : Type} [DecidableEq κ] [DecidableEq κ'] [AddCommMonoid α] [AddCommMonoid M]

/-- **Any sum `Σ g(p, q)` over the union alignment, relabelling.** -/
theorem pairSum_relabel (g : α × α → M) (φ : κ → κ') (hφ : Function.Injective φ)
    (t1 t2 : Tab κ α) :
    ((alignUnion (t1.map (fun r => (φ r.1, r.2))) (t2.map (fun r => (φ r.1, r.2)))).map g).sum
      = ((alignUnion t1 t2).map g).sum := by
  rw [alignUnion_map_inj φ hφ]

/-- **Any sum `Σ g(p, q)` over the union alignment, row order** (keys pairwise distinct). -/
theorem pairSum_perm_rows (g : α × α → M) {t1 t1' t2 t2' : Tab κ α} (h1 : t1'.Perm t1)
    (h2 : t2'.Perm t2) (hnd1 : (keys t1).Nodup) (hnd2 : (keys t2).Nodup) :
    ((alignUnion t1' t2').map g).sum = ((alignUnion t1 t2).map g).sum :=
  ((alignUnion_perm_gen h1.symm h2.symm hnd1 hnd2).map g).sum_eq.symm

/-- **Any sum `Σ g(p, q)` over the union alignment, zero padding.** `g (0, 0) = 0` is needed: a
label new to both tables gives a pair `(0, 0)`. -/
theorem pairSum_padZeros {σ : Type} [DecidableEq σ] (g : α × α → M) (hg : g (0, 0) = 0)
    (e1 e2 : List (List σ)) (t1 t2 : Tab (List σ) α) :
    ((alignUnion (padZeros e1 t1) (padZeros e2 t2)).map g).sum
      = ((alignUnion t1 t2).map g).sum := by
  obtain ⟨z1, E1, hz1, _⟩ := padZeros_eq_append e1 t1
  obtain ⟨z2, E2, hz2, _⟩ := padZeros_eq_append e2 t2
  rw [E1, E2]
  exact sum_alignUnion_append_zero g hg t1 z1 t2 z2 hz1 hz2

/-- **Any sum `Σ g(p, q)` over the union alignment, trimming** (`g (0, 0) = 0`, keys pairwise
distinct). -/
theorem pairSum_trim [DecidableEq α] (g : α × α → M) (hg : g (0, 0) = 0) (t1 t2 : Tab κ α)
    (hnd1 : (keys t1).Nodup) (hnd2 : (keys t2).Nodup) :
    ((alignUnion (t1.filter (fun r => decide (r.2 ≠ 0)))
        (t2.filter (fun r => decide (r.2 ≠ 0)))).map g).sum
      = ((alignUnion t1 t2).map g).sum :=
  sum_alignUnion_trim g hg t1 t2 hnd1 hnd2

/-- An f-divergence term `q f(p/q)` (with `0 · f(0/0) = 0`) satisfies `g (0, 0) = 0`. -/
example (f : ℝ → ℝ) : (fun r : ℝ × ℝ => r.2 * f (r.1 / r.2)) (0, 0) = 0 := by simp

end PairSums

section Hellinger
variable {κ κ' : Type} [DecidableEq κ] [DecidableEq κ']

/-- **Row order (Bhattacharyya coefficient, power sums)**; keys pairwise distinct. -/
theorem bc_perm_rows (sqrt : ℝ → ℝ) (R : RealOps ℝ) (a b : ℝ) {t1 t1' t2 t2' : Tab κ ℝ}
    (h1 : t1'.Perm t1) (h2 : t2'.Perm t2) (hnd1 : (keys t1).Nodup) (hnd2 : (keys t2).Nodup) :
    bcVals sqrt (alignUnion t1' t2') = bcVals sqrt (alignUnion t1 t2)
    ∧ powerSum R a b (alignUnion t1' t2') = powerSum R a b (alignUnion t1 t2) :=
  ⟨(Lemmas.Diverge.bcVals_perm sqrt (alignUnion_perm_gen h1.symm h2.symm hnd1 hnd2)).symm,
    (Lemmas.Diverge.powerSum_perm R a b (alignUnion_perm_gen h1.symm h2.symm hnd1 hnd2)).symm⟩

/-- **Trimming (Bhattacharyya coefficient, power sums)**; `sqrt 0 = 0`, keys pairwise
distinct. -/
theorem bc_trim (sqrt : ℝ → ℝ) (hs : sqrt 0 = 0) (R : RealOps ℝ) (a b : ℝ) (t1 t2 : Tab κ ℝ)
    (hnd1 : (keys t1).Nodup) (hnd2 : (keys t2).Nodup) :
    bcVals sqrt (alignUnion (t1.filter (fun r => decide (r.2 ≠ 0)))
        (t2.filter (fun r => decide (r.2 ≠ 0)))) = bcVals sqrt (alignUnion t1 t2)
    ∧ powerSum R a b (alignUnion (t1.filter (fun r => decide (r.2 ≠ 0)))
        (t2.filter (fun r => decide (r.2 ≠ 0)))) = powerSum R a b (alignUnion t1 t2) :=
  ⟨bcVals_trim sqrt hs t1 t2 hnd1 hnd2, powerSum_trim R a b t1 t2 hnd1 hnd2⟩

/-- **Hellinger distance, relabelling.** -/
theorem hellinger_relabel (sqrt : ℝ → ℝ) (φ : κ → κ') (hφ : Function.Injective φ)
    (t1 t2 : Tab κ ℝ) :
    hellingerVals sqrt
        (alignUnion (t1.map (fun r => (φ r.1, r.2))) (t2.map (fun r => (φ r.1, r.2))))
      = hellingerVals sqrt (alignUnion t1 t2) := by
  rw [alignUnion_map_inj φ hφ]

/-- **Hellinger distance, row order**; keys pairwise distinct. -/
theorem hellinger_perm_rows (sqrt : ℝ → ℝ) {t1 t1' t2 t2' : Tab κ ℝ} (h1 : t1'.Perm t1)
    (h2 : t2'.Perm t2) (hnd1 : (keys t1).Nodup) (hnd2 : (keys t2).Nodup) :
    hellingerVals sqrt (alignUnion t1' t2') = hellingerVals sqrt (alignUnion t1 t2) :=
  (hellingerVals_perm sqrt (alignUnion_perm_gen h1.symm h2.symm hnd1 hnd2)).symm

/-- **Hellinger distance, zero padding.** `sqrt 0 = 0` is all that is used of the square root: a
label new to both tables contributes `sqrt (0 · 0)` to the Bhattacharyya coefficient. -/
theorem hellinger_padZeros {σ : Type} [DecidableEq σ] (sqrt : ℝ → ℝ) (hs : sqrt 0 = 0)
    (e1 e2 : List (List σ)) (t1 t2 : Tab (List σ) ℝ) :
    hellingerVals sqrt (alignUnion (padZeros e1 t1) (padZeros e2 t2))
      = hellingerVals sqrt (alignUnion t1 t2) := by
  obtain ⟨z1, E1, hz1, _⟩ := padZeros_eq_append e1 t1
  obtain ⟨z2, E2, hz2, _⟩ := padZeros_eq_append e2 t2
  unfold hellingerVals
  rw [E1, E2, bcVals_append_zero sqrt hs t1 z1 t2 z2 hz1 hz2]

/-- **Hellinger distance, trimming**; `sqrt 0 = 0`, keys pairwise distinct. -/
theorem hellinger_trim (sqrt : ℝ → ℝ) (hs : sqrt 0 = 0) (t1 t2 : Tab κ ℝ)
    (hnd1 : (keys t1).Nodup) (hnd2 : (keys t2).Nodup) :
    hellingerVals sqrt (alignUnion (t1.filter (fun r => decide (r.2 ≠ 0)))
        (t2.filter (fun r => decide (r.2 ≠ 0)))) = hellingerVals sqrt (alignUnion t1 t2) := by
  unfold hellingerVals
  rw [bcVals_trim sqrt hs t1 t2 hnd1 hnd2]

example : Real.sqrt 0 = 0 := Real.sqrt_zero

/-- **Rényi, Tsallis (= Hellinger) and alpha divergences, relabelling.** -/
theorem powerFamily_relabel (R : RealOps ℝ) (two four a : ℝ) (φ : κ → κ')
    (hφ : Function.Injective φ) (t1 t2 : Tab κ ℝ) :
    renyiDiv R a (alignUnion (t1.map (fun r => (φ r.1, r.2))) (t2.map (fun r => (φ r.1, r.2))))
        = renyiDiv R a (alignUnion t1 t2)
    ∧ tsallisDiv R a
          (alignUnion (t1.map (fun r => (φ r.1, r.2))) (t2.map (fun r => (φ r.1, r.2))))
        = tsallisDiv R a (alignUnion t1 t2)
    ∧ alphaDiv R two four a
          (alignUnion (t1.map (fun r => (φ r.1, r.2))) (t2.map (fun r => (φ r.1, r.2))))
        = alphaDiv R two four a (alignUnion t1 t2) := by
  rw [alignUnion_map_inj φ hφ]
  exact ⟨rfl, rfl, rfl⟩

/-- **Rényi, Tsallis and alpha divergences, row order**; keys pairwise distinct. -/
theorem powerFamily_perm_rows (R : RealOps ℝ) (two four a : ℝ) {t1 t1' t2 t2' : Tab κ ℝ}
    (h1 : t1'.Perm t1) (h2 : t2'.Perm t2) (hnd1 : (keys t1).Nodup) (hnd2 : (keys t2).Nodup) :
    renyiDiv R a (alignUnion t1' t2') = renyiDiv R a (alignUnion t1 t2)
    ∧ tsallisDiv R a (alignUnion t1' t2') = tsallisDiv R a (alignUnion t1 t2)
    ∧ alphaDiv R two four a (alignUnion t1' t2') = alphaDiv R two four a (alignUnion t1 t2) :=
  have hp := alignUnion_perm_gen h1.symm h2.symm hnd1 hnd2
  ⟨(renyiDiv_perm R a hp).symm, (tsallisDiv_perm R a hp).symm,
    (alphaDiv_perm R two four a hp).symm⟩

/-- **Rényi, Tsallis and alpha divergences, zero padding.** No hypothesis on `R.pow` or `R.log`
is needed: `powerSum` skips every pair with a null component, in particular the pairs `(0, 0)` of
the new labels. -/
theorem powerFamily_padZeros {σ : Type} [DecidableEq σ] (R : RealOps ℝ) (two four a : ℝ)
    (e1 e2 : List (List σ)) (t1 t2 : Tab (List σ) ℝ) :
    renyiDiv R a (alignUnion (padZeros e1 t1) (padZeros e2 t2))
        = renyiDiv R a (alignUnion t1 t2)
    ∧ tsallisDiv R a (alignUnion (padZeros e1 t1) (padZeros e2 t2))
        = tsallisDiv R a (alignUnion t1 t2)
    ∧ alphaDiv R two four a (alignUnion (padZeros e1 t1) (padZeros e2 t2))
        = alphaDiv R two four a (alignUnion t1 t2) := by
  obtain ⟨z1, E1, hz1, _⟩ := padZeros_eq_append e1 t1
  obtain ⟨z2, E2, hz2, _⟩ := padZeros_eq_append e2 t2
  unfold renyiDiv tsallisDiv alphaDiv
  rw [E1, E2, powerSum_append_zero R _ _ t1 z1 t2 z2 hz1 hz2,
    powerSum_append_zero R _ _ t1 z1 t2 z2 hz1 hz2]
  exact ⟨rfl, rfl, rfl⟩

/-- **Rényi, Tsallis and alpha divergences, trimming**; keys pairwise distinct. -/
theorem powerFamily_trim (R : RealOps ℝ) (two four a : ℝ) (t1 t2 : Tab κ ℝ)
    (hnd1 : (keys t1).Nodup) (hnd2 : (keys t2).Nodup) :
    renyiDiv R a (alignUnion (t1.filter (fun r => decide (r.2 ≠ 0)))
        (t2.filter (fun r => decide (r.2 ≠ 0)))) = renyiDiv R a (alignUnion t1 t2)
    ∧ tsallisDiv R a (alignUnion (t1.filter (fun r => decide (r.2 ≠ 0)))
        (t2.filter (fun r => decide (r.2 ≠ 0)))) = tsallisDiv R a (alignUnion t1 t2)
    ∧ alphaDiv R two four a (alignUnion (t1.filter (fun r => decide (r.2 ≠ 0)))
        (t2.filter (fun r => decide (r.2 ≠ 0)))) = alphaDiv R two four a (alignUnion t1 t2) := by
  unfold renyiDiv tsallisDiv alphaDiv
  rw [powerSum_trim R _ _ t1 t2 hnd1 hnd2, powerSum_trim R _ _ t1 t2 hnd1 hnd2]
  exact ⟨rfl, rfl, rfl⟩

/-- **Hellinger distance and the power-sum family, per-variable relabelling** (`relabelTab` with
every symbol map injective). -/
theorem unionDiv_relabelTab {σ τ : Type} [DecidableEq σ] [DecidableEq τ] (sqrt : ℝ → ℝ)
    (R : RealOps ℝ) (two four a : ℝ) (ρ : Nat → σ → τ) (hρ : ∀ i, Function.Injective (ρ i))
    (t1 t2 : Tab (List σ) ℝ) :
    hellingerVals sqrt (alignUnion (relabelTab ρ t1) (relabelTab ρ t2))
        = hellingerVals sqrt (alignUnion t1 t2)
    ∧ renyiDiv R a (alignUnion (relabelTab ρ t1) (relabelTab ρ t2))
        = renyiDiv R a (alignUnion t1 t2)
    ∧ tsallisDiv R a (alignUnion (relabelTab ρ t1) (relabelTab ρ t2))
        = tsallisDiv R a (alignUnion t1 t2)
    ∧ alphaDiv R two four a (alignUnion (relabelTab ρ t1) (relabelTab ρ t2))
        = alphaDiv R two four a (alignUnion t1 t2) := by
  have e : alignUnion (relabelTab ρ t1) (relabelTab ρ t2) = alignUnion t1 t2 :=
    alignUnion_map_inj _ (relabelOutcome_injective ρ hρ) t1 t2
  rw [e]
  exact ⟨rfl, rfl, rfl, rfl⟩

example :
    let t1 : Tab (List String) Rat := [(["a"], 1 / 2), (["b"], 1 / 2)]
    let t2 : Tab (List String) Rat := [(["b"], 1 / 4), (["c"], 3 / 4)]
    (keys t1).Nodup ∧ (keys t2).Nodup ∧ [(["b"], (1 : Rat) / 2), (["a"], 1 / 2)].Perm t1
    ∧ alignUnion (padZeros [["c"]] t1) (padZeros [["a"], ["d"]] t2)
        = [(1 / 2, 0), (1 / 2, 1 / 4), (0, 3 / 4), (0, 0)]
    ∧ alignUnion [(["b"], (1 : Rat) / 2), (["a"], 1 / 2)] t2
        = [(1 / 2, 1 / 4), (1 / 2, 0), (0, 3 / 4)] := by
  refine ⟨by decide, by decide, List.Perm.swap _ _ _, by decide +kernel, by decide +kernel⟩

end Hellinger

/-! ## Maximum correlation -/

section MaxCorr
variable {α : Type} [Field α] [DecidableEq α]

/-- What `lmatrix` and `jointMat` are: the matrix with entry `v x y` in row `x ∈ xs`, column
`y ∈ ys`; for a table of two-variable outcomes, `v x y` is the stored value of `[x, y]` (or `0`). -/
theorem jointMat_def {σ : Type} [DecidableEq σ] (xs ys : List σ) (t : Tab (List σ) α) :
    jointMat xs ys t = xs.map (fun x => ys.map (fun y => lookupD 0 t [x, y])) := rfl

/-- **Maximum correlation, relabelling: the matrix.** Relabelling the symbols of `X` and of `Y`
by injective maps, and renaming the alphabets accordingly, gives the very same joint matrix, hence
the same companion matrix and characteristic polynomial. -/
theorem maxcorr_matrix_relabel {σ τ : Type} [DecidableEq σ] [DecidableEq τ] (ρ : Nat → σ → τ)
    (hρ : ∀ i, Function.Injective (ρ i)) (xs ys : List σ) (t : Tab (List σ) α) :
    jointMat (xs.map (ρ 0)) (ys.map (ρ 1)) (relabelTab ρ t) = jointMat xs ys t :=
  jointMat_relabel ρ hρ xs ys t

/-- **Maximum correlation, row order of the table**: the same joint matrix (keys pairwise
distinct). -/
theorem maxcorr_matrix_perm_rows {σ : Type} [DecidableEq σ] (xs ys : List σ)
    {t t' : Tab (List σ) α} (h : t'.Perm t) (hnd : (keys t).Nodup) :
    jointMat xs ys t' = jointMat xs ys t :=
  jointMat_congr xs ys t t' (fun o => (lookupD_perm h.symm hnd 0 o).symm)

/-- **Maximum correlation, zero padding of the table**: the same joint matrix. -/
theorem maxcorr_matrix_padZeros {σ : Type} [DecidableEq σ] (xs ys : List σ)
    (extra : List (List σ)) (t : Tab (List σ) α) :
    jointMat xs ys (padZeros extra t) = jointMat xs ys t := by
  obtain ⟨zs, E, hz, _⟩ := padZeros_eq_append extra t
  rw [E]
  exact jointMat_congr xs ys t _ (fun o => lookupD_append_zero t zs hz o)

/-- **Maximum correlation, trimming of the table**: the same joint matrix (keys pairwise
distinct). -/
theorem maxcorr_matrix_trim {σ : Type} [DecidableEq σ] (xs ys : List σ) (t : Tab (List σ) α)
    (hnd : (keys t).Nodup) :
    jointMat xs ys (t.filter (fun r => decide (r.2 ≠ 0))) = jointMat xs ys t :=
  jointMat_congr xs ys t _ (fun o => lookupD_trim t hnd o)

/-- **Maximum correlation, order of the symbols of `X`**: listing the rows of the joint matrix in
another order leaves the companion matrix itself unchanged (its entries are sums over the rows). -/
theorem maxcorr_companion_perm_X {ι τ : Type} [DecidableEq τ] (v : ι → τ → α) {xs xs' : List ι}
    (hx : xs'.Perm xs) (ys : List τ) :
    maxcorrCompanion (lmatrix xs' ys v) = maxcorrCompanion (lmatrix xs ys v) :=
  maxcorrCompanion_perm_rows v hx ys

/-- **Maximum correlation, order of the symbols of `X` and `Y`**: listing rows and columns of the
joint matrix in another order changes the companion matrix by a permutation similarity, and the
coefficients of its characteristic polynomial, as computed by `charPoly` (Faddeev–LeVerrier, with
any cast `ofNat`), are the same. The column labels must be pairwise distinct (the identity matrix
of the recursion is by position). -/
theorem maxcorr_charPoly_perm {ι τ : Type} [DecidableEq τ] (ofNat : Nat → α) (v : ι → τ → α)
    {xs xs' : List ι} {ys ys' : List τ} (hx : xs'.Perm xs) (hy : ys'.Perm ys) (hnd : ys.Nodup) :
    charPoly ofNat (maxcorrCompanion (lmatrix xs' ys' v))
      = charPoly ofNat (maxcorrCompanion (lmatrix xs ys v)) :=
  charPoly_maxcorr_perm ofNat v hx hy hnd

/-- The same by positions, for any rectangular matrix `P`: new row `i` is old row `σ[i]`, new
column `j` is old column `π[j]`, `σ` and `π` permutations of the row and column numbers. -/
theorem maxcorr_charPoly_perm_index (ofNat : Nat → α) (P : List (List α)) (n : Nat)
    (hrow : ∀ row ∈ P, row.length = n) {σ π : List Nat} (hσ : σ.Perm (List.range P.length))
    (hπ : π.Perm (List.range n)) :
    charPoly ofNat (maxcorrCompanion
        (σ.map (fun i => π.map (fun j => (P.getD i []).getD j 0))))
      = charPoly ofNat (maxcorrCompanion P) := by
  conv_rhs => rw [lmatrix_getD_self P n hrow]
  exact charPoly_maxcorr_perm ofNat _ hσ hπ List.nodup_range

example : [2, 0, 1].Perm (List.range 3) ∧ [1, 0].Perm (List.range 2) := by decide

/-- **Maximum correlation, relabelling: the value.** Relabel the symbols of `X` and `Y` by
injective maps and list the new alphabets in any order (dit sorts them): the characteristic
polynomial of the companion matrix — everything the model returns for the maximum correlation —
is unchanged. The alphabet of `Y` must be duplicate-free. -/
theorem maxcorr_relabel {σ τ : Type} [DecidableEq σ] [DecidableEq τ] (ofNat : Nat → α)
    (ρ : Nat → σ → τ) (hρ : ∀ i, Function.Injective (ρ i)) (xs ys : List σ) (xs' ys' : List τ)
    (hx : xs'.Perm (xs.map (ρ 0))) (hy : ys'.Perm (ys.map (ρ 1))) (hnd : ys.Nodup)
    (t : Tab (List σ) α) :
    charPoly ofNat (maxcorrCompanion (jointMat xs' ys' (relabelTab ρ t)))
      = charPoly ofNat (maxcorrCompanion (jointMat xs ys t)) := by
  rw [← jointMat_relabel ρ hρ xs ys t]
  exact charPoly_maxcorr_perm ofNat _ hx hy (hnd.map (hρ 1))

/-- Non-vacuity: reversing both binary alphabets; the joint matrix has rows and columns swapped,
the companion matrix changes, its characteristic polynomial does not. -/
example :
    let t : Tab (List Bool) Rat :=
      [([false, false], 3 / 8), ([false, true], 1 / 8), ([true, false], 1 / 4), ([true, true], 1 / 4)]
    let ρ : Nat → Bool → String := fun _ b => if b then "0" else "1"
    ["0", "1"].Perm ([false, true].map (ρ 0)) ∧ [false, true].Nodup
    ∧ jointMat ["0", "1"] ["0", "1"] (relabelTab ρ t) = [[1 / 4, 1 / 4], [1 / 8, 3 / 8]]
    ∧ jointMat [false, true] [false, true] t = [[3 / 8, 1 / 8], [1 / 4, 1 / 4]]
    ∧ maxcorrCompanion (jointMat ["0", "1"] ["0", "1"] (relabelTab ρ t))
        ≠ maxcorrCompanion (jointMat [false, true] [false, true] t)
    ∧ charPoly (fun n => (n : Rat)) (maxcorrCompanion (jointMat ["0", "1"] ["0", "1"] (relabelTab ρ t)))
        = charPoly (fun n => (n : Rat)) (maxcorrCompanion (jointMat [false, true] [false, true] t)) := by
  decide +kernel

/-- The statements apply at `ℝ`. -/
example (P : List (List ℝ)) (hrow : ∀ row ∈ P, row.length = 2) (h2 : P.length = 2) :
    charPoly (fun n => (n : ℝ)) (maxcorrCompanion
        ([1, 0].map (fun i => [1, 0].map (fun j => (P.getD i []).getD j 0))))
      = charPoly (fun n => (n : ℝ)) (maxcorrCompanion P) :=
  maxcorr_charPoly_perm_index _ P 2 hrow (by rw [h2]; decide) (by decide)

end MaxCorr

/-! ## Earth mover's distance -/

section EMD
variable {α ι τ : Type} [Semiring α]

/-- **Cost of a transport plan, order of the outcomes.** Listing the outcomes of the first
distribution (rows) and of the second (columns) in another order, consistently in the ground
distance `D` and in the plan `P`, does not change the cost. No hypothesis (labels may repeat). -/
theorem planCost_perm {xs xs' : List ι} {ys ys' : List τ} (hx : xs'.Perm xs) (hy : ys'.Perm ys)
    (D P : ι → τ → α) :
    planCost (lmatrix xs' ys' D) (lmatrix xs' ys' P)
      = planCost (lmatrix xs ys D) (lmatrix xs ys P) :=
  Lemmas.DivInv.planCost_perm hx hy D P

/-- **Cost of a transport plan, relabelling.** With the ground distance and the plan given on the
new labels, the matrices — hence the cost — are the same. -/
theorem planCost_relabel {ι' τ' : Type} (f : ι → ι') (g : τ → τ') (xs : List ι) (ys : List τ)
    (D P : ι' → τ' → α) :
    planCost (lmatrix (xs.map f) (ys.map g) D) (lmatrix (xs.map f) (ys.map g) P)
      = planCost (lmatrix xs ys (fun x y => D (f x) (g y)))
          (lmatrix xs ys (fun x y => P (f x) (g y))) := by
  unfold lmatrix
  simp only [List.map_map, Function.comp_def]

/-- **Feasibility is preserved**: the marginals of a plan (row sums, column sums) do not depend on
the order in which the outcomes are listed, so the feasible plans for the reordered problem are the
reordered feasible plans, with the same costs (`planCost_perm`): the minimum is the same. -/
theorem plan_marginals_perm {xs xs' : List ι} {ys ys' : List τ} (hx : xs'.Perm xs)
    (hy : ys'.Perm ys) (P : ι → τ → α) :
    (∀ x, (ys'.map (fun y => P x y)).sum = (ys.map (fun y => P x y)).sum)
    ∧ (∀ y, (xs'.map (fun x => P x y)).sum = (xs.map (fun x => P x y)).sum) :=
  ⟨fun _ => (hy.map _).sum_eq, fun _ => (hx.map _).sum_eq⟩

example : planCost (lmatrix [1, 0] [0, 1] (fun i j => if i = j then (0 : Rat) else 1))
      (lmatrix [1, 0] [0, 1] (fun i j => if i = 0 then (1 : Rat) / 4 else if j = 0 then 0 else 1 / 2))
    = planCost [[(0 : Rat), 1], [1, 0]] [[(1 : Rat) / 4, 1 / 4], [0, 1 / 2]] := by
  decide +kernel

variable {κ κ' : Type} [DecidableEq κ] [DecidableEq κ']

/-- **Earth mover's distance for the categorical metric** (`emdCategorical`, the mass that has to
move), **relabelling.** -/
theorem emdCategorical_relabel (two : ℝ) (φ : κ → κ') (hφ : Function.Injective φ)
    (t1 t2 : Tab κ ℝ) :
    emdCategorical two
        (alignUnion (t1.map (fun r => (φ r.1, r.2))) (t2.map (fun r => (φ r.1, r.2))))
      = emdCategorical two (alignUnion t1 t2) := by
  rw [alignUnion_map_inj φ hφ]

/-- **Categorical earth mover's distance, row order** (keys pairwise distinct). -/
theorem emdCategorical_perm_rows (two : ℝ) {t1 t1' t2 t2' : Tab κ ℝ} (h1 : t1'.Perm t1)
    (h2 : t2'.Perm t2) (hnd1 : (keys t1).Nodup) (hnd2 : (keys t2).Nodup) :
    emdCategorical two (alignUnion t1' t2') = emdCategorical two (alignUnion t1 t2) :=
  (Lemmas.Diverge.tvVals_perm two (alignUnion_perm_gen h1.symm h2.symm hnd1 hnd2)).symm

/-- **Categorical earth mover's distance, zero padding** (any divisor `two`). -/
theorem emdCategorical_padZeros {σ : Type} [DecidableEq σ] (two : ℝ) (e1 e2 : List (List σ))
    (t1 t2 : Tab (List σ) ℝ) :
    emdCategorical two (alignUnion (padZeros e1 t1) (padZeros e2 t2))
      = emdCategorical two (alignUnion t1 t2) := by
  obtain ⟨z1, E1, hz1, _⟩ := padZeros_eq_append e1 t1
  obtain ⟨z2, E2, hz2, _⟩ := padZeros_eq_append e2 t2
  rw [E1, E2]
  exact tvVals_append_zero two t1 z1 t2 z2 hz1 hz2

end EMD

end Dit.Props.C08Div
