/-
C06 (companion) — the textbook f-divergence (`Core/FDiv.lean`) and its axioms.

For a convex `f` on `[0, ∞)` with `f(1) = 0`, and two lists of pairs `(p, q)` of non-negative numbers with
`Σ p = Σ q = 1`: `D_f(P‖P) = 0`, `D_f(P‖Q) ≥ 0` (Jensen), and the classical instances: `f(t) = |t − 1| / 2` gives the
variational distance, `f(t) = t log₂ t` the Kullback–Leibler divergence (with `f'(∞) = +∞`: infinite exactly when the
first support leaves the second), `f(t) = (t − 1)²` the chi-square divergence.
-/
import DitModel.Core.FDiv
import DitModel.Props.C06
import DitModel.Lemmas.FDiv

set_option linter.unusedSectionVars false

namespace Dit.Props.C06FDiv
open Dit Dit.Lemmas.Table Dit.Lemmas.InfoReal Dit.Lemmas.Diverge Dit.Lemmas.FDiv

/-- **Finite case**: when the first support is inside the second (or `f'(∞)` is finite) the value is the plain sum
of the terms. -/
theorem fdivVals_finite (f : ℝ → ℝ) (c : ℝ) (pq : List (ℝ × ℝ)) :
    fdivVals f (some c) pq
      = some ((pq.map (fun r => if r.2 = 0 then (if r.1 = 0 then 0 else r.1 * c) else r.2 * f (r.1 / r.2))).sum) :=
  fdivVals_of_some f (some c) (termR f c) pq (fun r _ => fdivTerm_some f c r)

/-- **Infinite exactly on a support violation** when `f'(∞) = +∞`. -/
theorem fdivVals_none_iff (f : ℝ → ℝ) (pq : List (ℝ × ℝ)) :
    fdivVals f none pq = none ↔ ∃ r ∈ pq, r.2 = 0 ∧ r.1 ≠ 0 := by
  constructor
  · intro h
    by_contra hne
    have hac : ∀ r ∈ pq, r.2 = 0 → r.1 = 0 := by
      intro r hr h2
      by_contra h1
      exact hne ⟨r, hr, h2, h1⟩
    rw [fdivVals_of_some f none (termR f 0) pq (fun r hr => fdivTerm_of_ac f none 0 r (hac r hr))] at h
    cases h
  · rintro ⟨r, hr, h⟩
    exact fdivVals_of_none f none pq ⟨r, hr, (fdivTerm_none_iff f r).mpr h⟩

/-- **`D_f(P‖P) = 0`** for `f(1) = 0`, whatever `f'(∞)` is. -/
theorem fdiv_self (f : ℝ → ℝ) (finf : Option ℝ) (hf1 : f 1 = 0) (p : List ℝ) :
    fdivVals f finf (p.map (fun x => (x, x))) = some 0 := by
  rw [fdivVals_of_some f finf (fun _ => 0), sum_map_zero]
  intro r hr
  obtain ⟨x, _, rfl⟩ := List.mem_map.mp hr
  by_cases hx : x = 0
  · exact fdivTerm_zero_zero f finf _ hx hx
  · rw [fdivTerm_of_ne f finf (x, x) hx]
    simp only [div_self hx, hf1, mul_zero]

/-- **Non-negativity (Jensen)**: for `f` convex on `[0, ∞)` with `f(1) = 0`, non-negative pairs with `Σ p = Σ q = 1`,
every `q > 0` where `p > 0` (so all terms are finite): `0 ≤ D_f(P‖Q)`. -/
theorem fdiv_nonneg (f : ℝ → ℝ) (hconv : ConvexOn ℝ (Set.Ici 0) f) (hf1 : f 1 = 0) (c : ℝ)
    (pq : List (ℝ × ℝ)) (hnn : ∀ r ∈ pq, 0 ≤ r.1 ∧ 0 ≤ r.2)
    (hp : (pq.map (·.1)).sum = 1) (hq : (pq.map (·.2)).sum = 1)
    (hac : ∀ r ∈ pq, r.2 = 0 → r.1 = 0) :
    ∃ v, fdivVals f (some c) pq = some v ∧ 0 ≤ v :=
  ⟨_, fdivVals_of_some f (some c) (termR f c) pq (fun r _ => fdivTerm_some f c r),
    termR_sum_nonneg f hconv hf1 c pq hnn hp hq hac⟩

/-- Non-vacuity of the hypotheses of `fdiv_nonneg`: `f(t) = (t − 1)²` is convex on `[0, ∞)` with `f(1) = 0`, and the
pairs `(1/4, 1/2), (3/4, 1/2)` are non-negative, sum to one in each component and satisfy the support condition. -/
example : ConvexOn ℝ (Set.Ici 0) (fun t : ℝ => (t - 1) ^ 2) ∧ (fun t : ℝ => (t - 1) ^ 2) 1 = 0
    ∧ (∀ r ∈ [((1 : ℝ) / 4, (1 : ℝ) / 2), (3 / 4, 1 / 2)], 0 ≤ r.1 ∧ 0 ≤ r.2)
    ∧ ([((1 : ℝ) / 4, (1 : ℝ) / 2), (3 / 4, 1 / 2)].map (·.1)).sum = 1
    ∧ ([((1 : ℝ) / 4, (1 : ℝ) / 2), (3 / 4, 1 / 2)].map (·.2)).sum = 1
    ∧ (∀ r ∈ [((1 : ℝ) / 4, (1 : ℝ) / 2), (3 / 4, 1 / 2)], r.2 = 0 → r.1 = 0) := by
  refine ⟨⟨convex_Ici 0, ?_⟩, by norm_num, ?_, by norm_num, by norm_num, ?_⟩
  · intro x _ y _ a b ha hb hab
    have hb' : b = 1 - a := by linarith
    subst hb'
    simp only [smul_eq_mul]
    nlinarith [mul_nonneg (mul_nonneg ha hb) (sq_nonneg (x - y))]
  · intro r hr; simp at hr; rcases hr with rfl | rfl <;> norm_num
  · intro r hr h; simp at hr; rcases hr with rfl | rfl <;> norm_num at h

/-- **Variational distance** is the f-divergence of `f(t) = |t − 1| / 2` with `f'(∞) = 1/2`. -/
theorem fdiv_tv (pq : List (ℝ × ℝ)) (hnn : ∀ r ∈ pq, 0 ≤ r.1 ∧ 0 ≤ r.2) :
    fdivVals (fun t => |t - 1| / 2) (some (1 / 2)) pq = some (tvVals 2 pq) := by
  rw [fdivVals_of_some _ (some (1 / 2)) (fun r => |r.1 - r.2| / 2) pq
    (fun r hr => by rw [fdivTerm_some, tv_term r (hnn r hr).1 (hnn r hr).2]), tvVals_eq]
  congr 1
  simp only [div_eq_mul_inv]
  rw [sum_map_mul_right]

/-- **Kullback–Leibler divergence** is the f-divergence of `f(t) = t log₂ t` (`f(0) = 0`) with `f'(∞) = +∞`. -/
theorem fdiv_kl (pq : List (ℝ × ℝ)) (hnn : ∀ r ∈ pq, 0 ≤ r.1 ∧ 0 ≤ r.2) :
    fdivVals (fun t => t * Real.logb 2 t) none pq = klVals (Real.logb 2) pq := by
  have _ := hnn
  rw [klVals_eq]
  by_cases hac : absCont pq = true
  · rw [if_pos hac]
    have hac' := (absCont_iff pq).mp hac
    rw [fdivVals_of_some _ none (fun r => r.1 * Real.logb 2 (r.1 / r.2)) pq
      (fun r hr => by rw [fdivTerm_of_ac _ none 0 r (hac' r hr), kl_term r (hac' r hr)])]
    rfl
  · rw [if_neg hac]
    obtain ⟨r, hr, h1, h2⟩ := (absCont_false_iff pq).mp (by simpa using hac)
    exact fdivVals_of_none _ none pq ⟨r, hr, (fdivTerm_none_iff _ r).mpr ⟨h2, h1⟩⟩

/-- **Chi-square**: `f(t) = (t − 1)²` on pairs with `q > 0` gives `Σ (p − q)² / q`. -/
theorem fdiv_chi2 (pq : List (ℝ × ℝ)) (hq : ∀ r ∈ pq, r.2 ≠ 0) :
    fdivVals (fun t => (t - 1) ^ 2) none pq = some ((pq.map (fun r => (r.1 - r.2) ^ 2 / r.2)).sum) := by
  apply fdivVals_of_some _ none (fun r => (r.1 - r.2) ^ 2 / r.2) pq
  intro r hr
  rw [fdivTerm_of_ne _ none r (hq r hr)]
  exact congrArg some (chi2_term r (hq r hr))

example : fdivVals (fun t : ℝ => |t - 1| / 2) (some (1 / 2)) [(1 / 4, 1 / 4), (3 / 4, 1 / 4), (0, 1 / 2)]
    = some (1 / 2) := by
  rw [fdiv_tv _ (by intro r hr; simp at hr; rcases hr with rfl | rfl | rfl <;> norm_num), tvVals_eq]
  norm_num [abs_of_nonneg, abs_of_neg]

end Dit.Props.C06FDiv
