/-
C13 (Blahut–Arimoto part) — the rate–distortion iteration of
`dit.rate_distortion.blahut_arimoto._blahut_arimoto`, modelled in `Core/BA.lean`.

Theorems at `α := ℝ`, `exp2 := fun x => 2 ^ x`, `log2 := Real.logb 2`. A source `p` is
`IsLaw p n`; a test channel `W` is `IsChannel W n m`; a distortion matrix `d` is `IsMat d n m`;
entries are read with `vec`/`ent` (all defined in Lemmas/Channel.lean).

* every iterate of the loop is a channel, whatever the distortion function and stopping predicate;
  the loop returns one of the iterates, its own distortion value, and at most `maxIters` steps;
* the returned joint `baJoint p W` has input marginal `p`, mutual information `channelMI p W` and
  expected distortion `baAvDist p W d`;
* for a FIXED matrix `d`, `R + βD` never increases along the iteration (alternating minimisation
  of `baLagrangian`);
* a fixed point whose output marginal is positive (or which satisfies the KKT inequality on the
  unused output letters) minimises `R + βD` over ALL test channels;
* the Hamming matrix; the information-bottleneck distortion and `E[d] = I(X;Y) − I(T;Y)`.
Helper lemmas: Lemmas/BA.lean.
-/
import DitModel.Lemmas.BA

set_option linter.unusedSectionVars false

namespace Dit.Props.C13BA
open Dit Dit.Lemmas.Channel Finset

/-! ## 1. One update of the test channel -/

/-- **The channel update returns a channel**: for ANY output law `q` (no positivity needed: the
weights `2^{−β d}` are positive and `q` has a positive entry, so every normaliser is positive) and
any `n × m` matrix `d`, `baNextW` is an `n × m` row-stochastic matrix with entries
`q_y 2^{−β d_xy} / Σ_y' q_y' 2^{−β d_xy'}`. (`β` arbitrary.) -/
theorem baNextW_isChannel (β : ℝ) (q : List ℝ) (d : List (List ℝ)) (n m : ℕ) (hq : IsLaw q m)
    (hd : IsMat d n m) :
    IsChannel (baNextW (fun x => (2 : ℝ) ^ x) β q d) n m
    ∧ ∀ x < n, ∀ y < m, ent (baNextW (fun x => (2 : ℝ) ^ x) β q d) x y
        = vec q y * (2 : ℝ) ^ (-(β * ent d x y))
          / ∑ y' ∈ range m, vec q y' * (2 : ℝ) ^ (-(β * ent d x y')) :=
  ⟨Lemmas.BA.baNextW_isChannel β q d n m hq hd,
    fun x hx y hy => Lemmas.BA.ent_baNextW β q d n m hq.len hd x y hx hy⟩

example : IsLaw [(1 : ℝ) / 2, 1 / 2] 2 ∧ IsMat (hammingDist 2 2 : List (List ℝ)) 2 2 :=
  ⟨half_law, Lemmas.BA.hammingDist_isMat 2 2⟩

/-- The same under the weakest hypothesis: `q` any vector of `m` non-negative weights such that
every row normaliser `Σ_y q_y 2^{−β d_xy}` is positive. -/
theorem baNextW_isChannel_of_pos (β : ℝ) (q : List ℝ) (d : List (List ℝ)) (n m : ℕ)
    (hq : q.length = m) (hqnn : ∀ y < m, 0 ≤ vec q y) (hd : IsMat d n m)
    (hZ : ∀ x < n, 0 < ∑ y ∈ range m, vec q y * (2 : ℝ) ^ (-(β * ent d x y))) :
    IsChannel (baNextW (fun x => (2 : ℝ) ^ x) β q d) n m :=
  Lemmas.BA.baNextW_isChannel_of_pos β q d n m hq hqnn hd hZ

example : ([(3 : ℝ), 0]).length = 2 ∧ (∀ y < 2, 0 ≤ vec [(3 : ℝ), 0] y)
    ∧ ∀ x < 2, 0 < ∑ y ∈ range 2,
        vec [(3 : ℝ), 0] y * (2 : ℝ) ^ (-(1 * ent (hammingDist 2 2) x y)) := by
  rw [Lemmas.BA.ex_hamming]
  refine ⟨rfl, ?_, ?_⟩
  · intro y hy; interval_cases y <;> norm_num [vec]
  · intro x hx
    interval_cases x <;> norm_num [sum_range_succ, vec, ent, Real.rpow_neg_one]

/-! ## 2. Every iterate is a channel; what the loop returns -/

/-- **One step returns a channel**: from a channel `W`, for a source law `p` and a distortion
function whose value at `W` is an `n × m` matrix. -/
theorem baStep_isChannel (β : ℝ) (p : List ℝ) (distFn : List (List ℝ) → List (List ℝ))
    (W : List (List ℝ)) (n m : ℕ) (hp : IsLaw p n) (hW : IsChannel W n m)
    (hdist : IsMat (distFn W) n m) :
    IsChannel (baStep (fun x => (2 : ℝ) ^ x) β p distFn W).1 n m :=
  Lemmas.BA.baStep_isChannel β p distFn W n m hp hW hdist

example : IsLaw [(1 : ℝ) / 2, 1 / 2] 2 ∧ IsChannel (bsc (1 / 4)) 2 2
    ∧ IsMat ((fun _ => hammingDist 2 2 : List (List ℝ) → List (List ℝ)) (bsc (1 / 4))) 2 2 :=
  ⟨half_law, bsc_isChannel _ (by norm_num) (by norm_num), Lemmas.BA.hammingDist_isMat 2 2⟩

/-- **All iterates are channels** (and each carries its own distortion value), for any
distortion function returning `n × m` matrices on channels — Hamming, residual entropy, the
information-bottleneck distortion — starting from ANY channel (strict positivity of the start is
not needed). -/
theorem baIterates_all_channels (β : ℝ) (p : List ℝ) (distFn : List (List ℝ) → List (List ℝ))
    (n m : ℕ) (hp : IsLaw p n) (hdist : ∀ V, IsChannel V n m → IsMat (distFn V) n m) (k : ℕ)
    (W : List (List ℝ)) (hW : IsChannel W n m) :
    (baIterates (fun x => (2 : ℝ) ^ x) β p distFn k W).length = k + 1
    ∧ ∀ e ∈ baIterates (fun x => (2 : ℝ) ^ x) β p distFn k W,
        IsChannel e.1 n m ∧ e.2 = baAvDist p e.1 (distFn e.1) := by
  refine ⟨Lemmas.BA.baIterates_length _ β p distFn k W, ?_⟩
  intro e he
  obtain ⟨j, _, rfl⟩ := Lemmas.BA.baIterates_mem β p distFn k W e he
  exact ⟨Lemmas.BA.baIter_isChannel β p distFn n m hp hdist j W hW, rfl⟩

example : IsLaw [(1 : ℝ) / 2, 1 / 2] 2 ∧ IsChannel (bsc (1 / 4)) 2 2
    ∧ ∀ V, IsChannel V 2 2 →
        IsMat ((fun _ => hammingDist 2 2 : List (List ℝ) → List (List ℝ)) V) 2 2 :=
  ⟨half_law, bsc_isChannel _ (by norm_num) (by norm_num),
    fun _ _ => Lemmas.BA.hammingDist_isMat 2 2⟩

/-- **The loop returns a channel**, from any state (`prev`, `dv`, `it` arbitrary), for any `close`
predicate and any amount of fuel. -/
theorem baLoop_isChannel (β : ℝ) (p : List ℝ) (distFn : List (List ℝ) → List (List ℝ))
    (close : ℝ → ℝ → Bool) (n m : ℕ) (hp : IsLaw p n)
    (hdist : ∀ V, IsChannel V n m → IsMat (distFn V) n m) (fuel : ℕ) (W : List (List ℝ))
    (hW : IsChannel W n m) (prev dv : ℝ) (it : ℕ) :
    IsChannel (baLoop (fun x => (2 : ℝ) ^ x) β p distFn close fuel W prev dv it).1 n m := by
  obtain ⟨k, _, h1, _⟩ := Lemmas.BA.baLoop_fst β p distFn close fuel W prev dv it
  rw [h1]
  exact Lemmas.BA.baIter_isChannel β p distFn n m hp hdist k W hW

example : IsLaw [(1 : ℝ) / 2, 1 / 2] 2 ∧ IsChannel (bsc (1 / 4)) 2 2
    ∧ ∀ V, IsChannel V 2 2 →
        IsMat ((fun _ => hammingDist 2 2 : List (List ℝ) → List (List ℝ)) V) 2 2 :=
  ⟨half_law, bsc_isChannel _ (by norm_num) (by norm_num),
    fun _ _ => Lemmas.BA.hammingDist_isMat 2 2⟩

/-- **`_blahut_arimoto` returns a channel.** -/
theorem baRun_isChannel (β : ℝ) (p : List ℝ) (distFn : List (List ℝ) → List (List ℝ))
    (close : ℝ → ℝ → Bool) (n m : ℕ) (hp : IsLaw p n)
    (hdist : ∀ V, IsChannel V n m → IsMat (distFn V) n m) (maxIters : ℕ) (W0 : List (List ℝ))
    (hW : IsChannel W0 n m) :
    IsChannel (baRun (fun x => (2 : ℝ) ^ x) β p distFn close maxIters W0).1 n m :=
  baLoop_isChannel β p distFn close n m hp hdist maxIters W0 hW _ _ _

example : IsLaw [(1 : ℝ) / 2, 1 / 2] 2 ∧ IsChannel (bsc (1 / 4)) 2 2
    ∧ ∀ V, IsChannel V 2 2 →
        IsMat ((fun _ => hammingDist 2 2 : List (List ℝ) → List (List ℝ)) V) 2 2 :=
  ⟨half_law, bsc_isChannel _ (by norm_num) (by norm_num),
    fun _ _ => Lemmas.BA.hammingDist_isMat 2 2⟩

/-- **Iteration count**: the number of iterations returned is at most `max_iters`
(no hypotheses at all). -/
theorem baRun_iters_le (β : ℝ) (p : List ℝ) (distFn : List (List ℝ) → List (List ℝ))
    (close : ℝ → ℝ → Bool) (maxIters : ℕ) (W0 : List (List ℝ)) :
    (baRun (fun x => (2 : ℝ) ^ x) β p distFn close maxIters W0).2.2 ≤ maxIters := by
  obtain ⟨k, hk, he⟩ := Lemmas.BA.baRun_spec β p distFn close maxIters W0
  rw [he]; exact hk

/-- **What is returned** (no hypotheses): with `k` the returned iteration count, the returned
channel is the `k`-th iterate of the step map from `W0`, and the returned distortion value is
`av_dist` of THAT channel under ITS OWN distortion matrix. -/
theorem baRun_is_iterate (β : ℝ) (p : List ℝ) (distFn : List (List ℝ) → List (List ℝ))
    (close : ℝ → ℝ → Bool) (maxIters : ℕ) (W0 : List (List ℝ)) :
    ∀ r, r = baRun (fun x => (2 : ℝ) ^ x) β p distFn close maxIters W0 →
      r.1 = (fun V => (baStep (fun x => (2 : ℝ) ^ x) β p distFn V).1)^[r.2.2] W0
      ∧ r.2.1 = baAvDist p r.1 (distFn r.1) := by
  intro r hr
  obtain ⟨k, _, he⟩ := Lemmas.BA.baRun_spec β p distFn close maxIters W0
  rw [hr, he]
  exact ⟨rfl, rfl⟩

/-! ## 3. The returned joint -/

/-- **"A joint whose input marginal is the source"**: for a source law `p` and a channel `W`, the
joint `baJoint p W` has row sums exactly `p`, non-negative entries, total mass `1`, and column sums
equal to the output law. -/
theorem baJoint_rowSums (p : List ℝ) (W : List (List ℝ)) (n m : ℕ) (hp : IsLaw p n)
    (hW : IsChannel W n m) :
    rowSums (baJoint p W) = p
    ∧ (∀ row ∈ baJoint p W, ∀ a ∈ row, 0 ≤ a)
    ∧ (rowSums (baJoint p W)).sum = 1
    ∧ ∀ y < m, vec (colSums (baJoint p W)) y = vec (outputLaw p W) y := by
  have h := Lemmas.BA.baJoint_rowSums p W n m hp.len hW
  refine ⟨h, Lemmas.BA.baJoint_nonneg p W n m hp hW, by rw [h]; exact hp.sum_one, ?_⟩
  intro y hy
  exact Lemmas.BA.baJoint_colSums p W n m hp.len hW.isMat y hy

example : IsLaw [(1 : ℝ) / 2, 1 / 2] 2 ∧ IsChannel (bsc (1 / 4)) 2 2 :=
  ⟨half_law, bsc_isChannel _ (by norm_num) (by norm_num)⟩
example : baJoint [(1 : ℚ) / 2, 1 / 2] [[3 / 4, 1 / 4], [1 / 4, 3 / 4]]
    = [[3 / 8, 1 / 8], [1 / 8, 3 / 8]] := by decide +kernel

/-- **"Reported rate is that joint's mutual information"**: `jointMI` of the returned joint (what
the code computes with `nansum(q log2(q / (q.sum(0) q.sum(1))))`) is `channelMI p W`. -/
theorem baJoint_MI (p : List ℝ) (W : List (List ℝ)) (n m : ℕ) (hp : p.length = n)
    (hW : IsChannel W n m) :
    jointMI (Real.logb 2) (baJoint p W) = channelMI (Real.logb 2) p W :=
  Lemmas.BA.jointMI_joint p W n m hp hW

example : ([(1 : ℝ) / 2, 1 / 2]).length = 2 ∧ IsChannel (bsc (1 / 4)) 2 2 :=
  ⟨rfl, bsc_isChannel _ (by norm_num) (by norm_num)⟩

/-- **"Reported distortion is that joint's expected distortion"**: `av_dist` is
`Σ_x Σ_y Q_xy d_xy` for the joint `Q = baJoint p W` (shapes only). -/
theorem baJoint_distortion (p : List ℝ) (W d : List (List ℝ)) (n m : ℕ) (hp : p.length = n)
    (hW : IsMat W n m) (hd : IsMat d n m) :
    baAvDist p W d = expDistortion (baJoint p W) d :=
  (Lemmas.BA.expDistortion_joint p W d n m hp hW hd).symm

example : ([(1 : ℝ) / 2, 1 / 2]).length = 2 ∧ IsMat (bsc (1 / 4)) 2 2
    ∧ IsMat (hammingDist 2 2 : List (List ℝ)) 2 2 :=
  ⟨rfl, (bsc_isChannel _ (by norm_num) (by norm_num)).isMat, Lemmas.BA.hammingDist_isMat 2 2⟩
example : baAvDist [(1 : ℚ) / 2, 1 / 2] [[3 / 4, 1 / 4], [1 / 4, 3 / 4]] (hammingDist 2 2)
    = 1 / 4 := by decide +kernel

/-- **The whole return value of `_blahut_arimoto`**: started from a channel, with a distortion
function returning `n × m` matrices, the run `r = (W, d, iters)` satisfies: `W` is a channel; the
joint `baJoint p W` has input marginal `p`; the reported distortion `d` is that joint's expected
distortion under `distFn W`; the rate computed from the joint is `channelMI p W`; and
`iters ≤ maxIters`. -/
theorem baRun_reports (β : ℝ) (p : List ℝ) (distFn : List (List ℝ) → List (List ℝ))
    (close : ℝ → ℝ → Bool) (n m : ℕ) (hp : IsLaw p n)
    (hdist : ∀ V, IsChannel V n m → IsMat (distFn V) n m) (maxIters : ℕ) (W0 : List (List ℝ))
    (hW : IsChannel W0 n m) :
    ∀ r, r = baRun (fun x => (2 : ℝ) ^ x) β p distFn close maxIters W0 →
      IsChannel r.1 n m
      ∧ rowSums (baJoint p r.1) = p
      ∧ r.2.1 = expDistortion (baJoint p r.1) (distFn r.1)
      ∧ jointMI (Real.logb 2) (baJoint p r.1) = channelMI (Real.logb 2) p r.1
      ∧ r.2.2 ≤ maxIters := by
  intro r hr
  have hc : IsChannel r.1 n m := by
    rw [hr]; exact baRun_isChannel β p distFn close n m hp hdist maxIters W0 hW
  refine ⟨hc, (baJoint_rowSums p r.1 n m hp hc).1, ?_, baJoint_MI p r.1 n m hp.len hc, ?_⟩
  · rw [(baRun_is_iterate β p distFn close maxIters W0 r hr).2]
    exact baJoint_distortion p r.1 _ n m hp.len hc.isMat (hdist _ hc)
  · rw [hr]; exact baRun_iters_le β p distFn close maxIters W0

example : IsLaw [(1 : ℝ) / 2, 1 / 2] 2 ∧ IsChannel (bsc (1 / 4)) 2 2
    ∧ ∀ V, IsChannel V 2 2 →
        IsMat ((fun _ => hammingDist 2 2 : List (List ℝ) → List (List ℝ)) V) 2 2 :=
  ⟨half_law, bsc_isChannel _ (by norm_num) (by norm_num),
    fun _ _ => Lemmas.BA.hammingDist_isMat 2 2⟩

/-! ## 4. Descent for a fixed distortion matrix -/

/-- **The Lagrangian at the channel's own output law is `R + βD`**:
`L(W, pW) = I(p;W) + β·E[d]` (shapes only; `n ≥ 1` so that the output law has `m` entries). -/
theorem baLagrangian_at_outputLaw (β : ℝ) (p : List ℝ) (W d : List (List ℝ)) (n m : ℕ)
    (hp : p.length = n) (hn : 0 < n) (hW : IsMat W n m) (hd : IsMat d n m) :
    baLagrangian (Real.logb 2) β p W d (outputLaw p W)
      = channelMI (Real.logb 2) p W + β * baAvDist p W d :=
  Lemmas.BA.baLagrangian_outputLaw β p W d n m hp hn hW hd

example : ([(1 : ℝ) / 2, 1 / 2]).length = 2 ∧ 0 < 2 ∧ IsMat (bsc (1 / 4)) 2 2
    ∧ IsMat (hammingDist 2 2 : List (List ℝ)) 2 2 :=
  ⟨rfl, by norm_num, (bsc_isChannel _ (by norm_num) (by norm_num)).isMat,
    Lemmas.BA.hammingDist_isMat 2 2⟩

/-- **(a) Minimisation in `q`** (Gibbs): for a channel `W`, its own output law is the best
second argument: `L(W, pW) ≤ L(W, q)` for every law `q` that dominates the rows of positive
source probability (`q_y = 0 → W_xy = 0`; automatic for positive `q`; needed because `klRow`-style
sums only represent finite divergences). -/
theorem lagrangian_outputLaw_le (β : ℝ) (p q : List ℝ) (W d : List (List ℝ)) (n m : ℕ)
    (hp : IsLaw p n) (hW : IsChannel W n m) (hd : IsMat d n m) (hq : IsLaw q m)
    (hdom : ∀ x < n, vec p x ≠ 0 → ∀ y < m, vec q y = 0 → ent W x y = 0) :
    baLagrangian (Real.logb 2) β p W d (outputLaw p W)
      ≤ baLagrangian (Real.logb 2) β p W d q := by
  rw [Lemmas.BA.baLagrangian_outputLaw β p W d n m hp.len hp.pos_len hW.isMat hd]
  exact Lemmas.BA.baF_le_lagrangian β p q W d n m hp hW hd hq hdom

example : IsLaw [(1 : ℝ) / 2, 1 / 2] 2 ∧ IsChannel (bsc (1 / 4)) 2 2
    ∧ IsMat (hammingDist 2 2 : List (List ℝ)) 2 2 ∧ IsLaw [(3 : ℝ) / 4, 1 / 4] 2
    ∧ ∀ x < 2, vec [(1 : ℝ) / 2, 1 / 2] x ≠ 0 → ∀ y < 2, vec [(3 : ℝ) / 4, 1 / 4] y = 0 →
        ent (bsc (1 / 4)) x y = 0 := by
  refine ⟨half_law, bsc_isChannel _ (by norm_num) (by norm_num), Lemmas.BA.hammingDist_isMat 2 2,
    Lemmas.BA.ex_law34, ?_⟩
  intro x _ _ y hy h0
  interval_cases y <;> norm_num [vec] at h0

/-- **(b) Minimisation in `W`** (log-sum / Gibbs): for a law `q`, the updated channel
`W' = baNextW q d` has the closed-form value `L(W', q) = −Σ_x p_x log₂ Σ_y q_y 2^{−β d_xy}`, and
`L(W', q) ≤ L(W, q)` for every channel `W` whose rows of positive source probability are
dominated by `q`. -/
theorem lagrangian_nextW_le (β : ℝ) (p q : List ℝ) (d : List (List ℝ)) (n m : ℕ)
    (hp : IsLaw p n) (hd : IsMat d n m) (hq : IsLaw q m) :
    baLagrangian (Real.logb 2) β p (baNextW (fun x => (2 : ℝ) ^ x) β q d) d q
        = -∑ x ∈ range n, vec p x *
            Real.logb 2 (∑ y ∈ range m, vec q y * (2 : ℝ) ^ (-(β * ent d x y)))
    ∧ ∀ W, IsChannel W n m →
        (∀ x < n, vec p x ≠ 0 → ∀ y < m, vec q y = 0 → ent W x y = 0) →
        baLagrangian (Real.logb 2) β p (baNextW (fun x => (2 : ℝ) ^ x) β q d) d q
          ≤ baLagrangian (Real.logb 2) β p W d q :=
  ⟨Lemmas.BA.lagrangian_nextW β p q d n m hp.len hq hd,
    fun W hW hdom => Lemmas.BA.lagrangian_nextW_le β p q W d n m hp hW hd hq hdom⟩

example : IsLaw [(1 : ℝ) / 2, 1 / 2] 2 ∧ IsMat (hammingDist 2 2 : List (List ℝ)) 2 2
    ∧ IsLaw [(3 : ℝ) / 4, 1 / 4] 2 :=
  ⟨half_law, Lemmas.BA.hammingDist_isMat 2 2, Lemmas.BA.ex_law34⟩

/-- **One step never increases `R + βD`**: for a fixed `n × m` matrix `d`, any source law `p`,
ANY channel `W` (no positivity of `W` or of its output marginal is needed) and any real `β`,
`I(p;W') + β·E_{W'}[d] ≤ I(p;W) + β·E_W[d]` with `W'` the next channel. -/
theorem baStep_descent (β : ℝ) (p : List ℝ) (W d : List (List ℝ)) (n m : ℕ) (hp : IsLaw p n)
    (hW : IsChannel W n m) (hd : IsMat d n m) :
    channelMI (Real.logb 2) p (baStep (fun x => (2 : ℝ) ^ x) β p (fun _ => d) W).1
        + β * baAvDist p (baStep (fun x => (2 : ℝ) ^ x) β p (fun _ => d) W).1 d
      ≤ channelMI (Real.logb 2) p W + β * baAvDist p W d :=
  Lemmas.BA.baStep_descent β p W d n m hp hW hd

example : IsLaw [(1 : ℝ) / 2, 1 / 2] 2 ∧ IsChannel (bsc (1 / 4)) 2 2
    ∧ IsMat (hammingDist 2 2 : List (List ℝ)) 2 2 :=
  ⟨half_law, bsc_isChannel _ (by norm_num) (by norm_num), Lemmas.BA.hammingDist_isMat 2 2⟩

/-- **`R + βD` is non-increasing along the whole trajectory**: in `baIterates` (fixed matrix) every
later iterate has an objective value no larger than every earlier one. -/
theorem baIterates_antitone (β : ℝ) (p : List ℝ) (d : List (List ℝ)) (n m : ℕ) (hp : IsLaw p n)
    (hd : IsMat d n m) (k : ℕ) (W : List (List ℝ)) (hW : IsChannel W n m) :
    List.Pairwise (fun a b : List (List ℝ) × ℝ =>
        channelMI (Real.logb 2) p b.1 + β * baAvDist p b.1 d
          ≤ channelMI (Real.logb 2) p a.1 + β * baAvDist p a.1 d)
      (baIterates (fun x => (2 : ℝ) ^ x) β p (fun _ => d) k W) :=
  Lemmas.BA.baIterates_pairwise β p d n m hp hd k W hW

example : IsLaw [(1 : ℝ) / 2, 1 / 2] 2 ∧ IsChannel (bsc (1 / 4)) 2 2
    ∧ IsMat (hammingDist 2 2 : List (List ℝ)) 2 2 :=
  ⟨half_law, bsc_isChannel _ (by norm_num) (by norm_num), Lemmas.BA.hammingDist_isMat 2 2⟩

/-- **The run does not end above where it started**: for a fixed matrix, whatever the stopping
predicate and `maxIters`, the returned channel has `R + βD` at most that of the initial channel. -/
theorem baRun_descent (β : ℝ) (p : List ℝ) (d : List (List ℝ)) (close : ℝ → ℝ → Bool) (n m : ℕ)
    (hp : IsLaw p n) (hd : IsMat d n m) (maxIters : ℕ) (W0 : List (List ℝ))
    (hW : IsChannel W0 n m) :
    ∀ r, r = baRun (fun x => (2 : ℝ) ^ x) β p (fun _ => d) close maxIters W0 →
      channelMI (Real.logb 2) p r.1 + β * baAvDist p r.1 d
        ≤ channelMI (Real.logb 2) p W0 + β * baAvDist p W0 d := by
  intro r hr
  obtain ⟨k, _, he⟩ := Lemmas.BA.baRun_spec β p (fun _ => d) close maxIters W0
  rw [hr, he]
  exact Lemmas.BA.baIter_antitone β p d n m hp hd W0 hW 0 k (Nat.zero_le _)

example : IsLaw [(1 : ℝ) / 2, 1 / 2] 2 ∧ IsChannel (bsc (1 / 4)) 2 2
    ∧ IsMat (hammingDist 2 2 : List (List ℝ)) 2 2 :=
  ⟨half_law, bsc_isChannel _ (by norm_num) (by norm_num), Lemmas.BA.hammingDist_isMat 2 2⟩

/-! ## 5. Fixed points are optimal -/

/-- **KKT form**: let `W` be a fixed point of the step for the fixed matrix `d`, with output law
`q = pW` and normalisers `Z_x = Σ_y q_y 2^{−β d_xy}`. If on every output letter of zero
probability the column constraint `c_y = Σ_x p_x 2^{−β d_xy} / Z_x ≤ 1` holds (on the letters
of positive probability the fixed-point equation forces `c_y = 1`), then `R + βD` at `W` is no
larger than at ANY test channel `V`. The hypothesis is needed: a fixed point that ignores an output
letter can be a non-optimal stationary point. -/
theorem ba_kkt_optimal (β : ℝ) (p : List ℝ) (W d : List (List ℝ)) (n m : ℕ) (hp : IsLaw p n)
    (hW : IsChannel W n m) (hd : IsMat d n m)
    (hfix : (baStep (fun x => (2 : ℝ) ^ x) β p (fun _ => d) W).1 = W)
    (hkkt : ∀ y < m, vec (outputLaw p W) y = 0 → ∑ x ∈ range n, vec p x
      * (1 / ∑ y' ∈ range m, vec (outputLaw p W) y' * (2 : ℝ) ^ (-(β * ent d x y')))
      * (2 : ℝ) ^ (-(β * ent d x y)) ≤ 1)
    (V : List (List ℝ)) (hV : IsChannel V n m) :
    channelMI (Real.logb 2) p W + β * baAvDist p W d
      ≤ channelMI (Real.logb 2) p V + β * baAvDist p V d :=
  Lemmas.BA.ba_kkt_optimal β p W d n m hp hW hd hfix hkkt V hV

example : IsLaw [(3 : ℝ) / 4, 1 / 4] 2 ∧ IsChannel [[(1 : ℝ), 0], [1, 0]] 2 2
    ∧ IsMat (hammingDist 2 2 : List (List ℝ)) 2 2
    ∧ (baStep (fun x => (2 : ℝ) ^ x) 1 [3 / 4, 1 / 4] (fun _ => hammingDist 2 2)
        [[1, 0], [1, 0]]).1 = [[1, 0], [1, 0]]
    ∧ ∀ y < 2, vec (outputLaw [(3 : ℝ) / 4, 1 / 4] [[1, 0], [1, 0]]) y = 0 →
        ∑ x ∈ range 2, vec [(3 : ℝ) / 4, 1 / 4] x
          * (1 / ∑ y' ∈ range 2, vec (outputLaw [(3 : ℝ) / 4, 1 / 4] [[1, 0], [1, 0]]) y'
              * (2 : ℝ) ^ (-(1 * ent (hammingDist 2 2) x y')))
          * (2 : ℝ) ^ (-(1 * ent (hammingDist 2 2) x y)) ≤ 1 :=
  ⟨Lemmas.BA.ex_law34, Lemmas.BA.ex_collapse, Lemmas.BA.hammingDist_isMat 2 2,
    Lemmas.BA.ex_kkt_fix, Lemmas.BA.ex_kkt_c⟩

/-- **"R + βD is no larger than for any other test channel"**: a fixed point of the step (fixed
matrix `d`) whose output marginal is strictly positive minimises `I(p;V) + β·E_V[d]` over ALL
`n × m` test channels `V`. Positivity of the output marginal is what makes every column
constraint tight (`c_y = 1`); without it see `ba_kkt_optimal`. Its value is
`−Σ_x p_x log₂ Σ_y q_y 2^{−β d_xy}`. -/
theorem ba_fixed_point_optimal (β : ℝ) (p : List ℝ) (W d : List (List ℝ)) (n m : ℕ)
    (hp : IsLaw p n) (hW : IsChannel W n m) (hd : IsMat d n m)
    (hfix : (baStep (fun x => (2 : ℝ) ^ x) β p (fun _ => d) W).1 = W)
    (hpos : ∀ y < m, 0 < vec (outputLaw p W) y) :
    (channelMI (Real.logb 2) p W + β * baAvDist p W d
      = -∑ x ∈ range n, vec p x *
          Real.logb 2 (∑ y ∈ range m, vec (outputLaw p W) y * (2 : ℝ) ^ (-(β * ent d x y))))
    ∧ ∀ V, IsChannel V n m →
        channelMI (Real.logb 2) p W + β * baAvDist p W d
          ≤ channelMI (Real.logb 2) p V + β * baAvDist p V d :=
  ⟨Lemmas.BA.baF_fixed β p W d n m hp hW hd hfix,
    fun V hV => Lemmas.BA.ba_kkt_optimal β p W d n m hp hW hd hfix
      (fun y hy h0 => absurd h0 (hpos y hy).ne') V hV⟩

example : IsLaw [(1 : ℝ) / 2, 1 / 2] 2 ∧ IsChannel (bsc (1 / 3)) 2 2
    ∧ IsMat (hammingDist 2 2 : List (List ℝ)) 2 2
    ∧ (baStep (fun x => (2 : ℝ) ^ x) 1 [1 / 2, 1 / 2] (fun _ => hammingDist 2 2)
        (bsc (1 / 3))).1 = bsc (1 / 3)
    ∧ ∀ y < 2, 0 < vec (outputLaw [(1 : ℝ) / 2, 1 / 2] (bsc (1 / 3))) y :=
  ⟨half_law, bsc_isChannel _ (by norm_num) (by norm_num), Lemmas.BA.hammingDist_isMat 2 2,
    Lemmas.BA.ex_fix, Lemmas.BA.ex_fix_pos⟩

/-! ## 6. The distortion functions -/

/-- **Hamming distortion**: `hammingDist n m` is the `n × m` matrix `1 − eye(n, m)`. -/
theorem hammingDist_spec (n m : ℕ) :
    IsMat (hammingDist n m : List (List ℝ)) n m
    ∧ ∀ x < n, ∀ y < m, ent (hammingDist n m : List (List ℝ)) x y = if x = y then 0 else 1 :=
  ⟨Lemmas.BA.hammingDist_isMat n m, fun x hx y hy => Lemmas.BA.ent_hammingDist n m x y hx hy⟩

example : (hammingDist 2 3 : List (List ℚ)) = [[0, 1, 1], [1, 0, 1]] := by decide +kernel

/-- **`next_q_y_t`**: for a non-negative `n × k` joint matrix `p(x,y)` (`n ≥ 1`) and an `n × m`
channel `W(t|x)`, `ibQyt pxy W` is `m × k`; with `Q(t,y) = Σ_x p(x,y) W(t|x)` and
`q(t) = Σ_y Q(t,y)`: the row of a bottleneck value with `q(t) ≠ 0` is the probability vector
`Q(t,·)/q(t)`; the all-ones row appears exactly on the values with `q(t) = 0` (and is NOT a
probability vector unless `k = 1`). -/
theorem ibQyt_isChannel (pxy W : List (List ℝ)) (n m k : ℕ) (hn : 0 < n) (hP : IsMat pxy n k)
    (hPnn : ∀ x < n, ∀ y < k, 0 ≤ ent pxy x y) (hW : IsChannel W n m) :
    IsMat (ibQyt pxy W) m k
    ∧ ∀ t < m,
      ((∑ y ∈ range k, ∑ x ∈ range n, ent pxy x y * ent W x t) ≠ 0 →
        IsLaw ((ibQyt pxy W).getD t []) k
        ∧ ∀ y < k, ent (ibQyt pxy W) t y = (∑ x ∈ range n, ent pxy x y * ent W x t)
            / ∑ y' ∈ range k, ∑ x ∈ range n, ent pxy x y' * ent W x t)
      ∧ ((∑ y ∈ range k, ∑ x ∈ range n, ent pxy x y * ent W x t) = 0 →
        ∀ y < k, ent (ibQyt pxy W) t y = 1) := by
  refine ⟨Lemmas.BA.ibQyt_isMat pxy W n m k hn hP hW.isMat, ?_⟩
  intro t ht
  refine ⟨fun hne => ⟨Lemmas.BA.ibQyt_row_isLaw pxy W n m k hn hP hPnn hW t ht hne, ?_⟩, ?_⟩
  · intro y hy
    rw [Lemmas.BA.ent_ibQyt pxy W n m k hn hP hW.isMat t y ht hy]
    exact if_neg hne
  · intro h0 y hy
    rw [Lemmas.BA.ent_ibQyt pxy W n m k hn hP hW.isMat t y ht hy]
    exact if_pos h0

example : 0 < 2 ∧ IsMat [[(1 : ℝ) / 4, 1 / 4], [0, 1 / 2]] 2 2
    ∧ (∀ x < 2, ∀ y < 2, 0 ≤ ent [[(1 : ℝ) / 4, 1 / 4], [0, 1 / 2]] x y)
    ∧ IsChannel (bsc (1 / 4)) 2 2 :=
  ⟨by norm_num, Lemmas.BA.ex_pxy.1, Lemmas.BA.ex_pxy.2, bsc_isChannel _ (by norm_num) (by norm_num)⟩
example : ibQyt [[(1 : ℚ) / 4, 1 / 4], [0, 1 / 2]] [[1, 0], [1, 0]]
    = [[1 / 4, 3 / 4], [1, 1]] := by decide +kernel

/-- **The IB distortion is a divergence** (Gibbs): `ibDist` is `n × m`, its entry `(x,t)` is
`Σ_y p(y|x) log₂ (p(y|x)/q(y|t))`, and it is non-negative whenever `p(x) > 0`, `q(t) > 0` and
`q(·|t)` dominates `p(·|x)` — in particular wherever `W(t|x) > 0`. (On a bottleneck value of
probability zero the all-ones row gives `−H(Y|x) ≤ 0` instead; such `t` carry no weight.) -/
theorem ibDist_nonneg (pxy W : List (List ℝ)) (n m k : ℕ) (hn : 0 < n) (hP : IsMat pxy n k)
    (hPnn : ∀ x < n, ∀ y < k, 0 ≤ ent pxy x y) (hW : IsChannel W n m) :
    IsMat (ibDist (Real.logb 2) pxy W) n m
    ∧ (∀ x < n, ∀ t < m, (∑ y ∈ range k, ent pxy x y) ≠ 0 →
        (∑ y ∈ range k, ∑ x' ∈ range n, ent pxy x' y * ent W x' t) ≠ 0 →
        (∀ y < k, ent (ibQyt pxy W) t y = 0 → ent pxy x y = 0) →
        0 ≤ ent (ibDist (Real.logb 2) pxy W) x t)
    ∧ ∀ x < n, ∀ t < m, (∑ y ∈ range k, ent pxy x y) ≠ 0 → ent W x t ≠ 0 →
        0 ≤ ent (ibDist (Real.logb 2) pxy W) x t := by
  refine ⟨Lemmas.BA.ibDist_isMat pxy W n m k hn hP hW.isMat, ?_, ?_⟩
  · intro x hx t ht hpx hqt hdom
    exact Lemmas.BA.ibDist_nonneg pxy W n m k hn hP hPnn hW x t hx ht hpx hqt hdom
  · intro x hx t ht hpx hw
    obtain ⟨hqt, hdom⟩ := Lemmas.BA.ibQyt_dom pxy W n m k hn hP hPnn hW x t hx ht hpx hw
    exact Lemmas.BA.ibDist_nonneg pxy W n m k hn hP hPnn hW x t hx ht hpx hqt hdom

example : 0 < 2 ∧ IsMat [[(1 : ℝ) / 4, 1 / 4], [0, 1 / 2]] 2 2
    ∧ (∀ x < 2, ∀ y < 2, 0 ≤ ent [[(1 : ℝ) / 4, 1 / 4], [0, 1 / 2]] x y)
    ∧ IsChannel (bsc (1 / 4)) 2 2
    ∧ (∑ y ∈ range 2, ent [[(1 : ℝ) / 4, 1 / 4], [0, 1 / 2]] 0 y) ≠ 0
    ∧ ent (bsc (1 / 4)) 0 1 ≠ 0 := by
  refine ⟨by norm_num, Lemmas.BA.ex_pxy.1, Lemmas.BA.ex_pxy.2,
    bsc_isChannel _ (by norm_num) (by norm_num), ?_, ?_⟩
  · norm_num [sum_range_succ, ent, vec]
  · norm_num [ent, vec, bsc]

/-- **Expected IB distortion is `I(X;Y) − I(T;Y)`**: for a non-negative joint matrix `p(x,y)`
(`n × k`, `n ≥ 1`; rows of zero mass are allowed), source `p(x) = rowSums pxy`, a channel `W(t|x)`
and the `(T,Y)` joint `Q(t,y) = Σ_x p(x,y) W(t|x)` of `q(x,y,t) = p(x,y) W(t|x)`,
`av_dist` of the information-bottleneck distortion equals `jointMI pxy − jointMI Q`. -/
theorem ib_expected_distortion (pxy W Q : List (List ℝ)) (n m k : ℕ) (hn : 0 < n)
    (hP : IsMat pxy n k) (hPnn : ∀ x < n, ∀ y < k, 0 ≤ ent pxy x y) (hW : IsChannel W n m)
    (hQ : IsMat Q m k)
    (hQe : ∀ t < m, ∀ y < k, ent Q t y = ∑ x ∈ range n, ent pxy x y * ent W x t) :
    baAvDist (rowSums pxy) W (ibDist (Real.logb 2) pxy W)
      = jointMI (Real.logb 2) pxy - jointMI (Real.logb 2) Q :=
  Lemmas.BA.ib_expected_distortion pxy W Q n m k hP hPnn hW hn hQ hQe

example : 0 < 2 ∧ IsMat [[(1 : ℝ) / 4, 1 / 4], [0, 1 / 2]] 2 2
    ∧ (∀ x < 2, ∀ y < 2, 0 ≤ ent [[(1 : ℝ) / 4, 1 / 4], [0, 1 / 2]] x y)
    ∧ IsChannel (bsc (1 / 4)) 2 2
    ∧ IsMat (Lemmas.BA.ibJointTY [[(1 : ℝ) / 4, 1 / 4], [0, 1 / 2]] (bsc (1 / 4)) 2 2 2) 2 2
    ∧ ∀ t < 2, ∀ y < 2,
        ent (Lemmas.BA.ibJointTY [[(1 : ℝ) / 4, 1 / 4], [0, 1 / 2]] (bsc (1 / 4)) 2 2 2) t y
          = ∑ x ∈ range 2, ent [[(1 : ℝ) / 4, 1 / 4], [0, 1 / 2]] x y * ent (bsc (1 / 4)) x t :=
  ⟨by norm_num, Lemmas.BA.ex_pxy.1, Lemmas.BA.ex_pxy.2,
    bsc_isChannel _ (by norm_num) (by norm_num), Lemmas.BA.ibJointTY_isMat _ _ 2 2 2,
    fun t ht y hy => Lemmas.BA.ent_ibJointTY _ _ 2 2 2 t y ht hy⟩

end Dit.Props.C13BA
