/-
C12 — Sampling is exact inverse-CDF selection in stored outcome order.

Theorems about `Dit.sampleIdx` (the model of `_sample(s)_discrete__python`) over an
arbitrary linearly ordered field: whatever index the scan returns, the random number
lies in that entry's cumulative interval; the scan is total on `[0, ΣP)`; the selected
entry has positive probability; every positive entry is selected by some `u`.
Helper lemmas: Lemmas/Sampling.lean.
-/
import DitModel.Lemmas.Sampling

set_option linter.unusedSectionVars false

namespace Dit.Props.C12
open Dit Dit.Lemmas.Sampling

variable {α : Type} [Field α] [LinearOrder α] [IsStrictOrderedRing α]

/-- **Interval.** If the scan returns `j` for a random number `u ≥ 0`, then `j` is a stored
position and `F(j-1) ≤ u < F(j)`. -/
theorem sample_interval (pmf : List α) (u : α) (j : Nat) (hu : 0 ≤ u)
    (h : sampleIdx pmf u = some j) :
    j < pmf.length ∧ cum pmf j ≤ u ∧ u < cum pmf (j + 1) := by
  obtain ⟨i, hi, hk, hlo, hhi⟩ := scanFrom_some pmf u 0 0 j hu h
  have : j = i := by omega
  subst this
  exact ⟨hi, by simpa using hlo, by simpa using hhi⟩

/-- **Positivity.** The selected entry has strictly positive probability: an outcome of
zero probability is never returned. -/
theorem sample_pos (pmf : List α) (u : α) (j : Nat) (hu : 0 ≤ u)
    (h : sampleIdx pmf u = some j) :
    ∃ hj : j < pmf.length, 0 < pmf[j] := by
  obtain ⟨hj, hlo, hhi⟩ := sample_interval pmf u j hu h
  refine ⟨hj, ?_⟩
  rw [cum_succ pmf j hj] at hhi
  linarith

/-- **Totality.** For every `u` in `[0, ΣP)` the scan returns an index. -/
theorem sample_total (pmf : List α) (u : α) (hu : 0 ≤ u) (h : u < pmf.sum) :
    ∃ j, sampleIdx pmf u = some j :=
  scanFrom_total pmf u 0 0 hu (by simpa using h)

/-- **Surjectivity.** Every stored entry of positive probability is returned for some `u`,
namely the left end `F(j-1)` of its interval (all entries being non-negative). -/
theorem sample_onto (pmf : List α) (j : Nat) (hj : j < pmf.length)
    (hnn : ∀ p ∈ pmf, 0 ≤ p) (hpos : 0 < pmf[j]) :
    sampleIdx pmf (cum pmf j) = some j := by
  have := scanFrom_onto pmf 0 0 j hj hnn hpos
  simpa [sampleIdx] using this

/-- **Right end.** At `u = F(j)` (and hence on the whole next interval) entry `j` is not
returned: intervals are half-open. -/
theorem sample_right_open (pmf : List α) (j : Nat) (h0 : 0 ≤ cum pmf (j + 1)) :
    sampleIdx pmf (cum pmf (j + 1)) ≠ some j := by
  intro h
  have := (sample_interval pmf _ j h0 h).2.2
  exact lt_irrefl _ this

/-- **Draws with a generator.** The draws for a stream of uniforms are the scan applied to
each of them in order; equal streams (equal generator states) give equal samples. -/
theorem draws_from_stream (pmf : List α) (us : List α) :
    sampleMany pmf us = us.map (sampleIdx pmf) ∧ (sampleMany pmf us).length = us.length := by
  simp [sampleMany]

theorem sample_fallback_pos (pmf : List α) (u : α) (j : Nat) (hu : 0 ≤ u)
    (h : sampleIdxF pmf u = some j) :
    ∃ hj : j < pmf.length, 0 < pmf[j] := by
  unfold sampleIdxF at h
  split at h
  · rename_i k hk
    cases h
    exact sample_pos pmf u j hu hk
  · rcases lastPos_pos pmf 0 none j (by simp) h with h1 | ⟨i, hi, hk, hpi⟩
    · simp at h1
    · have : j = i := by omega
      subst this; exact ⟨hi, hpi⟩

/-- Non-vacuity: a table with a stored zero; `u = 1/2` selects index 2, skipping the zero. -/
example : sampleIdx [(1 : Rat) / 2, 0, 1 / 2] (1 / 2) = some 2 := by decide +kernel
example : sampleIdx [(1 : Rat) / 2, 0, 1 / 2] 1 = none := by decide +kernel
example : sampleIdxF [(1 : Rat) / 2, 0, 1 / 2, 0] 1 = some 2 := by decide +kernel

end Dit.Props.C12
