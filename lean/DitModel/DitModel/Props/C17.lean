/-
C17 — For every redundancy measure the decomposition lives on the redundancy lattice of
antichains of source sets: it is consistent exactly when each node's redundancy equals the sum of
the PI atoms (pieces of information) at or below it (Möbius inversion) and each single source's
redundancy equals its mutual information with the target; whenever consistent and complete the
atoms sum to I(all sources : target), which is also the top node's redundancy. Relabelling or
permuting the sources permutes the lattice values accordingly. I_min, I_mmi equal their
closed-form definitions and their atoms are never negative. (2 or 3 sources.)

The order-theoretic facts about `rnodes n` are checked by evaluation (`decide +kernel`) for
`n ∈ {2, 3}`. The Möbius theorems are proved for any duplicate-free list of nodes on which the
strict order is transitive (`TransOn`), over any additive commutative group, and instantiated at
`rnodes n`. The closed forms are at `ℝ` with `log := Real.logb 2`.
Helper lemmas: Lemmas/Lattice.lean.
-/
import DitModel.Lemmas.Lattice

set_option linter.unusedSectionVars false

namespace Dit.Props.C17
open Dit Dit.Lemmas.InfoAlg Dit.Lemmas.InfoReal Dit.Lemmas.Lattice

/-! ## The redundancy lattice for 2 and 3 sources -/

/-- **Size**: 4 nodes for two sources, 18 for three. -/
theorem rnodes_card : (rnodes 2).length = 4 ∧ (rnodes 3).length = 18 := length_rnodes

/-- The nodes are listed without repetition. -/
theorem rnodes_nodup (n : Nat) (hn : n = 2 ∨ n = 3) : (rnodes n).Nodup := nodup_rnodes hn

/-- **Order**: the Williams–Beer relation `rle` is reflexive, antisymmetric and
transitive on the nodes. -/
theorem rle_order (n : Nat) (hn : n = 2 ∨ n = 3) :
    (∀ a ∈ rnodes n, rle a a = true)
    ∧ (∀ a ∈ rnodes n, ∀ b ∈ rnodes n, rle a b = true → rle b a = true → a = b)
    ∧ (∀ a ∈ rnodes n, ∀ b ∈ rnodes n, ∀ c ∈ rnodes n,
        rle a b = true → rle b c = true → rle a c = true) :=
  ⟨fun _ ha => rle_refl hn ha, fun _ ha _ hb => rle_antisymm hn ha hb,
    fun _ ha _ hb _ hc => rle_trans hn ha hb hc⟩

/-- **Bounds**: `{0..n-1}` is the greatest node and `{0}{1}…{n-1}` the least. -/
theorem rtop_greatest_rbottom_least (n : Nat) (hn : n = 2 ∨ n = 3) :
    rtop n ∈ rnodes n ∧ rbottom n ∈ rnodes n
    ∧ ∀ a ∈ rnodes n, rle a (rtop n) = true ∧ rle (rbottom n) a = true :=
  ⟨rtop_mem hn, rbottom_mem hn, fun _ ha => ⟨rle_rtop hn ha, rbottom_rle hn ha⟩⟩

/-- **Lattice**: every two nodes have a least upper bound and a greatest lower bound among the
nodes. -/
theorem redundancy_lattice (n : Nat) (hn : n = 2 ∨ n = 3) :
    ∀ a ∈ rnodes n, ∀ b ∈ rnodes n,
      (∃ j ∈ rnodes n, rle a j = true ∧ rle b j = true
        ∧ ∀ c ∈ rnodes n, rle a c = true → rle b c = true → rle j c = true)
      ∧ (∃ m ∈ rnodes n, rle m a = true ∧ rle m b = true
        ∧ ∀ c ∈ rnodes n, rle c a = true → rle c b = true → rle c m = true) :=
  fun _ ha _ hb => ⟨exists_lub hn ha hb, exists_glb hn ha hb⟩

/-- The redundancy lattice for two sources is a lattice. -/
theorem lattice_n2 : ∀ a ∈ rnodes 2, ∀ b ∈ rnodes 2,
      (∃ j ∈ rnodes 2, rle a j = true ∧ rle b j = true
        ∧ ∀ c ∈ rnodes 2, rle a c = true → rle b c = true → rle j c = true)
      ∧ (∃ m ∈ rnodes 2, rle m a = true ∧ rle m b = true
        ∧ ∀ c ∈ rnodes 2, rle c a = true → rle c b = true → rle c m = true) :=
  redundancy_lattice 2 (Or.inl rfl)

/-- The redundancy lattice for three sources is a lattice. -/
theorem lattice_n3 : ∀ a ∈ rnodes 3, ∀ b ∈ rnodes 3,
      (∃ j ∈ rnodes 3, rle a j = true ∧ rle b j = true
        ∧ ∀ c ∈ rnodes 3, rle a c = true → rle b c = true → rle j c = true)
      ∧ (∃ m ∈ rnodes 3, rle m a = true ∧ rle m b = true
        ∧ ∀ c ∈ rnodes 3, rle c a = true → rle c b = true → rle c m = true) :=
  redundancy_lattice 3 (Or.inr rfl)

/-- The strict order is transitive on the nodes (the hypothesis of the Möbius theorems). -/
theorem rlt_transOn (n : Nat) (hn : n = 2 ∨ n = 3) : TransOn (rnodes n) := transOn_rnodes hn

example : rnodes 2 = [[[0, 1]], [[0]], [[1]], [[0], [1]]] := by decide +kernel
example : rle [[0], [1, 2]] [[0, 1], [1, 2]] = true
    ∧ rle [[0, 1], [1, 2]] [[0], [1, 2]] = false := by
  decide +kernel

/-! ## Möbius inversion -/

section Moebius
variable {α : Type} [AddCommGroup α]

/-- **Möbius inversion**: for any duplicate-free list of nodes on which the strict order `rlt` is
transitive (irreflexivity holds by definition), the table computed by `moebius` satisfies, for
every node `x`, `red x = π(x) + Σ_{m < x} π(m)`. Transitivity is what makes every node below
`x` come before `x` in the processing order (strictly fewer nodes below); duplicate-freeness
makes the lookups unambiguous. -/
theorem moebius_sum (nodes : List RNode) (red : RNode → α) (hnd : nodes.Nodup)
    (htr : TransOn nodes) (x : RNode) (hx : x ∈ nodes) :
    red x = lookupD 0 (moebius nodes red) x
      + ((rbelow nodes x).map (fun m => lookupD 0 (moebius nodes red) m)).sum :=
  Lemmas.Lattice.moebius_sum nodes red hnd htr hx

/-- Möbius inversion on the redundancy lattice of 2 or 3 sources. -/
theorem moebius_sum_rnodes (n : Nat) (hn : n = 2 ∨ n = 3) (red : RNode → α) (x : RNode)
    (hx : x ∈ rnodes n) :
    red x = lookupD 0 (moebius (rnodes n) red) x
      + ((rbelow (rnodes n) x).map (fun m => lookupD 0 (moebius (rnodes n) red) m)).sum :=
  Lemmas.Lattice.moebius_sum _ red (nodup_rnodes hn) (transOn_rnodes hn) hx

/-- The keys of the Möbius table are exactly the nodes (in processing order). -/
theorem moebius_keys (nodes : List RNode) (red : RNode → α) :
    (keys (moebius nodes red)).Perm nodes := by
  rw [keys_moebius]; exact mord_perm nodes

/-- **Uniqueness**: any assignment `π'` with `red x = π'(x) + Σ_{m < x} π'(m)` on all nodes is
the Möbius table — consistency determines the atoms. -/
theorem moebius_unique (nodes : List RNode) (red : RNode → α) (hnd : nodes.Nodup)
    (htr : TransOn nodes) (π' : RNode → α)
    (h : ∀ x ∈ nodes, red x = π' x + ((rbelow nodes x).map π').sum) :
    ∀ x ∈ nodes, π' x = lookupD 0 (moebius nodes red) x :=
  Lemmas.Lattice.moebius_unique nodes red hnd htr π' h

/-- **The atoms sum to the top node's redundancy**: if `top` is a greatest node, the sum of all
atoms is `red top`. -/
theorem moebius_top (nodes : List RNode) (red : RNode → α) (hnd : nodes.Nodup)
    (htr : TransOn nodes) (top : RNode) (htop : top ∈ nodes)
    (hle : ∀ a ∈ nodes, rle a top = true) :
    (nodes.map (fun x => lookupD 0 (moebius nodes red) x)).sum = red top :=
  moebius_total nodes red hnd htr htop hle

/-- On the redundancy lattice of 2 or 3 sources the atoms sum to `red {0..n-1}`. -/
theorem moebius_top_rnodes (n : Nat) (hn : n = 2 ∨ n = 3) (red : RNode → α) :
    ((rnodes n).map (fun x => lookupD 0 (moebius (rnodes n) red) x)).sum = red (rtop n) :=
  moebius_total _ red (nodup_rnodes hn) (transOn_rnodes hn) (rtop_mem hn)
    (fun _ ha => rle_rtop hn ha)

/-- Two sources: the four atoms in closed form. -/
theorem moebius_two_sources (red : RNode → α) :
    lookupD 0 (moebius (rnodes 2) red) [[0], [1]] = red [[0], [1]]
    ∧ lookupD 0 (moebius (rnodes 2) red) [[0]] = red [[0]] - red [[0], [1]]
    ∧ lookupD 0 (moebius (rnodes 2) red) [[1]] = red [[1]] - red [[0], [1]]
    ∧ lookupD 0 (moebius (rnodes 2) red) [[0, 1]]
        = red [[0, 1]] - red [[0]] - red [[1]] + red [[0], [1]] :=
  moebius_n2 red

example : (rnodes 2).Nodup ∧ TransOn (rnodes 2) ∧ rtop 2 ∈ rnodes 2 :=
  ⟨nodup_rnodes (Or.inl rfl), transOn_rnodes (Or.inl rfl), rtop_mem (Or.inl rfl)⟩

end Moebius

/-! ## Consistency and completeness -/

section Consistent
variable {α : Type} [AddCommGroup α] [LinearOrder α]

/-- **Consistency** (with the exact tolerance test `a = b`) holds exactly when every node's
redundancy is the sum of the atoms at or below it and every single-source-set node `{s}` has
redundancy `I(s : target)`. -/
theorem consistent_iff (nodes : List RNode) (red : RNode → α) (pis : Tab RNode α)
    (mi : VSet → α) :
    consistentP (fun a b => decide (a = b)) nodes red pis mi = true
      ↔ (∀ x ∈ nodes, red x = lookupD 0 pis x
            + ((rbelow nodes x).map (fun m => lookupD 0 pis m)).sum)
        ∧ ∀ s, [s] ∈ nodes → red [s] = mi s :=
  consistentP_iff nodes red pis mi

/-- A consistent decomposition has the Möbius atoms: the stored atoms are those computed by
`moebius` from the redundancies. -/
theorem consistent_atoms (nodes : List RNode) (red : RNode → α) (pis : Tab RNode α)
    (mi : VSet → α) (hnd : nodes.Nodup) (htr : TransOn nodes)
    (h : consistentP (fun a b => decide (a = b)) nodes red pis mi = true) :
    ∀ x ∈ nodes, lookupD 0 pis x = lookupD 0 (moebius nodes red) x :=
  Lemmas.Lattice.moebius_unique nodes red hnd htr (fun m => lookupD 0 pis m)
    ((consistentP_iff nodes red pis mi).mp h).1

/-- **Consistent ⇒ complete**: for a consistent decomposition on the redundancy lattice of 2 or
3 sources the atoms sum to the top node's redundancy, which is `I(all sources : target)` (the
top node `{0..n-1}` is a single-set node, so the second clause of consistency applies to it). -/
theorem consistent_complete_sum (n : Nat) (hn : n = 2 ∨ n = 3) (red : RNode → α)
    (pis : Tab RNode α) (mi : VSet → α)
    (h : consistentP (fun a b => decide (a = b)) (rnodes n) red pis mi = true) :
    ((rnodes n).map (fun x => lookupD 0 pis x)).sum = red (rtop n)
      ∧ red (rtop n) = mi (List.range n) := by
  obtain ⟨h1, h2⟩ := (consistentP_iff _ red pis mi).mp h
  refine ⟨?_, h2 (List.range n) (rtop_mem hn)⟩
  rw [← sum_at_or_below_top (rnodes n) (fun x => lookupD 0 pis x) (nodup_rnodes hn) (rtop_mem hn)
    (fun _ ha => rle_rtop hn ha)]
  exact (h1 _ (rtop_mem hn)).symm

/-- Non-vacuity: a consistent decomposition over `ℚ` for two sources. -/
example :
    let red : RNode → ℚ := fun x =>
      if x = [[0], [1]] then 1 / 2 else if x = [[0]] then 1 / 2 else if x = [[1]] then 1
      else 3 / 2
    let mi : VSet → ℚ := fun s => if s = [0] then 1 / 2 else if s = [1] then 1 else 3 / 2
    consistentP (fun a b => decide (a = b)) (rnodes 2) red (moebius (rnodes 2) red) mi = true := by
  decide +kernel

end Consistent

/-! ## Relabelling the sources -/

/-- **Relabelling is an order automorphism**: a permutation `σ` of the source indices
`{0..n-1}` induces (`nodeMap σ = nodeNorm ∘ map (map σ)`) a bijection of the nodes that
preserves the order both ways. -/
theorem relabel_automorphism (n : Nat) (hn : n = 2 ∨ n = 3) (σ : Nat → Nat)
    (hσ : ((List.range n).map σ).Perm (List.range n)) :
    ((rnodes n).map (nodeMap σ)).Perm (rnodes n)
      ∧ ∀ a ∈ rnodes n, ∀ b ∈ rnodes n, rle (nodeMap σ a) (nodeMap σ b) = rle a b :=
  ⟨(nodeMap_auto hn σ hσ).1, fun a ha b hb => ((nodeMap_auto hn σ hσ).2 a ha b hb).1⟩

/-- **Möbius inversion commutes with relabelling**: the atoms of the relabelled redundancy
`x ↦ red (σ x)` are the atoms of `red` at the relabelled nodes, `π'(x) = π(σ x)`. -/
theorem perm_equivariant {α : Type} [AddCommGroup α] (n : Nat) (hn : n = 2 ∨ n = 3)
    (σ : Nat → Nat) (hσ : ((List.range n).map σ).Perm (List.range n)) (red : RNode → α)
    (x : RNode) (hx : x ∈ rnodes n) :
    lookupD 0 (moebius (rnodes n) (fun y => red (nodeMap σ y))) x
      = lookupD 0 (moebius (rnodes n) red) (nodeMap σ x) :=
  moebius_equivariant (rnodes n) (nodup_rnodes hn) (transOn_rnodes hn) (nodeMap σ)
    (nodeMap_auto hn σ hσ).1 (fun a ha b hb => ((nodeMap_auto hn σ hσ).2 a ha b hb).2) red x hx

example : ((List.range 3).map (fun i => (i + 1) % 3)).Perm (List.range 3) := by decide
example : nodeMap (fun i => (i + 1) % 3) [[0], [1, 2]] = [[1], [0, 2]] := by decide +kernel

/-! ## Closed forms: `I_mmi` and `I_min` -/

/-- `lminOf` of a non-empty list is its minimum: a member and a lower bound. -/
theorem lminOf_spec {α : Type} [Zero α] [LinearOrder α] (l : List α) (hl : l ≠ []) :
    lminOf l ∈ l ∧ ∀ y ∈ l, lminOf l ≤ y :=
  Lemmas.Lattice.lminOf_spec hl

section Closed
variable {σ : Type} [DecidableEq σ] (t : Tab (List σ) ℝ)

/-- **`I_mmi` closed form**: the minimum over the node's sets of `I(s : T)`. -/
theorem immi_def (T : VSet) (node : RNode) (hne : node ≠ []) :
    immi (Real.logb 2) t T node = lminOf (node.map (fun s => miOf (Real.logb 2) t s T))
    ∧ (∃ s ∈ node, immi (Real.logb 2) t T node = miOf (Real.logb 2) t s T)
    ∧ ∀ s ∈ node, immi (Real.logb 2) t T node ≤ miOf (Real.logb 2) t s T := by
  have hne' : node.map (fun s => miOf (Real.logb 2) t s T) ≠ [] := by simpa using hne
  obtain ⟨h1, h2⟩ := Lemmas.Lattice.lminOf_spec hne'
  refine ⟨rfl, ?_, fun s hs => h2 _ (List.mem_map_of_mem hs)⟩
  obtain ⟨s, hs, e⟩ := List.mem_map.mp h1
  exact ⟨s, hs, e.symm⟩

/-- Self-redundancy of `I_mmi`: on a single-set node it is `I(s : T)`. -/
theorem immi_self (T s : VSet) : immi (Real.logb 2) t T [s] = miOf (Real.logb 2) t s T := rfl

/-- **`I_min` closed form**: the expected (over the target values `τ`, zero-probability values
skipped) minimum over the node's sets of the specific information `I(s ; T = τ)`. -/
theorem imin_def (T : VSet) (node : RNode) :
    imin (Real.logb 2) t T node
      = ((pushforward (project T) t).map (fun τ =>
          if τ.2 = 0 then 0
          else τ.2 * lminOf (node.map (fun s => specificInfo (Real.logb 2) t s T τ.1)))).sum :=
  imin_eq_sum t T node

variable (hnn : ∀ r ∈ t, 0 ≤ r.2)
include hnn

/-- **Specific information averages to the mutual information**:
`Σ_τ p(τ) I(S ; T = τ) = I(S : T)` for a table with non-negative values (non-negativity gives
`p(a,τ) ≠ 0 ⇒ p(a), p(τ) ≠ 0`, which makes the skipped terms vanish consistently). -/
theorem specificInfo_avg (S T : VSet) :
    ((pushforward (project T) t).map (fun τ =>
        if τ.2 = 0 then 0 else τ.2 * specificInfo (Real.logb 2) t S T τ.1)).sum
      = miOf (Real.logb 2) t S T := by
  rw [← specific_avg t hnn S T, lsum_eq_sum]
  congr 1
  apply List.map_congr_left
  intro τ _
  by_cases h : τ.2 = 0 <;> simp [h]

/-- Self-redundancy of `I_min`: on a single-set node it is `I(s : T)`. -/
theorem imin_self (T s : VSet) : imin (Real.logb 2) t T [s] = miOf (Real.logb 2) t s T :=
  imin_single t hnn s T

/-- `I(s : T)` as the value of the combination `cmiC s T ∅` (C05), for a table of mass 1. -/
theorem miOf_eq_cmi (hmass : (t.map (·.2)).sum = 1) (S T : VSet) :
    miOf (Real.logb 2) t S T
      = Comb.eval (Rat.castHom ℝ) (entropyOf (Real.logb 2) t) (cmiC S T []) :=
  Lemmas.Lattice.miOf_eq_cmi t hmass S T

/-- Mutual information with the target grows with the source set. -/
theorem mi_monotone (T : VSet) (a b : VSet) (h : ∀ x ∈ a, x ∈ b) :
    miOf (Real.logb 2) t a T ≤ miOf (Real.logb 2) t b T :=
  miOf_mono t hnn T h

/-- **`I_mmi` is monotone on the lattice**: `a ≤ b` (every set of `b` contains a set of `a`)
implies `I_mmi(a) ≤ I_mmi(b)`; `b` must be non-empty (nodes are). -/
theorem immi_monotone (T : VSet) (a b : RNode) (hb : b ≠ []) (h : rle a b = true) :
    immi (Real.logb 2) t T a ≤ immi (Real.logb 2) t T b :=
  immi_mono t hnn T hb h

/-- **`I_mmi` atoms are non-negative for two sources**: `π{0}{1} = min(I₀, I₁)`,
`π{0} = I₀ − min`, `π{1} = I₁ − min`, `π{01} = I₀₁ − max(I₀, I₁)`, all `≥ 0` for a table with
non-negative values and total mass 1 (mass 1 gives `H(∅) = 0`, hence `I ≥ 0`). -/
theorem immi_nonneg_n2 (hmass : (t.map (·.2)).sum = 1) (T : VSet) :
    ∀ x ∈ rnodes 2, 0 ≤ lookupD 0 (moebius (rnodes 2) (immi (Real.logb 2) t T)) x :=
  immi_atoms_nonneg_n2 t hnn hmass T

/-- **Specific information is monotone in the source set**: for `S ⊆ S'` and every stored
target value `τ` of non-zero probability, `I(S ; T = τ) ≤ I(S' ; T = τ)`. -/
theorem specificInfo_monotone (S S' T : VSet) (hsub : ∀ v ∈ S, v ∈ S') (τ : List σ × ℝ)
    (hτ : τ ∈ pushforward (project T) t) (h0 : τ.2 ≠ 0) :
    specificInfo (Real.logb 2) t S T τ.1 ≤ specificInfo (Real.logb 2) t S' T τ.1 :=
  specific_mono t hnn S S' T hsub hτ h0

/-- **Specific information is non-negative** (table of total mass 1; it is a Kullback–Leibler
divergence). -/
theorem specificInfo_nonneg (hmass : (t.map (·.2)).sum = 1) (S T : VSet) (τ : List σ × ℝ)
    (hτ : τ ∈ pushforward (project T) t) (h0 : τ.2 ≠ 0) :
    0 ≤ specificInfo (Real.logb 2) t S T τ.1 :=
  specific_nonneg t hnn hmass S T hτ h0

/-- **`I_min` is monotone on the lattice**: `a ≤ b` implies `I_min(a) ≤ I_min(b)`. -/
theorem imin_monotone (T : VSet) (a b : RNode) (hb : b ≠ []) (h : rle a b = true) :
    imin (Real.logb 2) t T a ≤ imin (Real.logb 2) t T b :=
  imin_mono t hnn T hb h

/-- **`I_min` atoms are non-negative for two sources** (Williams–Beer): with
`s_i(τ) = I(i ; T = τ)`, the atoms are `Σ_τ p(τ) min(s₀, s₁)`, `Σ_τ p(τ) (s_i − min(s₀, s₁))` and
`Σ_τ p(τ) (s₀₁ − max(s₀, s₁))`, non-negative by non-negativity and monotonicity of the specific
information. -/
theorem imin_nonneg_n2 (hmass : (t.map (·.2)).sum = 1) (T : VSet) :
    ∀ x ∈ rnodes 2, 0 ≤ lookupD 0 (moebius (rnodes 2) (imin (Real.logb 2) t T)) x :=
  imin_atoms_nonneg_n2 t hnn hmass T

/-- **All `I_mmi` atoms are non-negative**, for 2 or 3 sources (table of non-negative values
with total mass 1): `I_mmi` is of minimum type, `red x = min_{α ∈ x} I(α : T)`, with `I(· : T)`
non-negative and monotone. -/
theorem immi_nonneg (n : Nat) (hn : n = 2 ∨ n = 3) (hmass : (t.map (·.2)).sum = 1) (T : VSet) :
    ∀ x ∈ rnodes n, 0 ≤ lookupD 0 (moebius (rnodes n) (immi (Real.logb 2) t T)) x :=
  immi_atoms_nonneg t hnn hn hmass T

/-- **All `I_min` atoms are non-negative**, for 2 or 3 sources (Williams–Beer): `I_min` is a
non-negative combination over the target values of redundancies of minimum type. -/
theorem imin_nonneg (n : Nat) (hn : n = 2 ∨ n = 3) (hmass : (t.map (·.2)).sum = 1) (T : VSet) :
    ∀ x ∈ rnodes n, 0 ≤ lookupD 0 (moebius (rnodes n) (imin (Real.logb 2) t T)) x :=
  imin_atoms_nonneg t hnn hn hmass T

end Closed

/-- **Redundancies of minimum type have non-negative atoms** (2 or 3 sources): if
`red x = min_{α ∈ x} f α` for a function `f` of the source sets that is non-negative and monotone
under inclusion, then every atom of the decomposition is non-negative. -/
theorem min_type_nonneg (n : Nat) (hn : n = 2 ∨ n = 3) (f : VSet → ℝ)
    (hmono : ∀ α ∈ atomSets n, ∀ β ∈ atomSets n, vsubset α β = true → f α ≤ f β)
    (hnn : ∀ α ∈ atomSets n, 0 ≤ f α) :
    ∀ x ∈ rnodes n, 0 ≤ lookupD 0 (moebius (rnodes n) (fun x => lminOf (x.map f))) x :=
  min_type_atoms_nonneg hn f hmono hnn

example : (∀ α ∈ atomSets 3, ∀ β ∈ atomSets 3, vsubset α β = true →
      (fun s : VSet => (s.length : ℝ)) α ≤ (fun s : VSet => (s.length : ℝ)) β)
    ∧ ∀ α ∈ atomSets 3, (0 : ℝ) ≤ (fun s : VSet => (s.length : ℝ)) α := by
  have h : ∀ α ∈ atomSets 3, ∀ β ∈ atomSets 3, vsubset α β = true → α.length ≤ β.length := by
    decide +kernel
  exact ⟨fun α hα β hβ hs => Nat.cast_le.mpr (h α hα β hβ hs), fun α _ => Nat.cast_nonneg _⟩

/-- Non-vacuity: a table (with a stored zero) of non-negative values and total mass 1. -/
example : (∀ r ∈ ([(["0", "0", "0"], 1 / 2), (["0", "1", "1"], 0), (["1", "1", "0"], 1 / 2)] :
    Tab (List String) ℝ), 0 ≤ r.2)
    ∧ (([(["0", "0", "0"], 1 / 2), (["0", "1", "1"], 0), (["1", "1", "0"], 1 / 2)] :
      Tab (List String) ℝ).map (·.2)).sum = 1 := by
  constructor
  · intro r hr; simp at hr; rcases hr with rfl | rfl | rfl <;> norm_num
  · norm_num
example : ([[0], [1]] : RNode) ≠ [] ∧ rle [[0], [1]] [[0]] = true := by decide

end Dit.Props.C17
