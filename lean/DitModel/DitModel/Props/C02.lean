/-
C02 — Marginals and coalescings are exact pushforwards of the joint distribution.

Theorems about `Dit.pushforward` (the `defaultdict` accumulation inside `coalesce`), and about
`Dist.coalesce1` / `Dist.marginal` / `Dist.marginalize` / `Dist.coalesce`, `Space.extract` /
`Space.coalesce`, `parseIdx`, `resolveNames`, `marginalNames`, `marginalMask` over an arbitrary
commutative additive monoid of "probabilities" (so for `Rat`, `ℝ`, …).

The weight of an event `p` in a table `t` is `wtBy p t` (sum of the values of the rows whose
key satisfies `p`); `lookupD 0 t k` is the stored value of `k` or zero.
Helper lemmas: Lemmas/Table.lean.  The model is purely functional, so "the source distribution
is left unchanged" holds by construction: every operation returns a new value.
-/
import DitModel.Lemmas.Table
import Mathlib.Data.Rat.Defs

set_option linter.unusedSectionVars false

namespace Dit.Props.C02
open Dit Dit.Lemmas.Table

/-! ### Table level: `pushforward` is the push-forward of measures -/

section TableLevel
variable {κ κ' κ'' α : Type} [DecidableEq κ] [DecidableEq κ'] [DecidableEq κ'']
  [AddCommMonoid α]

/-- **Events.** The probability of any event of the new space is the probability of its
preimage under the map — for every table, also one with repeated keys, and every map (so for
repeated, overlapping or regrouped variables alike). -/
theorem pushforward_event (p : κ' → Prop) [DecidablePred p] (f : κ → κ') (t : Tab κ α) :
    wtBy p (pushforward f t) = wtBy (fun k => p (f k)) t :=
  wtBy_pushforward p f t

/-- **Fibre sums.** Each new outcome's stored probability is the sum of the probabilities of
the joint outcomes that project onto it (zero if there is none). -/
theorem pushforward_lookup (f : κ → κ') (t : Tab κ α) (k : κ') :
    lookupD 0 (pushforward f t) k = wtBy (fun o => f o = k) t :=
  lookupD_pushforward f t k

/-- **Support.** The new table stores exactly the images of the stored outcomes, each once,
in order of first appearance. -/
theorem pushforward_keys (f : κ → κ') (t : Tab κ α) :
    (keys (pushforward f t)).Nodup
      ∧ keys (pushforward f t) = dedup (t.map (fun r => f r.1))
      ∧ ∀ k, (lookup? (pushforward f t) k).isSome ↔ ∃ o ∈ keys t, f o = k :=
  ⟨keys_pushforward_nodup f t, keys_pushforward f t, fun k => by
    rw [lookup?_isSome_iff, mem_keys_pushforward]⟩

/-- **Total mass** is preserved, both as `mass` and as the sequential sum `lsum` of the
stored values that `validate`/`normalize` use. -/
theorem pushforward_mass (f : κ → κ') (t : Tab κ α) :
    mass (pushforward f t) = mass t ∧ lsum (vals (pushforward f t)) = lsum (vals t) :=
  ⟨mass_pushforward f t, lsum_vals_pushforward f t⟩

/-- **Functoriality (events).** Pushing forward in two stages is pushing forward along the
composite. -/
theorem pushforward_comp (p : κ'' → Prop) [DecidablePred p] (f : κ → κ') (g : κ' → κ'')
    (t : Tab κ α) :
    wtBy p (pushforward g (pushforward f t)) = wtBy p (pushforward (g ∘ f) t) := by
  rw [wtBy_pushforward, wtBy_pushforward, wtBy_pushforward]; rfl

/-- **Functoriality (stored values).** -/
theorem pushforward_comp_lookup (f : κ → κ') (g : κ' → κ'') (t : Tab κ α) (k : κ'') :
    lookupD 0 (pushforward g (pushforward f t)) k = lookupD 0 (pushforward (g ∘ f) t) k := by
  rw [lookupD_pushforward, lookupD_pushforward, wtBy_pushforward]; rfl

/-- The two-stage and the one-stage push-forward store the same keys. -/
theorem pushforward_comp_keys (f : κ → κ') (g : κ' → κ'') (t : Tab κ α) (k : κ'') :
    k ∈ keys (pushforward g (pushforward f t)) ↔ k ∈ keys (pushforward (g ∘ f) t) := by
  simp only [mem_keys_pushforward, Function.comp]
  constructor
  · rintro ⟨x, ⟨o, ho, rfl⟩, rfl⟩; exact ⟨o, ho, rfl⟩
  · rintro ⟨o, ho, rfl⟩; exact ⟨f o, ⟨o, ho, rfl⟩, rfl⟩

/-- **Reordering is harmless.** Sorting a table (dit's `reorder`) permutes its rows, keeps
every event weight, the total mass, and — keys being pairwise distinct — every lookup; the
result is sorted by rank. -/
theorem sortBy_spec (rank : κ → Nat) (t : Tab κ α) :
    (sortBy rank t).Perm t
      ∧ (keys (sortBy rank t)).Pairwise (fun a b => rank a ≤ rank b)
      ∧ (∀ (p : κ → Prop) [DecidablePred p], wtBy p (sortBy rank t) = wtBy p t)
      ∧ mass (sortBy rank t) = mass t
      ∧ ((keys t).Nodup → (keys (sortBy rank t)).Nodup
            ∧ ∀ k, lookup? (sortBy rank t) k = lookup? t k) :=
  ⟨sortBy_perm rank t, keys_sortBy_sorted rank t, fun p _ => wtBy_sortBy p rank t,
    mass_sortBy rank t, fun h => ⟨(nodup_keys_sortBy rank t).mpr h, lookup?_sortBy rank t h⟩⟩

end TableLevel

section Staged
variable {σ α : Type} [DecidableEq σ] [AddCommMonoid α]

/-- **Marginalising in stages (tables).** Marginalising the table `t` to the variables `I`
(and sorting, as the model does) and then marginalising the result to its positions `J`
gives, for every outcome, the same stored probability as marginalising at once to
`J.filterMap (I[·]?)`, i.e. the variables `I[J[0]], I[J[1]], …`.  The indices `I` must be
valid for every stored outcome (what `parse_rvs` checks): an invalid index would be dropped
and shift later positions. -/
theorem marginal_staged (t : Tab (List σ) α) (I J : List Nat)
    (r1 r2 r3 : List σ → Nat)
    (hI : ∀ k ∈ keys t, ∀ i ∈ I, i < k.length) (o : List σ) :
    lookupD 0 (sortBy r2 (pushforward (project J) (sortBy r1 (pushforward (project I) t)))) o
      = lookupD 0 (sortBy r3 (pushforward (project (J.filterMap (fun j => I[j]?))) t)) o := by
  rw [lookupD_sortBy _ _ (keys_pushforward_nodup _ _),
    lookupD_sortBy _ _ (keys_pushforward_nodup _ _),
    lookupD_pushforward, lookupD_pushforward, wtBy_sortBy, wtBy_pushforward]
  apply wtBy_congr
  intro k hk
  rw [project_project (hI k hk)]

/-- The staged and the direct marginal table store the same outcomes. -/
theorem marginal_staged_keys (t : Tab (List σ) α) (I J : List Nat)
    (r1 r2 r3 : List σ → Nat)
    (hI : ∀ k ∈ keys t, ∀ i ∈ I, i < k.length) (o : List σ) :
    o ∈ keys (sortBy r2 (pushforward (project J) (sortBy r1 (pushforward (project I) t))))
      ↔ o ∈ keys (sortBy r3 (pushforward (project (J.filterMap (fun j => I[j]?))) t)) := by
  simp only [mem_keys_sortBy, mem_keys_pushforward]
  constructor
  · rintro ⟨x, ⟨k, hk, rfl⟩, rfl⟩
    exact ⟨k, hk, (project_project (hI k hk) J).symm⟩
  · rintro ⟨k, hk, rfl⟩
    exact ⟨project I k, ⟨k, hk, rfl⟩, project_project (hI k hk) J⟩

/-- Staging on single outcomes. -/
theorem project_staged {I : List Nat} {o : List σ} (h : ∀ i ∈ I, i < o.length) (J : List Nat) :
    project J (project I o) = project (J.filterMap (fun j => I[j]?)) o :=
  project_project h J

end Staged

/-! ### Distribution level: `coalesce1` / `marginal` / `marginalize` / `coalesce` -/

section DistLevel
variable {σ α : Type} [DecidableEq σ] [AddCommMonoid α]

/-- **Values of a one-group coalescing / marginal.** For an outcome `o` of the new sample
space, `get o` is the fibre sum `s` of the source table — except that, when (and only when)
the source is sparse, the constructor trims null entries, so a stored `s` that is null
(`isNull`, i.e. `np.isclose(s, 0)`) reads back as an exact zero.  Outcomes outside the new
sample space are invalid.  No assumption on `d` is needed: the source table may even repeat
keys. -/
theorem coalesce1_get (cfg : NumCfg α) (outLt : List σ → List σ → Bool) (d : Dist σ α)
    (g : List Nat) (o : List σ) :
    (o ∈ (d.space.extract outLt g).toList →
      (d.coalesce1 cfg outLt g).get o = some (wtBy (fun k => project g k = o) d.tab)
      ∨ (d.sparse = true
          ∧ cfg.isNull d.base (wtBy (fun k => project g k = o) d.tab) = true
          ∧ (d.coalesce1 cfg outLt g).get o = some 0))
    ∧ (o ∉ (d.space.extract outLt g).toList → (d.coalesce1 cfg outLt g).get o = none) := by
  rw [coalesce1_eq_finishPush]
  refine ⟨fun ho => ?_, fun ho => finishPush_get_none _ _ _ _ _ _ _ ho⟩
  cases hs : d.sparse with
  | false => exact Or.inl (finishPush_get_dense _ _ _ _ _ _ ho)
  | true =>
    rw [finishPush_get_sparse _ _ _ _ _ _ ho]
    by_cases hn : cfg.isNull d.base (wtBy (fun k => project g k = o) d.tab) = true
        ∧ o ∈ keys (pushforward (project g) d.tab)
    · exact Or.inr ⟨rfl, hn.1, by rw [if_pos hn]⟩
    · exact Or.inl (by rw [if_neg hn])

/-- Dense source: the result stores exactly the new sample space, in order, each outcome
with its fibre sum (the complete description of the result table). -/
theorem coalesce1_dense (cfg : NumCfg α) (outLt : List σ → List σ → Bool) (d : Dist σ α)
    (g : List Nat) (hd : d.sparse = false) :
    (d.coalesce1 cfg outLt g).tab
        = (d.space.extract outLt g).toList.map
            (fun o => (o, wtBy (fun k => project g k = o) d.tab))
      ∧ keys (d.coalesce1 cfg outLt g).tab = (d.space.extract outLt g).toList := by
  rw [coalesce1_eq_finishPush, hd]
  exact ⟨finishPush_tab_dense _ _ _ _ _, finishPush_keys_dense _ _ _ _ _⟩

/-- Sparse source: the result stores, once each and sorted by rank in the new sample space,
exactly the images of stored outcomes whose fibre sum is not null, each with its fibre sum. -/
theorem coalesce1_sparse (cfg : NumCfg α) (outLt : List σ → List σ → Bool) (d : Dist σ α)
    (g : List Nat) (hd : d.sparse = true) :
    (keys (d.coalesce1 cfg outLt g).tab).Nodup
      ∧ (keys (d.coalesce1 cfg outLt g).tab).Pairwise
          (fun a b => (d.space.extract outLt g).rank a ≤ (d.space.extract outLt g).rank b)
      ∧ (∀ o, o ∈ keys (d.coalesce1 cfg outLt g).tab
            ↔ (∃ k ∈ keys d.tab, project g k = o)
              ∧ cfg.isNull d.base (wtBy (fun k => project g k = o) d.tab) = false)
      ∧ (∀ o v, (o, v) ∈ (d.coalesce1 cfg outLt g).tab →
            v = wtBy (fun k => project g k = o) d.tab) := by
  rw [coalesce1_eq_finishPush, hd]
  refine ⟨finishPush_keys_sparse_nodup _ _ _ _ _, finishPush_keys_sparse_sorted _ _ _ _ _,
    finishPush_mem_keys_sparse _ _ _ _ _, ?_⟩
  intro o v hv
  rw [finishPush_tab_sparse] at hv
  have hv' := (List.mem_filter.mp hv).1
  have hnd := nodup_keys_sorted_pushforward (d.space.extract outLt g) (project g) d.tab
  have hl := (lookup?_eq_some_iff hnd).mpr hv'
  rw [← lookupD_sorted_pushforward (d.space.extract outLt g)]
  simp [lookupD, hl]

/-- **Metadata.** The result has the base and the sparsity of the source and the projected
sample space; its keys are sorted by their rank in the new sample space, and are pairwise
distinct provided — in the dense case, where the keys are the whole new sample space — that
space lists each outcome once (see `extract_nodup`). -/
theorem coalesce1_meta (cfg : NumCfg α) (outLt : List σ → List σ → Bool) (d : Dist σ α)
    (g : List Nat) :
    (d.coalesce1 cfg outLt g).base = d.base
      ∧ (d.coalesce1 cfg outLt g).sparse = d.sparse
      ∧ (d.coalesce1 cfg outLt g).space = d.space.extract outLt g
      ∧ ((d.sparse = false → (d.space.extract outLt g).toList.Nodup) →
          (keys (d.coalesce1 cfg outLt g).tab).Nodup
          ∧ (keys (d.coalesce1 cfg outLt g).tab).Pairwise
              (fun a b => (d.space.extract outLt g).rank a ≤ (d.space.extract outLt g).rank b)) := by
  refine ⟨?_, ?_, ?_, ?_⟩
  · rw [coalesce1_eq_finishPush, finishPush_base]
  · rw [coalesce1_eq_finishPush, finishPush_sparse]
  · rw [coalesce1_eq_finishPush, finishPush_space]
  · intro hsp
    cases hs : d.sparse with
    | true => exact ⟨(coalesce1_sparse cfg outLt d g hs).1, (coalesce1_sparse cfg outLt d g hs).2.1⟩
    | false =>
      rw [(coalesce1_dense cfg outLt d g hs).2]
      exact ⟨hsp hs, (Space.pairwise_rank _ (hsp hs)).imp Nat.le_of_lt⟩

/-- **Total mass at the distribution level.** Dense source: the mass is preserved provided
every stored outcome lies in the sample space (so that its image lies in the new one, cf.
`space_projection`) and the new sample space lists each outcome once (otherwise `make_dense`
would store an outcome's mass twice).  Sparse source: the mass kept plus the mass of the
trimmed (null) rows is the source mass — unconditionally. -/
theorem coalesce1_mass (cfg : NumCfg α) (outLt : List σ → List σ → Bool) (d : Dist σ α)
    (g : List Nat) :
    (d.sparse = false → (d.space.extract outLt g).toList.Nodup →
        (∀ k ∈ keys d.tab, project g k ∈ (d.space.extract outLt g).toList) →
        mass (d.coalesce1 cfg outLt g).tab = mass d.tab)
    ∧ (d.sparse = true →
        mass (d.coalesce1 cfg outLt g).tab
          + mass ((pushforward (project g) d.tab).filter (fun r => cfg.isNull d.base r.2))
          = mass d.tab) := by
  rw [coalesce1_eq_finishPush]
  constructor
  · intro hd hnd hk; rw [hd]; exact finishPush_mass_dense _ _ _ _ _ hnd hk
  · intro hd; rw [hd]; exact finishPush_mass_sparse _ _ _ _ _

/-- `marginal` is the one-group coalescing with extraction, so all `coalesce1_*` theorems
are statements about marginals. -/
theorem marginal_eq_coalesce1 (cfg : NumCfg α) (outLt : List σ → List σ → Bool) (d : Dist σ α)
    (idx : List Nat) : d.marginal cfg outLt idx = d.coalesce1 cfg outLt idx := rfl

/-- **Values of a marginal** (`coalesce1_get` for `marginal`). -/
theorem marginal_get (cfg : NumCfg α) (outLt : List σ → List σ → Bool) (d : Dist σ α)
    (idx : List Nat) (o : List σ) (ho : o ∈ (d.space.extract outLt idx).toList) :
    (d.marginal cfg outLt idx).get o = some (wtBy (fun k => project idx k = o) d.tab)
      ∨ (d.sparse = true
          ∧ cfg.isNull d.base (wtBy (fun k => project idx k = o) d.tab) = true
          ∧ (d.marginal cfg outLt idx).get o = some 0) :=
  (coalesce1_get cfg outLt d idx o).1 ho

/-- `marginalize(idx)` is `marginal` of the complementary variables, which are the indices
below `n` not in `idx`, in increasing order and without repetition. -/
theorem marginalize_eq_marginal_compl (cfg : NumCfg α) (outLt : List σ → List σ → Bool)
    (d : Dist σ α) (n : Nat) (idx : List Nat) :
    d.marginalize cfg outLt n idx = d.marginal cfg outLt (complIdx n idx)
      ∧ (∀ i, i ∈ complIdx n idx ↔ i < n ∧ i ∉ idx)
      ∧ (complIdx n idx).Pairwise (· < ·) := by
  refine ⟨rfl, fun i => by simp [complIdx], ?_⟩
  unfold complIdx
  exact List.Pairwise.sublist List.filter_sublist List.pairwise_lt_range

end DistLevel

section Groups
variable {σ α : Type} [DecidableEq σ] [AddCommMonoid α]

/-- **Values of a coalescing with several groups.** As `coalesce1_get`, with the regrouping
map `projectGroups groups` (one inner outcome per group; groups may repeat or overlap). -/
theorem coalesce_get (cfg : NumCfg α) (outLt : List (List σ) → List (List σ) → Bool)
    (d : Dist σ α) (groups : List (List Nat)) (o : List (List σ)) :
    (o ∈ (d.space.coalesce outLt groups).toList →
      (d.coalesce cfg outLt groups).get o
          = some (wtBy (fun k => projectGroups groups k = o) d.tab)
      ∨ (d.sparse = true
          ∧ cfg.isNull d.base (wtBy (fun k => projectGroups groups k = o) d.tab) = true
          ∧ (d.coalesce cfg outLt groups).get o = some 0))
    ∧ (o ∉ (d.space.coalesce outLt groups).toList →
        (d.coalesce cfg outLt groups).get o = none) := by
  rw [coalesce_eq_finishPush]
  refine ⟨fun ho => ?_, fun ho => finishPush_get_none _ _ _ _ _ _ _ ho⟩
  cases hs : d.sparse with
  | false => exact Or.inl (finishPush_get_dense _ _ _ _ _ _ ho)
  | true =>
    rw [finishPush_get_sparse _ _ _ _ _ _ ho]
    by_cases hn : cfg.isNull d.base (wtBy (fun k => projectGroups groups k = o) d.tab) = true
        ∧ o ∈ keys (pushforward (projectGroups groups) d.tab)
    · exact Or.inr ⟨rfl, hn.1, by rw [if_pos hn]⟩
    · exact Or.inl (by rw [if_neg hn])

/-- Dense source, several groups: complete description of the result table. -/
theorem coalesce_dense (cfg : NumCfg α) (outLt : List (List σ) → List (List σ) → Bool)
    (d : Dist σ α) (groups : List (List Nat)) (hd : d.sparse = false) :
    (d.coalesce cfg outLt groups).tab
        = (d.space.coalesce outLt groups).toList.map
            (fun o => (o, wtBy (fun k => projectGroups groups k = o) d.tab))
      ∧ keys (d.coalesce cfg outLt groups).tab = (d.space.coalesce outLt groups).toList := by
  rw [coalesce_eq_finishPush, hd]
  exact ⟨finishPush_tab_dense _ _ _ _ _, finishPush_keys_dense _ _ _ _ _⟩

/-- Sparse source, several groups: stored keys are pairwise distinct, sorted, and are the
images with a non-null fibre sum. -/
theorem coalesce_sparse (cfg : NumCfg α) (outLt : List (List σ) → List (List σ) → Bool)
    (d : Dist σ α) (groups : List (List Nat)) (hd : d.sparse = true) :
    (keys (d.coalesce cfg outLt groups).tab).Nodup
      ∧ (keys (d.coalesce cfg outLt groups).tab).Pairwise
          (fun a b => (d.space.coalesce outLt groups).rank a
                        ≤ (d.space.coalesce outLt groups).rank b)
      ∧ (∀ o, o ∈ keys (d.coalesce cfg outLt groups).tab
            ↔ (∃ k ∈ keys d.tab, projectGroups groups k = o)
              ∧ cfg.isNull d.base (wtBy (fun k => projectGroups groups k = o) d.tab) = false) := by
  rw [coalesce_eq_finishPush, hd]
  exact ⟨finishPush_keys_sparse_nodup _ _ _ _ _, finishPush_keys_sparse_sorted _ _ _ _ _,
    finishPush_mem_keys_sparse _ _ _ _ _⟩

/-- **Metadata, several groups.** Base, sparsity and sample space of the result; keys sorted
and pairwise distinct (dense case: provided the new sample space lists each outcome once). -/
theorem coalesce_meta (cfg : NumCfg α) (outLt : List (List σ) → List (List σ) → Bool)
    (d : Dist σ α) (groups : List (List Nat)) :
    (d.coalesce cfg outLt groups).base = d.base
      ∧ (d.coalesce cfg outLt groups).sparse = d.sparse
      ∧ (d.coalesce cfg outLt groups).space = d.space.coalesce outLt groups
      ∧ ((d.sparse = false → (d.space.coalesce outLt groups).toList.Nodup) →
          (keys (d.coalesce cfg outLt groups).tab).Nodup
          ∧ (keys (d.coalesce cfg outLt groups).tab).Pairwise
              (fun a b => (d.space.coalesce outLt groups).rank a
                            ≤ (d.space.coalesce outLt groups).rank b)) := by
  refine ⟨?_, ?_, ?_, ?_⟩
  · rw [coalesce_eq_finishPush, finishPush_base]
  · rw [coalesce_eq_finishPush, finishPush_sparse]
  · rw [coalesce_eq_finishPush, finishPush_space]
  · intro hsp
    cases hs : d.sparse with
    | true =>
      exact ⟨(coalesce_sparse cfg outLt d groups hs).1, (coalesce_sparse cfg outLt d groups hs).2.1⟩
    | false =>
      rw [(coalesce_dense cfg outLt d groups hs).2]
      exact ⟨hsp hs, (Space.pairwise_rank _ (hsp hs)).imp Nat.le_of_lt⟩

/-- **Total mass, several groups** (as `coalesce1_mass`). -/
theorem coalesce_mass (cfg : NumCfg α) (outLt : List (List σ) → List (List σ) → Bool)
    (d : Dist σ α) (groups : List (List Nat)) :
    (d.sparse = false → (d.space.coalesce outLt groups).toList.Nodup →
        (∀ k ∈ keys d.tab, projectGroups groups k ∈ (d.space.coalesce outLt groups).toList) →
        mass (d.coalesce cfg outLt groups).tab = mass d.tab)
    ∧ (d.sparse = true →
        mass (d.coalesce cfg outLt groups).tab
          + mass ((pushforward (projectGroups groups) d.tab).filter
                    (fun r => cfg.isNull d.base r.2))
          = mass d.tab) := by
  rw [coalesce_eq_finishPush]
  constructor
  · intro hd hnd hk; rw [hd]; exact finishPush_mass_dense _ _ _ _ _ hnd hk
  · intro hd; rw [hd]; exact finishPush_mass_sparse _ _ _ _ _

end Groups

/-! ### Sample spaces -/

section Spaces
variable {σ : Type} [DecidableEq σ]

/-- **The new sample space contains the projection of the old one** (one group, `extract`):
every member of the source space projects to a member of the new space — for Cartesian and
explicit spaces, any index list (indices out of range are dropped on both sides). -/
theorem space_projection (outLt : List σ → List σ → Bool) (s : Space σ) (g : List Nat)
    (o : List σ) (ho : o ∈ s.toList) : project g o ∈ (s.extract outLt g).toList := by
  cases s with
  | cart as =>
    show project g o ∈ cartesian (project g as)
    exact mem_cartesian.mpr (forall₂_project (mem_cartesian.mp ho) g)
  | expl os =>
    show project g o ∈ isort outLt (dedup (os.map (project g)))
    rw [mem_isort, mem_dedup]
    exact List.mem_map_of_mem ho

/-- For an explicit sample space the new space is exactly the image, listed once. -/
theorem space_extract_expl (outLt : List σ → List σ → Bool) (os : List (List σ)) (g : List Nat) :
    (∀ x, x ∈ ((Space.expl os).extract outLt g).toList ↔ ∃ o ∈ os, project g o = x)
      ∧ ((Space.expl os).extract outLt g).toList.Nodup := by
  refine ⟨fun x => ?_, ?_⟩
  · show x ∈ isort outLt (dedup (os.map (project g))) ↔ _
    rw [mem_isort, mem_dedup, List.mem_map]
  · show (isort outLt (dedup (os.map (project g)))).Nodup
    exact nodup_isort.mpr (nodup_dedup _)

/-- For a Cartesian sample space the new space is the product of the selected alphabets (in
the order selected, repeated if selected twice): its members are the outcomes whose `j`-th
symbol lies in the alphabet of variable `g[j]`; it lists each outcome once when the alphabets
have no repeated symbol. -/
theorem space_extract_cart (outLt : List σ → List σ → Bool) (as : List (List σ)) (g : List Nat) :
    ((Space.cart as).extract outLt g) = Space.cart (project g as)
      ∧ (∀ x, x ∈ ((Space.cart as).extract outLt g).toList
            ↔ List.Forall₂ (fun c a => c ∈ a) x (project g as))
      ∧ ((∀ a ∈ as, a.Nodup) → ((Space.cart as).extract outLt g).toList.Nodup) := by
  refine ⟨rfl, fun x => mem_cartesian, fun h => ?_⟩
  show (cartesian (project g as)).Nodup
  apply nodup_cartesian
  intro a ha
  rcases List.mem_filterMap.mp ha with ⟨i, _, hi⟩
  exact h a (List.mem_of_getElem? hi)

/-- The new sample space of `extract` lists each outcome once (needed by the dense clauses of
`coalesce1_meta` / `coalesce1_mass`): always for explicit spaces, and for Cartesian spaces
whose alphabets have no repeated symbol. -/
theorem extract_nodup (outLt : List σ → List σ → Bool) (s : Space σ) (g : List Nat)
    (h : ∀ as, s = Space.cart as → ∀ a ∈ as, a.Nodup) : (s.extract outLt g).toList.Nodup := by
  cases s with
  | cart as => exact (space_extract_cart outLt as g).2.2 (h as rfl)
  | expl os => exact (space_extract_expl outLt os g).2

/-- **Projection of the sample space, several groups.** -/
theorem space_projection_groups (outLt : List (List σ) → List (List σ) → Bool) (s : Space σ)
    (groups : List (List Nat)) (o : List σ) (ho : o ∈ s.toList) :
    projectGroups groups o ∈ (s.coalesce outLt groups).toList := by
  cases s with
  | cart as =>
    show projectGroups groups o ∈ cartesian (groups.map (fun g => cartesian (project g as)))
    rw [mem_cartesian, projectGroups_eq, List.forall₂_map_left_iff, List.forall₂_map_right_iff]
    have h := mem_cartesian.mp ho
    exact List.forall₂_same.mpr
      (fun g _ => mem_cartesian.mpr (forall₂_project h g))
  | expl os =>
    show projectGroups groups o ∈ isort outLt (dedup (os.map (projectGroups groups)))
    rw [mem_isort, mem_dedup]
    exact List.mem_map_of_mem ho

/-- Several groups, explicit space: the new space is exactly the image, listed once. -/
theorem space_coalesce_expl (outLt : List (List σ) → List (List σ) → Bool) (os : List (List σ))
    (groups : List (List Nat)) :
    (∀ x, x ∈ ((Space.expl os).coalesce outLt groups).toList
        ↔ ∃ o ∈ os, projectGroups groups o = x)
      ∧ ((Space.expl os).coalesce outLt groups).toList.Nodup := by
  refine ⟨fun x => ?_, ?_⟩
  · show x ∈ isort outLt (dedup (os.map (projectGroups groups))) ↔ _
    rw [mem_isort, mem_dedup, List.mem_map]
  · show (isort outLt (dedup (os.map (projectGroups groups)))).Nodup
    exact nodup_isort.mpr (nodup_dedup _)

/-- Several groups, Cartesian space: each outcome listed once when the alphabets have no
repeated symbol. -/
theorem space_coalesce_cart_nodup (outLt : List (List σ) → List (List σ) → Bool)
    (as : List (List σ)) (groups : List (List Nat)) (h : ∀ a ∈ as, a.Nodup) :
    ((Space.cart as).coalesce outLt groups).toList.Nodup := by
  show (cartesian (groups.map (fun g => cartesian (project g as)))).Nodup
  apply nodup_cartesian
  intro a ha
  rcases List.mem_map.mp ha with ⟨g, _, rfl⟩
  exact (space_extract_cart (fun _ _ => false) as g).2.2 h

/-- **Stored outcomes stay inside the sample space**: if the source stores only members of
its sample space, so does every one-group coalescing (hence the hypothesis of the dense
clause of `coalesce1_mass` holds). -/
theorem coalesce1_keys_in_space (outLt : List σ → List σ → Bool) (s : Space σ) (g : List Nat)
    (ks : List (List σ)) (h : ∀ k ∈ ks, k ∈ s.toList) :
    ∀ k ∈ ks, project g k ∈ (s.extract outLt g).toList :=
  fun k hk => space_projection outLt s g k (h k hk)

/-- **Staging of sample spaces, Cartesian.** With valid indices `I`, extracting `I` and then
positions `J` gives the same sample space as extracting `J.filterMap (I[·]?)` at once. -/
theorem extract_extract_cart (outLt : List σ → List σ → Bool) (as : List (List σ))
    (I J : List Nat) (hI : ∀ i ∈ I, i < as.length) :
    ((Space.cart as).extract outLt I).extract outLt J
      = (Space.cart as).extract outLt (J.filterMap (fun j => I[j]?)) := by
  show Space.cart (project J (project I as)) = Space.cart (project _ as)
  rw [project_project hI]

/-- **Staging of sample spaces, explicit.** With indices `I` valid for every member, the two
ways give sample spaces with the same members (both listed once, both sorted by `outLt`). -/
theorem extract_extract_expl (outLt : List σ → List σ → Bool) (os : List (List σ))
    (I J : List Nat) (hI : ∀ o ∈ os, ∀ i ∈ I, i < o.length) (x : List σ) :
    x ∈ (((Space.expl os).extract outLt I).extract outLt J).toList
      ↔ x ∈ ((Space.expl os).extract outLt (J.filterMap (fun j => I[j]?))).toList := by
  show x ∈ isort outLt (dedup ((isort outLt (dedup (os.map (project I)))).map (project J)))
    ↔ x ∈ isort outLt (dedup (os.map (project _)))
  simp only [mem_isort, mem_dedup, List.mem_map]
  constructor
  · rintro ⟨y, ⟨o, ho, rfl⟩, rfl⟩
    exact ⟨o, ho, (project_project (hI o ho) J).symm⟩
  · rintro ⟨o, ho, rfl⟩
    exact ⟨project I o, ⟨o, ho, rfl⟩, project_project (hI o ho) J⟩

end Spaces

/-! ### Marginalising in stages, distribution level -/

section StagedDist
variable {σ α : Type} [DecidableEq σ] [AddCommMonoid α]

/-- **Marginalising in stages equals marginalising at once (dense distributions).**
For a dense `d` whose stored outcomes lie in its sample space and are long enough for the
indices `I`, and an intermediate sample space listing each outcome once (`extract_nodup`),
the marginal onto positions `J` of the marginal onto `I` gives every outcome `o` of its
sample space the fibre sum of the direct marginal onto `J.filterMap (I[·]?)`; hence the two
distributions agree wherever both are defined (`extract_extract_cart/_expl`: the two sample
spaces have the same members).  The hypotheses are needed because `make_dense` in stage one
re-tabulates over the intermediate sample space: mass outside it would be lost and an
outcome listed twice would be counted twice.  For sparse distributions the stage-one trimming
of null (but possibly non-zero) sums makes the equality only approximate. -/
theorem marginal_staged_dense (cfg : NumCfg α) (outLt : List σ → List σ → Bool) (d : Dist σ α)
    (I J : List Nat) (hd : d.sparse = false)
    (hin : ∀ k ∈ keys d.tab, k ∈ d.space.toList)
    (hI : ∀ k ∈ keys d.tab, ∀ i ∈ I, i < k.length)
    (hnd : (d.space.extract outLt I).toList.Nodup)
    (o : List σ) (ho : o ∈ ((d.space.extract outLt I).extract outLt J).toList) :
    ((d.marginal cfg outLt I).marginal cfg outLt J).get o
        = some (wtBy (fun k => project (J.filterMap (fun j => I[j]?)) k = o) d.tab)
      ∧ (o ∈ (d.space.extract outLt (J.filterMap (fun j => I[j]?))).toList →
          ((d.marginal cfg outLt I).marginal cfg outLt J).get o
            = (d.marginal cfg outLt (J.filterMap (fun j => I[j]?))).get o) := by
  have hmeta := coalesce1_meta cfg outLt d I
  have hsp : (d.marginal cfg outLt I).space = d.space.extract outLt I := hmeta.2.2.1
  have hsparse : (d.marginal cfg outLt I).sparse = false := by
    rw [marginal_eq_coalesce1, hmeta.2.1, hd]
  have htab := (coalesce1_dense cfg outLt d I hd).1
  have key : ((d.marginal cfg outLt I).marginal cfg outLt J).get o
      = some (wtBy (fun k => project (J.filterMap (fun j => I[j]?)) k = o) d.tab) := by
    have ho' : o ∈ ((d.marginal cfg outLt I).space.extract outLt J).toList := by
      rw [hsp]; exact ho
    rcases (coalesce1_get cfg outLt (d.marginal cfg outLt I) J o).1 ho' with h | h
    · rw [marginal_eq_coalesce1 cfg outLt (d.marginal cfg outLt I) J, h]
      congr 1
      rw [marginal_eq_coalesce1 cfg outLt d I, htab, wtBy_map_graph,
        sum_map_wtBy_fibre hnd (project I) (fun x => project J x = o) d.tab
          (fun k hk => space_projection outLt d.space I k (hin k hk))]
      apply wtBy_congr
      intro k hk
      rw [project_project (hI k hk)]
    · rw [hsparse] at h; exact absurd h.1 (by simp)
  refine ⟨key, fun ho2 => ?_⟩
  rw [key]
  rcases (coalesce1_get cfg outLt d (J.filterMap (fun j => I[j]?)) o).1 ho2 with h | h
  · exact h.symm
  · rw [hd] at h; exact absurd h.1 (by simp)

end StagedDist

/-! ### Index parsing, names, masks -/

section Parsing

/-- **`parse_rvs` (index mode), success.** A successful parse returns valid indices that are
a rearrangement of the request: the request itself without `sort`, sorted ascending with
`sort`, without repetition under `unique` (so strictly increasing with both — the form
`marginal` relies on to keep the variable order). -/
theorem parseIdx_ok (n : Nat) (rvs : List Nat) (unique sort : Bool) (idx : List Nat)
    (h : parseIdx n rvs unique sort = .ok idx) :
    (∀ i ∈ idx, i < n) ∧ idx.Perm rvs
      ∧ (sort = false → idx = rvs)
      ∧ (sort = true → idx.Pairwise (· ≤ ·))
      ∧ (unique = true → idx.Nodup)
      ∧ (sort = true → unique = true → idx.Pairwise (· < ·)) := by
  unfold parseIdx at h
  by_cases he : rvs = []
  · subst he
    simp only [List.isEmpty_nil, if_true, Except.ok.injEq] at h
    subst h; simp
  · have he' : rvs.isEmpty = false := by simpa using he
    rw [he'] at h
    simp only [Bool.false_eq_true, if_false] at h
    split at h
    · cases h
    · rename_i hu
      split at h
      · cases h
      · rename_i hall
        simp only [Except.ok.injEq] at h
        have hlt : ∀ i ∈ rvs, i < n := by simpa using hall
        have hperm : idx.Perm rvs := by
          rw [← h]; split
          · exact isort_perm _ _
          · exact List.Perm.refl _
        have hnd : unique = true → idx.Nodup := by
          intro hq
          have : rvs.Nodup := by
            rw [← length_dedup_eq]
            by_contra hne
            exact hu (by simp [hq, hne])
          exact hperm.nodup_iff.mpr this
        have hsorted : sort = true → idx.Pairwise (· ≤ ·) := by
          intro hs; rw [← h, if_pos hs]; exact isort_nat_sorted rvs
        refine ⟨fun i hi => hlt i (hperm.mem_iff.mp hi), hperm, ?_, hsorted, hnd, ?_⟩
        · intro hs; rw [← h]; simp [hs]
        · intro hs hq
          exact ((hsorted hs).and (hnd hq)).imp (fun hab => Nat.lt_of_le_of_ne hab.1 hab.2)

/-- **`parse_rvs` (index mode), failure.** The parse fails — always with `ditException` —
exactly when the request is non-empty and either repeats an index under `unique` or contains
an index that is not below the outcome length. -/
theorem parseIdx_error (n : Nat) (rvs : List Nat) (unique sort : Bool) :
    ((∃ e, parseIdx n rvs unique sort = .error e) ↔
        rvs ≠ [] ∧ ((unique = true ∧ ¬ rvs.Nodup) ∨ ∃ i ∈ rvs, n ≤ i))
      ∧ ∀ e, parseIdx n rvs unique sort = .error e → e = Err.ditException := by
  unfold parseIdx
  by_cases he : rvs = []
  · subst he; simp
  · have he' : rvs.isEmpty = false := by simpa using he
    rw [he']
    simp only [Bool.false_eq_true, if_false, ne_eq, he, not_false_iff, true_and]
    by_cases hu : (unique && decide ((dedup rvs).length ≠ rvs.length)) = true
    · rw [if_pos hu]
      have hu' : unique = true ∧ ¬ rvs.Nodup := by
        simp only [Bool.and_eq_true, decide_eq_true_eq] at hu
        exact ⟨hu.1, fun hnd => hu.2 (length_dedup_eq.mpr hnd)⟩
      refine ⟨⟨fun _ => Or.inl hu', fun _ => ⟨_, rfl⟩⟩, fun e h => ?_⟩
      cases h; rfl
    · rw [if_neg hu]
      have hu' : ¬ (unique = true ∧ ¬ rvs.Nodup) := by
        rintro ⟨hq, hnd⟩
        have hne : (dedup rvs).length ≠ rvs.length := fun hl => hnd (length_dedup_eq.mp hl)
        exact hu (by simp [hq, hne])
      by_cases hall : (!rvs.all (fun x => decide (x < n))) = true
      · rw [if_pos hall]
        have : ∃ i ∈ rvs, n ≤ i := by simpa using hall
        refine ⟨⟨fun _ => Or.inr this, fun _ => ⟨_, rfl⟩⟩, fun e h => ?_⟩
        cases h; rfl
      · rw [if_neg hall]
        have hno : ¬ ∃ i ∈ rvs, n ≤ i := by simpa using hall
        refine ⟨⟨fun ⟨e, h⟩ => (by cases h), ?_⟩, fun e h => (by cases h)⟩
        rintro (h | h)
        · exact absurd h hu'
        · exact absurd h hno

variable {ν : Type}

/-- **Names of the kept variables.** The marginal onto valid indices `idx` carries the names
`names[idx[0]], names[idx[1]], …`: as many as indices, in the order of the indices (which is
the variable order when `idx` is sorted). It is `project idx` applied to the name list. -/
theorem marginalNames_spec (names : List ν) (idx : List Nat) (h : ∀ i ∈ idx, i < names.length) :
    marginalNames names idx = project idx names
      ∧ (marginalNames names idx).length = idx.length
      ∧ ∀ j : Nat, (marginalNames names idx)[j]? = (idx[j]?).bind (fun i : Nat => names[i]?) :=
  ⟨rfl, length_project h, getElem?_project h⟩

/-- **Name resolution.** `resolveNames` succeeds iff every requested name is a variable name;
it then returns, position by position, the index of the first variable carrying the name —
and the marginal onto these indices is named exactly by the requested names. -/
theorem resolveNames_spec [DecidableEq ν] (names rvs : List ν) :
    (∀ idx, resolveNames names rvs = .ok idx →
        List.Forall₂ (fun i r => indexOf? names r = some i) idx rvs
        ∧ (∀ i ∈ idx, i < names.length)
        ∧ marginalNames names idx = rvs)
      ∧ ((∃ e, resolveNames names rvs = .error e) ↔ ∃ r ∈ rvs, r ∉ names) := by
  have key : ∀ rvs : List ν, (rvs.filterMap (indexOf? names)).length = rvs.length →
      List.Forall₂ (fun i r => indexOf? names r = some i)
        (rvs.filterMap (indexOf? names)) rvs := by
    intro rvs
    induction rvs with
    | nil => intro _; exact List.Forall₂.nil
    | cons r rvs ih =>
      intro hlen
      cases hr : indexOf? names r with
      | none =>
        rw [List.filterMap_cons_none hr] at hlen
        have := List.length_filterMap_le (indexOf? names) rvs
        simp only [List.length_cons] at hlen; omega
      | some i =>
        rw [List.filterMap_cons_some hr] at hlen ⊢
        exact List.Forall₂.cons hr (ih (by simpa using hlen))
  have names_of : ∀ (idx : List Nat) (rvs : List ν),
      List.Forall₂ (fun i r => indexOf? names r = some i) idx rvs →
      (∀ i ∈ idx, i < names.length) ∧ marginalNames names idx = rvs := by
    intro idx rvs hf
    induction hf with
    | nil => exact ⟨by simp, rfl⟩
    | cons hir _ ih =>
      have h1 := (indexOf?_eq_some hir).1
      refine ⟨?_, ?_⟩
      · intro i hi
        rcases List.mem_cons.mp hi with e | hi
        · subst e; exact (List.getElem?_eq_some_iff.mp h1).1
        · exact ih.1 i hi
      · unfold marginalNames at ih ⊢
        rw [List.filterMap_cons_some h1, ih.2]
  unfold resolveNames
  constructor
  · intro idx h
    simp only at h
    split at h
    · cases h
    · rename_i hlen
      simp only [Except.ok.injEq] at h
      subst h
      have hf := key rvs (Decidable.of_not_not hlen)
      exact ⟨hf, names_of _ _ hf⟩
  · simp only
    constructor
    · rintro ⟨e, h⟩
      split at h
      · rename_i hlen
        by_contra hall
        have hall' : ∀ r ∈ rvs, r ∈ names := by
          intro r hr; by_contra hn; exact hall ⟨r, hr, hn⟩
        apply hlen
        clear h hlen hall
        induction rvs with
        | nil => rfl
        | cons r rvs ih =>
          cases hr : indexOf? names r with
          | none => exact absurd (hall' r (by simp)) (indexOf?_eq_none_iff.mp hr)
          | some i =>
            rw [List.filterMap_cons_some hr]
            simp [ih (fun x hx => hall' x (List.mem_cons_of_mem _ hx))]
      · cases h
    · rintro ⟨r, hr, hn⟩
      have hlen : (rvs.filterMap (fun r => indexOf? names r)).length ≠ rvs.length := by
        intro hlen
        have hf := key rvs hlen
        have : ∀ (idx : List Nat) (l : List ν),
            List.Forall₂ (fun i r => indexOf? names r = some i) idx l → ∀ x ∈ l, x ∈ names := by
          intro idx l hf
          induction hf with
          | nil => simp
          | cons hir _ ih =>
            intro x hx
            rcases List.mem_cons.mp hx with e | hx
            · subst e
              by_contra hx'
              rw [indexOf?_eq_none_iff.mpr hx'] at hir; cases hir
            · exact ih x hx
        exact hn (this _ _ hf r hr)
      rw [if_pos hlen]
      exact ⟨_, rfl⟩

/-- **Variable order is kept.** For strictly increasing indices (what `parseIdx … true true`
returns, see `parseIdx_ok`), the marginal's outcomes, alphabets and variable names are
subsequences of the source's: the kept variables stay in their original order. -/
theorem marginal_keeps_order {τ : Type} (idx : List Nat) (h : idx.Pairwise (· < ·))
    (o : List τ) (names : List ν) :
    (project idx o).Sublist o ∧ (marginalNames names idx).Sublist names :=
  ⟨project_sublist h o, project_sublist h names⟩

/-- **Mask of a marginal**: one flag per variable of the source, `true` exactly for the
dropped variables. -/
theorem marginalMask_spec (n : Nat) (idx : List Nat) :
    (marginalMask n idx).length = n
      ∧ ∀ i, i < n → (marginalMask n idx)[i]? = some (decide (i ∉ idx)) := by
  refine ⟨by simp [marginalMask], fun i h => ?_⟩
  simp [marginalMask, h]

end Parsing

/-! ### Non-vacuity: concrete instances over `Rat`

The joint table is `P(00) = P(01) = 1/4, P(10) = 1/2` on two binary variables. -/

section Examples

/-- Marginal onto variable 0: the rows `00` and `01` merge. -/
example : pushforward (project [0])
      ([([0, 0], 1 / 4), ([0, 1], 1 / 4), ([1, 0], 1 / 2)] : Tab (List Nat) Rat)
    = [([0], 1 / 2), ([1], 1 / 2)] := by decide +kernel

/-- A repeated variable (`[1, 1]`): rows `00` and `10` merge. -/
example : pushforward (project [1, 1])
      ([([0, 0], 1 / 4), ([0, 1], 1 / 4), ([1, 0], 1 / 2)] : Tab (List Nat) Rat)
    = [([0, 0], 3 / 4), ([1, 1], 1 / 4)] := by decide +kernel

/-- Overlapping groups `[[0], [1, 0]]`: a regrouping without merging. -/
example : pushforward (projectGroups [[0], [1, 0]])
      ([([0, 0], 1 / 4), ([0, 1], 1 / 4), ([1, 0], 1 / 2)] : Tab (List Nat) Rat)
    = [([[0], [0, 0]], 1 / 4), ([[0], [1, 0]], 1 / 4), ([[1], [0, 1]], 1 / 2)] := by
  decide +kernel

/-- The event "first variable is 0" has probability 1/2, and so has its fibre. -/
example : wtBy (fun o => project [0] o = [0])
      ([([0, 0], 1 / 4), ([0, 1], 1 / 4), ([1, 0], 1 / 2)] : Tab (List Nat) Rat) = 1 / 2 := by
  decide +kernel

/-- A table with a repeated key is pushed forward correctly as well. -/
example : pushforward (project [0])
      ([([0, 0], 1 / 4), ([0, 0], 1 / 4), ([1, 0], 1 / 2)] : Tab (List Nat) Rat)
    = [([0], 1 / 2), ([1], 1 / 2)] := by decide +kernel

/-- The theorems apply to the driver's number type: `Rat`'s own `+`/`0` are the ones of its
`AddCommMonoid` structure. -/
example (t : Tab (List Nat) Rat) (k : List Nat) :
    lookupD 0 (pushforward (project [0]) t) k = wtBy (fun o => project [0] o = k) t :=
  pushforward_lookup (project [0]) t k
example (cfg : NumCfg Rat) (d : Dist Nat Rat) (o : List Nat)
    (ho : o ∈ (d.space.extract (fun a b => lexLt a b) [0]).toList) (hd : d.sparse = false) :
    (d.marginal cfg (fun a b => lexLt a b) [0]).get o
      = some (wtBy (fun k => project [0] k = o) d.tab) := by
  rcases marginal_get cfg (fun a b => lexLt a b) d [0] o ho with h | h
  · exact h
  · rw [hd] at h; exact absurd h.1 (by simp)

/-- Hypothesis of `marginal_staged`: the indices `[1, 0]` are valid for all stored outcomes;
the staged marginal `[1, 0]` then `[1]` is the marginal onto variable `0`. -/
example : ∀ k ∈ keys ([([0, 0], 1 / 4), ([0, 1], 1 / 4), ([1, 0], 1 / 2)] : Tab (List Nat) Rat),
    ∀ i ∈ [1, 0], i < k.length := by decide
example : ([1].filterMap (fun j => [1, 0][j]?) : List Nat) = [0] := by decide
example : pushforward (project [1]) (pushforward (project [1, 0])
      ([([0, 0], 1 / 4), ([0, 1], 1 / 4), ([1, 0], 1 / 2)] : Tab (List Nat) Rat))
    = [([0], 1 / 2), ([1], 1 / 2)] := by decide +kernel

/-- Without validity staging fails: the invalid index 5 is dropped and shifts positions. -/
example : project [0] (project [5, 0] [7, 8]) = [7]
    ∧ project ([0].filterMap (fun j => [5, 0][j]?)) [7, 8] = ([] : List Nat) := by decide

/-- Dense distribution: marginal onto variable 0 (model of `d.marginal([0])`). -/
example :
    ((⟨.cart [[0, 1], [0, 1]],
       [([0, 0], 1 / 4), ([0, 1], 1 / 4), ([1, 0], 1 / 2), ([1, 1], 0)], false, .linear⟩ :
        Dist Nat Rat).marginal ⟨fun _ v => v == 0, fun _ v => v == 1, fun _ _ => true⟩
        (fun a b => lexLt a b) [0]).tab
      = [([0], 1 / 2), ([1], 1 / 2)] := by decide +kernel

/-- Sparse distribution storing an explicit zero: the null fibre sum of `[1]` is trimmed,
`get [1]` still answers zero (the second alternative of `coalesce1_get`). -/
example :
    ((⟨.cart [[0, 1], [0, 1]],
       [([0, 0], 1 / 2), ([0, 1], 1 / 2), ([1, 0], 0)], true, .linear⟩ :
        Dist Nat Rat).marginal ⟨fun _ v => v == 0, fun _ v => v == 1, fun _ _ => true⟩
        (fun a b => lexLt a b) [0]).tab
      = [([0], 1)] := by decide +kernel
example :
    ((⟨.cart [[0, 1], [0, 1]],
       [([0, 0], 1 / 2), ([0, 1], 1 / 2), ([1, 0], 0)], true, .linear⟩ :
        Dist Nat Rat).marginal ⟨fun _ v => v == 0, fun _ v => v == 1, fun _ _ => true⟩
        (fun a b => lexLt a b) [0]).get [1]
      = some 0 := by decide +kernel

/-- Hypotheses of `marginal_staged_dense`, `coalesce1_mass` (dense clause) and of
`coalesce1_meta` hold for the dense example: keys in the space, valid indices, the
intermediate space `{0,1} × {0,1}` (variables `[1, 0]`) listed once, `[0]` a member of the
final space. -/
example :
    let d : Dist Nat Rat := ⟨.cart [[0, 1], [0, 1]],
       [([0, 0], 1 / 4), ([0, 1], 1 / 4), ([1, 0], 1 / 2), ([1, 1], 0)], false, .linear⟩
    d.sparse = false
      ∧ (∀ k ∈ keys d.tab, k ∈ d.space.toList)
      ∧ (∀ k ∈ keys d.tab, ∀ i ∈ [1, 0], i < k.length)
      ∧ (d.space.extract (fun a b => lexLt a b) [1, 0]).toList.Nodup
      ∧ (∀ k ∈ keys d.tab,
            project [1, 0] k ∈ (d.space.extract (fun a b => lexLt a b) [1, 0]).toList)
      ∧ [0] ∈ ((d.space.extract (fun a b => lexLt a b) [1, 0]).extract
                  (fun a b => lexLt a b) [1]).toList := by
  decide

/-- Explicit sample space: the new space is the sorted duplicate-free image. -/
example : ((Space.expl [[1, 0], [0, 1], [0, 0]]).extract (fun a b => lexLt a b) [0]).toList
    = [[0], [1]] := by decide
example : ((Space.expl [[1, 0], [0, 1], [0, 0]]).coalesce
      (fun a b => lexLt (a.flatten) (b.flatten)) [[0], [1, 0]]).toList
    = [[[0], [0, 0]], [[0], [1, 0]], [[1], [0, 1]]] := by decide

/-- `parse_rvs`: a valid request is sorted; repeated or out-of-range indices are rejected. -/
example : parseIdx 3 [2, 0] true true = .ok [0, 2] := by decide
example : parseIdx 3 [2, 0, 2] true true = .error .ditException := by decide
example : parseIdx 3 [2, 0, 2] false false = .ok [2, 0, 2] := by decide
example : parseIdx 3 [3] false true = .error .ditException := by decide
example : resolveNames ["X", "Y", "Z"] ["Z", "X"] = .ok [2, 0] := by decide
example : marginalNames ["X", "Y", "Z"] [0, 2] = ["X", "Z"] := by decide
example : marginalMask 3 [0, 2] = [false, true, false] := by decide
example : complIdx 3 [1] = [0, 2] := by decide

end Examples

end Dit.Props.C02
