/-
C05 — Co-information, interaction information, total correlation, dual total correlation,
residual entropy, CAEKL mutual information, O-information, TSE complexity and cohesion, for any
grouping of variables and any conditioning set, equal their defining combinations of conditional
joint entropies. Consequently conditional mutual information, total correlation, dual total
correlation and CAEKL mutual information are never negative, and for two groups co-information,
total correlation, dual total correlation and CAEKL mutual information all coincide with
I(X:Y|Z).

Part (a) is pure algebra about `Comb.eval cast H` for an arbitrary set function `H : VSet → R`
into a commutative ring (`cast : ℚ →+* R`; at `ℝ` this is `Rat.castHom ℝ`, i.e. `fun q => (q:ℝ)`).
`Hc H X Z` abbreviates the conditional entropy `H (vunion X Z) − H (vnorm Z)` (C04
`cond_entropy_def`). Part (b) is about `H := entropyOf (Real.logb 2) t` for a table `t` with
non-negative values (neither distinct keys nor total mass 1 is needed).
Helper lemmas: Lemmas/InfoAlg.lean, Lemmas/InfoReal.lean.
-/
import DitModel.Lemmas.InfoReal

set_option linter.unusedSectionVars false

namespace Dit.Props.C05
open Dit Dit.Lemmas.InfoAlg Dit.Lemmas.InfoReal

/-! ## (a) Algebra of entropy combinations -/

section Algebra
variable {R : Type} [CommRing R] (cast : ℚ →+* R) (H : VSet → R)

/-- `Comb.eval` is additive. -/
theorem eval_add (a b : Comb) :
    Comb.eval cast H (a ++ b) = Comb.eval cast H a + Comb.eval cast H b :=
  eval_append cast H a b

/-- `Comb.eval` is homogeneous. -/
theorem eval_smul (q : Rat) (c : Comb) :
    Comb.eval cast H (Comb.scale q c) = cast q * Comb.eval cast H c :=
  eval_scale cast H q c

/-- `Comb.eval` of a formal sum is the sum of the values. -/
theorem eval_sum_list (l : List Comb) :
    Comb.eval cast H (Comb.sum l) = (l.map (Comb.eval cast H)).sum :=
  eval_sum cast H l

/-- **Canonical forms are faithful**: `Comb.canon` (what the driver compares) preserves the
value, for every `H` with `H ∅ = 0` that depends only on the normalised set. Both hypotheses are
needed: `canon` drops the empty set and merges sets with equal normal forms. -/
theorem canon_eval (h0 : H [] = 0) (hn : ∀ s, H s = H (vnorm s)) (c : Comb) :
    Comb.eval cast H (Comb.canon c) = Comb.eval cast H c :=
  Lemmas.InfoAlg.canon_eval cast H h0 hn c

/-- **Co-information** is `Σ_{Xs ⊆ groups} (−1)^{|Xs|+1} H(⋃Xs | Z)`. -/
theorem coinfo_def (groups : List VSet) (Z : VSet) :
    Comb.eval cast H (coinfoC groups Z)
      = ((sublists groups).map (fun Xs =>
          (if Xs.length % 2 = 1 then (1 : R) else -1) * Hc H (vunions Xs) Z)).sum :=
  eval_coinfoC cast H groups Z

/-- **Interaction information** is `(−1)ⁿ ·` co-information (`n` groups). -/
theorem interaction_eq (groups : List VSet) (Z : VSet) :
    Comb.eval cast H (interactionC groups Z)
      = (-1) ^ groups.length * Comb.eval cast H (coinfoC groups Z) :=
  eval_interactionC cast H groups Z

/-- **Total correlation** is `Σᵢ H(Xᵢ|Z) − H(⋃X|Z)`. -/
theorem tc_def (groups : List VSet) (Z : VSet) :
    Comb.eval cast H (tcC groups Z)
      = (groups.map (fun g => Hc H g Z)).sum - Hc H (vunions groups) Z :=
  eval_tcC cast H groups Z

/-- **Residual entropy** is `Σᵢ H(Xᵢ | (⋃X ∖ Xᵢ) ∪ Z)`. -/
theorem residual_def (groups : List VSet) (Z : VSet) :
    Comb.eval cast H (residualC groups Z)
      = (groups.map (fun g =>
          Hc H g (vunion (vdiff (vunions groups) (vnorm g)) Z))).sum :=
  eval_residualC cast H groups Z

/-- **Dual total correlation** is `H(⋃X|Z) −` residual entropy. -/
theorem dtc_eq (groups : List VSet) (Z : VSet) :
    Comb.eval cast H (dtcC groups Z)
      = Hc H (vunions groups) Z - Comb.eval cast H (residualC groups Z) :=
  eval_dtcC cast H groups Z

/-- **O-information** is total correlation minus dual total correlation. -/
theorem oinfo_eq (groups : List VSet) (Z : VSet) :
    Comb.eval cast H (oinfoC groups Z)
      = Comb.eval cast H (tcC groups Z) - Comb.eval cast H (dtcC groups Z) :=
  eval_oinfoC cast H groups Z

/-- **CAEKL candidate** for a partition `P`: `(Σ_{B∈P} H(⋃B|Z) − H(⋃X|Z)) / (|P|−1)`. -/
theorem caekl_def (groups : List VSet) (Z : VSet) (P : List (List VSet)) :
    Comb.eval cast H (caeklCand groups Z P)
      = cast (1 / ((P.length : Rat) - 1))
        * ((P.map (fun B => Hc H (vunions B) Z)).sum - Hc H (vunions groups) Z) :=
  eval_caeklCand cast H groups Z P

/-- Every CAEKL candidate of a genuine set partition of the groups is `1/(|P|−1)` times the
total correlation of the merged blocks (the partition hypothesis gives `⋃⋃P = ⋃X`). -/
theorem caekl_eq_tc (groups : List VSet) (Z : VSet) (P : List (List VSet))
    (hP : P ∈ setPartitions groups) :
    Comb.eval cast H (caeklCand groups Z P)
      = cast (1 / ((P.length : Rat) - 1)) * Comb.eval cast H (tcC (P.map vunions) Z) :=
  caeklCand_eq_tc cast H groups Z P hP

example : [[[0], [1]], [[2]]] ∈ setPartitions [[0], [1], [2]] := by decide +kernel

/-- **TSE complexity** is `Σ_{k=1}^{N−1} ( C(N,k)⁻¹ Σ_{|S|=k} H(X_S|Z) − (k/N) H(X|Z) )`. -/
theorem tse_def (groups : List VSet) (Z : VSet) :
    Comb.eval cast H (tseC groups Z)
      = ((List.range groups.length).tail.map (fun k =>
          cast (1 / (choose groups.length k : Rat))
            * ((combos k groups).map (fun S => Hc H (vunions S) Z)).sum
          + cast (-(k : Rat) / (groups.length : Rat)) * Hc H (vunions groups) Z)).sum :=
  eval_tseC cast H groups Z

/-- **Cohesion** of order `k` is `Σ_{|S|=k} H(X_S|Z) − C(N−1,k−1) · H(X|Z)`. -/
theorem cohesion_def (k : Nat) (groups : List VSet) (Z : VSet) :
    Comb.eval cast H (cohesionC k groups Z)
      = ((combos k groups).map (fun S => Hc H (vunions S) Z)).sum
        - (choose (groups.length - 1) (k - 1) : R) * Hc H (vunions groups) Z :=
  eval_cohesionC cast H k groups Z

/-- Cohesion of order 1 is the total correlation. -/
theorem cohesion_one (groups : List VSet) (Z : VSet) :
    Comb.eval cast H (cohesionC 1 groups Z) = Comb.eval cast H (tcC groups Z) := by
  rw [eval_cohesionC, eval_tcC, combos_one, List.map_map]
  have h1 : ((fun S => Hc H (vunions S) Z) ∘ fun x : VSet => [x]) = fun g => Hc H g Z := by
    funext g
    simp only [Function.comp_apply, vunions_singleton, Hc_vnorm_left]
  have h2 : choose (groups.length - 1) (1 - 1) = 1 := by
    cases (groups.length - 1) <;> rfl
  rw [h1, h2]; simp

/-! ### Two groups: everything is `I(X:Y|Z)` -/

/-- Co-information of two groups is the conditional mutual information. -/
theorem coinfo_two (X Y Z : VSet) :
    Comb.eval cast H (coinfoC [X, Y] Z) = Comb.eval cast H (cmiC X Y Z) := by
  rw [eval_coinfoC, eval_cmiC]
  simp [sublists, vunions_nil, Hc_nil, vunions_singleton, Hc_vnorm_left, vunions_pair]
  ring

/-- Total correlation of two groups is the conditional mutual information. -/
theorem tc_two (X Y Z : VSet) :
    Comb.eval cast H (tcC [X, Y] Z) = Comb.eval cast H (cmiC X Y Z) := by
  rw [eval_tcC, eval_cmiC]
  simp [vunions_pair]

/-- CAEKL mutual information of two groups: the only candidate (the partition `{X},{Y}`) is
the conditional mutual information. -/
theorem caekl_two (X Y Z : VSet) :
    (caeklCands [X, Y] Z).map (Comb.eval cast H) = [Comb.eval cast H (cmiC X Y Z)] := by
  have : caeklCands [X, Y] Z = [caeklCand [X, Y] Z [[X], [Y]]] := by
    simp [caeklCands, setPartitions]
  rw [this, List.map_cons, List.map_nil, eval_caeklCand, eval_cmiC]
  have h1 : (1 / ((([[X], [Y]] : List (List VSet)).length : ℚ) - 1)) = 1 := by norm_num
  rw [h1, map_one, one_mul]
  simp only [List.map_cons, List.map_nil, List.sum_cons, List.sum_nil, vunions_singleton,
    Hc_vnorm_left, vunions_pair, add_zero]

/-- Dual total correlation of two arbitrary groups:
`B = H((X∖Y)∪Z) + H((Y∖X)∪Z) − H(X∪Y∪Z) − H(Z)` (dit removes the *other* variables, so shared
variables outside `Z` are not conditioned on). -/
theorem dtc_two_general (X Y Z : VSet) :
    Comb.eval cast H (dtcC [X, Y] Z)
      = H (vunion (vdiff X Y) Z) + H (vunion (vdiff Y X) Z)
        - H (vunion (vunion X Y) Z) - H (vnorm Z) := by
  rw [eval_dtcC, eval_residualC]
  simp only [vunions_pair, List.map_cons, List.map_nil, List.sum_cons, List.sum_nil, add_zero]
  unfold Hc
  have e1 : vunion X (vunion (vdiff (vunion X Y) (vnorm X)) Z) = vunion (vunion X Y) Z :=
    vunion_congr (by intro x; simp only [mem_vunion, mem_vdiff, mem_vnorm]; tauto)
  have e2 : vunion Y (vunion (vdiff (vunion X Y) (vnorm Y)) Z) = vunion (vunion X Y) Z :=
    vunion_congr (by intro x; simp only [mem_vunion, mem_vdiff, mem_vnorm]; tauto)
  have e3 : vnorm (vunion (vdiff (vunion X Y) (vnorm X)) Z) = vunion (vdiff Y X) Z := by
    refine (vnorm_idem _).trans ?_
    exact vunion_congr (by intro x; simp only [mem_vunion, mem_vdiff, mem_vnorm]; tauto)
  have e4 : vnorm (vunion (vdiff (vunion X Y) (vnorm Y)) Z) = vunion (vdiff X Y) Z := by
    refine (vnorm_idem _).trans ?_
    exact vunion_congr (by intro x; simp only [mem_vunion, mem_vdiff, mem_vnorm]; tauto)
  rw [e1, e2, e3, e4]; ring

/-- Dual total correlation of two groups is the conditional mutual information, provided the
groups share no variable outside `Z` (in particular for disjoint groups, which dit requires).
Without the hypothesis the identity fails: see the example below. -/
theorem dtc_two (X Y Z : VSet) (hXY : ∀ v, v ∈ X → v ∈ Y → v ∈ Z) :
    Comb.eval cast H (dtcC [X, Y] Z) = Comb.eval cast H (cmiC X Y Z) := by
  rw [dtc_two_general, eval_cmiC]
  unfold Hc
  have e1 : vunion (vdiff X Y) Z = vunion X Z :=
    vunion_congr (by intro x; have := hXY x; simp only [mem_vdiff]; tauto)
  have e2 : vunion (vdiff Y X) Z = vunion Y Z :=
    vunion_congr (by intro x; have := hXY x; simp only [mem_vdiff]; tauto)
  rw [e1, e2]; ring

example : ∀ v, v ∈ [0] → v ∈ [1] → v ∈ [2] := by decide
example : Comb.canon (coinfoC [[0], [1]] [2])
    = [(-1, [0, 1, 2]), (1, [0, 2]), (1, [1, 2]), (-1, [2])] := by decide +kernel
example : Comb.canon (dtcC [[0], [1]] [2]) = Comb.canon (cmiC [0] [1] [2]) := by decide +kernel
example : Comb.canon (tcC [[0], [1]] [2]) = Comb.canon (cmiC [0] [1] [2]) := by decide +kernel
/-- Overlapping groups: `B` is `H(0) + H(2) − H(012)`, not `I(01:12) = H(01) + H(12) − H(012)`. -/
example : Comb.canon (dtcC [[0, 1], [1, 2]] []) = [(1, [0]), (-1, [0, 1, 2]), (1, [2])]
    ∧ Comb.canon (cmiC [0, 1] [1, 2] []) = [(1, [0, 1]), (-1, [0, 1, 2]), (1, [1, 2])] := by
  decide +kernel
example : Comb.canon (coinfoC [[0], [1]] []) = [(1, [0]), (-1, [0, 1]), (1, [1])] := by
  decide +kernel
example : Comb.canon (oinfoC [[0], [1], [2]] [])
    = [(1, [0]), (-1, [0, 1]), (1, [0, 1, 2]), (-1, [0, 2]), (1, [1]), (-1, [1, 2]), (1, [2])] := by
  decide +kernel

end Algebra

/-! ## (b) Shannon inequalities -/

/-- **Gibbs' inequality** (bits): for non-negative `p, q` on a finite set with `Σq ≤ Σp`
(in particular `Σp = Σq`) and `q i = 0 → p i = 0`, `Σ pᵢ log₂ (pᵢ/qᵢ) ≥ 0`. -/
theorem gibbs {ι : Type} (s : Finset ι) (p q : ι → ℝ) (hp : ∀ i ∈ s, 0 ≤ p i)
    (hq : ∀ i ∈ s, 0 ≤ q i) (hsum : ∑ i ∈ s, q i ≤ ∑ i ∈ s, p i)
    (hac : ∀ i ∈ s, q i = 0 → p i = 0) :
    0 ≤ ∑ i ∈ s, p i * Real.logb 2 (p i / q i) :=
  Lemmas.InfoReal.gibbs s p q hp hq hsum hac

example : (∀ i ∈ (Finset.univ : Finset (Fin 2)), (0 : ℝ) ≤ ![1 / 4, 3 / 4] i)
    ∧ (∀ i ∈ (Finset.univ : Finset (Fin 2)), (0 : ℝ) ≤ ![1 / 2, 1 / 2] i)
    ∧ ∑ i, (![1 / 2, 1 / 2] i : ℝ) ≤ ∑ i, (![1 / 4, 3 / 4] i : ℝ)
    ∧ (∀ i ∈ (Finset.univ : Finset (Fin 2)),
        (![1 / 2, 1 / 2] i : ℝ) = 0 → (![1 / 4, 3 / 4] i : ℝ) = 0) := by
  refine ⟨?_, ?_, ?_, ?_⟩
  · intro i _; fin_cases i <;> norm_num
  · intro i _; fin_cases i <;> norm_num
  · norm_num [Fin.sum_univ_two]
  · intro i _; fin_cases i <;> norm_num

section Table
variable {σ : Type} [DecidableEq σ] (t : Tab (List σ) ℝ) (hnn : ∀ r ∈ t, 0 ≤ r.2)
include hnn

/-- **Conditional mutual information is non-negative**: for the marginals of any table with
non-negative values (no normalisation, keys may repeat, outcomes may be ragged),
`0 ≤ I(X:Y|Z) = H(X∪Z) + H(Y∪Z) − H(X∪Y∪Z) − H(Z)`. Non-negativity of the values is needed
(with a negative weight `−Σ p log p` is not concave). -/
theorem cmi_nonneg (X Y Z : VSet) :
    0 ≤ Comb.eval (Rat.castHom ℝ) (entropyOf (Real.logb 2) t) (cmiC X Y Z) := by
  rw [eval_cmiC]
  exact entropy_Submod t hnn X Y Z

/-- The same inequality spelled out on the entropies of the marginals. -/
theorem cmi_nonneg_explicit (X Y Z : List Nat) :
    0 ≤ entropyOf (Real.logb 2) t (vunion X Z) + entropyOf (Real.logb 2) t (vunion Y Z)
        - entropyOf (Real.logb 2) t (vunion (vunion X Y) Z)
        - entropyOf (Real.logb 2) t (vnorm Z) :=
  entropy_submod t hnn X Y Z

/-- **Mutual information is non-negative** (`Z = ∅`). -/
theorem mi_nonneg (X Y : VSet) :
    0 ≤ Comb.eval (Rat.castHom ℝ) (entropyOf (Real.logb 2) t) (cmiC X Y []) :=
  cmi_nonneg t hnn X Y []

/-- **Conditional entropy is non-negative** (`I(X:X|Z) = H(X|Z)`). -/
theorem cond_entropy_nonneg (X Z : VSet) :
    0 ≤ Comb.eval (Rat.castHom ℝ) (entropyOf (Real.logb 2) t) (condH X Z) := by
  rw [eval_condH]
  exact Hc_nonneg (entropy_Submod t hnn) X Z

/-- **Total correlation is non-negative**, for any list of groups (overlapping or not) and any
conditioning set: it is a sum of conditional mutual informations `I(Xᵢ : X_{>i} | Z)`. -/
theorem tc_nonneg (groups : List VSet) (Z : VSet) :
    0 ≤ Comb.eval (Rat.castHom ℝ) (entropyOf (Real.logb 2) t) (tcC groups Z) := by
  rw [eval_tcC]
  exact tc_sum_nonneg (entropy_Submod t hnn) groups Z

/-- **Dual total correlation is non-negative** for pairwise disjoint groups (any number of
them). Disjointness is needed: for `X₁ = X₂ = {0}`, `B = −H(0|Z)`. -/
theorem dtc_nonneg (groups : List VSet) (Z : VSet) (hdis : groups.Pairwise VDisj) :
    0 ≤ Comb.eval (Rat.castHom ℝ) (entropyOf (Real.logb 2) t) (dtcC groups Z) := by
  rw [eval_dtcC, eval_residualC]
  exact dtc_sum_nonneg (entropy_Submod t hnn) groups Z hdis

/-- **CAEKL mutual information is non-negative**: every candidate (one per partition of the
groups into at least two blocks) is a non-negative multiple of the total correlation of the
blocks, so their minimum is non-negative. -/
theorem caekl_nonneg (groups : List VSet) (Z : VSet) :
    ∀ c ∈ caeklCands groups Z,
      0 ≤ Comb.eval (Rat.castHom ℝ) (entropyOf (Real.logb 2) t) c := by
  intro c hc
  simp only [caeklCands, List.mem_map, List.mem_filter, decide_eq_true_eq] at hc
  obtain ⟨P, ⟨hP, hlen⟩, rfl⟩ := hc
  rw [caeklCand_eq_tc _ _ groups Z P hP]
  apply mul_nonneg
  · have : (0 : ℚ) ≤ 1 / ((P.length : ℚ) - 1) := by
      apply div_nonneg zero_le_one
      have : (1 : ℚ) < P.length := by exact_mod_cast hlen
      linarith
    exact (Rat.cast_nonneg (K := ℝ)).mpr this
  · exact tc_nonneg t hnn _ Z

end Table

/-- For a table of total mass 1, `H := entropyOf t` satisfies the hypotheses of `canon_eval`:
the canonical form of any combination has the same value on `t`. -/
theorem canon_eval_table {σ : Type} [DecidableEq σ] (t : Tab (List σ) ℝ)
    (hmass : (t.map (·.2)).sum = 1) (c : Comb) :
    Comb.eval (Rat.castHom ℝ) (entropyOf (Real.logb 2) t) (Comb.canon c)
      = Comb.eval (Rat.castHom ℝ) (entropyOf (Real.logb 2) t) c :=
  Lemmas.InfoAlg.canon_eval _ _ (entropyOf_nil t hmass) (entropyOf_vnorm t) c

/-- Non-vacuity: a concrete table (with a stored zero) satisfying the hypotheses. -/
example : ∀ r ∈ ([(["0", "0"], 1 / 2), (["0", "1"], 0), (["1", "1"], 1 / 2)] :
    Tab (List String) ℝ), 0 ≤ r.2 := by
  intro r hr; simp at hr; rcases hr with rfl | rfl | rfl <;> norm_num
example : (([(["0", "0"], 1 / 2), (["0", "1"], 0), (["1", "1"], 1 / 2)] :
    Tab (List String) ℝ).map (·.2)).sum = 1 := by norm_num
example : [[0], [1], [2]].Pairwise VDisj := by
  simp [VDisj]

end Dit.Props.C05
