/-
C17 (companion) — the closed form of `I_∧` (`dit.pid.PID_GK`): the mutual information of the target with the
Gács–Körner meet of the sources of a node, taken on the support (`Core/Wedge.lean`).

Proved here for every table with non-negative values and total mass one, outcomes of length `n`, a node whose
source sets are sets of variables `< n` and an injective coding of class indices as symbols:
* appending the meet label changes no entropy of the original variables;
* `I_∧(node) ≥ 0`, and `I_∧(node) ≤ I(s : T)` for every source set `s` of the node, hence `I_∧ ≤ I_mmi`
  (the meet is a function of each source: data processing);
* for a single source set the meet is the source itself: `I_∧({s}) = I(s : T)` — the self-redundancy axiom,
  which makes the decomposition consistent on single-source nodes;
* `I_∧` is monotone on the redundancy lattice.
-/
import DitModel.Core.Wedge
import DitModel.Props.C16
import DitModel.Props.C17
import DitModel.Lemmas.Wedge

set_option linter.unusedSectionVars false
-- the statements keep the common hypotheses of the family even where a proof does not use them
set_option linter.unusedVariables false

namespace Dit.Props.C17Wedge
open Dit Dit.Lemmas.Table Dit.Lemmas.Meet Dit.Lemmas.InfoAlg Dit.Lemmas.InfoReal Dit.Lemmas.Lattice
open Dit.Lemmas.Wedge

variable {σ : Type} [DecidableEq σ]

/-- **Appending the meet label changes no entropy of the original variables** (and dropping stored zeros does
not either): for every set `S` of variables `< n`, `H_S` on `withMeet code t node` is `H_S` on `t`. -/
theorem withMeet_entropy_old (code : Nat → σ) (t : Tab (List σ) ℝ) (node : RNode) (n : Nat)
    (hlen : ∀ k ∈ keys t, k.length = n) (S : VSet) (hS : ∀ v ∈ S, v < n) :
    entropyOf (Real.logb 2) (withMeet code t node) S = entropyOf (Real.logb 2) t S := by
  exact withMeet_old code t n hlen node S hS

/-- Non-vacuity: xor with a stored zero, outcomes of length 3, `S = {0, 1}`. -/
example : (∀ k ∈ keys ([([0, 0, 0], 1 / 4), ([0, 1, 1], 1 / 4), ([1, 0, 1], 1 / 4), ([1, 1, 0], 1 / 4), ([1, 1, 1], 0)] : Tab (List Nat) ℝ), k.length = 3) ∧ ∀ v ∈ [0, 1], v < 3 := by
  refine ⟨by decide, by decide⟩

/-- The table built on xor with a stored zero: the zero row is dropped; all four outcomes of the support are
connected through `{0}` or `{1}`, so the meet label is constant. -/
example : withMeet (id : Nat → Nat)
      ([([0, 0, 0], 1 / 4), ([0, 1, 1], 1 / 4), ([1, 0, 1], 1 / 4), ([1, 1, 0], 1 / 4), ([1, 1, 1], 0)] : Tab (List Nat) ℝ)
      [[0], [1]]
    = [([0, 0, 0, 0], 1 / 4), ([0, 1, 1, 0], 1 / 4), ([1, 0, 1, 0], 1 / 4), ([1, 1, 0, 0], 1 / 4)] := by
  have hs : supportTab ([([0, 0, 0], 1 / 4), ([0, 1, 1], 1 / 4), ([1, 0, 1], 1 / 4), ([1, 1, 0], 1 / 4),
      ([1, 1, 1], 0)] : Tab (List Nat) ℝ)
      = [([0, 0, 0], 1 / 4), ([0, 1, 1], 1 / 4), ([1, 0, 1], 1 / 4), ([1, 1, 0], 1 / 4)] := by
    simp [supportTab]
  have hl : ([[0, 0, 0], [0, 1, 1], [1, 0, 1], [1, 1, 0]] : List (List Nat)).map
      (labelOf (meetClasses [[0], [1]] [[0, 0, 0], [0, 1, 1], [1, 0, 1], [1, 1, 0]])) = [0, 0, 0, 0] := by
    decide +kernel
  unfold withMeet
  simp only [hs]
  simp only [keys, List.map_cons, List.map_nil] at hl ⊢
  simp only [List.cons.injEq, and_true] at hl
  obtain ⟨h1, h2, h3, h4⟩ := hl
  simp [insertRvf, h1, h2, h3, h4]

/-- **`I_∧ ≥ 0`.** -/
theorem iwedge_nonneg (code : Nat → σ) (t : Tab (List σ) ℝ) (node : RNode) (n : Nat) (T : VSet)
    (hnn : ∀ r ∈ t, 0 ≤ r.2) (hmass : (t.map (·.2)).sum = 1) :
    0 ≤ iwedge (Real.logb 2) code t n T node := by
  unfold iwedge
  exact miOf_nonneg (withMeet code t node) (withMeet_nonneg code node hnn)
    (by rw [withMeet_mass]; exact hmass) [n] T

/-- Non-vacuity: xor with a stored zero has non-negative values and total mass one. -/
example : (∀ r ∈ ([([0, 0, 0], 1 / 4), ([0, 1, 1], 1 / 4), ([1, 0, 1], 1 / 4), ([1, 1, 0], 1 / 4), ([1, 1, 1], 0)] : Tab (List Nat) ℝ), 0 ≤ r.2)
    ∧ (([([0, 0, 0], 1 / 4), ([0, 1, 1], 1 / 4), ([1, 0, 1], 1 / 4), ([1, 1, 0], 1 / 4), ([1, 1, 1], 0)] : Tab (List Nat) ℝ).map (·.2)).sum = 1 := by
  refine ⟨?_, by norm_num⟩
  intro r hr; simp at hr; rcases hr with rfl | rfl | rfl | rfl | rfl <;> norm_num

/-- **`I_∧(node) ≤ I(s : T)` for every source set of the node** (data processing: the meet label is a function
of the projection on `s`). -/
theorem iwedge_le_source (code : Nat → σ) (hcode : Function.Injective code) (t : Tab (List σ) ℝ) (node : RNode)
    (n : Nat) (T : VSet) (hnn : ∀ r ∈ t, 0 ≤ r.2) (hmass : (t.map (·.2)).sum = 1)
    (hlen : ∀ k ∈ keys t, k.length = n) (hT : ∀ v ∈ T, v < n)
    (s : VSet) (hs : s ∈ node) (hsn : ∀ v ∈ s, v < n) :
    iwedge (Real.logb 2) code t n T node ≤ miOf (Real.logb 2) t s T := by
  rw [iwedge_eq_Imap code t n hlen node T hT, miOf_eq_Imap_support t s T]
  exact Imap_le_of_function _ _ _ _ (supportTab_nonneg hnn)
    (wlabel_function_of_source code t node hs)

/-- Non-vacuity: three copies of a fair bit, sources `{0}{1}`, target `{2}`, `code := id`. -/
example : Function.Injective (id : Nat → Nat)
    ∧ (∀ r ∈ ([([0, 0, 0], 1 / 2), ([1, 1, 1], 1 / 2)] : Tab (List Nat) ℝ), 0 ≤ r.2)
    ∧ (([([0, 0, 0], 1 / 2), ([1, 1, 1], 1 / 2)] : Tab (List Nat) ℝ).map (·.2)).sum = 1
    ∧ (∀ k ∈ keys ([([0, 0, 0], 1 / 2), ([1, 1, 1], 1 / 2)] : Tab (List Nat) ℝ), k.length = 3)
    ∧ (∀ v ∈ [2], v < 3) ∧ [0] ∈ ([[0], [1]] : RNode) ∧ ∀ v ∈ [0], v < 3 := by
  refine ⟨fun _ _ h => h, ?_, by norm_num, by decide, by decide, by decide, by decide⟩
  intro r hr; simp at hr; rcases hr with rfl | rfl <;> norm_num

/-- **`I_∧ ≤ I_mmi`** on every node. -/
theorem iwedge_le_immi (code : Nat → σ) (hcode : Function.Injective code) (t : Tab (List σ) ℝ) (node : RNode)
    (hne : node ≠ []) (n : Nat) (T : VSet) (hnn : ∀ r ∈ t, 0 ≤ r.2) (hmass : (t.map (·.2)).sum = 1)
    (hlen : ∀ k ∈ keys t, k.length = n) (hT : ∀ v ∈ T, v < n) (hnode : ∀ s ∈ node, ∀ v ∈ s, v < n) :
    iwedge (Real.logb 2) code t n T node ≤ immi (Real.logb 2) t T node := by
  obtain ⟨_, ⟨s, hs, e⟩, _⟩ := Props.C17.immi_def t T node hne
  rw [e]
  exact iwedge_le_source code hcode t node n T hnn hmass hlen hT s hs (hnode s hs)

/-- Non-vacuity: xor (with a stored zero), sources `{0}{1}`, target `{2}`, `code := id`. -/
example : Function.Injective (id : Nat → Nat) ∧ ([[0], [1]] : RNode) ≠ []
    ∧ (∀ r ∈ ([([0, 0, 0], 1 / 4), ([0, 1, 1], 1 / 4), ([1, 0, 1], 1 / 4), ([1, 1, 0], 1 / 4), ([1, 1, 1], 0)] : Tab (List Nat) ℝ), 0 ≤ r.2)
    ∧ (([([0, 0, 0], 1 / 4), ([0, 1, 1], 1 / 4), ([1, 0, 1], 1 / 4), ([1, 1, 0], 1 / 4), ([1, 1, 1], 0)] : Tab (List Nat) ℝ).map (·.2)).sum = 1
    ∧ (∀ k ∈ keys ([([0, 0, 0], 1 / 4), ([0, 1, 1], 1 / 4), ([1, 0, 1], 1 / 4), ([1, 1, 0], 1 / 4), ([1, 1, 1], 0)] : Tab (List Nat) ℝ), k.length = 3)
    ∧ (∀ v ∈ [2], v < 3) ∧ ∀ s ∈ ([[0], [1]] : RNode), ∀ v ∈ s, v < 3 := by
  refine ⟨fun _ _ h => h, by decide, ?_, by norm_num, by decide, by decide, by decide⟩
  intro r hr; simp at hr; rcases hr with rfl | rfl | rfl | rfl | rfl <;> norm_num

/-- **Self-redundancy**: for a single source set the meet is (equivalent to) the source itself, so
`I_∧({s}) = I(s : T)`. -/
theorem iwedge_self (code : Nat → σ) (hcode : Function.Injective code) (t : Tab (List σ) ℝ) (n : Nat) (T : VSet)
    (hnn : ∀ r ∈ t, 0 ≤ r.2) (hmass : (t.map (·.2)).sum = 1)
    (hlen : ∀ k ∈ keys t, k.length = n) (hT : ∀ v ∈ T, v < n) (s : VSet) (hsn : ∀ v ∈ s, v < n) :
    iwedge (Real.logb 2) code t n T [s] = miOf (Real.logb 2) t s T := by
  rw [iwedge_eq_Imap code t n hlen [s] T hT, miOf_eq_Imap_support t s T]
  exact Imap_equiv _ _ _ _ (wlabel_single code t hcode s)

/-- Non-vacuity: xor (with a stored zero), the single source set `{0, 1}`, target `{2}`. -/
example : Function.Injective (id : Nat → Nat)
    ∧ (∀ r ∈ ([([0, 0, 0], 1 / 4), ([0, 1, 1], 1 / 4), ([1, 0, 1], 1 / 4), ([1, 1, 0], 1 / 4), ([1, 1, 1], 0)] : Tab (List Nat) ℝ), 0 ≤ r.2)
    ∧ (([([0, 0, 0], 1 / 4), ([0, 1, 1], 1 / 4), ([1, 0, 1], 1 / 4), ([1, 1, 0], 1 / 4), ([1, 1, 1], 0)] : Tab (List Nat) ℝ).map (·.2)).sum = 1
    ∧ (∀ k ∈ keys ([([0, 0, 0], 1 / 4), ([0, 1, 1], 1 / 4), ([1, 0, 1], 1 / 4), ([1, 1, 0], 1 / 4), ([1, 1, 1], 0)] : Tab (List Nat) ℝ), k.length = 3)
    ∧ (∀ v ∈ [2], v < 3) ∧ ∀ v ∈ [0, 1], v < 3 := by
  refine ⟨fun _ _ h => h, ?_, by norm_num, by decide, by decide, by decide⟩
  intro r hr; simp at hr; rcases hr with rfl | rfl | rfl | rfl | rfl <;> norm_num

/-- **`I_∧` is monotone on the lattice**: if every source set of `b` contains a source set of `a`
(`rle a b`), the meet of `a` is a common function of the sources of `b`, hence a function of their meet, and
`I_∧(a) ≤ I_∧(b)`. -/
theorem iwedge_monotone (code : Nat → σ) (hcode : Function.Injective code) (t : Tab (List σ) ℝ) (a b : RNode)
    (n : Nat) (T : VSet) (hnn : ∀ r ∈ t, 0 ≤ r.2) (hmass : (t.map (·.2)).sum = 1)
    (hlen : ∀ k ∈ keys t, k.length = n) (hT : ∀ v ∈ T, v < n)
    (ha : ∀ s ∈ a, ∀ v ∈ s, v < n) (hb : ∀ s ∈ b, ∀ v ∈ s, v < n) (h : rle a b = true) :
    iwedge (Real.logb 2) code t n T a ≤ iwedge (Real.logb 2) code t n T b := by
  rw [iwedge_eq_Imap code t n hlen a T hT, iwedge_eq_Imap code t n hlen b T hT]
  exact Imap_le_of_function _ _ _ _ (supportTab_nonneg hnn)
    (wlabel_function_of_upper code t hcode a b h)

/-- Non-vacuity: three copies of a fair bit, `{0}{1} ≤ {0}` on the lattice, target `{2}`. -/
example : Function.Injective (id : Nat → Nat)
    ∧ (∀ r ∈ ([([0, 0, 0], 1 / 2), ([1, 1, 1], 1 / 2)] : Tab (List Nat) ℝ), 0 ≤ r.2)
    ∧ (([([0, 0, 0], 1 / 2), ([1, 1, 1], 1 / 2)] : Tab (List Nat) ℝ).map (·.2)).sum = 1
    ∧ (∀ k ∈ keys ([([0, 0, 0], 1 / 2), ([1, 1, 1], 1 / 2)] : Tab (List Nat) ℝ), k.length = 3)
    ∧ (∀ v ∈ [2], v < 3) ∧ (∀ s ∈ ([[0], [1]] : RNode), ∀ v ∈ s, v < 3)
    ∧ (∀ s ∈ ([[0]] : RNode), ∀ v ∈ s, v < 3) ∧ rle [[0], [1]] [[0]] = true := by
  refine ⟨fun _ _ h => h, ?_, by norm_num, by decide, by decide, by decide, by decide, by decide⟩
  intro r hr; simp at hr; rcases hr with rfl | rfl <;> norm_num

end Dit.Props.C17Wedge
