/-
C14 — `maxent_dist(d, marginals)` returns a distribution over `d`'s sample space whose marginal
on every requested variable group equals `d`'s, and whose entropy is at least that of `d` and of
every other distribution with those marginals (it coincides with the iterative-proportional-
fitting fixed point): it is the product of marginals for singleton constraints and `d` itself
when a constraint covers all variables. `marginal_maxent_dists` returns the chain from uniform
through the k-way maximum-entropy distributions to `d`, with non-increasing entropies.

The optimiser of dit (SLSQP) is not modelled; what is proved here is the *certificate*. All
statements are about the definitions of `Core/Maxent.lean` (`margAt`, `ipfStep`, `ipfSweep`, `ipf`,
`uniformOn`) at `α := ℝ`, with entropy `entropyVals (Real.logb 2) (vals ·)` and the
Kullback–Leibler divergence `klVals (Real.logb 2) (alignPair · ·)` of C06. Tables are
`Tab (List σ) ℝ` on a common duplicate-free sample space `space` (`keys p = space`); `p(o)` is
`lookupD 0 p o`. `Feasible t space groups p` (Lemmas/Maxent.lean) says: `p` is a non-negative
table on `space` with the mass of `t` and the marginals of `t` on every group of `groups`;
`ProductForm groups q` says `q(o) = c · Π_g φ_g(o_g)` over the distinct groups.
Helper lemmas: Lemmas/Maxent.lean.
-/
import DitModel.Lemmas.Maxent

set_option linter.unusedSectionVars false

namespace Dit.Props.C14
open Dit Dit.Lemmas.Table Dit.Lemmas.Diverge Dit.Lemmas.Maxent

variable {σ : Type} [DecidableEq σ]

/-! ## One IPF step -/

/-- **An IPF step fits the marginal.** If the `g`-marginal of `q` vanishes only where that of the
target `t` does, then after `ipfStep t q g` the `g`-marginal equals that of `t`; the step keeps the
stored outcomes and the total mass becomes that of `t`. (No sign or sample-space hypothesis is
needed for this clause. The hypothesis is needed: a row of `q` with zero marginal stays zero.) -/
theorem ipf_step_marginal (t q : Tab (List σ) ℝ) (g : List Nat)
    (h : ∀ x, margAt q g x = 0 → margAt t g x = 0) :
    (∀ x, margAt (ipfStep t q g) g x = margAt t g x)
      ∧ keys (ipfStep t q g) = keys q ∧ mass (ipfStep t q g) = mass t :=
  ⟨margAt_ipfStep t q g h, keys_ipfStep t q g, mass_ipfStep t q g h⟩

/-- An IPF step between non-negative tables gives a non-negative table. -/
theorem ipf_step_nonneg (t q : Tab (List σ) ℝ) (g : List Nat) (ht : ∀ r ∈ t, 0 ≤ r.2)
    (hq : ∀ r ∈ q, 0 ≤ r.2) : ∀ r ∈ ipfStep t q g, 0 ≤ r.2 :=
  ipfStep_nonneg t q g ht hq

/-- Non-vacuity (ℚ, computed): one IPF step from the uniform 2×2 table towards a target with
`P(X₀) = (3/4, 1/4)` fits that marginal; a sweep over `[[0],[1]]` reaches the product of the
marginals, whose residual is 0. -/
example : ipfStep
    ([([0, 0], 1 / 2), ([0, 1], 1 / 4), ([1, 0], 1 / 8), ([1, 1], 1 / 8)] : Tab (List Nat) ℚ)
    (uniformOn (fun n : Nat => (n : ℚ)) [[0, 0], [0, 1], [1, 0], [1, 1]]) [0]
    = [([0, 0], 3 / 8), ([0, 1], 3 / 8), ([1, 0], 1 / 8), ([1, 1], 1 / 8)] := by decide +kernel
example : ipfSweep
    ([([0, 0], 1 / 2), ([0, 1], 1 / 4), ([1, 0], 1 / 8), ([1, 1], 1 / 8)] : Tab (List Nat) ℚ)
    (uniformOn (fun n : Nat => (n : ℚ)) [[0, 0], [0, 1], [1, 0], [1, 1]]) [[0], [1]]
    = [([0, 0], 15 / 32), ([0, 1], 9 / 32), ([1, 0], 5 / 32), ([1, 1], 3 / 32)] := by decide +kernel
example : marginalResidual
    ([([0, 0], 1 / 2), ([0, 1], 1 / 4), ([1, 0], 1 / 8), ([1, 1], 1 / 8)] : Tab (List Nat) ℚ)
    [([0, 0], 15 / 32), ([0, 1], 9 / 32), ([1, 0], 5 / 32), ([1, 1], 3 / 32)] [[0], [1]] = 0 := by
  decide +kernel
/-- A structural zero: the rows whose marginal under `q` is 0 stay 0. -/
example : ipfStep ([([0, 0], 1 / 2), ([1, 1], 1 / 2)] : Tab (List Nat) ℚ)
    [([0, 0], 1), ([1, 1], 0)] [0] = [([0, 0], 1 / 2), ([1, 1], 0)] := by decide +kernel

/-- The marginal hypothesis of `ipf_step_marginal` holds whenever the support of the target is
inside the support of the (non-negative) iterate, and an IPF step preserves that inclusion — so
it holds along the whole IPF iteration started from a table of full support. -/
theorem ipf_step_support (t q : Tab (List σ) ℝ) (space : List (List σ)) (hnd : space.Nodup)
    (ht : keys t = space) (hq : keys q = space) (htn : ∀ r ∈ t, 0 ≤ r.2) (hqn : ∀ r ∈ q, 0 ≤ r.2)
    (g : List Nat) (hsupp : ∀ o ∈ space, lookupD 0 q o = 0 → lookupD 0 t o = 0) :
    (∀ x, margAt q g x = 0 → margAt t g x = 0)
      ∧ (∀ o ∈ space, lookupD 0 (ipfStep t q g) o = 0 → lookupD 0 t o = 0) :=
  ⟨fun x => margAt_absCont t q ht hnd hqn g hsupp x, supp_ipfStep t q hq hnd htn hqn g hsupp⟩

/-- Non-vacuity of `ipf_step_marginal` / `ipf_step_support` / `ipf_step_kl` over `ℝ`: the
correlated bits `exCorr` as target, the uniform table as iterate. -/
example : (∀ x, margAt (uniformOn (fun k : Nat => (k : ℝ)) (cartesian exAlph)) [0] x = 0
      → margAt exCorr [0] x = 0) :=
  (ipf_step_support exCorr _ (cartesian exAlph) (nodup_cartesian exAlph_nodup) exCorr_keys
    (keys_uniformOn _) exCorr_nonneg (uniformOn_nonneg _) [0]
    (fun o ho h0 => by
      rw [lookupD_uniformOn _ o ho] at h0
      norm_num [exAlph, cartesian] at h0)).1

/-- **An IPF step keeps the product form**: if `q(o) = c · Π_{S ∈ groups} φ_S(o_S)` then so is
`ipfStep t q g` for `g ∈ groups` (the factor of `g` gets multiplied by `P_t / P_q`). -/
theorem ipf_step_product_form (t q : Tab (List σ) ℝ) (groups : List (List Nat)) (g : List Nat)
    (hg : g ∈ groups) (h : ProductForm groups q) : ProductForm groups (ipfStep t q g) :=
  ipfStep_productForm t q groups g hg h

/-- **Every IPF iterate has product form**: the uniform table has it and every step keeps it. -/
theorem ipf_product_form (t : Tab (List σ) ℝ) (groups : List (List Nat))
    (space : List (List σ)) (n : Nat) :
    ProductForm groups (ipf t groups (uniformOn (fun k : Nat => (k : ℝ)) space) n) :=
  ipf_productForm t _ groups (uniformOn_productForm groups space) n

/-- Product form gives the log-linear form used by the certificate `maxent_pythagoras`:
`log₂ q(o) = c + Σ_g ψ_g(o_g)` wherever `q(o) ≠ 0` (the sum over the distinct groups). -/
theorem product_form_loglinear (groups : List (List Nat)) (q : Tab (List σ) ℝ)
    (space : List (List σ)) (hq : keys q = space) (hnd : space.Nodup)
    (h : ProductForm groups q) :
    ∃ (c : ℝ) (ψ : List Nat → List σ → ℝ), ∀ o ∈ space, lookupD 0 q o ≠ 0 →
      Real.logb 2 (lookupD 0 q o) = c + ((dedup groups).map (fun g => ψ g (project g o))).sum :=
  h.loglinear hq hnd

/-- Invariants of the IPF iteration from the uniform table towards a non-negative target on the
same space: every iterate is a non-negative table on `space` whose support contains that of the
target. -/
theorem ipf_invariants (t : Tab (List σ) ℝ) (groups : List (List Nat)) (space : List (List σ))
    (hnd : space.Nodup) (hne : space ≠ []) (htn : ∀ r ∈ t, 0 ≤ r.2) (n : Nat) :
    keys (ipf t groups (uniformOn (fun k : Nat => (k : ℝ)) space) n) = space
      ∧ (∀ r ∈ ipf t groups (uniformOn (fun k : Nat => (k : ℝ)) space) n, 0 ≤ r.2)
      ∧ (∀ o ∈ space, lookupD 0 (ipf t groups (uniformOn (fun k : Nat => (k : ℝ)) space) n) o = 0
          → lookupD 0 t o = 0) := by
  refine ⟨(keys_ipf t _ groups n).trans (keys_uniformOn space),
    ipf_nonneg t _ groups htn (uniformOn_nonneg space) n,
    ipf_supp t _ (keys_uniformOn space) hnd htn (uniformOn_nonneg space) groups ?_ n⟩
  intro o ho h0
  rw [lookupD_uniformOn space o ho] at h0
  have : (space.length : ℝ) ≠ 0 := by
    have := List.length_pos_iff.mpr hne
    positivity
  exact absurd h0 (one_div_ne_zero this)

/-- **An IPF step does not increase `D(t‖q)`**: for non-negative tables on the same space with
`supp t ⊆ supp q` (so that the divergence is finite) and `mass q ≤ mass t`, both divergences
are finite and `D(t‖ipfStep t q g) ≤ D(t‖q)`; the decrease is the divergence between the
`g`-marginals (`Lemmas.Maxent.klSum_sub_klSum_ipfStep`). -/
theorem ipf_step_kl (t q : Tab (List σ) ℝ) (space : List (List σ)) (hnd : space.Nodup)
    (ht : keys t = space) (hq : keys q = space) (htn : ∀ r ∈ t, 0 ≤ r.2) (hqn : ∀ r ∈ q, 0 ≤ r.2)
    (g : List Nat) (hsupp : ∀ o ∈ space, lookupD 0 q o = 0 → lookupD 0 t o = 0)
    (hmass : mass q ≤ mass t) :
    ∃ d d' : ℝ, klVals (Real.logb 2) (alignPair t q) = some d
      ∧ klVals (Real.logb 2) (alignPair t (ipfStep t q g)) = some d' ∧ d' ≤ d :=
  ⟨_, _, klVals_of_absCont (absCont_alignPair t q ht hnd hsupp),
    klVals_of_absCont (absCont_alignPair t (ipfStep t q g) ht hnd
      (supp_ipfStep t q hq hnd htn hqn g hsupp)),
    klSum_ipfStep_le t q ht hq hnd htn hqn g hsupp hmass⟩

/-- **Feasible tables are exactly the IPF fixed points**: a non-negative table `q` whose
`g`-marginal vanishes only where the target's does is left unchanged by the step for `g` iff its
`g`-marginal is the target's; hence a table with all the requested marginals is a fixed point of
the whole IPF iteration. -/
theorem ipf_fixed_point (t q : Tab (List σ) ℝ) (hqn : ∀ r ∈ q, 0 ≤ r.2) (groups : List (List Nat)) :
    (∀ g, (∀ x, margAt q g x = 0 → margAt t g x = 0) →
        (ipfStep t q g = q ↔ ∀ x, margAt q g x = margAt t g x))
      ∧ ((∀ g ∈ groups, ∀ x, margAt q g x = margAt t g x) → ∀ n, ipf t groups q n = q) := by
  refine ⟨fun g h0 => ⟨fun he x => ?_, ipfStep_eq_self t q hqn g⟩,
    fun hm n => ipf_eq_self t q hqn groups hm n⟩
  have := margAt_ipfStep t q g h0 x
  rwa [he] at this

/-! ## The certificate -/

/-- **Pythagorean identity (the certificate).** Let `p`, `q` be non-negative tables on `space`
of equal total mass (e.g. both 1) with equal marginals on every group of `groups`; let `q` be
log-linear on its support, `log₂ q(o) = c + Σ_{g ∈ groups} ψ_g(o_g)` whenever `q(o) > 0` (the
constant can be absorbed into a factor when `groups ≠ []`), and `supp p ⊆ supp q`. Then the
divergence is finite and `D(p‖q) = H(q) − H(p) ≥ 0`. The support hypothesis is needed:
without it `D(p‖q) = +∞` while `H(q) − H(p)` is finite. (A non-trivial instance of the
hypotheses: the example after `maxent_singletons`.) -/
theorem maxent_pythagoras (p q : Tab (List σ) ℝ) (space : List (List σ)) (hnd : space.Nodup)
    (hp : keys p = space) (hq : keys q = space)
    (hpn : ∀ r ∈ p, 0 ≤ r.2) (hqn : ∀ r ∈ q, 0 ≤ r.2) (hmass : mass p = mass q)
    (groups : List (List Nat)) (c : ℝ) (ψ : List Nat → List σ → ℝ)
    (hm : ∀ g ∈ groups, ∀ x, margAt p g x = margAt q g x)
    (hlog : ∀ o ∈ space, 0 < lookupD 0 q o →
      Real.logb 2 (lookupD 0 q o) = c + (groups.map (fun g => ψ g (project g o))).sum)
    (hsupp : ∀ o ∈ space, lookupD 0 q o = 0 → lookupD 0 p o = 0) :
    klVals (Real.logb 2) (alignPair p q)
        = some (entropyVals (Real.logb 2) (vals q) - entropyVals (Real.logb 2) (vals p))
      ∧ 0 ≤ entropyVals (Real.logb 2) (vals q) - entropyVals (Real.logb 2) (vals p) := by
  have hlog' : ∀ o ∈ space, lookupD 0 q o ≠ 0 →
      Real.logb 2 (lookupD 0 q o) = c + (groups.map (fun g => ψ g (project g o))).sum :=
    fun o ho hne => hlog o ho (lt_of_le_of_ne (lookupD_nonneg hqn o) (Ne.symm hne))
  have hid := klSum_eq_entropy_sub p q hp hq hnd groups c ψ hmass hm hlog' hsupp
  refine ⟨by rw [klVals_of_absCont (absCont_alignPair p q hp hnd hsupp), hid], ?_⟩
  have := (entropy_le_of_loglinear p q hp hq hnd hpn hqn groups c ψ hmass hm hlog' hsupp).1
  linarith

/-- **Optimality.** If `q` is feasible for `(t, groups)` and log-linear on its support, then
`H(p) ≤ H(q)` for every feasible `p` with `supp p ⊆ supp q`, with equality iff `p = q`. -/
theorem maxent_optimal (t p q : Tab (List σ) ℝ) (space : List (List σ)) (hnd : space.Nodup)
    (groups : List (List Nat)) (hq : Feasible t space groups q) (hp : Feasible t space groups p)
    (c : ℝ) (ψ : List Nat → List σ → ℝ)
    (hlog : ∀ o ∈ space, 0 < lookupD 0 q o →
      Real.logb 2 (lookupD 0 q o) = c + (groups.map (fun g => ψ g (project g o))).sum)
    (hsupp : ∀ o ∈ space, lookupD 0 q o = 0 → lookupD 0 p o = 0) :
    entropyVals (Real.logb 2) (vals p) ≤ entropyVals (Real.logb 2) (vals q)
      ∧ (entropyVals (Real.logb 2) (vals p) = entropyVals (Real.logb 2) (vals q) ↔ p = q) :=
  entropy_le_of_loglinear p q hp.keys_eq hq.keys_eq hnd hp.nonneg hq.nonneg groups c ψ
    (hp.mass_eq.trans hq.mass_eq.symm)
    (fun g hg x => (hp.marg g hg x).trans (hq.marg g hg x).symm)
    (fun o ho hne => hlog o ho (lt_of_le_of_ne (lookupD_nonneg hq.nonneg o) (Ne.symm hne))) hsupp

/-- **Optimality without a support hypothesis on `p`.** If the support of the feasible,
log-linear `q` is the whole *marginal support* — `q(o) = 0` only if some requested marginal of
`t` vanishes at `o` (in particular if `q > 0` everywhere) — then every feasible `p` has its
support inside that of `q`, so `q` is *the* maximum-entropy table: `H(p) ≤ H(q)` for every
feasible `p`, with equality iff `p = q`. (The remaining case, where the maximiser has a smaller
support than the marginal support, is the closure of the log-linear family and is not covered
by this certificate.) -/
theorem maxent_optimal_marginal_support (t p q : Tab (List σ) ℝ) (space : List (List σ))
    (hnd : space.Nodup) (groups : List (List Nat)) (hq : Feasible t space groups q)
    (hp : Feasible t space groups p) (c : ℝ) (ψ : List Nat → List σ → ℝ)
    (hlog : ∀ o ∈ space, 0 < lookupD 0 q o →
      Real.logb 2 (lookupD 0 q o) = c + (groups.map (fun g => ψ g (project g o))).sum)
    (hfull : ∀ o ∈ space, lookupD 0 q o = 0 → ∃ g ∈ groups, margAt t g (project g o) = 0) :
    entropyVals (Real.logb 2) (vals p) ≤ entropyVals (Real.logb 2) (vals q)
      ∧ (entropyVals (Real.logb 2) (vals p) = entropyVals (Real.logb 2) (vals q) ↔ p = q) :=
  maxent_optimal t p q space hnd groups hq hp c ψ hlog
    (supp_subset_of_marginal_support p q hp.nonneg groups
      (fun g hg x => (hp.marg g hg x).trans (hq.marg g hg x).symm) space
      (fun o ho h0 => by
        obtain ⟨g, hg, hz⟩ := hfull o ho h0
        exact ⟨g, hg, by rw [hq.marg g hg]; exact hz⟩))

/-- **A feasible table of product form is the maximum-entropy table** (what the IPF iteration
aims at: all its iterates have product form, `ipf_product_form`, and its fixed points are the
feasible tables, `ipf_fixed_point`). If `q` is feasible for `(t, groups)`, has product form over
`groups`, and its support is the whole marginal support, then `H(p) ≤ H(q)` for every feasible
`p`, with equality iff `p = q`. -/
theorem maxent_of_product_form (t p q : Tab (List σ) ℝ) (space : List (List σ))
    (hnd : space.Nodup) (groups : List (List Nat)) (hq : Feasible t space groups q)
    (hp : Feasible t space groups p) (hpf : ProductForm groups q)
    (hfull : ∀ o ∈ space, lookupD 0 q o = 0 → ∃ g ∈ groups, margAt t g (project g o) = 0) :
    entropyVals (Real.logb 2) (vals p) ≤ entropyVals (Real.logb 2) (vals q)
      ∧ (entropyVals (Real.logb 2) (vals p) = entropyVals (Real.logb 2) (vals q) ↔ p = q) := by
  obtain ⟨c, ψ, hlog⟩ := hpf.loglinear hq.keys_eq hnd
  exact maxent_optimal_marginal_support t p q space hnd (dedup groups) hq.dedup hp.dedup c ψ
    (fun o ho hpos => hlog o ho hpos.ne')
    (fun o ho h0 => by
      obtain ⟨g, hg, hz⟩ := hfull o ho h0
      exact ⟨g, mem_dedup.mpr hg, hz⟩)

/-- **The maximum-entropy table dominates the source**: the source `t` is itself feasible, so
its entropy is at most that of any table that is optimal among the feasible ones. -/
theorem maxent_ge_source (t q : Tab (List σ) ℝ) (space : List (List σ)) (groups : List (List Nat))
    (ht : keys t = space) (htn : ∀ r ∈ t, 0 ≤ r.2)
    (hopt : ∀ p, Feasible t space groups p →
      entropyVals (Real.logb 2) (vals p) ≤ entropyVals (Real.logb 2) (vals q)) :
    Feasible t space groups t
      ∧ entropyVals (Real.logb 2) (vals t) ≤ entropyVals (Real.logb 2) (vals q) :=
  ⟨Feasible.self t space groups ht htn, hopt t (Feasible.self t space groups ht htn)⟩

/-! ## Singleton constraints: the product of the marginals -/

/-- **Singleton constraints, feasibility.** On the Cartesian space of duplicate-free alphabets
`as`, the product of the one-variable marginals of a probability table `t` (`prodMarg`,
`o ↦ Π_i P_t(X_i = o_i)`) is a non-negative table of mass 1 with the one-variable marginals of
`t`. (Mass 1 is needed: the marginals of the product scale with `mass^(n-1)`.) -/
theorem maxent_singletons_feasible (t : Tab (List σ) ℝ) (as : List (List σ))
    (hnd : ∀ a ∈ as, a.Nodup) (hk : keys t = cartesian as) (htn : ∀ r ∈ t, 0 ≤ r.2)
    (hmass : mass t = 1) :
    Feasible t (cartesian as) (singletons as.length)
      (prodMarg t (singletons as.length) (cartesian as)) := by
  refine ⟨keys_prodMarg _ _ _, prodMarg_nonneg t htn _ _,
    (mass_prodMarg_singletons t as hnd hk hmass).trans hmass.symm, ?_⟩
  intro g hg x
  obtain ⟨i, hi, rfl⟩ := List.mem_map.mp hg
  exact margAt_prodMarg_singletons t as hnd hk hmass i (List.mem_range.mp hi) x

/-- **Singleton constraints, product form.** The product of the one-variable marginals has
product form over the singleton groups (constant 1, factors the marginals). -/
theorem maxent_singletons_product_form (t : Tab (List σ) ℝ) (n : Nat) (space : List (List σ)) :
    ProductForm (singletons n) (prodMarg t (singletons n) space) :=
  prodMarg_productForm t (singletons n) (singletons_nodup n) space

/-- **Singleton constraints, entropy.** The entropy of the product of the marginals is the sum
of the one-variable entropies `Σ_i H(X_i)`. -/
theorem maxent_singletons_entropy (t : Tab (List σ) ℝ) (as : List (List σ))
    (hnd : ∀ a ∈ as, a.Nodup) (hk : keys t = cartesian as) (htn : ∀ r ∈ t, 0 ≤ r.2)
    (hmass : mass t = 1) :
    entropyVals (Real.logb 2) (vals (prodMarg t (singletons as.length) (cartesian as)))
      = ((List.range as.length).map (fun i => entropyOf (Real.logb 2) t [i])).sum := by
  have hf := maxent_singletons_feasible t as hnd hk htn hmass
  rw [entropy_eq_sum_entropyOf t _ hf.keys_eq (nodup_cartesian hnd) (singletons as.length)
    hf.mass_eq hf.marg (prodMarg_loglinear t _ _), map_singletons]

/-- **Singleton constraints, optimality.** The product of the one-variable marginals is the
maximum-entropy table with those marginals: every feasible `p` has `H(p) ≤ H(product)`, with
equality iff `p` is the product. No support hypothesis is needed. -/
theorem maxent_singletons (t p : Tab (List σ) ℝ) (as : List (List σ))
    (hnd : ∀ a ∈ as, a.Nodup) (hk : keys t = cartesian as) (htn : ∀ r ∈ t, 0 ≤ r.2)
    (hmass : mass t = 1) (hp : Feasible t (cartesian as) (singletons as.length) p) :
    entropyVals (Real.logb 2) (vals p)
        ≤ entropyVals (Real.logb 2) (vals (prodMarg t (singletons as.length) (cartesian as)))
      ∧ (entropyVals (Real.logb 2) (vals p)
          = entropyVals (Real.logb 2) (vals (prodMarg t (singletons as.length) (cartesian as)))
        ↔ p = prodMarg t (singletons as.length) (cartesian as)) :=
  maxent_optimal_marginal_support t p _ (cartesian as) (nodup_cartesian hnd)
    (singletons as.length) (maxent_singletons_feasible t as hnd hk htn hmass) hp 0
    (fun g x => Real.logb 2 (margAt t g x))
    (fun o ho hpos => prodMarg_loglinear t _ _ o ho hpos.ne')
    (prodMarg_marginal_support t _ _)

/-- Non-vacuity of `maxent_singletons*`: `exCorr` is a probability table on the Cartesian space
of two duplicate-free binary alphabets. -/
example : (∀ a ∈ exAlph, a.Nodup) ∧ keys exCorr = cartesian exAlph ∧ (∀ r ∈ exCorr, 0 ≤ r.2)
    ∧ mass exCorr = 1 := ⟨exAlph_nodup, exCorr_keys, exCorr_nonneg, exCorr_mass⟩

/-- Non-vacuity of `maxent_pythagoras` / `maxent_optimal`: `p :=` the correlated bits and `q :=`
the product of their marginals (the independent table) satisfy all hypotheses with
`groups = [[0],[1]]`, and `p ≠ q`. -/
example : ∃ (p q : Tab (List Nat) ℝ) (c : ℝ) (ψ : List Nat → List Nat → ℝ),
    Feasible exCorr (cartesian exAlph) (singletons 2) p
    ∧ Feasible exCorr (cartesian exAlph) (singletons 2) q
    ∧ (∀ o ∈ cartesian exAlph, 0 < lookupD 0 q o →
        Real.logb 2 (lookupD 0 q o) = c + ((singletons 2).map (fun g => ψ g (project g o))).sum)
    ∧ (∀ o ∈ cartesian exAlph, lookupD 0 q o = 0 → lookupD 0 p o = 0)
    ∧ p ≠ q := by
  have hq : Feasible exCorr (cartesian exAlph) (singletons 2)
      (prodMarg exCorr (singletons 2) (cartesian exAlph)) :=
    maxent_singletons_feasible exCorr exAlph exAlph_nodup exCorr_keys exCorr_nonneg exCorr_mass
  have hp := Feasible.self exCorr (cartesian exAlph) (singletons 2) exCorr_keys exCorr_nonneg
  refine ⟨exCorr, prodMarg exCorr (singletons 2) (cartesian exAlph), 0,
    fun g x => Real.logb 2 (margAt exCorr g x), hp, hq,
    fun o ho hpos => prodMarg_loglinear exCorr _ _ o ho hpos.ne', ?_, ?_⟩
  · exact supp_subset_of_marginal_support exCorr _ exCorr_nonneg (singletons 2)
      (fun g hg x => (hq.marg g hg x).symm) _
      (fun o ho h0 => by
        obtain ⟨g, hg, hz⟩ := prodMarg_marginal_support exCorr _ _ o ho h0
        exact ⟨g, hg, by rw [hq.marg g hg]; exact hz⟩)
  · intro e
    have h1 := exCorr_prod_lookup
    rw [← e, exCorr_lookup] at h1
    norm_num at h1

/-! ## A constraint covering all variables -/

/-- **A group covering all variables.** If `project g o = o` on the space (e.g. `g = range n`
with outcomes of length `n`, `project_range_length`), a table on `space` with the `g`-marginal of
`t` is `t` itself. -/
theorem maxent_full (t q : Tab (List σ) ℝ) (space : List (List σ)) (hnd : space.Nodup)
    (ht : keys t = space) (hq : keys q = space) (g : List Nat)
    (hfull : ∀ o ∈ space, project g o = o) (hm : ∀ x, margAt q g x = margAt t g x) :
    (∀ o, lookupD 0 q o = lookupD 0 t o) ∧ q = t := by
  have h : ∀ o, lookupD 0 q o = lookupD 0 t o := by
    intro o
    rw [lookupD_eq_margAt_of_full q (hq ▸ hnd) g (by rw [hq]; exact hfull),
      lookupD_eq_margAt_of_full t (ht ▸ hnd) g (by rw [ht]; exact hfull), hm]
  exact ⟨h, eq_of_lookupD_eq hq ht hnd (fun o _ => h o)⟩

/-- With a constraint covering all variables the only feasible table is the source. -/
theorem maxent_full_feasible (t p : Tab (List σ) ℝ) (space : List (List σ)) (hnd : space.Nodup)
    (ht : keys t = space) (groups : List (List Nat)) (g : List Nat) (hg : g ∈ groups)
    (hfull : ∀ o ∈ space, project g o = o) (hp : Feasible t space groups p) : p = t :=
  (maxent_full t p space hnd ht hp.keys_eq g hfull (hp.marg g hg)).2

/-- Non-vacuity of `maxent_full` / `chain_end`: on the 2×2 space the group `[0, 1]` covers all
variables. -/
example : ∀ o ∈ cartesian exAlph, project [0, 1] o = o := by decide

/-! ## The chain of `marginal_maxent_dists` -/

/-- **Marginals of sub-groups.** Equal `g'`-marginals give equal `g`-marginals whenever every
index of `g` occurs in `g'` and the indices of `g'` are valid for all stored outcomes (an invalid
index is dropped by `project` and shifts the later positions, so validity is needed to read `o_g`
off `o_{g'}`). -/
theorem marginal_of_submarginal (p q : Tab (List σ) ℝ) (g g' : List Nat)
    (hsub : ∀ i ∈ g, i ∈ g')
    (hvp : ∀ o ∈ keys p, ∀ i ∈ g', i < o.length) (hvq : ∀ o ∈ keys q, ∀ i ∈ g', i < o.length)
    (hm : ∀ x, margAt p g' x = margAt q g' x) : ∀ x, margAt p g x = margAt q g x :=
  margAt_of_submarginal p q g g' hsub hvp hvq hm

/-- **Monotonicity along the chain.** If every group of `groups₁` is contained in some group of
`groups₂`, the feasible set for `groups₂` is contained in that for `groups₁`; hence if `q₁` is
optimal for `groups₁` and `q₂` is feasible for `groups₂` (e.g. optimal for it), then
`H(q₂) ≤ H(q₁)`: the entropies of the k-way maximum-entropy tables do not increase with `k`. -/
theorem chain_monotone (t q₁ q₂ : Tab (List σ) ℝ) (space : List (List σ))
    (groups₁ groups₂ : List (List Nat)) (ht : keys t = space)
    (hcoarse : ∀ g ∈ groups₁, ∃ g' ∈ groups₂, ∀ i ∈ g, i ∈ g')
    (hvalid : ∀ o ∈ space, ∀ g' ∈ groups₂, ∀ i ∈ g', i < o.length)
    (hopt : ∀ p, Feasible t space groups₁ p →
      entropyVals (Real.logb 2) (vals p) ≤ entropyVals (Real.logb 2) (vals q₁))
    (h2 : Feasible t space groups₂ q₂) :
    Feasible t space groups₁ q₂
      ∧ entropyVals (Real.logb 2) (vals q₂) ≤ entropyVals (Real.logb 2) (vals q₁) :=
  ⟨h2.coarsen ht hcoarse hvalid, hopt q₂ (h2.coarsen ht hcoarse hvalid)⟩

/-- Non-vacuity of `chain_monotone`: the singleton groups are coarser than the pair group, whose
indices are valid on the 2×2 space. -/
example : (∀ g ∈ singletons 2, ∃ g' ∈ [[0, 1]], ∀ i ∈ g, i ∈ g')
    ∧ (∀ o ∈ cartesian exAlph, ∀ g' ∈ [[0, 1]], ∀ i ∈ g', i < o.length) := by decide

/-- **The chain starts at the uniform table**: it has entropy `log₂ N` and the largest entropy
of all probability tables on `space` (the 0-way maximum-entropy table), with equality only for
the uniform table itself. -/
theorem uniform_max_entropy (p : Tab (List σ) ℝ) (space : List (List σ)) (hnd : space.Nodup)
    (hp : keys p = space) (hpn : ∀ r ∈ p, 0 ≤ r.2) (hmass : mass p = 1) :
    entropyVals (Real.logb 2) (vals (uniformOn (fun k : Nat => (k : ℝ)) space))
        = Real.logb 2 (space.length : ℝ)
      ∧ entropyVals (Real.logb 2) (vals p)
          ≤ entropyVals (Real.logb 2) (vals (uniformOn (fun k : Nat => (k : ℝ)) space))
      ∧ (entropyVals (Real.logb 2) (vals p)
          = entropyVals (Real.logb 2) (vals (uniformOn (fun k : Nat => (k : ℝ)) space))
        ↔ p = uniformOn (fun k : Nat => (k : ℝ)) space) := by
  have hne : space ≠ [] := by
    intro e
    subst e
    have : p = [] := List.map_eq_nil_iff.mp hp
    rw [this] at hmass
    simp [mass] at hmass
  have hN : (space.length : ℝ) ≠ 0 := by
    have := List.length_pos_iff.mpr hne
    positivity
  refine ⟨entropy_uniformOn space, ?_⟩
  exact entropy_le_of_loglinear p _ hp (keys_uniformOn space) hnd hpn (uniformOn_nonneg space) []
    (Real.logb 2 (1 / (space.length : ℝ))) (fun _ _ => 0)
    (hmass.trans (mass_uniformOn space hne).symm) (fun g hg => absurd hg (by simp))
    (fun o ho _ => by rw [lookupD_uniformOn space o ho]; simp)
    (fun o ho h0 => by
      rw [lookupD_uniformOn space o ho] at h0
      exact absurd h0 (one_div_ne_zero hN))

/-- **The chain ends at the source**: when outcomes have length `n`, the `n`-way constraint
`[range n]` covers all variables, so the only feasible table — and hence the maximum-entropy one
— is `t` itself. -/
theorem chain_end (t p : Tab (List σ) ℝ) (space : List (List σ)) (hnd : space.Nodup)
    (ht : keys t = space) (n : Nat) (hlen : ∀ o ∈ space, o.length = n)
    (hp : Feasible t space [List.range n] p) : p = t :=
  maxent_full_feasible t p space hnd ht [List.range n] (List.range n) (by simp)
    (fun o ho => by rw [← hlen o ho]; exact project_range_length o) hp

end Dit.Props.C14
