/-
C06 — Cross entropy, Kullback–Leibler divergence, Jensen–Shannon divergence with arbitrary
weights, variational distance, Hellinger distance, Bhattacharyya coefficient, the
Rényi/Tsallis/Hellinger/alpha-divergences, earth mover's distance, maximum correlation equal
their textbook definitions on linear distributions, matching outcomes by label rather than by
storage position. Hence D(p‖p)=0, KL is non-negative and infinite exactly when the first support
is not inside the second, symmetric ones are symmetric, JSD is at most the entropy of the
weights, Pinsker's inequality holds and maximum correlation lies in [0,1] and vanishes for
independent variables.

All theorems are about the definitions of `Core/Diverge.lean` at `α := ℝ`, `log := Real.logb 2`,
`sqrt := Real.sqrt`, `R := realOps`, on lists `pq : List (ℝ × ℝ)` of label-aligned pairs
(`alignPair` / `alignUnion` produce them from tables). `none` is `+∞`.
Helper lemmas: Lemmas/Diverge.lean.
-/
import DitModel.Lemmas.Diverge

set_option linter.unusedSectionVars false

namespace Dit.Props.C06
open Dit Dit.Lemmas.Table Dit.Lemmas.InfoReal Dit.Lemmas.Diverge

/-! ## Definitions and the support condition -/

/-- **KL definition.** When the first support is inside the second, the Kullback–Leibler
divergence is `Σ p log₂(p/q)`; the guard for `p = 0` is harmless (`0 · log 0 = 0`). -/
theorem kl_eq_def (pq : List (ℝ × ℝ)) (h : absCont pq = true) :
    klVals (Real.logb 2) pq = some (pq.map (fun r => r.1 * Real.logb 2 (r.1 / r.2))).sum :=
  klVals_of_absCont h

/-- **Cross-entropy definition.** When finite, the cross entropy is `−Σ p log₂ q`. -/
theorem xent_eq_def (pq : List (ℝ × ℝ)) (h : absCont pq = true) :
    crossEntropyVals (Real.logb 2) pq = some (-(pq.map (fun r => r.1 * Real.logb 2 r.2)).sum) := by
  rw [xentVals_eq, if_pos h]; rfl

/-- **Support condition.** `absCont` says: wherever `q = 0`, also `p = 0`. -/
theorem absCont_iff_support (pq : List (ℝ × ℝ)) :
    absCont pq = true ↔ ∀ r ∈ pq, r.2 = 0 → r.1 = 0 :=
  absCont_iff pq

/-- **KL is infinite exactly when the first support is not inside the second.** -/
theorem kl_top_iff_support (pq : List (ℝ × ℝ)) :
    klVals (Real.logb 2) pq = none ↔ ∃ r ∈ pq, r.1 ≠ 0 ∧ r.2 = 0 := by
  rw [klVals_eq_none_iff, absCont_false_iff]

/-- **Cross entropy is infinite exactly when the first support is not inside the second.** -/
theorem xent_top_iff_support (pq : List (ℝ × ℝ)) :
    crossEntropyVals (Real.logb 2) pq = none ↔ ∃ r ∈ pq, r.1 ≠ 0 ∧ r.2 = 0 := by
  rw [xentVals_eq_none_iff, absCont_false_iff]

/-- **Cross entropy = KL + entropy** whenever KL is finite (no sign or normalisation hypothesis
is needed: the identity holds term by term on the common support). -/
theorem xent_eq_kl_add_entropy (pq : List (ℝ × ℝ)) (d : ℝ)
    (h : klVals (Real.logb 2) pq = some d) :
    crossEntropyVals (Real.logb 2) pq
      = some (d + entropyVals (Real.logb 2) (pq.map Prod.fst)) := by
  obtain ⟨hac, rfl⟩ := klVals_eq_some h
  rw [xentVals_eq, if_pos hac, xentSum_eq pq hac]

example : absCont [((1 : ℚ) / 2, (1 : ℚ) / 3), (1 / 2, 2 / 3), (0, 0)] = true := by decide +kernel
example : absCont [((1 : ℚ) / 2, (0 : ℚ)), (1 / 2, 1)] = false := by decide +kernel

/-! ## Non-negativity, `D(p‖p) = 0`, equality case -/

/-- **Gibbs.** KL is non-negative for non-negative vectors with `Σq ≤ Σp` (in particular for a
probability vector `p` and a sub-probability vector `q`). The sum hypothesis is needed: for
`p = (1/2)`, `q = (1)` the value is `−1/2`. -/
theorem kl_nonneg (pq : List (ℝ × ℝ)) (d : ℝ) (hnn : ∀ r ∈ pq, 0 ≤ r.1 ∧ 0 ≤ r.2)
    (hs : (pq.map Prod.snd).sum ≤ (pq.map Prod.fst).sum)
    (h : klVals (Real.logb 2) pq = some d) : 0 ≤ d := by
  obtain ⟨hac, rfl⟩ := klVals_eq_some h
  exact klSum_nonneg pq hnn hac hs

/-- **`D(p‖p) = 0`** (for any real vector). -/
theorem kl_self (ps : List ℝ) :
    klVals (Real.logb 2) (ps.map (fun p => (p, p))) = some 0 := by
  rw [klVals_of_absCont (absCont_self ps), klSum_self]

/-- **Equality case.** For non-negative vectors of equal total mass with finite KL, the
divergence vanishes exactly when the two vectors agree at every label. -/
theorem kl_eq_zero_iff (pq : List (ℝ × ℝ)) (d : ℝ) (hnn : ∀ r ∈ pq, 0 ≤ r.1 ∧ 0 ≤ r.2)
    (hs : (pq.map Prod.fst).sum = (pq.map Prod.snd).sum)
    (h : klVals (Real.logb 2) pq = some d) : d = 0 ↔ ∀ r ∈ pq, r.1 = r.2 := by
  obtain ⟨hac, rfl⟩ := klVals_eq_some h
  exact klSum_eq_zero_iff pq hnn hac hs

example : (∀ r ∈ [((1 : ℝ) / 2, (1 : ℝ) / 4), (1 / 2, 3 / 4)], 0 ≤ r.1 ∧ 0 ≤ r.2) ∧
    (([((1 : ℝ) / 2, (1 : ℝ) / 4), (1 / 2, 3 / 4)].map Prod.fst).sum
      = ([((1 : ℝ) / 2, (1 : ℝ) / 4), (1 / 2, 3 / 4)].map Prod.snd).sum) := by
  constructor
  · intro r hr; simp at hr; rcases hr with rfl | rfl <;> norm_num
  · norm_num

/-- Non-vacuity: an infinite KL divergence (first support not inside the second). -/
example : klVals (Real.logb 2) [((1 : ℝ) / 2, (0 : ℝ)), (1 / 2, 1)] = none :=
  (kl_top_iff_support _).mpr ⟨(1 / 2, 0), by simp, by norm_num, rfl⟩

/-- Non-vacuity: a finite KL divergence, to which `kl_nonneg`, `kl_eq_zero_iff`, `pinsker`
apply. -/
example : ∃ d, klVals (Real.logb 2) [((1 : ℝ) / 2, (1 : ℝ) / 4), (1 / 2, 3 / 4)] = some d :=
  ⟨_, kl_eq_def _ ((absCont_iff_support _).mpr (by
    intro r hr h
    simp at hr
    rcases hr with rfl | rfl <;> norm_num at h))⟩

/-! ## Label alignment and invariance under the stored order -/

section Align
variable {κ : Type} [DecidableEq κ]

/-- **Order of the second table is irrelevant.** With duplicate-free keys, permuting the stored
order of `t2` does not change the aligned pair list at all. -/
theorem alignPair_right_irrelevant_order (t1 : Tab κ ℝ) {t2 t2' : Tab κ ℝ} (h : t2.Perm t2')
    (hnd : (keys t2).Nodup) : alignPair t1 t2 = alignPair t1 t2' :=
  alignPair_right_perm t1 h hnd

/-- **Order of the first table.** Permuting `t1` permutes the pair list. -/
theorem alignPair_perm_left {t1 t1' : Tab κ ℝ} (t2 : Tab κ ℝ) (h : t1.Perm t1') :
    (alignPair t1 t2).Perm (alignPair t1' t2) :=
  alignPair_left_perm t2 h

/-- **Outcomes only `t2` has are invisible** to the alignment along `t1`. -/
theorem align_extra_right (t1 t2 : Tab κ ℝ) (k : κ) (v : ℝ) (hk : k ∉ keys t1) :
    alignPair t1 ((k, v) :: t2) = alignPair t1 t2 :=
  alignPair_cons_right t1 t2 k v hk

/-- **A stored zero of `t1`** adds the pair `(0, q)`, `q` the value of `t2` at that label. -/
theorem align_extra_left_zero (t1 t2 : Tab κ ℝ) (k : κ) :
    alignPair (t1 ++ [(k, 0)]) t2 = alignPair t1 t2 ++ [(0, lookupD 0 t2 k)] :=
  alignPair_append_left t1 t2 k

/-- **Union alignment = alignment along `t1` plus the `(0, q)` pairs** of the labels only `t2`
has (duplicate-free keys in `t1`). -/
theorem alignUnion_eq_alignPair_append (t1 t2 : Tab κ ℝ) (hnd : (keys t1).Nodup) :
    alignUnion t1 t2 = alignPair t1 t2
      ++ ((dedup (keys t2)).filter (fun x => decide (x ∉ keys t1))).map
          (fun k => (0, lookupD 0 t2 k)) :=
  alignUnion_eq t1 t2 hnd

/-- **The union alignment is symmetric**: exchanging the tables exchanges the components of
every pair, up to the order of the pairs. -/
theorem alignUnion_swap (t1 t2 : Tab κ ℝ) :
    (alignUnion t2 t1).Perm ((alignUnion t1 t2).map Prod.swap) :=
  Lemmas.Diverge.alignUnion_swap t1 t2

end Align

/-- **Sums over the pair list do not depend on its order**: KL (including the value `+∞`). -/
theorem klVals_perm (log : ℝ → ℝ) {pq pq' : List (ℝ × ℝ)} (h : pq.Perm pq') :
    klVals log pq = klVals log pq' :=
  Lemmas.Diverge.klVals_perm log h

/-- Cross entropy does not depend on the order of the pairs. -/
theorem xentVals_perm (log : ℝ → ℝ) {pq pq' : List (ℝ × ℝ)} (h : pq.Perm pq') :
    crossEntropyVals log pq = crossEntropyVals log pq' :=
  Lemmas.Diverge.xentVals_perm log h

/-- The variational distance does not depend on the order of the pairs. -/
theorem tvVals_perm (two : ℝ) {pq pq' : List (ℝ × ℝ)} (h : pq.Perm pq') :
    tvVals two pq = tvVals two pq' :=
  Lemmas.Diverge.tvVals_perm two h

/-- The Bhattacharyya coefficient does not depend on the order of the pairs. -/
theorem bcVals_perm (sqrt : ℝ → ℝ) {pq pq' : List (ℝ × ℝ)} (h : pq.Perm pq') :
    bcVals sqrt pq = bcVals sqrt pq' :=
  Lemmas.Diverge.bcVals_perm sqrt h

/-- The power sum does not depend on the order of the pairs. -/
theorem powerSum_perm (R : RealOps ℝ) (a b : ℝ) {pq pq' : List (ℝ × ℝ)} (h : pq.Perm pq') :
    powerSum R a b pq = powerSum R a b pq' :=
  Lemmas.Diverge.powerSum_perm R a b h

/-- **Pairs `(0, q)` contribute nothing** to KL and cross entropy (nor to their finiteness). -/
theorem align_extra_zero (log : ℝ → ℝ) (pq zs : List (ℝ × ℝ)) (h : ∀ r ∈ zs, r.1 = 0) :
    klVals log (pq ++ zs) = klVals log pq
      ∧ crossEntropyVals log (pq ++ zs) = crossEntropyVals log pq :=
  ⟨klVals_append_zero log pq zs h, xentVals_append_zero log pq zs h⟩

/-- **A pair `(0, q)` contributes `|q|/2` to the variational distance**, which is therefore
computed on the union alignment. -/
theorem tv_extra_zero (q : ℝ) (pq : List (ℝ × ℝ)) :
    tvVals 2 ((0, q) :: pq) = |q| / 2 + tvVals 2 pq := by
  rw [tvVals_cons]; simp

section AlignConsequences
variable {κ : Type} [DecidableEq κ]

/-- **KL matches outcomes by label**: with duplicate-free keys in `t2`, storing either table in
another order does not change `D(t1‖t2)`. -/
theorem kl_label_invariant (log : ℝ → ℝ) {t1 t1' t2 t2' : Tab κ ℝ} (h1 : t1.Perm t1')
    (h2 : t2.Perm t2') (hnd : (keys t2).Nodup) :
    klVals log (alignPair t1 t2) = klVals log (alignPair t1' t2') := by
  rw [← alignPair_right_perm t1' h2 hnd]
  exact Lemmas.Diverge.klVals_perm log (alignPair_left_perm t2 h1)

/-- **KL over the union alignment** equals KL along `t1`: labels only `t2` has do not matter. -/
theorem kl_alignUnion (log : ℝ → ℝ) (t1 t2 : Tab κ ℝ) (hnd : (keys t1).Nodup) :
    klVals log (alignUnion t1 t2) = klVals log (alignPair t1 t2) := by
  rw [alignUnion_eq t1 t2 hnd]
  apply klVals_append_zero
  intro r hr
  obtain ⟨k, _, rfl⟩ := List.mem_map.mp hr
  rfl

/-- **The variational distance matches outcomes by label**: with duplicate-free keys, storing
either table in another order does not change it. -/
theorem tv_label_invariant {t1 t1' t2 t2' : Tab κ ℝ} (h1 : t1.Perm t1') (h2 : t2.Perm t2')
    (hnd1 : (keys t1).Nodup) (hnd2 : (keys t2).Nodup) :
    tvVals 2 (alignUnion t1 t2) = tvVals 2 (alignUnion t1' t2') :=
  Lemmas.Diverge.tvVals_perm 2 (alignUnion_perm h1 h2 hnd1 hnd2)

/-- **The variational distance of two tables is symmetric.** -/
theorem tv_table_symm (t1 t2 : Tab κ ℝ) :
    tvVals 2 (alignUnion t2 t1) = tvVals 2 (alignUnion t1 t2) := by
  rw [Lemmas.Diverge.tvVals_perm 2 (Lemmas.Diverge.alignUnion_swap t1 t2), tvVals_swap]

end AlignConsequences

example : alignPair [("a", (1 : ℚ) / 2), ("b", 1 / 2)] [("b", (1 : ℚ) / 4), ("c", 1 / 4), ("a", 1 / 2)]
    = [(1 / 2, 1 / 2), (1 / 2, 1 / 4)] := by decide +kernel
example : alignUnion [("a", (1 : ℚ) / 2), ("b", 1 / 2)] [("b", (1 : ℚ) / 4), ("c", 1 / 4), ("a", 1 / 2)]
    = [(1 / 2, 1 / 2), (1 / 2, 1 / 4), (0, 1 / 4)] := by decide +kernel
example : tvVals (2 : ℚ) (alignUnion [("a", (1 : ℚ) / 2), ("b", 1 / 2)]
    [("b", (1 : ℚ) / 4), ("c", 1 / 4), ("a", 1 / 2)]) = 1 / 4 := by decide +kernel

/-! ## Symmetry -/

/-- **The variational distance is symmetric.** -/
theorem tv_symm (pq : List (ℝ × ℝ)) : tvVals 2 (pq.map Prod.swap) = tvVals 2 pq :=
  tvVals_swap pq

/-- **The Bhattacharyya coefficient is symmetric.** -/
theorem bc_symm (pq : List (ℝ × ℝ)) :
    bcVals Real.sqrt (pq.map Prod.swap) = bcVals Real.sqrt pq :=
  bcVals_swap pq

/-- **The Hellinger distance is symmetric.** -/
theorem hellinger_symm (pq : List (ℝ × ℝ)) :
    hellingerVals Real.sqrt (pq.map Prod.swap) = hellingerVals Real.sqrt pq := by
  unfold hellingerVals; rw [bcVals_swap]

/-- **JSD is symmetric**: permuting the components together with their weights leaves it
unchanged (components of a common length `n`). -/
theorem jsd_perm (log : ℝ → ℝ) {l l' : List (List ℝ × ℝ)} (h : l.Perm l') (n : Nat)
    (hlen : ∀ r ∈ l, r.1.length = n) :
    jsdVals log (l.map Prod.fst) (l.map Prod.snd)
      = jsdVals log (l'.map Prod.fst) (l'.map Prod.snd) :=
  Lemmas.Diverge.jsd_perm log h n hlen

/-- **JSD of two components is symmetric.** -/
theorem jsd_symm (log : ℝ → ℝ) (p1 p2 : List ℝ) (w1 w2 : ℝ) (hlen : p1.length = p2.length) :
    jsdVals log [p1, p2] [w1, w2] = jsdVals log [p2, p1] [w2, w1] := by
  have := Lemmas.Diverge.jsd_perm log (List.Perm.swap (p2, w2) (p1, w1) []) p2.length
    (by intro r hr; simp at hr; rcases hr with rfl | rfl <;> simp [hlen])
  simpa using this

/-! ## Variational distance, Bhattacharyya coefficient, Hellinger distance -/

/-- **Variational distance definition**: `½ Σ |p − q|`. -/
theorem tv_eq_def (pq : List (ℝ × ℝ)) :
    tvVals 2 pq = (pq.map (fun r => |r.1 - r.2|)).sum / 2 :=
  tvVals_eq pq

/-- The variational distance is non-negative. -/
theorem tv_nonneg (pq : List (ℝ × ℝ)) : 0 ≤ tvVals 2 pq := tvVals_nonneg pq

/-- **`TV ≤ 1`** for non-negative vectors of total mass at most one. -/
theorem tv_le_one (pq : List (ℝ × ℝ)) (hnn : ∀ r ∈ pq, 0 ≤ r.1 ∧ 0 ≤ r.2)
    (hp : (pq.map Prod.fst).sum ≤ 1) (hq : (pq.map Prod.snd).sum ≤ 1) : tvVals 2 pq ≤ 1 := by
  have := tvVals_le pq hnn
  linarith

/-- **`TV = 0` exactly when the vectors agree** at every label. -/
theorem tv_eq_zero_iff (pq : List (ℝ × ℝ)) : tvVals 2 pq = 0 ↔ ∀ r ∈ pq, r.1 = r.2 :=
  tvVals_eq_zero_iff pq

/-- **Bhattacharyya coefficient definition**: `Σ √(p q)`. -/
theorem bc_eq_def (pq : List (ℝ × ℝ)) :
    bcVals Real.sqrt pq = (pq.map (fun r => Real.sqrt (r.1 * r.2))).sum :=
  bcVals_eq pq

/-- The Bhattacharyya coefficient is non-negative. -/
theorem bc_nonneg (pq : List (ℝ × ℝ)) : 0 ≤ bcVals Real.sqrt pq := bcVals_nonneg pq

/-- **`BC ≤ 1`** (termwise AM–GM) for non-negative vectors of total mass at most one. -/
theorem bc_le_one (pq : List (ℝ × ℝ)) (hnn : ∀ r ∈ pq, 0 ≤ r.1 ∧ 0 ≤ r.2)
    (hp : (pq.map Prod.fst).sum ≤ 1) (hq : (pq.map Prod.snd).sum ≤ 1) :
    bcVals Real.sqrt pq ≤ 1 := by
  have := bcVals_le pq hnn
  linarith

/-- **The Hellinger distance `√(1 − BC)` is well defined and lies in `[0, 1]`**, and its square
is `1 − BC`. -/
theorem hellinger_mem_unit (pq : List (ℝ × ℝ)) (hnn : ∀ r ∈ pq, 0 ≤ r.1 ∧ 0 ≤ r.2)
    (hp : (pq.map Prod.fst).sum ≤ 1) (hq : (pq.map Prod.snd).sum ≤ 1) :
    0 ≤ hellingerVals Real.sqrt pq ∧ hellingerVals Real.sqrt pq ≤ 1
      ∧ (hellingerVals Real.sqrt pq) ^ 2 = 1 - bcVals Real.sqrt pq := by
  unfold hellingerVals
  have h1 := bc_le_one pq hnn hp hq
  have h0 := bcVals_nonneg pq
  refine ⟨Real.sqrt_nonneg _, ?_, Real.sq_sqrt (by linarith)⟩
  rw [Real.sqrt_le_one]
  linarith

/-- **Hellinger distance, textbook form**: `√(½ Σ (√p − √q)²)` for probability vectors. -/
theorem hellinger_eq_def (pq : List (ℝ × ℝ)) (hnn : ∀ r ∈ pq, 0 ≤ r.1 ∧ 0 ≤ r.2)
    (hp : (pq.map Prod.fst).sum = 1) (hq : (pq.map Prod.snd).sum = 1) :
    hellingerVals Real.sqrt pq
      = Real.sqrt ((pq.map (fun r => (Real.sqrt r.1 - Real.sqrt r.2) ^ 2)).sum / 2) := by
  unfold hellingerVals; rw [one_sub_bc pq hnn hp hq]

example : tvVals (2 : ℚ) [((1 : ℚ) / 2, (1 : ℚ) / 4), (1 / 2, 3 / 4)] = 1 / 4 := by decide +kernel

/-! ## Jensen–Shannon divergence -/

section JSD
variable (pmfs : List (List ℝ)) (w : List ℝ) (n : Nat)

/-- **`JSD = Σ_i w_i · KL(p_i ‖ m)`** with `m = Σ_i w_i p_i` the mixture (`mixVals`), for aligned
non-negative pmfs of a common length and non-negative weights; every KL with `w_i > 0` is finite
because the mixture dominates `w_i p_i`; a component of weight `0` (whose KL may be infinite)
contributes `0`, which is what `getD 0` expresses. -/
theorem jsd_eq_sum_kl (hlw : pmfs.length = w.length) (hlen : ∀ pm ∈ pmfs, pm.length = n)
    (hnn : ∀ pm ∈ pmfs, ∀ p ∈ pm, 0 ≤ p) (hw : ∀ x ∈ w, 0 ≤ x) :
    jsdVals (Real.logb 2) pmfs w
        = ((pmfs.zip w).map (fun r =>
            r.2 * (klVals (Real.logb 2) (r.1.zip (mixVals pmfs w))).getD 0)).sum
      ∧ ∀ r ∈ pmfs.zip w, 0 < r.2 → klVals (Real.logb 2) (r.1.zip (mixVals pmfs w)) ≠ none := by
  have e1 : (pmfs.zip w).map Prod.fst = pmfs := List.map_fst_zip (by omega)
  have e2 : (pmfs.zip w).map Prod.snd = w := List.map_snd_zip (by omega)
  have hl : ∀ r ∈ pmfs.zip w, r.1.length = n := fun r hr => hlen r.1 (List.of_mem_zip hr).1
  have hn : ∀ r ∈ pmfs.zip w, 0 ≤ r.2 ∧ ∀ p ∈ r.1, 0 ≤ p :=
    fun r hr => ⟨hw r.2 (List.of_mem_zip hr).2, hnn r.1 (List.of_mem_zip hr).1⟩
  by_cases hne : pmfs.zip w = []
  · have hp : pmfs = [] := by rw [← e1, hne]; rfl
    have hw' : w = [] := by rw [← e2, hne]; rfl
    subst hp; subst hw'
    simp [jsdVals, mixVals, entropyVals, lsum]
  · constructor
    · have := jsd_eq_sum_klVals _ hn n hne hl
      rwa [e1, e2] at this
    · intro r hr hpos
      have := absCont_zip_mix _ hn n hne hl r hr hpos
      rw [e1, e2] at this
      rw [klVals_of_absCont this]
      exact Option.some_ne_none _

/-- **`JSD ≥ 0`** for aligned pmfs (each of total mass 1) and a probability vector of weights. -/
theorem jsd_nonneg (hlw : pmfs.length = w.length) (hlen : ∀ pm ∈ pmfs, pm.length = n)
    (hnn : ∀ pm ∈ pmfs, ∀ p ∈ pm, 0 ≤ p) (hp1 : ∀ pm ∈ pmfs, pm.sum = 1)
    (hw : ∀ x ∈ w, 0 ≤ x) (hw1 : w.sum = 1) :
    0 ≤ jsdVals (Real.logb 2) pmfs w := by
  have e1 : (pmfs.zip w).map Prod.fst = pmfs := List.map_fst_zip (by omega)
  have e2 : (pmfs.zip w).map Prod.snd = w := List.map_snd_zip (by omega)
  have hne : pmfs.zip w ≠ [] := by
    intro h
    have : w = [] := by rw [← e2, h]; rfl
    rw [this] at hw1; simp at hw1
  have := Lemmas.Diverge.jsd_nonneg (pmfs.zip w)
    (fun r hr => ⟨hw r.2 (List.of_mem_zip hr).2, hnn r.1 (List.of_mem_zip hr).1⟩) n hne
    (fun r hr => hlen r.1 (List.of_mem_zip hr).1)
    (fun r hr => hp1 r.1 (List.of_mem_zip hr).1) (by rw [e2]; exact hw1)
  rwa [e1, e2] at this

/-- **`JSD ≤ H(w)`**: the Jensen–Shannon divergence is at most the entropy of the weights
(`w_i p_i(x) ≤ m(x)` gives `KL(p_i‖m) ≤ log₂(1/w_i)`). Weights need not sum to one here. -/
theorem jsd_le_entropy_weights (hlw : pmfs.length = w.length) (hne : pmfs ≠ [])
    (hlen : ∀ pm ∈ pmfs, pm.length = n)
    (hnn : ∀ pm ∈ pmfs, ∀ p ∈ pm, 0 ≤ p) (hp1 : ∀ pm ∈ pmfs, pm.sum = 1)
    (hw : ∀ x ∈ w, 0 ≤ x) :
    jsdVals (Real.logb 2) pmfs w ≤ entropyVals (Real.logb 2) w := by
  have e1 : (pmfs.zip w).map Prod.fst = pmfs := List.map_fst_zip (by omega)
  have e2 : (pmfs.zip w).map Prod.snd = w := List.map_snd_zip (by omega)
  have hne' : pmfs.zip w ≠ [] := by
    intro h
    apply hne; rw [← e1, h]; rfl
  have := Lemmas.Diverge.jsd_le_entropy_weights (pmfs.zip w)
    (fun r hr => ⟨hw r.2 (List.of_mem_zip hr).2, hnn r.1 (List.of_mem_zip hr).1⟩) n hne'
    (fun r hr => hlen r.1 (List.of_mem_zip hr).1)
    (fun r hr => hp1 r.1 (List.of_mem_zip hr).1)
  rwa [e1, e2] at this

end JSD

/-- Non-vacuity of the JSD hypotheses: two point masses with weights `1/4, 3/4`. -/
example : ([[1, 0], [0, 1]] : List (List ℝ)).length = ([1 / 4, 3 / 4] : List ℝ).length
    ∧ (∀ pm ∈ ([[1, 0], [0, 1]] : List (List ℝ)), pm.length = 2)
    ∧ (∀ pm ∈ ([[1, 0], [0, 1]] : List (List ℝ)), ∀ p ∈ pm, 0 ≤ p)
    ∧ (∀ pm ∈ ([[1, 0], [0, 1]] : List (List ℝ)), pm.sum = 1)
    ∧ (∀ x ∈ ([1 / 4, 3 / 4] : List ℝ), 0 ≤ x) ∧ ([1 / 4, 3 / 4] : List ℝ).sum = 1 := by
  refine ⟨rfl, ?_, ?_, ?_, ?_, ?_⟩
  · intro pm h; simp at h; rcases h with rfl | rfl <;> rfl
  · intro pm h p hp; simp at h; rcases h with rfl | rfl <;> simp at hp <;>
      rcases hp with rfl | rfl <;> norm_num
  · intro pm h; simp at h; rcases h with rfl | rfl <;> simp
  · intro x h; simp at h; rcases h with rfl | rfl <;> norm_num
  · norm_num

example : mixVals [[(1 : ℚ), 0], [0, 1]] [1 / 4, 3 / 4] = [1 / 4, 3 / 4] := by decide +kernel

/-! ## Pinsker's inequality -/

/-- **Pinsker**: `2 · TV² ≤ ln 2 · KL` (KL in bits) for probability vectors with finite KL. -/
theorem pinsker (pq : List (ℝ × ℝ)) (d : ℝ) (hnn : ∀ r ∈ pq, 0 ≤ r.1 ∧ 0 ≤ r.2)
    (hp : (pq.map Prod.fst).sum = 1) (hq : (pq.map Prod.snd).sum = 1)
    (h : klVals (Real.logb 2) pq = some d) :
    2 * (tvVals 2 pq) ^ 2 ≤ Real.log 2 * d := by
  obtain ⟨hac, rfl⟩ := klVals_eq_some h
  exact pinsker_list pq hnn hac hp hq

/-! ## The divergence family through the power sum (orders `a ≠ 1`) -/

/-- **Power sum**: `Σ p^a q^b` over the common support. -/
theorem powerSum_def (a b : ℝ) (pq : List (ℝ × ℝ)) :
    powerSum realOps a b pq
      = ((pq.filter (fun r => decide (r.1 ≠ 0 ∧ r.2 ≠ 0))).map
          (fun r => r.1 ^ a * r.2 ^ b)).sum :=
  powerSum_eq a b pq

/-- **Rényi divergence** of order `a`: `log₂(Σ p^a q^{1−a}) / (a − 1)` over the common support. -/
theorem renyiDiv_def (a : ℝ) (pq : List (ℝ × ℝ)) :
    renyiDiv realOps a pq
      = Real.logb 2 (((pq.filter (fun r => decide (r.1 ≠ 0 ∧ r.2 ≠ 0))).map
          (fun r => r.1 ^ a * r.2 ^ (1 - a))).sum) / (a - 1) := by
  unfold renyiDiv; rw [powerSum_eq]; rfl

/-- **Tsallis (= Hellinger) divergence** of order `a`: `(Σ p^a q^{1−a} − 1) / (a − 1)`. -/
theorem tsallisDiv_def (a : ℝ) (pq : List (ℝ × ℝ)) :
    tsallisDiv realOps a pq
      = (((pq.filter (fun r => decide (r.1 ≠ 0 ∧ r.2 ≠ 0))).map
          (fun r => r.1 ^ a * r.2 ^ (1 - a))).sum - 1) / (a - 1) := by
  unfold tsallisDiv; rw [powerSum_eq]

/-- **Alpha divergence**: `4 (1 − Σ p^{(1−a)/2} q^{(1+a)/2}) / (1 − a²)`. -/
theorem alphaDiv_def (a : ℝ) (pq : List (ℝ × ℝ)) :
    alphaDiv realOps 2 4 a pq
      = 4 * (1 - ((pq.filter (fun r => decide (r.1 ≠ 0 ∧ r.2 ≠ 0))).map
          (fun r => r.1 ^ ((1 - a) / 2) * r.2 ^ ((1 + a) / 2))).sum) / (1 - a * a) := by
  unfold alphaDiv; rw [powerSum_eq]

/-- **Power sum of a vector with itself**: exponents adding up to one give `Σ p`. -/
theorem powerSum_self (a b : ℝ) (hab : a + b = 1) (ps : List ℝ) (hnn : ∀ p ∈ ps, 0 ≤ p) :
    powerSum realOps a b (ps.map (fun p => (p, p))) = ps.sum :=
  Lemmas.Diverge.powerSum_self a b hab ps hnn

/-- **Rényi divergence of a probability vector from itself is 0.** -/
theorem renyiDiv_self (a : ℝ) (ps : List ℝ) (hnn : ∀ p ∈ ps, 0 ≤ p) (hs : ps.sum = 1) :
    renyiDiv realOps a (ps.map (fun p => (p, p))) = 0 := by
  unfold renyiDiv
  rw [Lemmas.Diverge.powerSum_self a (1 - a) (by ring) ps hnn, hs]
  simp [realOps]

/-- **Tsallis divergence of a probability vector from itself is 0.** -/
theorem tsallisDiv_self (a : ℝ) (ps : List ℝ) (hnn : ∀ p ∈ ps, 0 ≤ p) (hs : ps.sum = 1) :
    tsallisDiv realOps a (ps.map (fun p => (p, p))) = 0 := by
  unfold tsallisDiv
  rw [Lemmas.Diverge.powerSum_self a (1 - a) (by ring) ps hnn, hs]
  simp

/-- **Alpha divergence of a probability vector from itself is 0.** -/
theorem alphaDiv_self (a : ℝ) (ps : List ℝ) (hnn : ∀ p ∈ ps, 0 ≤ p) (hs : ps.sum = 1) :
    alphaDiv realOps 2 4 a (ps.map (fun p => (p, p))) = 0 := by
  unfold alphaDiv
  rw [Lemmas.Diverge.powerSum_self ((1 - a) / 2) ((1 + a) / 2) (by ring) ps hnn, hs]
  simp

/-- **Power-sum symmetry**: swapping the components and the exponents. -/
theorem powerSum_symm (R : RealOps ℝ) (a b : ℝ) (pq : List (ℝ × ℝ)) :
    powerSum R b a (pq.map Prod.swap) = powerSum R a b pq :=
  powerSum_swap R a b pq

/-- **Alpha divergence duality**: `D_a(p‖q) = D_{−a}(q‖p)`. -/
theorem alphaDiv_symm (R : RealOps ℝ) (two four a : ℝ) (pq : List (ℝ × ℝ)) :
    alphaDiv R two four (-a) (pq.map Prod.swap) = alphaDiv R two four a pq := by
  unfold alphaDiv
  have e1 : (1 - -a) / two = (1 + a) / two := by ring
  have e2 : (1 + -a) / two = (1 - a) / two := by ring
  rw [e1, e2, powerSum_swap]
  ring

/-! ## Earth mover's distance -/

/-- **List matrices are matrices of entry functions**, so the statements below, written for
`mat n m D = [[D i j | j < m] | i < n]`, cover all rectangular lists of rows. -/
theorem emd_matrix_repr (M : List (List ℝ)) (n m : Nat) (hlen : M.length = n)
    (hrow : ∀ row ∈ M, row.length = m) :
    M = mat n m (fun i j => (M.getD i []).getD j 0) :=
  mat_getD M n m hlen hrow

/-- **Cost of a plan**: `planCost` is `Σ_i Σ_j D(i,j) π(i,j)`. -/
theorem planCost_eq (n m : Nat) (D π : Nat → Nat → ℝ) :
    planCost (mat n m D) (mat n m π) = rsum n (fun i => rsum m (fun j => D i j * π i j)) :=
  planCost_mat n m D π

/-- **Weak duality**: for a plan with non-negative entries, row sums `p` and column sums `q`,
and potentials with `f i + g j ≤ D i j`, the dual value is at most the cost of the plan. -/
theorem emd_weak_duality (n m : Nat) (D π : Nat → Nat → ℝ) (p q f g : Nat → ℝ)
    (hπ : ∀ i j, i < n → j < m → 0 ≤ π i j)
    (hrow : ∀ i, i < n → rsum m (fun j => π i j) = p i)
    (hcol : ∀ j, j < m → rsum n (fun i => π i j) = q j)
    (hfg : ∀ i j, i < n → j < m → f i + g j ≤ D i j) :
    rsum n (fun i => f i * p i) + rsum m (fun j => g j * q j)
      ≤ planCost (mat n m D) (mat n m π) :=
  Lemmas.Diverge.emd_weak_duality n m D π p q f g hπ hrow hcol hfg

/-- **Categorical EMD certificate.** For the 0–1 metric, every feasible plan from `p` to `q`
costs at least the variational distance (lower bound, via the potentials `f = 1_{p>q}`,
`g = −f`), and for non-negative `p`, `q` of equal total mass the explicit plan `catPlan` is
feasible and costs exactly the variational distance. Hence the optimum is `tvVals 2`, which is
what `emdCategorical` returns. -/
theorem emd_categorical_cert (n : Nat) (p q : Nat → ℝ) :
    (∀ π : Nat → Nat → ℝ, (∀ i j, i < n → j < n → 0 ≤ π i j) →
        (∀ i, i < n → rsum n (fun j => π i j) = p i) →
        (∀ j, j < n → rsum n (fun i => π i j) = q j) →
        emdCategorical 2 ((List.range n).map (fun i => (p i, q i)))
          ≤ planCost (mat n n (fun i j => if i = j then 0 else 1)) (mat n n π))
    ∧ ((∀ i, i < n → 0 ≤ p i) → (∀ i, i < n → 0 ≤ q i) → rsum n p = rsum n q →
        (∀ i j, i < n → j < n → 0 ≤ catPlan n p q i j)
        ∧ (∀ i, i < n → rsum n (fun j => catPlan n p q i j) = p i)
        ∧ (∀ j, j < n → rsum n (fun i => catPlan n p q i j) = q j)
        ∧ planCost (mat n n (fun i j => if i = j then 0 else 1)) (mat n n (catPlan n p q))
            = emdCategorical 2 ((List.range n).map (fun i => (p i, q i)))) := by
  refine ⟨fun π hπ hrow hcol => emd_categorical_lower n π p q hπ hrow hcol, ?_⟩
  intro hp hq hs
  exact ⟨fun i j hi _ => catPlan_nonneg n p q hp hq i j hi, catPlan_row n p q hs,
    catPlan_col n p q hs, catPlan_cost n p q hs⟩

/-- Non-vacuity of the categorical certificate: `p = (1/2, 1/2)`, `q = (1/4, 3/4)`. -/
example : (∀ i, i < 2 → (0 : ℝ) ≤ (fun _ => 1 / 2 : Nat → ℝ) i)
    ∧ (∀ i, i < 2 → (0 : ℝ) ≤ (fun i => if i = 0 then 1 / 4 else 3 / 4 : Nat → ℝ) i)
    ∧ rsum 2 (fun _ => 1 / 2 : Nat → ℝ)
        = rsum 2 (fun i => if i = 0 then 1 / 4 else 3 / 4 : Nat → ℝ) := by
  refine ⟨fun i _ => by norm_num, fun i _ => by dsimp only; split <;> norm_num, ?_⟩
  simp [rsum, List.range_succ]; norm_num

example : planCost [[(0 : ℚ), 1], [1, 0]] [[(1 : ℚ) / 4, 1 / 4], [0, 1 / 2]] = 1 / 4 := by
  decide +kernel
example : emdCategorical (2 : ℚ) [((1 : ℚ) / 2, (1 : ℚ) / 4), (1 / 2, 3 / 4)] = 1 / 4 := by
  decide +kernel

/-! ## Maximum correlation -/

/-- **Entries of the companion matrix**:
`A[j][k] = Σ_i P[i][j] P[i][k] / (p_X(i) p_Y(k))`, rows or columns of zero marginal skipped. -/
theorem maxcorr_entry (P : List (List ℝ)) (j k : Nat)
    (hj : j < (P.head?.getD []).length) (hk : k < (P.head?.getD []).length) :
    ((maxcorrCompanion P).getD j []).getD k 0
      = (P.map (fun row => if row.sum = 0 ∨ colSum P k = 0 then 0
          else row.getD j 0 * row.getD k 0 / (row.sum * colSum P k))).sum :=
  maxcorrCompanion_getD P j k hj hk

/-- **The columns of the companion matrix sum to one** (rectangular non-negative `P`, column `k`
of positive marginal): the all-ones row vector is a left eigenvector for the eigenvalue `1`,
the top singular value of dit's `Q`. -/
theorem maxcorr_cols_sum_one (P : List (List ℝ))
    (hlen : ∀ row ∈ P, row.length = (P.head?.getD []).length)
    (hnn : ∀ row ∈ P, ∀ x ∈ row, 0 ≤ x) (k : Nat) (hk : k < (P.head?.getD []).length)
    (hk0 : colSum P k ≠ 0) :
    ((maxcorrCompanion P).map (fun row => row.getD k 0)).sum = 1 :=
  Lemmas.Diverge.maxcorr_cols_sum_one P hlen hnn k hk hk0

/-- **Eigenvalues lie in `[−1, 1]`**: every real eigenvalue `λ` (with an eigenvector `v ≠ 0`) of
the companion matrix of a rectangular non-negative `P` has `|λ| ≤ 1`; so the maximum correlation
(the square root of its second largest eigenvalue) is at most one. -/
theorem maxcorr_eigen_abs_le_one (P : List (List ℝ)) (n : Nat) (hlen : ∀ row ∈ P, row.length = n)
    (hnn : ∀ row ∈ P, ∀ x ∈ row, 0 ≤ x) (v : Nat → ℝ) (lam : ℝ)
    (hv : ∃ j, j < n ∧ v j ≠ 0)
    (heig : ∀ j, j < n → rsum n (fun k => ccEntry P j k * v k) = lam * v j) :
    |lam| ≤ 1 :=
  cc_eigen_abs_le_one P n hlen hnn v lam hv heig

/-- **Independent variables**: if `P[i][j] = a_i b_j` (marginals `a`, `b`, all `b_j ≠ 0`) the
companion matrix has constant rows, `A[j][k] = b_j`: it has rank one. -/
theorem maxcorr_indep (a b : List ℝ) (hne : a ≠ []) (ha : a.sum = 1) (hb : b.sum = 1)
    (hb0 : ∀ x ∈ b, x ≠ 0) :
    maxcorrCompanion (outer a b) = b.map (fun bj => b.map (fun _ => bj)) :=
  maxcorrCompanion_outer a b hne ha hb hb0

/-- **Independent variables have maximum correlation 0**: a matrix with constant rows
`A[j][k] = b_j`, `Σ b = 1`, has `1` as its only non-zero eigenvalue, so the second largest
eigenvalue is `0`. -/
theorem maxcorr_indep_eigen (n : Nat) (b v : Nat → ℝ) (lam : ℝ) (hb : rsum n b = 1)
    (hv : ∃ j, j < n ∧ v j ≠ 0) (hlam : lam ≠ 0)
    (heig : ∀ j, j < n → rsum n (fun k => b j * v k) = lam * v j) : lam = 1 :=
  rank_one_eigen n b v lam hb hv hlam heig

/-- Non-vacuity of the hypotheses of `maxcorr_indep`. -/
example : ([1 / 4, 3 / 4] : List ℝ) ≠ [] ∧ ([1 / 4, 3 / 4] : List ℝ).sum = 1
    ∧ ([1 / 2, 1 / 2] : List ℝ).sum = 1 ∧ ∀ x ∈ ([1 / 2, 1 / 2] : List ℝ), x ≠ 0 := by
  refine ⟨by simp, by norm_num, by norm_num, ?_⟩
  intro x h; simp at h; rw [h]; norm_num

/-- Non-vacuity of the hypotheses of `maxcorr_cols_sum_one`. -/
example : (∀ row ∈ ([[3 / 8, 1 / 8], [1 / 8, 3 / 8]] : List (List ℝ)),
      row.length = (([[3 / 8, 1 / 8], [1 / 8, 3 / 8]] : List (List ℝ)).head?.getD []).length)
    ∧ (∀ row ∈ ([[3 / 8, 1 / 8], [1 / 8, 3 / 8]] : List (List ℝ)), ∀ x ∈ row, 0 ≤ x)
    ∧ colSum ([[3 / 8, 1 / 8], [1 / 8, 3 / 8]] : List (List ℝ)) 0 ≠ 0 := by
  refine ⟨?_, ?_, ?_⟩
  · intro row h; simp at h; rcases h with rfl | rfl <;> rfl
  · intro row h x hx; simp at h; rcases h with rfl | rfl <;> simp at hx <;>
      rcases hx with rfl | rfl <;> norm_num
  · simp [colSum]; norm_num

example : maxcorrCompanion [[(1 : ℚ) / 8, 1 / 8], [3 / 8, 3 / 8]]
    = [[1 / 2, 1 / 2], [1 / 2, 1 / 2]] := by decide +kernel
/-- Independent: characteristic polynomial `λ² − λ`, eigenvalues `1, 0`. -/
example : charPoly (fun n => (n : ℚ)) (maxcorrCompanion [[(1 : ℚ) / 8, 1 / 8], [3 / 8, 3 / 8]])
    = [-1, 0] := by decide +kernel
/-- Perfectly correlated: `λ² − 2λ + 1`, eigenvalues `1, 1`. -/
example : charPoly (fun n => (n : ℚ)) (maxcorrCompanion [[(1 : ℚ) / 2, 0], [0, 1 / 2]])
    = [-2, 1] := by decide +kernel
/-- A dependent pair: `λ² − (5/4)λ + 1/4 = (λ − 1)(λ − 1/4)`, maximum correlation `1/2`. -/
example : charPoly (fun n => (n : ℚ)) (maxcorrCompanion [[(3 : ℚ) / 8, 1 / 8], [1 / 8, 3 / 8]])
    = [-5 / 4, 1 / 4] := by decide +kernel

end Dit.Props.C06
