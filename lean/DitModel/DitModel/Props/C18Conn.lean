/-
C18 (connected-information part) — "the connected informations are non-negative and sum, from
order 2, to the total correlation".

`ConnectedInformations._compute` (dit/profiles/schneidman.py) is `-np.diff` of the entropies of
the chain returned by `marginal_maxent_dists`; the model is `connectedProfile H chain
= negDiffs (chain.map H)` (Core/Connected.lean). dit's optimiser is not modelled (C14): the
statements below are about every chain that is what `marginal_maxent_dists` is meant to return,
`IsMaxentChain t as chain` (Lemmas/Connected.lean): `n + 1` tables on the product space of the
`n` alphabets `as`, the first uniform, the `k`-th (`1 ≤ k ≤ n`) with the `k`-way marginals of `t`
(`Feasible t space (kWayGroups n k)` of C14) and of maximal entropy among the tables with those
marginals (`∀ p, Feasible … p → H p ≤ H P_k`, the way C14 states optimality). The entropy
functional is C14's, `Hbits p = entropyVals (Real.logb 2) (vals p)`.
Helper lemmas: Lemmas/Connected.lean.
-/
import DitModel.Lemmas.Connected

set_option linter.unusedSectionVars false

namespace Dit.Props.C18Conn
open Dit Dit.Lemmas.Table Dit.Lemmas.Maxent Dit.Lemmas.Connected

/-! ## `-np.diff` -/

section NegDiffs
variable {α : Type} [AddCommGroup α]

/-- **`-np.diff`, length**: one entry fewer than the list (none for lists of length ≤ 1). -/
theorem negDiffs_length (l : List α) : (negDiffs l).length = l.length - 1 :=
  Lemmas.Connected.negDiffs_length l

/-- **`-np.diff`, entries**: entry `k` is `h_k − h_{k+1}`. -/
theorem negDiffs_getElem (l : List α) (k : Nat) (h : k + 1 < l.length) :
    (negDiffs l)[k]'(by rw [Lemmas.Connected.negDiffs_length]; omega) = l[k] - l[k + 1] :=
  Lemmas.Connected.negDiffs_getElem l k h

/-- **`-np.diff`, telescoping**: the entries sum to the first minus the last element. -/
theorem negDiffs_sum (l : List α) (hne : l ≠ []) :
    (negDiffs l).sum = l.head hne - l.getLast hne :=
  Lemmas.Connected.negDiffs_sum l hne

/-- **`-np.diff`, telescoping from index `j`**: the entries from index `j` on sum to
`h_j − last`. -/
theorem negDiffs_sum_drop (l : List α) (j : Nat) (hj : j < l.length) :
    ((negDiffs l).drop j).sum = l[j] - l.getLast (List.ne_nil_of_length_pos (by omega)) :=
  Lemmas.Connected.negDiffs_sum_drop l j hj

/-- **`-np.diff`, sign**: if no entry of the list exceeds its predecessor, every difference is
non-negative. -/
theorem negDiffs_nonneg [PartialOrder α] [IsOrderedAddMonoid α] (l : List α)
    (h : ∀ (k : Nat) (hk : k + 1 < l.length), l[k + 1] ≤ l[k]) : ∀ x ∈ negDiffs l, 0 ≤ x :=
  Lemmas.Connected.negDiffs_nonneg l h

/-- Non-vacuity, computed: a non-increasing list of rationals. -/
example : negDiffs [(2 : ℚ), 3 / 2, 3 / 2, 1] = [1 / 2, 0, 1 / 2] := by decide +kernel
example : ∀ (k : Nat) (hk : k + 1 < [(2 : ℝ), 3 / 2, 3 / 2, 1].length),
    [(2 : ℝ), 3 / 2, 3 / 2, 1][k + 1] ≤ [(2 : ℝ), 3 / 2, 3 / 2, 1][k] := by
  intro k hk
  have : k + 1 < 4 := by simpa using hk
  obtain rfl | rfl | rfl : k = 0 ∨ k = 1 ∨ k = 2 := by omega
  all_goals norm_num

end NegDiffs

/-! ## The connected informations of a maximum-entropy chain -/

section Chain
variable {σ : Type} [DecidableEq σ]
variable (t : Tab (List σ) ℝ) (as : List (List σ)) (chain : List (Tab (List σ) ℝ))

/-- **The profile has one entry per order** `1..n`. -/
theorem connected_length (hc : IsMaxentChain t as chain) :
    (connectedProfile Hbits chain).length = as.length := by
  unfold connectedProfile
  rw [Lemmas.Connected.negDiffs_length, List.length_map, hc.len]
  rfl

/-- **The connected informations are non-negative.** For a probability table `t` on the product
space of duplicate-free alphabets and a maximum-entropy chain of `t`, every entry of the profile
is `≥ 0`: the uniform table has the largest entropy of all probability tables on the space
(`uniform_max_entropy`), and a table with the `(k+1)`-way marginals of `t` has its `k`-way
marginals (`marginal_of_submarginal`), so the `k`-way maximiser has at least its entropy
(`chain_monotone`). Mass 1 is used for the step from order 0 to order 1 only. -/
theorem connected_nonneg (hnd : ∀ a ∈ as, a.Nodup) (hk : keys t = cartesian as)
    (htn : ∀ r ∈ t, 0 ≤ r.2) (hmass : mass t = 1) (hc : IsMaxentChain t as chain) :
    ∀ x ∈ connectedProfile Hbits chain, 0 ≤ x :=
  Lemmas.Connected.negDiffs_nonneg _ (chain_antitone t as chain hnd hk htn hmass hc)

/-- **The first entry** (order 1) is `log₂ |space| − Σ_i H(X_i)`: the entropy of the uniform
table minus that of the product of the marginals (`maxent_singletons`). Needs at least one
variable. -/
theorem connected_first (hnd : ∀ a ∈ as, a.Nodup) (hk : keys t = cartesian as)
    (htn : ∀ r ∈ t, 0 ≤ r.2) (hmass : mass t = 1) (hc : IsMaxentChain t as chain)
    (hn : 1 ≤ as.length) :
    (connectedProfile Hbits chain)[0]?
      = some (Real.logb 2 ((cartesian as).length : ℝ)
          - ((List.range as.length).map (fun i => entropyOf (Real.logb 2) t [i])).sum) :=
  (negDiffs_getElem? _ 0 _).mpr ⟨_, _, chain_H_zero t as chain hnd hk htn hmass hc,
    chain_H_one t as chain hnd hk htn hmass hc hn, rfl⟩

/-- **From order 2 on, the connected informations sum to the total correlation**
`Σ_i H(X_i) − H(X_0 … X_{n−1})`, written both with `entropyOf` and as the value of C05's
combination `tcC (singletons n) []`: the sum telescopes to `H(P_1) − H(P_n)`, `P_1` has the
entropy of the product of the marginals and `P_n = t` (`chain_end`). -/
theorem connected_sum_tc (hnd : ∀ a ∈ as, a.Nodup) (hk : keys t = cartesian as)
    (htn : ∀ r ∈ t, 0 ≤ r.2) (hmass : mass t = 1) (hc : IsMaxentChain t as chain)
    (hn : 1 ≤ as.length) :
    ((connectedProfile Hbits chain).drop 1).sum
        = ((List.range as.length).map (fun i => entropyOf (Real.logb 2) t [i])).sum
          - entropyOf (Real.logb 2) t (List.range as.length)
      ∧ ((connectedProfile Hbits chain).drop 1).sum
        = Comb.eval (Rat.castHom ℝ) (entropyOf (Real.logb 2) t) (tcC (singletons as.length) []) := by
  have hlen : (chain.map Hbits).length = as.length + 1 := by rw [List.length_map, hc.len]
  have h1 := chain_H_one t as chain hnd hk htn hmass hc hn
  have hl := chain_last t as chain hnd hk htn hmass hc hn
  have hlast : (chain.map Hbits).getLast (List.ne_nil_of_length_pos (by omega)) = Hbits t := by
    rw [List.getLast_eq_getElem]
    have : (chain.map Hbits)[as.length]? = some (Hbits t) := by rw [List.getElem?_map, hl]; rfl
    obtain ⟨_, h⟩ := List.getElem?_eq_some_iff.mp this
    simp only [hlen, Nat.add_sub_cancel]
    exact h
  have hjoint : entropyOf (Real.logb 2) t (List.range as.length) = Hbits t :=
    entropyOf_range_eq t as.length (by rw [hk]; exact nodup_cartesian hnd)
      (fun o ho => length_of_mem_cartesian (hk ▸ ho))
  have hsum : ((connectedProfile Hbits chain).drop 1).sum
      = ((List.range as.length).map (fun i => entropyOf (Real.logb 2) t [i])).sum
        - entropyOf (Real.logb 2) t (List.range as.length) := by
    unfold connectedProfile
    rw [Lemmas.Connected.negDiffs_sum_drop _ 1 (by omega), hlast, hjoint]
    congr 1
    obtain ⟨_, h⟩ := List.getElem?_eq_some_iff.mp h1
    exact h
  exact ⟨hsum, by rw [hsum, eval_tc_singletons t as.length hmass]⟩

/-- **All orders together** sum to `log₂ |space| − H(t)`. -/
theorem connected_sum_all (hnd : ∀ a ∈ as, a.Nodup) (hk : keys t = cartesian as)
    (htn : ∀ r ∈ t, 0 ≤ r.2) (hmass : mass t = 1) (hc : IsMaxentChain t as chain)
    (hn : 1 ≤ as.length) :
    (connectedProfile Hbits chain).sum
      = Real.logb 2 ((cartesian as).length : ℝ) - Hbits t := by
  have hlen : (chain.map Hbits).length = as.length + 1 := by rw [List.length_map, hc.len]
  have h0 := chain_H_zero t as chain hnd hk htn hmass hc
  have hl := chain_last t as chain hnd hk htn hmass hc hn
  have hne : chain.map Hbits ≠ [] := List.ne_nil_of_length_pos (by omega)
  have hlast : (chain.map Hbits).getLast hne = Hbits t := by
    rw [List.getLast_eq_getElem]
    have : (chain.map Hbits)[as.length]? = some (Hbits t) := by rw [List.getElem?_map, hl]; rfl
    obtain ⟨_, h⟩ := List.getElem?_eq_some_iff.mp this
    simp only [hlen, Nat.add_sub_cancel]
    exact h
  unfold connectedProfile
  rw [Lemmas.Connected.negDiffs_sum _ hne, hlast]
  congr 1
  rw [List.head_eq_getElem]
  obtain ⟨_, h⟩ := List.getElem?_eq_some_iff.mp h0
  exact h

/-- Non-vacuity of the hypotheses of `connected_*`: the correlated bits `exCorr` on the 2×2 space
with the chain `[uniform, product of the marginals, exCorr]`. -/
example : (∀ a ∈ exAlph, a.Nodup) ∧ keys exCorr = cartesian exAlph ∧ (∀ r ∈ exCorr, 0 ≤ r.2)
    ∧ mass exCorr = 1 ∧ 1 ≤ exAlph.length
    ∧ IsMaxentChain exCorr exAlph
        [uniformOn (fun k : Nat => (k : ℝ)) (cartesian exAlph),
         prodMarg exCorr (singletons 2) (cartesian exAlph), exCorr] :=
  ⟨exAlph_nodup, exCorr_keys, exCorr_nonneg, exCorr_mass, by decide,
    isMaxentChain_two exCorr [0, 1] [0, 1] exAlph_nodup exCorr_keys exCorr_nonneg exCorr_mass⟩

end Chain

end Dit.Props.C18Conn
