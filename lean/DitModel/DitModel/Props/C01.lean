/-
C01 — The constructor builds the specified probability table, or rejects the specification.

Theorems about `Dit.construct` (the model of `Distribution.__init__` /
`ScalarDistribution.__init__` with `sort=True`, `validate=True`) for every number type with a
commutative addition, every symbol type, every strict orders `symLt`/`outLt` and every
operations configuration `cfg` (the base-dependent tolerances of dit):

* the rejections, each as an exact characterisation in the order the checks are made
  (`construct_rejects_*`), and the success criterion (`construct_total`);
* the sample space, base and sparse flag of the result (`construct_space`, `construct_meta`);
* lookups: specified outcomes, the rest of the sample space, everything else
  (`construct_lookup_*`);
* the stored table: members of the space, duplicate-free, in sample-space order, row-aligned
  (`construct_keys_mem`, `construct_aligned`, `construct_sorted_sparse`, `construct_rows`),
  dense / trimmed / untrimmed contents (`construct_dense`, `construct_trimmed`,
  `construct_trimmed_keys`, `construct_untrimmed`);
* the alphabets (`construct_alphabets`, `construct_alphabets_none`,
  `construct_alphabets_nodup`, `construct_alphabets_length`).

Vocabulary (defined in Lemmas/Construct.lean, each literally a `let` of `Dit.construct`, see
`Dit.Lemmas.Construct.construct_eq`): `noSpace sp` — no sample space was passed; `ssArg outs sp`
— the list whose rows must have one length (the outcomes if no sample space was passed, the
passed list otherwise, nothing for a `CartesianProduct`); `spaceArg symLt outLt outs sp` — the
sample space that is built; `finish cfg space outs pmf base sparse trim` — the object that is
built (rows sorted by sample-space rank, then `make_sparse(trim)` or `make_dense`).
Helper lemmas: Lemmas/Construct.lean.
-/
import DitModel.Lemmas.Construct

set_option linter.unusedSectionVars false

namespace Dit.Props.C01
open Dit Dit.Lemmas.Table Dit.Lemmas.Construct

variable {σ α : Type} [DecidableEq σ] [AddCommMonoid α]
variable (cfg : NumCfg α) (symLt : σ → σ → Bool) (outLt : List σ → List σ → Bool)
  (outs : List (List σ)) (pmf : List α) (sp : SpaceArg σ) (base : Base) (sparse trim : Bool)
  (d : Dist σ α)

/-! ## Rejections -/

/-- **Length mismatch.** A pmf whose length differs from the number of outcomes is rejected
with `InvalidDistribution` (first check: nothing else is looked at). -/
theorem construct_rejects_length (h : pmf.length ≠ outs.length) :
    construct cfg symLt outLt outs pmf sp base sparse trim = .error .invalidDistribution :=
  construct_of_len_bad cfg symLt outLt outs pmf sp base sparse trim h

/-- **Empty specification.** No outcomes and no sample space: `InvalidDistribution`, whatever
the pmf. -/
theorem construct_rejects_empty :
    construct cfg symLt outLt [] pmf SpaceArg.none base sparse trim
      = .error .invalidDistribution :=
  (construct_invalidDistribution_iff cfg symLt outLt [] pmf SpaceArg.none base sparse trim).mpr
    (Or.inr ⟨rfl, rfl⟩)

/-- **`InvalidDistribution`, exactly.** The constructor raises `InvalidDistribution` iff the
lengths differ or there are neither outcomes nor a sample space. -/
theorem construct_rejects_distribution_iff :
    construct cfg symLt outLt outs pmf sp base sparse trim = .error .invalidDistribution ↔
      pmf.length ≠ outs.length ∨ (outs = [] ∧ noSpace sp = true) :=
  construct_invalidDistribution_iff cfg symLt outLt outs pmf sp base sparse trim

/-- **Ragged.** The constructor raises `ditException` iff the first two checks pass and two
rows of the checked list (the outcomes, or the supplied sample space if there is one) have
different lengths. -/
theorem construct_rejects_ragged :
    construct cfg symLt outLt outs pmf sp base sparse trim = .error .ditException ↔
      pmf.length = outs.length ∧ ¬ (outs = [] ∧ noSpace sp = true) ∧
      ∃ x ∈ ssArg outs sp, ∃ y ∈ ssArg outs sp, x.length ≠ y.length := by
  rw [construct_ditException_iff, raggedArg_eq_true_iff]

/-- **Outsider.** The constructor raises `InvalidOutcome` iff the first three checks pass and
some specified outcome is not a member of the sample space. (Only possible with a supplied
sample space: `construct_none_never_outsider`.) -/
theorem construct_rejects_outsider :
    construct cfg symLt outLt outs pmf sp base sparse trim = .error .invalidOutcome ↔
      pmf.length = outs.length ∧ ¬ (outs = [] ∧ noSpace sp = true) ∧
      (∀ x ∈ ssArg outs sp, ∀ y ∈ ssArg outs sp, x.length = y.length) ∧
      ∃ o ∈ outs, o ∉ (spaceArg symLt outLt outs sp).toList := by
  rw [construct_invalidOutcome_iff, raggedArg_eq_false_iff]

/-- **Unnormalised.** The constructor raises `InvalidNormalization` iff the four argument
checks pass and the sequential sum of the stored values of the built object fails the
configuration's `normOK` for the base. -/
theorem construct_rejects_norm :
    construct cfg symLt outLt outs pmf sp base sparse trim = .error .invalidNormalization ↔
      pmf.length = outs.length ∧ ¬ (outs = [] ∧ noSpace sp = true) ∧
      (∀ x ∈ ssArg outs sp, ∀ y ∈ ssArg outs sp, x.length = y.length) ∧
      (∀ o ∈ outs, o ∈ (spaceArg symLt outLt outs sp).toList) ∧
      cfg.normOK base (lsum (vals
        (finish cfg (spaceArg symLt outLt outs sp) outs pmf base sparse trim).tab)) = false := by
  rw [construct_invalidNormalization_iff, raggedArg_eq_false_iff]

/-- **Out of range.** The constructor raises `InvalidProbability` iff the four argument checks
and the normalisation check pass and some stored value of the built object fails the
configuration's `rangeOK` for the base. -/
theorem construct_rejects_range :
    construct cfg symLt outLt outs pmf sp base sparse trim = .error .invalidProbability ↔
      pmf.length = outs.length ∧ ¬ (outs = [] ∧ noSpace sp = true) ∧
      (∀ x ∈ ssArg outs sp, ∀ y ∈ ssArg outs sp, x.length = y.length) ∧
      (∀ o ∈ outs, o ∈ (spaceArg symLt outLt outs sp).toList) ∧
      cfg.normOK base (lsum (vals
        (finish cfg (spaceArg symLt outLt outs sp) outs pmf base sparse trim).tab)) = true ∧
      ∃ v ∈ vals (finish cfg (spaceArg symLt outLt outs sp) outs pmf base sparse trim).tab,
        cfg.rangeOK base v = false := by
  rw [construct_invalidProbability_iff, raggedArg_eq_false_iff]

/-- **Success, exactly.** The constructor returns an object iff none of the six rejection
conditions holds, and then the object is `finish …`: the specified rows sorted by sample-space
rank, made sparse (trimmed or not) or dense. Otherwise it returns one of the five errors
above (`Err` has no other value). -/
theorem construct_total :
    construct cfg symLt outLt outs pmf sp base sparse trim = .ok d ↔
      pmf.length = outs.length ∧ ¬ (outs = [] ∧ noSpace sp = true) ∧
      (∀ x ∈ ssArg outs sp, ∀ y ∈ ssArg outs sp, x.length = y.length) ∧
      (∀ o ∈ outs, o ∈ (spaceArg symLt outLt outs sp).toList) ∧
      cfg.normOK base (lsum (vals
        (finish cfg (spaceArg symLt outLt outs sp) outs pmf base sparse trim).tab)) = true ∧
      (∀ v ∈ vals (finish cfg (spaceArg symLt outLt outs sp) outs pmf base sparse trim).tab,
        cfg.rangeOK base v = true) ∧
      d = finish cfg (spaceArg symLt outLt outs sp) outs pmf base sparse trim := by
  rw [construct_ok_iff, raggedArg_eq_false_iff]

/-- **Untrimmed totals.** In sparse untrimmed mode the stored values are a permutation of the
given pmf, so the total that `normOK` sees is the sum of the given pmf and the values that
`rangeOK` sees are the given ones. -/
theorem construct_untrimmed_vals (hlen : pmf.length = outs.length) :
    (vals (finish cfg (spaceArg symLt outLt outs sp) outs pmf base true false).tab).Perm pmf ∧
    lsum (vals (finish cfg (spaceArg symLt outLt outs sp) outs pmf base true false).tab)
      = pmf.sum := by
  have hp : (vals (finish cfg (spaceArg symLt outLt outs sp) outs pmf base true false).tab).Perm
      pmf := by
    have := (tab_finish_untrimmed_perm cfg (spaceArg symLt outLt outs sp) outs pmf base).map
      (fun r => r.2)
    rw [show (outs.zip pmf).map (fun r => r.2) = pmf from vals_zip outs pmf hlen] at this
    exact this
  exact ⟨hp, by rw [lsum_eq_sum]; exact hp.sum_eq⟩

/-- **No outsider without a sample space.** When no sample space is passed and the outcomes
have one common length, every outcome is a member of the derived Cartesian space, so
`InvalidOutcome` cannot be raised by the constructor. -/
theorem construct_none_inside
    (hrect : ∀ x ∈ outs, ∀ y ∈ outs, x.length = y.length) :
    ∀ o ∈ outs, o ∈ (spaceArg symLt outLt outs SpaceArg.none).toList := by
  intro o ho
  show o ∈ cartesian ((alphabetsOf outs).map (isort symLt))
  have hs : sameLength outs = true := sameLength_iff.mpr hrect
  have hlen := length_eq_length_alphabetsOf hs ho
  rw [mem_cartesian_iff_getElem]
  refine ⟨by rw [List.length_map]; exact hlen, ?_⟩
  intro i h1 h2
  rw [List.getElem_map, mem_isort]
  rw [List.length_map] at h2
  exact (mem_alphabetsOf (List.getElem?_eq_getElem h2) _).mpr
    ⟨o, ho, List.getElem?_eq_getElem h1⟩

/-- **`InvalidOutcome` needs a supplied sample space.** Without one the constructor never
raises `InvalidOutcome`. -/
theorem construct_none_never_outsider :
    construct cfg symLt outLt outs pmf SpaceArg.none base sparse trim ≠ .error .invalidOutcome := by
  intro h
  obtain ⟨-, -, hrect, o, ho, hno⟩ := (construct_rejects_outsider ..).mp h
  exact hno (construct_none_inside symLt outLt outs hrect o ho)

/-! ## Sample space, base, sparse flag -/

/-- **Sample space.** No argument: the Cartesian product of the per-position alphabets of the
outcomes, each sorted. A plain sequence: that sequence, in the given order. A `SampleSpace`:
its outcomes, sorted. A `CartesianProduct`: the product of its alphabets, each sorted. -/
theorem construct_space (h : construct cfg symLt outLt outs pmf sp base sparse trim = .ok d) :
    d.space = match sp with
      | .none => .cart ((alphabetsOf outs).map (isort symLt))
      | .list l => .expl l
      | .sampleSpace l => .expl (isort outLt l)
      | .cartesian as => .cart (as.map (isort symLt)) := by
  obtain ⟨-, -, -, -, -, -, rfl⟩ := (construct_ok_iff ..).mp h
  rw [finish_space]
  cases sp <;> rfl

/-- **Base and mode.** The result carries the requested base and sparse flag. -/
theorem construct_meta (h : construct cfg symLt outLt outs pmf sp base sparse trim = .ok d) :
    d.base = base ∧ d.sparse = sparse := by
  obtain ⟨-, -, -, -, -, -, rfl⟩ := (construct_ok_iff ..).mp h
  exact ⟨finish_base .., finish_sparse ..⟩

/-- **Valid result.** The result passes `validate`: total and values satisfy the
configuration's checks, and every stored outcome is in the sample space. -/
theorem construct_valid (h : construct cfg symLt outLt outs pmf sp base sparse trim = .ok d) :
    d.validate cfg = none := by
  obtain ⟨-, -, -, h4, h5, h6, rfl⟩ := (construct_ok_iff ..).mp h
  rw [validate_finish _ _ _ _ _ _ _ h4, h5]
  have : (vals (finish cfg (spaceArg symLt outLt outs sp) outs pmf base sparse trim).tab).all
      (cfg.rangeOK base) = true := List.all_eq_true.mpr h6
  rw [this]; rfl

/-! ## Lookups -/

/-- **Specified outcomes, exact form.** For pairwise distinct outcomes, lookup of the `i`-th
specified outcome returns the `i`-th specified value, except that in sparse trimmed mode a
value the configuration deems null is read back as an exact zero. -/
theorem construct_lookup_specified_exact
    (h : construct cfg symLt outLt outs pmf sp base sparse trim = .ok d) (hnd : outs.Nodup)
    (i : Nat) (o : List σ) (p : α) (ho : outs[i]? = some o) (hp : pmf[i]? = some p) :
    d.get o = some (if sparse = true ∧ trim = true ∧ cfg.isNull base p = true then 0 else p) := by
  obtain ⟨-, -, -, h4, -, -, rfl⟩ := (construct_ok_iff ..).mp h
  exact get_finish_specified cfg _ outs pmf base sparse trim hnd
    (h4 o (List.mem_of_getElem? ho)) ho hp

/-- **Specified outcomes.** For pairwise distinct outcomes, lookup of a specified outcome
returns its specified value; or, only when trimming a sparse distribution and only for a null
value, zero. The hypothesis `outs.Nodup` is needed: with a repeated outcome the first stored
row wins and the sort reverses the order of equal keys. -/
theorem construct_lookup_specified
    (h : construct cfg symLt outLt outs pmf sp base sparse trim = .ok d) (hnd : outs.Nodup)
    (i : Nat) (o : List σ) (p : α) (ho : outs[i]? = some o) (hp : pmf[i]? = some p) :
    d.get o = some p ∨
      (sparse = true ∧ trim = true ∧ cfg.isNull base p = true ∧ d.get o = some 0) := by
  have := construct_lookup_specified_exact cfg symLt outLt outs pmf sp base sparse trim d h hnd
    i o p ho hp
  by_cases hc : sparse = true ∧ trim = true ∧ cfg.isNull base p = true
  · rw [if_pos hc] at this
    exact Or.inr ⟨hc.1, hc.2.1, hc.2.2, this⟩
  · rw [if_neg hc] at this
    exact Or.inl this

/-- **Other members.** Lookup of a member of the sample space that was not specified returns
the null probability. -/
theorem construct_lookup_rest
    (h : construct cfg symLt outLt outs pmf sp base sparse trim = .ok d)
    (o : List σ) (hmem : o ∈ d.space.toList) (ho : o ∉ outs) : d.get o = some 0 := by
  obtain ⟨-, -, -, -, -, -, rfl⟩ := (construct_ok_iff ..).mp h
  rw [finish_space] at hmem
  exact get_finish_rest cfg _ outs pmf base sparse trim hmem ho

/-- **Outside.** Lookup of anything that is not in the sample space raises `InvalidOutcome`
(`none` in the model). -/
theorem construct_lookup_outside
    (_h : construct cfg symLt outLt outs pmf sp base sparse trim = .ok d)
    (o : List σ) (hmem : o ∉ d.space.toList) : d.get o = none := by
  rw [get_eq, if_neg hmem]

/-! ## The stored table -/

/-- **Stored outcomes are members.** Every stored outcome belongs to the sample space. -/
theorem construct_keys_mem
    (h : construct cfg symLt outLt outs pmf sp base sparse trim = .ok d) :
    ∀ k ∈ keys d.tab, k ∈ d.space.toList := by
  obtain ⟨-, -, -, h4, -, -, rfl⟩ := (construct_ok_iff ..).mp h
  intro k hk
  rw [finish_space]
  exact mem_space_of_mem_keys_finish cfg _ outs pmf base sparse trim h4 hk

/-- **Duplicate-free and ordered like the sample space.** For pairwise distinct outcomes the
stored outcomes are pairwise distinct and listed in strictly increasing sample-space rank
(index of the first occurrence in the enumeration of the sample space). In dense mode this
needs (and for the order, is equivalent to) a duplicate-free enumeration of the sample space,
because there the stored outcomes are that enumeration (`construct_dense`);
`construct_space_nodup` says when that holds. -/
theorem construct_aligned
    (h : construct cfg symLt outLt outs pmf sp base sparse trim = .ok d) (hnd : outs.Nodup)
    (hsp : sparse = true ∨ d.space.toList.Nodup) :
    (keys d.tab).Nodup ∧
      (keys d.tab).Pairwise (fun a b => d.space.rank a < d.space.rank b) := by
  obtain ⟨-, -, -, h4, -, -, rfl⟩ := (construct_ok_iff ..).mp h
  rw [finish_space] at hsp ⊢
  exact ⟨nodup_keys_finish cfg _ outs pmf base sparse trim hnd hsp,
    strict_keys_finish cfg _ outs pmf base sparse trim h4 hnd hsp⟩

/-- **Sparse order without hypotheses.** In sparse mode the stored outcomes are in
non-decreasing sample-space rank, whatever the input. -/
theorem construct_sorted_sparse
    (h : construct cfg symLt outLt outs pmf sp base true trim = .ok d) :
    (keys d.tab).Pairwise (fun a b => d.space.rank a ≤ d.space.rank b) := by
  obtain ⟨-, -, -, -, -, -, rfl⟩ := (construct_ok_iff ..).mp h
  rw [finish_space]
  exact sorted_keys_finish_sparse cfg _ outs pmf base trim

/-- **When the sample space is duplicate-free.** Always when it is derived from the outcomes;
for a supplied one, when the supplied list (resp. each supplied alphabet) is. -/
theorem construct_space_nodup
    (hsp : match sp with
      | .none => True
      | .list l => l.Nodup
      | .sampleSpace l => l.Nodup
      | .cartesian as => ∀ a ∈ as, a.Nodup)
    (h : construct cfg symLt outLt outs pmf sp base sparse trim = .ok d) :
    d.space.toList.Nodup := by
  obtain ⟨-, -, -, -, -, -, rfl⟩ := (construct_ok_iff ..).mp h
  rw [finish_space]
  exact spaceArg_toList_nodup symLt outLt outs sp hsp

/-- **Rows are aligned.** With pairwise distinct stored outcomes, the value stored beside an
outcome (`pmf[i]` beside `outcomes[i]`) is the value lookup returns for it. -/
theorem construct_rows
    (h : construct cfg symLt outLt outs pmf sp base sparse trim = .ok d)
    (hnd : (keys d.tab).Nodup) : ∀ r ∈ d.tab, d.get r.1 = some r.2 :=
  fun _ hr => get_of_mem_tab hnd
    (construct_keys_mem cfg symLt outLt outs pmf sp base sparse trim d h) hr

/-- **Dense.** A dense result stores every member of the sample space, in its order. -/
theorem construct_dense
    (h : construct cfg symLt outLt outs pmf sp base false trim = .ok d) :
    keys d.tab = d.space.toList := by
  obtain ⟨-, -, -, -, -, -, rfl⟩ := (construct_ok_iff ..).mp h
  rw [finish_space]
  exact keys_finish_dense cfg _ outs pmf base trim

/-- **Sparse and trimmed.** No stored value is null. -/
theorem construct_trimmed
    (h : construct cfg symLt outLt outs pmf sp base true true = .ok d) :
    ∀ r ∈ d.tab, cfg.isNull base r.2 = false := by
  obtain ⟨-, -, -, -, -, -, rfl⟩ := (construct_ok_iff ..).mp h
  exact fun r hr => finish_trimmed cfg _ outs pmf base hr

/-- **Sparse and trimmed, stored outcomes.** Exactly the specified outcomes that carry a
non-null value. -/
theorem construct_trimmed_keys
    (h : construct cfg symLt outLt outs pmf sp base true true = .ok d) (k : List σ) :
    k ∈ keys d.tab ↔ ∃ p, (k, p) ∈ outs.zip pmf ∧ cfg.isNull base p = false := by
  obtain ⟨-, -, -, -, -, -, rfl⟩ := (construct_ok_iff ..).mp h
  exact mem_keys_finish_trimmed cfg _ outs pmf base

/-- **Sparse and untrimmed.** The stored rows are the specified pairs, reordered; in
particular the stored outcomes are exactly the specified outcomes. -/
theorem construct_untrimmed
    (h : construct cfg symLt outLt outs pmf sp base true false = .ok d) :
    d.tab.Perm (outs.zip pmf) ∧ (keys d.tab).Perm outs := by
  obtain ⟨h1, -, -, -, -, -, rfl⟩ := (construct_ok_iff ..).mp h
  exact ⟨tab_finish_untrimmed_perm cfg _ outs pmf base,
    keys_finish_untrimmed_perm cfg _ outs pmf base h1⟩

/-! ## Alphabets -/

/-- **Alphabets are the symbols of the sample space.** The `i`-th alphabet of the result holds
exactly the symbols that occur at position `i` of a member of the sample space. The hypothesis
excludes a `CartesianProduct` with an empty alphabet: then the sample space is empty while the
other alphabets are not. (With outcomes present such an argument is rejected anyway.) -/
theorem construct_alphabets
    (hne : match sp with
      | .cartesian as => ∀ a ∈ as, a ≠ []
      | _ => True)
    (h : construct cfg symLt outLt outs pmf sp base sparse trim = .ok d)
    (i : Nat) (a : List σ) (ha : d.space.alphabets[i]? = some a) (s : σ) :
    s ∈ a ↔ ∃ o ∈ d.space.toList, o[i]? = some s := by
  obtain ⟨-, -, -, -, -, -, rfl⟩ := (construct_ok_iff ..).mp h
  rw [finish_space] at ha ⊢
  exact mem_alphabets_iff _ (spaceArg_alphabets_ne_nil symLt outLt outs sp hne) ha s

/-- **Alphabets without a sample space.** They hold exactly the symbols of the specified
outcomes, position by position. -/
theorem construct_alphabets_none
    (h : construct cfg symLt outLt outs pmf SpaceArg.none base sparse trim = .ok d)
    (i : Nat) (a : List σ) (ha : d.space.alphabets[i]? = some a) (s : σ) :
    s ∈ a ↔ ∃ o ∈ outs, o[i]? = some s := by
  obtain ⟨-, -, -, -, -, -, rfl⟩ := (construct_ok_iff ..).mp h
  rw [finish_space] at ha
  exact mem_alphabets_none symLt outLt outs ha s

/-- **Alphabets are duplicate-free**, unless a `CartesianProduct` with a repeated symbol in an
alphabet was passed. -/
theorem construct_alphabets_nodup
    (hnd : match sp with
      | .cartesian as => ∀ a ∈ as, a.Nodup
      | _ => True)
    (h : construct cfg symLt outLt outs pmf sp base sparse trim = .ok d) :
    ∀ a ∈ d.space.alphabets, a.Nodup := by
  obtain ⟨-, -, -, -, -, -, rfl⟩ := (construct_ok_iff ..).mp h
  rw [finish_space]
  exact spaceArg_alphabets_nodup symLt outLt outs sp hnd

/-- **One alphabet per variable.** Every member of the sample space has as many symbols as
there are alphabets. -/
theorem construct_alphabets_length
    (h : construct cfg symLt outLt outs pmf sp base sparse trim = .ok d) :
    ∀ o ∈ d.space.toList, o.length = d.space.alphabets.length := by
  obtain ⟨-, -, h3, -, -, -, rfl⟩ := (construct_ok_iff ..).mp h
  rw [finish_space]
  exact fun o ho => spaceArg_length symLt outLt outs sp h3 ho

/-! ## Non-vacuity -/

/-- Scalar distribution with an explicit zero, a custom list sample space (unsorted, with a
member `[3]` that is not specified), sparse and trimmed: the zero is dropped, the stored order
is that of the list, the alphabet is the list. -/
example :
    (construct ratCfg natLt lexLt [[2], [0], [1]] [(1 : Rat) / 2, 0, 1 / 2]
      (.list [[2], [1], [0], [3]]) .linear true true).toOption.map
        (fun d => (d.tab, d.space.alphabets, d.get [0], d.get [3], d.get [4]))
      = some ([([2], 1 / 2), ([1], 1 / 2)], [[2, 1, 0, 3]], some 0, some 0, none) := by
  decide +kernel

/-- The same, untrimmed: the explicit zero stays stored. -/
example :
    (construct ratCfg natLt lexLt [[2], [0], [1]] [(1 : Rat) / 2, 0, 1 / 2]
      (.list [[2], [1], [0], [3]]) .linear true false).toOption.map (fun d => d.tab)
      = some [([2], 1 / 2), ([1], 1 / 2), ([0], 0)] := by
  decide +kernel

/-- Dense joint distribution with heterogeneous alphabets and no sample space. -/
example :
    (construct ratCfg natLt lexLt [[1, 5], [0, 7]] [(1 : Rat) / 4, 3 / 4]
      .none .linear false false).toOption.map (fun d => (d.tab, d.space.alphabets))
      = some ([([0, 5], 0), ([0, 7], 3 / 4), ([1, 5], 1 / 4), ([1, 7], 0)], [[0, 1], [5, 7]]) := by
  decide +kernel

/-- A sorted `SampleSpace` and a `CartesianProduct` argument. -/
example :
    (construct ratCfg natLt lexLt [[1], [0]] [(1 : Rat) / 4, 3 / 4]
      (.sampleSpace [[2], [1], [0]]) .linear false false).toOption.map (fun d => d.tab)
      = some [([0], 3 / 4), ([1], 1 / 4), ([2], 0)] := by
  decide +kernel

example :
    (construct ratCfg natLt lexLt [[1, 0]] [(1 : Rat)]
      (.cartesian [[1, 0], [0]]) .linear false false).toOption.map (fun d => d.tab)
      = some [([0, 0], 0), ([1, 0], 1)] := by
  decide +kernel

/-- The hypotheses of the theorems above are jointly satisfiable on accepted specifications:
pairwise distinct outcomes, a duplicate-free supplied list, non-empty duplicate-free supplied
alphabets. -/
example :
    (construct ratCfg natLt lexLt [[2], [0], [1]] [(1 : Rat) / 2, 0, 1 / 2]
      (.list [[2], [1], [0], [3]]) .linear true true).toOption.isSome = true ∧
    [[2], [0], [1]].Nodup ∧ [[2], [1], [0], [3]].Nodup := by
  decide +kernel

example :
    (construct ratCfg natLt lexLt [[1, 0]] [(1 : Rat)]
      (.cartesian [[1, 0], [0]]) .linear false false).toOption.isSome = true ∧
    (∀ a ∈ [[1, 0], [0]], a ≠ []) ∧ (∀ a ∈ [[1, 0], [0]], a.Nodup) := by
  decide +kernel

/-- The theorems apply at `Rat` (the driver's number type): the explicit zero of the first
example is read back as zero. -/
example (d : Dist Nat Rat)
    (h : construct ratCfg natLt lexLt [[2], [0], [1]] [(1 : Rat) / 2, 0, 1 / 2]
      (.list [[2], [1], [0], [3]]) .linear true true = .ok d) : d.get [0] = some 0 := by
  have := construct_lookup_specified_exact ratCfg natLt lexLt _ _ _ _ _ _ d h (by decide)
    1 [0] 0 rfl rfl
  simpa using this

/-- Each rejection occurs: length mismatch, empty specification, ragged outcomes, ragged
sample space, outcome outside the supplied sample space, unnormalised, out of range (a
negative entry in a table that sums to one); and a valid one is accepted. -/
example :
    [errOf (construct ratCfg natLt lexLt [[0], [1]] [(1 : Rat)] .none .linear true true),
     errOf (construct ratCfg natLt lexLt [] ([] : List Rat) .none .linear true true),
     errOf (construct ratCfg natLt lexLt [[0], [1, 1]] [(1 : Rat) / 2, 1 / 2] .none .linear true true),
     errOf (construct ratCfg natLt lexLt [[0]] [(1 : Rat)] (.list [[0], [1, 1]]) .linear true true),
     errOf (construct ratCfg natLt lexLt [[0], [2]] [(1 : Rat) / 2, 1 / 2] (.list [[0], [1]])
       .linear true true),
     errOf (construct ratCfg natLt lexLt [[0], [1]] [(1 : Rat) / 2, 1 / 3] .none .linear true true),
     errOf (construct ratCfg natLt lexLt [[0], [1]] [(3 : Rat) / 2, -1 / 2] .none .linear true true),
     errOf (construct ratCfg natLt lexLt [[0], [1]] [(1 : Rat) / 2, 1 / 2] .none .linear true true)]
    = [some .invalidDistribution, some .invalidDistribution, some .ditException,
       some .ditException, some .invalidOutcome, some .invalidNormalization,
       some .invalidProbability, none] := by
  decide +kernel

end Dit.Props.C01
