/-
C16 (companion) — set partitions and the functional common information.

`dit.utils.partitions` (through `partitions1`, a bit-mask recursion) enumerates the set partitions that
CAEKL mutual information minimises over and that `functional_common_information` searches; the models
(`Core/Info.lean: setPartitions`, `Core/SetPart.lean: partitions1`, `fciCandidates`) are proved here to
enumerate **every** set partition exactly once, so that "minimum over `setPartitions`" is the minimum
over all functions of the outcomes, as the definitions of `J` and `F` demand.

For `F`: a partition of the outcomes is feasible when inside every block the groups are independent
(`blockIndep`: `P(x₁…x_k | B) = Π P(xᵢ | B)`, written without division).  The finest partition is always
feasible (so the minimum exists and `F ≤ H`), feasibility and the entropy of the block masses depend on
the blocks as sets only, and every feasible function of the outcomes is represented among
`fciCandidates` — the value the driver reports is the least entropy over all of them.
-/
import DitModel.Core.SetPart
import DitModel.Lemmas.SetPart

set_option linter.unusedSectionVars false

namespace Dit.Props.C16Fci
open Dit Dit.Lemmas.SetPart

section Partitions
variable {β : Type} [DecidableEq β]

/-- `P` is a set partition of the members of `l`: non-empty duplicate-free blocks, pairwise disjoint,
covering exactly `l`. -/
structure IsSetPartition (P : List (List β)) (l : List β) : Prop where
  nonempty : ∀ B ∈ P, B ≠ []
  nodup : ∀ B ∈ P, B.Nodup
  disjoint : P.Pairwise (fun B B' => ∀ x, x ∈ B → x ∉ B')
  cover : ∀ x, (∃ B ∈ P, x ∈ B) ↔ x ∈ l

/-- Two lists of blocks are the same set of sets. -/
def SameBlocks (P Q : List (List β)) : Prop :=
  (∀ B ∈ P, ∃ B' ∈ Q, ∀ x, x ∈ B ↔ x ∈ B') ∧ (∀ B' ∈ Q, ∃ B ∈ P, ∀ x, x ∈ B ↔ x ∈ B')

/-- **Soundness**: everything `setPartitions` lists is a set partition. -/
theorem setPartitions_sound {l : List β} (hl : l.Nodup) :
    ∀ P ∈ setPartitions l, IsSetPartition P l := by
  intro P hP
  have h := setPartitions_isPart hl P hP
  exact ⟨h.nonempty, h.nodup, h.disjoint, h.cover⟩

/-- **Completeness**: every set partition of `l` is listed (as the same set of sets, with the same
number of blocks). -/
theorem setPartitions_complete {l : List β} (hl : l.Nodup) (Q : List (List β))
    (hQ : IsSetPartition Q l) :
    ∃ P ∈ setPartitions l, SameBlocks P Q ∧ P.length = Q.length := by
  have hQ' : IsPart Q l := ⟨hQ.nonempty, hQ.nodup, hQ.disjoint, hQ.cover⟩
  obtain ⟨P, hP, hs⟩ := setPartitions_complete' hl Q hQ'
  exact ⟨P, hP, hs, hs.length_eq (setPartitions_isPart hl P hP) hQ'⟩

/-- **No repetition**: two different positions of the enumeration never hold the same set of sets. -/
theorem setPartitions_distinct {l : List β} (hl : l.Nodup) :
    (setPartitions l).Pairwise (fun P P' => ¬ SameBlocks P P') := by
  exact setPartitions_distinct' hl

/-- The code's enumeration (`partitions1`, bit masks) is sound … -/
theorem partitions1_sound {l : List β} (hl : l.Nodup) :
    ∀ P ∈ partitions1 l, IsSetPartition P l := by
  intro P hP
  have h := partitions1Fuel_isPart l.length l (Nat.le_refl _) hl P hP
  exact ⟨h.nonempty, h.nodup, h.disjoint, h.cover⟩

/-- … complete … -/
theorem partitions1_complete {l : List β} (hl : l.Nodup) (Q : List (List β))
    (hQ : IsSetPartition Q l) :
    ∃ P ∈ partitions1 l, SameBlocks P Q ∧ P.length = Q.length := by
  have hQ' : IsPart Q l := ⟨hQ.nonempty, hQ.nodup, hQ.disjoint, hQ.cover⟩
  obtain ⟨P, hP, hs⟩ := partitions1Fuel_complete l.length l (Nat.le_refl _) hl Q hQ'
  exact ⟨P, hP, hs, hs.length_eq (partitions1Fuel_isPart l.length l (Nat.le_refl _) hl P hP) hQ'⟩

/-- … and lists the same set partitions as the model's recursion, block counts included: the filter
`len(p) > 1` of CAEKL and the search space of `F` are the same on both sides. -/
theorem partitions1_iff_setPartitions {l : List β} (hl : l.Nodup) :
    (∀ P ∈ partitions1 l, ∃ P' ∈ setPartitions l, SameBlocks P P' ∧ P.length = P'.length)
      ∧ (∀ P' ∈ setPartitions l, ∃ P ∈ partitions1 l, SameBlocks P P' ∧ P.length = P'.length) := by
  constructor
  · intro P hP
    have h := partitions1Fuel_isPart l.length l (Nat.le_refl _) hl P hP
    obtain ⟨P', hP', hs⟩ := setPartitions_complete' hl P h
    exact ⟨P', hP', hs.symm, hs.symm.length_eq h (setPartitions_isPart hl P' hP')⟩
  · intro P' hP'
    have h := setPartitions_isPart hl P' hP'
    obtain ⟨P, hP, hs⟩ := partitions1Fuel_complete l.length l (Nat.le_refl _) hl P' h
    exact ⟨P, hP, hs, hs.length_eq (partitions1Fuel_isPart l.length l (Nat.le_refl _) hl P hP) h⟩

/-- The two enumerations have the same number of members. -/
theorem partitions1_length {l : List β} (hl : l.Nodup) :
    (partitions1 l).length = (setPartitions l).length := by
  refine length_eq_of_same (partitions1Fuel_distinct l.length l (Nat.le_refl _) hl)
    (setPartitions_distinct' hl) ?_ ?_
  · intro P hP
    obtain ⟨P', hP', hs⟩ := setPartitions_complete' hl P
      (partitions1Fuel_isPart l.length l (Nat.le_refl _) hl P hP)
    exact ⟨P', hP', hs.symm⟩
  · intro P' hP'
    exact partitions1Fuel_complete l.length l (Nat.le_refl _) hl P' (setPartitions_isPart hl P' hP')

example : IsSetPartition [[0, 2], [1]] [0, 1, 2] ∧ SameBlocks [[0, 2], [1]] [[1], [2, 0]] := by
  refine ⟨⟨by decide, by decide, by simp, fun x => by simp; omega⟩, ?_⟩
  constructor
  · intro B hB
    simp only [List.mem_cons, List.not_mem_nil, or_false] at hB
    rcases hB with rfl | rfl
    · exact ⟨[2, 0], by simp, fun x => by simp; omega⟩
    · exact ⟨[1], by simp, fun x => Iff.rfl⟩
  · intro B hB
    simp only [List.mem_cons, List.not_mem_nil, or_false] at hB
    rcases hB with rfl | rfl
    · exact ⟨[1], by simp, fun x => Iff.rfl⟩
    · exact ⟨[0, 2], by simp, fun x => by simp; omega⟩

example : partitions1 [0, 1, 2] = [[[0, 1, 2]], [[1, 2], [0]], [[0, 2], [1]], [[2], [0, 1]], [[2], [1], [0]]]
    ∧ (setPartitions [0, 1, 2, 3]).length = 15 ∧ (partitions1 [0, 1, 2, 3, 4]).length = 52 := by decide

end Partitions

section Fci
variable {σ : Type} [DecidableEq σ] {α : Type} [Field α] [DecidableEq α]

/-- **What `blockIndep` tests.** For a block of positive… non-zero mass and at least one group: the test
holds iff the conditional law given the block factorises, `P(x₁…x_k | B) = Π P(xᵢ | B)`, for every choice of
one observed value per group. -/
theorem blockIndep_iff (t : Tab (List σ) α) (groups : List (List Nat)) (hg : groups ≠ [])
    (B : List (List σ)) (hm : blockMass t B ≠ 0) :
    blockIndep t groups B = true ↔
      ∀ vs ∈ blockValueTuples B groups,
        blockJoint t B groups vs / blockMass t B
          = ((groups.zip vs).map (fun gv => blockMargin t B gv.1 gv.2 / blockMass t B)).prod := by
  exact blockIndep_iff' t groups hg B hm

example : ([[0], [1]] : List (List Nat)) ≠ []
    ∧ blockMass ([([0, 0], 1 / 2), ([1, 1], 1 / 2)] : Tab (List Nat) Rat) [[0, 0], [1, 1]] ≠ 0 := by
  decide +kernel

/-- **The finest function is feasible**: given the whole outcome every group is constant, hence the
groups are independent.  So `fciCandidates` is never empty and `F ≤ H(X)`. -/
theorem fci_finest_feasible (t : Tab (List σ) α) (groups : List (List Nat)) (hg : groups ≠ []) :
    fciFeasible t groups ((keys t).map (fun o => [o])) = true
      ∧ (keys t).map (fun o => [o]) ∈ setPartitions (keys t)
      ∧ fciCandidates t groups ≠ [] := by
  have h1 := fciFeasible_finest t groups hg (keys t)
  have h2 := map_singleton_mem_setPartitions (keys t)
  refine ⟨h1, h2, ?_⟩
  have : (keys t).map (fun o => [o]) ∈ fciCandidates t groups :=
    List.mem_filter.mpr ⟨h2, h1⟩
  exact List.ne_nil_of_mem this

/-- Feasibility depends on the blocks as sets only. -/
theorem fciFeasible_congr (t : Tab (List σ) α) (hk : (keys t).Nodup) (groups : List (List Nat))
    {P Q : List (List (List σ))} (hP : IsSetPartition P (keys t)) (hQ : IsSetPartition Q (keys t))
    (h : SameBlocks P Q) : fciFeasible t groups P = fciFeasible t groups Q := by
  have _hk := hk  -- not needed: only the blocks' own `Nodup` is used
  exact fciFeasible_congr' t groups ⟨hP.nonempty, hP.nodup, hP.disjoint, hP.cover⟩
    ⟨hQ.nonempty, hQ.nodup, hQ.disjoint, hQ.cover⟩ h

/-- **Every feasible function of the outcomes is a candidate**: for any set partition `Q` of the stored
outcomes that renders the groups conditionally independent there is a member of `fciCandidates` with the
same blocks, whose block masses are a permutation of `Q`'s (so every symmetric function of the masses —
the entropy in particular — agrees). -/
theorem fciCandidates_complete (t : Tab (List σ) α) (hk : (keys t).Nodup) (groups : List (List Nat))
    (Q : List (List (List σ))) (hQ : IsSetPartition Q (keys t)) (hf : fciFeasible t groups Q = true) :
    ∃ P ∈ fciCandidates t groups, SameBlocks P Q ∧ (partMasses t P).Perm (partMasses t Q) := by
  have hQ' : IsPart Q (keys t) := ⟨hQ.nonempty, hQ.nodup, hQ.disjoint, hQ.cover⟩
  obtain ⟨P, hP, hs⟩ := setPartitions_complete' hk Q hQ'
  have hP' := setPartitions_isPart hk P hP
  refine ⟨P, List.mem_filter.mpr ⟨hP, ?_⟩, hs, partMasses_perm t hP' hQ' hs⟩
  rw [fciFeasible_congr' t groups hP' hQ' hs]
  exact hf

/-- Every candidate is a feasible set partition of the stored outcomes. -/
theorem fciCandidates_sound (t : Tab (List σ) α) (hk : (keys t).Nodup) (groups : List (List Nat)) :
    ∀ P ∈ fciCandidates t groups, IsSetPartition P (keys t) ∧ fciFeasible t groups P = true := by
  intro P hP
  obtain ⟨hP, hf⟩ := List.mem_filter.mp hP
  have h := setPartitions_isPart hk P hP
  exact ⟨⟨h.nonempty, h.nodup, h.disjoint, h.cover⟩, hf⟩

/-- The block masses of any set partition of the stored outcomes add up to the total mass. -/
theorem partMasses_sum (t : Tab (List σ) α) (hk : (keys t).Nodup) (P : List (List (List σ)))
    (hP : IsSetPartition P (keys t)) : (partMasses t P).sum = (t.map (·.2)).sum := by
  exact partMasses_sum' t hk P ⟨hP.nonempty, hP.nodup, hP.disjoint, hP.cover⟩

/-- Two perfectly correlated bits: the finest function is feasible, the constant one is not; two
independent uniform bits: 8 of the 15 partitions of the four outcomes are feasible (those whose blocks are
all "rectangles": 1 finest + 4 with one pair + 2 with two pairs + 1 trivial). -/
example : fciFeasible ([([0, 0], 1 / 2), ([1, 1], 1 / 2)] : Tab (List Nat) Rat) [[0], [1]] [[[0, 0]], [[1, 1]]] = true
    ∧ fciFeasible ([([0, 0], 1 / 2), ([1, 1], 1 / 2)] : Tab (List Nat) Rat) [[0], [1]] [[[0, 0], [1, 1]]] = false
    ∧ (fciCandidates ([([0, 0], 1 / 4), ([0, 1], 1 / 4), ([1, 0], 1 / 4), ([1, 1], 1 / 4)] : Tab (List Nat) Rat)
        [[0], [1]]).length = 8 := by decide +kernel

end Fci
end Dit.Props.C16Fci
