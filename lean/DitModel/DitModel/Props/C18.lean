/-
C18 — ShannonPartition assigns to each atom the conditional co-information of its variables
given all the others, so the atoms sum to the joint entropy and any entropy or (conditional)
mutual information is recovered as the sum of the atoms it covers. The complexity profile at
scale k is the sum of atoms shared by at least k variables (scale 1 is the joint entropy, the
scales sum to the sum of marginal entropies); entropy-triangle points are non-negative and sum
to one. (The property is stated for joint distributions of 2..4 variables; part (a) is proved
for every number of variables.)

Part (a) is algebra about `Comb.eval cast H` for an arbitrary set function `H : VSet → R` into a
commutative ring, for ANY number `n` of variables: the theorems are proved by inclusion–exclusion
(telescoping of the atoms, a recursion for co-informations and the same recursion for queries);
only `H ∅ = 0` is used, and only where the statement mentions a plain entropy. The
canonical-form device (`eval_eq_of_canon_eq`: combinations with equal canonical forms have equal
values; canonical forms are computable, so identities for a fixed `n` can be checked by
`decide +kernel`) is kept as an independent cross-check for small `n` (examples below).
Part (b) is about `H := entropyOf (Real.logb 2) t` for a table `t` with non-negative values.
Helper lemmas: Lemmas/Partition.lean.
-/
import DitModel.Lemmas.Partition
import DitModel.Props.C05

set_option linter.unusedSectionVars false

namespace Dit.Props.C18
open Dit Dit.Lemmas.InfoAlg Dit.Lemmas.InfoReal Dit.Lemmas.Partition

/-! ## (a) Atoms, queries, complexity profile -/

section Algebra
variable {R : Type} [CommRing R] (cast : ℚ →+* R) (H : VSet → R)

/-- **The canonical-form device.** Two combinations with the same canonical form have the same
value, for every `H` with `H ∅ = 0` that depends only on the normalised set (`canon` drops the
empty set and merges sets with equal normal forms, so both hypotheses are needed). -/
theorem eval_eq_of_canon_eq (h0 : H [] = 0) (hn : ∀ s, H s = H (vnorm s)) {c₁ c₂ : Comb}
    (h : c₁.canon = c₂.canon) : Comb.eval cast H c₁ = Comb.eval cast H c₂ :=
  Lemmas.Partition.eval_eq_of_canon_eq cast H h0 hn h

/-- Cross-check by the device: the 15 atoms of 4 variables sum to `H(0123)`. -/
example (h0 : H [] = 0) (hn : ∀ s, H s = H (vnorm s)) :
    Comb.eval cast H (atomsTotalC 4) = Comb.eval cast H [(1, [0, 1, 2, 3])] :=
  eval_eq_of_canon_eq cast H h0 hn (by decide +kernel)
/-- Cross-check by the device: a query over 3 variables (the check `query_checked` covers all
queries with up to 2 groups for `n ≤ 3`). -/
example (h0 : H [] = 0) (hn : ∀ s, H s = H (vnorm s)) :
    Comb.eval cast H (queryC 3 [[0, 1], [2]] [])
      = Comb.eval cast H (coinfoC [[0, 1], [2]] []) :=
  query_lift cast H h0 hn 3 1 (query_checked 3 1 (by decide)) _ _ rfl (by decide) (by decide)

/-- **Atoms are conditional co-informations**: the atom of the variable set `S` is the
co-information of the variables of `S` (as singleton groups) given all the other variables. -/
theorem atom_is_cond_coinfo (n : Nat) (S : VSet) :
    atomC n S = coinfoC (S.map (fun i => [i])) (vdiff (List.range n) S) := rfl

/-- The value of an atom: the alternating sum of the conditional entropies of the sub-families
of `S` given the complement of `S` (C05's `coinfo_def`). -/
theorem atom_eval (n : Nat) (S : VSet) :
    Comb.eval cast H (atomC n S)
      = ((sublists (S.map (fun i => [i]))).map (fun Xs =>
          (if Xs.length % 2 = 1 then (1 : R) else -1)
            * Hc H (vunions Xs) (vdiff (List.range n) S))).sum :=
  eval_coinfoC cast H _ _

/-- The atoms below a set of variables telescope: for distinct variables `L` and any `B`,
`Σ_{∅ ≠ S ⊆ L} I[S | (L ∖ S) ∪ B] = H(L | B)` (the engine of the theorems below). -/
theorem atoms_telescope (L : List Nat) (hnd : L.Nodup) (B : VSet) :
    (((sublists L).filter (fun S => !S.isEmpty)).map (fun S =>
        Comb.eval cast H (coinfoC (S.map (fun i => [i])) (vdiff L S ++ B)))).sum = Hc H L B := by
  rw [filter_sublists_eq_nes]
  exact Lemmas.Partition.atoms_telescope cast H L hnd B

/-- The atoms sum to `H(all) − H(∅)`, for every number of variables and every set function. -/
theorem atoms_sum_general (n : Nat) :
    Comb.eval cast H (atomsTotalC n) = H (List.range n) - H [] :=
  eval_atomsTotalC cast H n

/-- **The atoms sum to the joint entropy**, for every number of variables (`H ∅ = 0`). -/
theorem atoms_sum (h0 : H [] = 0) (n : Nat) :
    Comb.eval cast H (atomsTotalC n) = H (List.range n) := by
  rw [eval_atomsTotalC, h0, sub_zero]

/-- **Any (conditional) co-information is the sum of the atoms it covers**: for every number
`n` of variables, every non-empty list of groups of variables below `n` (in any order,
overlapping, with repetitions) and any conditioning variables below `n`, the partition's answer
to the query equals the conditional co-information `I[G₁ : … : G_k | Z]` — for every set
function `H`. The list of groups must be non-empty: see `query_nil`. -/
theorem query_eq_coinfo (n : Nat) (groups : List VSet) (crvs : VSet) (hne : groups ≠ [])
    (hg : ∀ g ∈ groups, ∀ v ∈ g, v < n) (hc : ∀ c ∈ crvs, c < n) :
    Comb.eval cast H (queryC n groups crvs) = Comb.eval cast H (coinfoC groups crvs) := by
  obtain ⟨g, G, rfl⟩ := List.exists_cons_of_ne_nil hne
  rw [eval_queryC_general cast H n (g :: G) crvs hg hc, sgnSum_cons, zero_mul, sub_zero]

/-- For no groups the covered atoms (those avoiding `Z`) sum to `H(all | Z)`, while the
co-information of no groups is `0`: the hypothesis `groups ≠ []` above is needed. -/
theorem query_nil (n : Nat) (crvs : VSet) (hc : ∀ c ∈ crvs, c < n) :
    Comb.eval cast H (queryC n [] crvs) = Hc H (List.range n) crvs
      ∧ Comb.eval cast H (coinfoC [] crvs) = 0 := by
  refine ⟨eval_queryC_nil cast H n crvs hc, ?_⟩
  rw [eval_coinfoC]
  simp [sublists, vunions_nil, Hc_nil]

example : ([[0, 1], [2]] : List VSet) ≠ []
    ∧ (∀ g ∈ ([[0, 1], [2]] : List VSet), ∀ v ∈ g, v < 3) ∧ ∀ c ∈ ([] : VSet), c < 3 := by
  decide
example : (queryC 2 [] []).canon = [(1, [0, 1])] ∧ (coinfoC [] []).canon = [] := by
  decide +kernel

/-- **Entropies are recovered**: the atoms covered by one group `G` given `Z` sum to the
conditional entropy `H(G | Z)`. -/
theorem query_entropy (n : Nat) (G Z : VSet) (hG : ∀ v ∈ G, v < n) (hZ : ∀ c ∈ Z, c < n) :
    Comb.eval cast H (queryC n [G] Z) = Hc H G Z := by
  rw [query_eq_coinfo cast H n [G] Z (by simp) (by simpa using hG) hZ, eval_coinfoC_single]

/-- **Conditional mutual informations are recovered**: the atoms covered by two groups `X, Y`
given `Z` sum to `I(X : Y | Z)`. -/
theorem query_mi (n : Nat) (X Y Z : VSet) (hX : ∀ v ∈ X, v < n) (hY : ∀ v ∈ Y, v < n)
    (hZ : ∀ c ∈ Z, c < n) :
    Comb.eval cast H (queryC n [X, Y] Z) = Comb.eval cast H (cmiC X Y Z) := by
  rw [query_eq_coinfo cast H n [X, Y] Z (by simp) (by simpa using ⟨hX, hY⟩) hZ]
  exact Props.C05.coinfo_two cast H X Y Z

/-- The profile at scale `k` is by definition the sum of the atoms shared by at least `k`
variables. -/
theorem profile_def (n k : Nat) :
    profileC n k
      = Comb.sum (((atomSets n).filter (fun S => decide (k ≤ S.length))).map (atomC n)) := rfl

/-- **Complexity profile at scale 1** is the joint entropy (every atom is shared by at least
one variable). -/
theorem profile_one (h0 : H [] = 0) (n : Nat) :
    Comb.eval cast H (profileC n 1) = H (List.range n) := by
  rw [profileC_one, atoms_sum cast H h0]

/-- **The scales of the complexity profile sum to the sum of the marginal entropies**:
`Σ_{k=1..n} profile(k) = Σ_i H(X_i)` (an atom shared by `m` variables is counted at `m` scales,
and lies in the entropy of `m` variables). -/
theorem profile_sum (h0 : H [] = 0) (n : Nat) :
    ((List.range n).map (fun k => Comb.eval cast H (profileC n (k + 1)))).sum
      = ((List.range n).map (fun i => H [i])).sum := by
  rw [profile_sum_general]
  congr 1
  apply List.map_congr_left
  intro i _
  have e : vunion [i] ([] : VSet) = [i] := by simp [vunion, vnorm, dedup, isort, isort.ins]
  have e' : vnorm ([] : VSet) = [] := rfl
  rw [Hc, e, e', h0, sub_zero]

/-- The sum of the marginal entropies as a combination. -/
theorem marginals_eval (n : Nat) :
    Comb.eval cast H (marginalsC n) = ((List.range n).map (fun i => H [i])).sum :=
  eval_marginalsC cast H n

/-- **Complexity profile at the top scale** `n` is the single atom shared by all variables,
the co-information `I[X₀ : … : X_{n-1}]`. -/
theorem profile_top (n : Nat) : profileC n n = atomC n (List.range n) := by
  rcases Nat.eq_zero_or_pos n with rfl | hpos
  · rfl
  · unfold profileC
    rw [atomSets_filter_top n hpos]
    simp [Comb.sum]

example : Comb.canon (atomC 3 [0, 1])
    = [(-1, [0, 1, 2]), (1, [0, 2]), (1, [1, 2]), (-1, [2])] := by decide +kernel
example : (profileC 4 2).canon
    = [(1, [0, 1, 2]), (-3, [0, 1, 2, 3]), (1, [0, 1, 3]), (1, [0, 2, 3]), (1, [1, 2, 3])] := by
  decide +kernel

end Algebra

/-! ## (b) Entropy triangles -/

section Triangles
variable {σ : Type} [DecidableEq σ] (t : Tab (List σ) ℝ) (hnn : ∀ r ∈ t, 0 ≤ r.2)

local notation "Hℝ" => entropyOf (Real.logb 2)
local notation "ev" => Comb.eval (Rat.castHom ℝ)

include hnn in
/-- **Second entropy triangle, non-negativity**: residual entropy `R`, dual total correlation
`B` and total correlation `T` of pairwise disjoint groups (any conditioning set) are
non-negative, for any table with non-negative values; `R` is a sum of conditional entropies.
Disjointness is needed for `B` (C05 `dtc_nonneg`); dit's triangle uses the singleton groups,
which are disjoint (`singles_disjoint`). -/
theorem triangle2_nonneg (groups : List VSet) (Z : VSet) (hdis : groups.Pairwise VDisj) :
    0 ≤ ev (Hℝ t) (residualC groups Z) ∧ 0 ≤ ev (Hℝ t) (dtcC groups Z)
      ∧ 0 ≤ ev (Hℝ t) (tcC groups Z) := by
  refine ⟨?_, Props.C05.dtc_nonneg t hnn groups Z hdis, Props.C05.tc_nonneg t hnn groups Z⟩
  rw [eval_residualC]
  exact residual_sum_nonneg (entropy_Submod t hnn) groups Z

/-- The singleton groups of `n` variables are pairwise disjoint. -/
theorem singles_disjoint (n : Nat) : ((List.range n).map (fun i => [i])).Pairwise VDisj :=
  Lemmas.Partition.singles_disjoint n

/-- **Second entropy triangle, normalisation**: the point `(R/s, T/s, B/s)`, `s = R + B + T`,
has coordinates summing to one whenever `s ≠ 0`. -/
theorem triangle2_sum_one (groups : List VSet) (Z : VSet)
    (hs : ev (Hℝ t) (residualC groups Z) + ev (Hℝ t) (dtcC groups Z)
      + ev (Hℝ t) (tcC groups Z) ≠ 0) :
    ev (Hℝ t) (residualC groups Z)
        / (ev (Hℝ t) (residualC groups Z) + ev (Hℝ t) (dtcC groups Z) + ev (Hℝ t) (tcC groups Z))
      + ev (Hℝ t) (tcC groups Z)
        / (ev (Hℝ t) (residualC groups Z) + ev (Hℝ t) (dtcC groups Z) + ev (Hℝ t) (tcC groups Z))
      + ev (Hℝ t) (dtcC groups Z)
        / (ev (Hℝ t) (residualC groups Z) + ev (Hℝ t) (dtcC groups Z) + ev (Hℝ t) (tcC groups Z))
      = 1 := by
  rw [← add_div, ← add_div]
  have : ev (Hℝ t) (residualC groups Z) + ev (Hℝ t) (tcC groups Z) + ev (Hℝ t) (dtcC groups Z)
      = ev (Hℝ t) (residualC groups Z) + ev (Hℝ t) (dtcC groups Z) + ev (Hℝ t) (tcC groups Z) := by
    ring
  rw [this, div_self hs]

/-- **First entropy triangle, normalisation**: with `H_U = hU ≠ 0` the entropy of the uniform
distribution, `H_P = Σ_i H(X_i)` and `R` the residual entropy, the coordinates
`((H_U − H_P)/H_U, (H_P − R)/H_U, R/H_U)` sum to one. -/
theorem triangle1_sum_one (n : Nat) (hU : ℝ) (hU0 : hU ≠ 0) :
    (hU - ev (Hℝ t) (marginalsC n)) / hU
      + (ev (Hℝ t) (marginalsC n)
          - ev (Hℝ t) (residualC ((List.range n).map (fun i => [i])) [])) / hU
      + ev (Hℝ t) (residualC ((List.range n).map (fun i => [i])) []) / hU = 1 := by
  rw [← add_div, ← add_div]
  have : hU - ev (Hℝ t) (marginalsC n)
      + (ev (Hℝ t) (marginalsC n) - ev (Hℝ t) (residualC ((List.range n).map (fun i => [i])) []))
      + ev (Hℝ t) (residualC ((List.range n).map (fun i => [i])) []) = hU := by ring
  rw [this, div_self hU0]

/-- **First entropy triangle, middle coordinate**: for a table of total mass 1,
`H_P − R = Σ_i I(X_i : rest)`. -/
theorem triangle1_middle_eq (hmass : (t.map (·.2)).sum = 1) (n : Nat) :
    ev (Hℝ t) (marginalsC n) - ev (Hℝ t) (residualC ((List.range n).map (fun i => [i])) [])
      = ((List.range n).map (fun i =>
          ev (Hℝ t) (cmiC [i] (vdiff (List.range n) [i]) []))).sum :=
  marg_sub_residual _ _ (entropyOf_nil t hmass) (entropyOf_vnorm t) n

include hnn in
/-- **First entropy triangle, non-negativity of the middle coordinate**: `H_P − R ≥ 0` for a
table with non-negative values and total mass 1 (a sum of mutual informations). Mass 1 is used
for `H(∅) = 0`. The third coordinate `R ≥ 0` is `triangle2_nonneg`. -/
theorem triangle1_middle_nonneg (hmass : (t.map (·.2)).sum = 1) (n : Nat) :
    0 ≤ ev (Hℝ t) (marginalsC n)
        - ev (Hℝ t) (residualC ((List.range n).map (fun i => [i])) []) := by
  rw [triangle1_middle_eq t hmass n]
  apply List.sum_nonneg
  intro x hx
  obtain ⟨i, _, rfl⟩ := List.mem_map.mp hx
  exact Props.C05.mi_nonneg t hnn _ _

/-- Non-vacuity: a table (with a stored zero) of non-negative values and total mass 1. -/
example : (∀ r ∈ ([(["0", "0"], 1 / 2), (["0", "1"], 0), (["1", "1"], 1 / 2)] :
    Tab (List String) ℝ), 0 ≤ r.2)
    ∧ (([(["0", "0"], 1 / 2), (["0", "1"], 0), (["1", "1"], 1 / 2)] :
      Tab (List String) ℝ).map (·.2)).sum = 1 := by
  constructor
  · intro r hr; simp at hr; rcases hr with rfl | rfl | rfl <;> norm_num
  · norm_num

end Triangles

end Dit.Props.C18
