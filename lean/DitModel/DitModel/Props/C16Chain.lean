/-
C16 (continued) — the remaining links of the chain `K ≤ J ≤ B ≤ F ≤ M ≤ H` of common
informations (`dit.multivariate.common_informations`): Gács–Körner `K` (entropy of the meet
variable), CAEKL mutual information `J` (minimum over the candidates `caeklCands`), dual total
correlation `B` (`dtcC`), functional common information `F` (least `H(W)` over variables `W`
rendering the groups conditionally independent) and the mss common information `M` (entropy of the
joint minimal sufficient statistic). Props/C16.lean has `K ≤ H`, `M ≤ H` and `B ≤ F`; here:

* `K ≤ J`: a set of variables that is a function of every group — in particular the meet
  variable — is below every CAEKL candidate, for any number of groups;
* `J ≤ B`: the candidate of the all-singletons partition is `T/(n−1)` and `T ≤ (n−1)·B`, for any
  number `n ≥ 2` of pairwise disjoint groups and any conditioning set;
* `F ≤ M` (two groups): the minimal sufficient statistic of `X` about `Y`, and the pair of the
  two minimal sufficient statistics, are functions of the outcome that render `X` and `Y`
  conditionally independent, hence `B ≤ M` (and `M ≤ H(X ∪ Y)`). The pair is built either as
  `insert_joint_mss` does (second statistic computed on the table extended by the first:
  `mss_joint_renders_independent`, `b_le_m`) or with both statistics computed on the original
  table and appended at once (`mss_joint_one_shot`); both are instances of
  `mss_pair_renders_independent` / `b_le_pair_entropy` (second label: any function of `Y`).
  `F` itself is an optimisation that the model does not define, so `F ≤ M` is stated as
  feasibility of `W` plus `B ≤ H(W)`.

The first part is stated for an arbitrary entropy function `H : VSet → R` with `Submod H`
(`I(X:Y|Z) ≥ 0`), `Hc H X Z = H(X ∪ Z) − H(Z)`; the table-level statements are for
`H := entropyOf (Real.logb 2) t`, `t` a table with non-negative real values.
`J` is not a function of the model (the driver takes the minimum of the candidate values in
`Float`), so `K ≤ J` is "`K ≤` every candidate" and `J ≤ B` is "some candidate `≤ B`";
`k_le_j_le_b` combines them for any `m` that is a least element of the list of candidate values.
Helper lemmas: Lemmas/Chain.lean.
-/
import DitModel.Lemmas.Chain
import DitModel.Props.C16

set_option linter.unusedSectionVars false

namespace Dit.Props.C16Chain
open Dit Dit.Lemmas.Table Dit.Lemmas.Meet Dit.Lemmas.InfoAlg Dit.Lemmas.InfoReal Dit.Lemmas.Chain

/-! ## (a) The entropy-function algebra -/

section Abstract
variable {R : Type} [CommRing R] [LinearOrder R] [IsStrictOrderedRing R] (cast : ℚ →+* R)
  {H : VSet → R}

/-- **`K ≤ J`, abstract form** (`common_function_le_caekl`): if the set of variables `V` is a
function of every group given `Z` (`H(V | g ∪ Z) = 0` for every group `g`), then `H(V | Z)` is at
most the value of every candidate of the CAEKL minimisation — one candidate
`(Σ_{B∈P} H(X_B|Z) − H(X|Z)) / (|P|−1)` per set partition `P` of the groups into at least two
blocks — hence at most their minimum `J`. Any number of groups, overlapping or not. Proof:
`Σ_B H(X_B|Z) − H(X|Z) = (|P|−1)·H(V|Z) + [Σ_B H(X_B|V,Z) − H(X|V,Z)]` and the bracket is a total
correlation. `Submod H` (non-negativity of conditional mutual information) is the only property
of `H` used. -/
theorem common_function_le_caekl (h : Submod H) (groups : List VSet) (V Z : VSet)
    (hV : ∀ g ∈ groups, Hc H V (vunion g Z) = 0) :
    ∀ c ∈ caeklCands groups Z, Hc H V Z ≤ Comb.eval cast H c := by
  intro c hc
  obtain ⟨P, hP, hlen, rfl⟩ := mem_caeklCands hc
  exact common_function_le_cand cast h groups V Z hV P hP hlen

/-- **`T ≤ (n−1)·B`** (`tc_le_dtc`): for `n ≥ 1` pairwise disjoint groups and any conditioning
set, the total correlation is at most `n−1` times the dual total correlation
(`T = Σ_{i<n} I(Xᵢ : X_{>i}|Z)`, each term `≤ I(Xᵢ : X₋ᵢ|Z) ≤ B`). Disjointness is needed: for
overlapping groups `B` can be negative (Props/C05 `dtc_nonneg`). -/
theorem tc_le_dtc (h : Submod H) (groups : List VSet) (Z : VSet) (hne : groups ≠ [])
    (hdis : groups.Pairwise VDisj) :
    Comb.eval cast H (tcC groups Z)
      ≤ ((groups.length : R) - 1) * Comb.eval cast H (dtcC groups Z) := by
  rw [eval_tcC, eval_dtcC, eval_residualC]
  exact Lemmas.Chain.tc_le_dtc h groups Z hne hdis

/-- **`J ≤ B`, abstract form** (`caekl_le_dtc`): for at least two pairwise disjoint groups and any
conditioning set, the candidate list of the CAEKL minimisation contains a candidate — the one of
the all-singletons partition, whose value is `T/(n−1)` — that is at most the dual total
correlation; hence the minimum `J` of the candidates is at most `B`. -/
theorem caekl_le_dtc (h : Submod H) (groups : List VSet) (Z : VSet) (hlen : 1 < groups.length)
    (hdis : groups.Pairwise VDisj) :
    ∃ c ∈ caeklCands groups Z, Comb.eval cast H c ≤ Comb.eval cast H (dtcC groups Z) :=
  ⟨_, singletons_cand_mem groups Z hlen, singletons_cand_le_dtc cast h groups Z hlen hdis⟩

/-- **A statistic keeping the mutual information renders the variables conditionally
independent** (`sufficient_renders_independent`): if `S` is a function of `X` (`H(S|X) = 0`) with
`I(S:Y) = I(X:Y)` and `T` is a function of `Y`, then `I(X:Y|S) = 0` and `I(X:Y|S,T) = 0`, written
`H(X | Y ∪ W) = H(X | W)`; moreover `S ∪ T` is a function of `X ∪ Y`. -/
theorem sufficient_renders_independent (h : Submod H) (X Y S T : VSet) (hS : Hc H S X = 0)
    (hT : Hc H T Y = 0)
    (hMI : H (vnorm S) + H (vnorm Y) - H (vunion S Y)
      = H (vnorm X) + H (vnorm Y) - H (vunion X Y)) :
    Hc H X (vunion Y S) = Hc H X S
    ∧ Hc H X (vunion Y (vunion S T)) = Hc H X (vunion S T)
    ∧ Hc H Y (vunion X (vunion S T)) = Hc H Y (vunion S T)
    ∧ Hc H (vunion S T) (vunion X Y) = 0 :=
  ⟨ci_of_mi_preserved h hS hMI, ci_extend h hT (ci_of_mi_preserved h hS hMI),
    ci_symm H (ci_extend h hT (ci_of_mi_preserved h hS hMI)), function_union h hS hT⟩

end Abstract

/-- Non-vacuity of the abstract statements: the entropy function of three copies of a fair bit
is submodular; variable 2 is a function of variable 0 and of variable 1, and keeps `I(0:1)`. -/
example :
    Submod (entropyOf (Real.logb 2) ([([0, 0, 0], 1 / 2), ([1, 1, 1], 1 / 2)] : Tab (List Nat) ℝ))
    ∧ (∀ g ∈ [[0], [1]],
        Hc (entropyOf (Real.logb 2) ([([0, 0, 0], 1 / 2), ([1, 1, 1], 1 / 2)] : Tab (List Nat) ℝ))
          [2] (vunion g []) = 0)
    ∧ [[0], [1]] ≠ [] ∧ 1 < [[0], [1]].length ∧ [[0], [1]].Pairwise VDisj
    ∧ entropyOf (Real.logb 2) ([([0, 0, 0], 1 / 2), ([1, 1, 1], 1 / 2)] : Tab (List Nat) ℝ)
          (vnorm [2])
        + entropyOf (Real.logb 2) ([([0, 0, 0], 1 / 2), ([1, 1, 1], 1 / 2)] : Tab (List Nat) ℝ)
          (vnorm [1])
        - entropyOf (Real.logb 2) ([([0, 0, 0], 1 / 2), ([1, 1, 1], 1 / 2)] : Tab (List Nat) ℝ)
          (vunion [2] [1])
      = entropyOf (Real.logb 2) ([([0, 0, 0], 1 / 2), ([1, 1, 1], 1 / 2)] : Tab (List Nat) ℝ)
          (vnorm [0])
        + entropyOf (Real.logb 2) ([([0, 0, 0], 1 / 2), ([1, 1, 1], 1 / 2)] : Tab (List Nat) ℝ)
          (vnorm [1])
        - entropyOf (Real.logb 2) ([([0, 0, 0], 1 / 2), ([1, 1, 1], 1 / 2)] : Tab (List Nat) ℝ)
          (vunion [0] [1]) := by
  have key : ∀ X ∈ [[0], [1], [0, 1], [0, 2], [1, 2]],
      entropyOf (Real.logb 2) ([([0, 0, 0], 1 / 2), ([1, 1, 1], 1 / 2)] : Tab (List Nat) ℝ) X
        = entropyOf (Real.logb 2)
            ([([0, 0, 0], 1 / 2), ([1, 1, 1], 1 / 2)] : Tab (List Nat) ℝ) [2] := by
    intro X hX
    apply C16.entropy_of_equivalent_maps
    revert X
    decide
  refine ⟨entropy_Submod _ ?_, ?_, by simp, by simp, by simp [VDisj], ?_⟩
  · intro r hr; simp at hr; rcases hr with rfl | rfl <;> norm_num
  · have e1 : vunion [2] (vunion [0] []) = [0, 2] := by decide
    have e2 : vunion [2] (vunion [1] []) = [1, 2] := by decide
    have e3 : vnorm (vunion [0] []) = [0] := by decide
    have e4 : vnorm (vunion [1] []) = [1] := by decide
    intro g hg
    simp only [List.mem_cons, List.not_mem_nil, or_false] at hg
    rcases hg with rfl | rfl
    · unfold Hc; rw [e1, e3, key [0, 2] (by simp), key [0] (by simp), sub_self]
    · unfold Hc; rw [e2, e4, key [1, 2] (by simp), key [1] (by simp), sub_self]
  · have e1 : vnorm [2] = [2] := by decide
    have e2 : vnorm [1] = [1] := by decide
    have e3 : vnorm [0] = [0] := by decide
    have e4 : vunion [2] [1] = [1, 2] := by decide
    have e5 : vunion [0] [1] = [0, 1] := by decide
    rw [e1, e2, e3, e4, e5, key [1] (by simp), key [1, 2] (by simp), key [0] (by simp),
      key [0, 1] (by simp)]

/-! ## (b) `K ≤ J ≤ B` for tables -/

section Tables
variable {σ : Type} [DecidableEq σ]

/-- **`K ≤ J`** (`k_le_j`): for a table with non-negative values, total mass 1 and outcomes of
length `n`, and any list of groups of variables (any number, positions `< n`), the entropy of the
meet variable — the label of `meetClasses groups`, appended as variable `n`, whose entropy is the
Gács–Körner common information `K` — is at most the value on the table of every candidate of
the CAEKL minimisation `caeklCands groups []`, hence at most their minimum `J`. Total mass 1 is
used for `H(∅) = 0` (otherwise `K − H(∅) ≤` candidate). -/
theorem k_le_j (code : Nat → σ) (groups : List VSet) (n : Nat) (t : Tab (List σ) ℝ)
    (hnn : ∀ r ∈ t, 0 ≤ r.2) (hmass : (t.map (·.2)).sum = 1)
    (hn : ∀ k ∈ keys t, k.length = n) (hg : ∀ g ∈ groups, ∀ i ∈ g, i < n) :
    ∀ c ∈ caeklCands groups [],
      entropyOf (Real.logb 2)
          (insertRvf (fun o => [code (labelOf (meetClasses groups (keys t)) o)]) none t) [n]
        ≤ Comb.eval (Rat.castHom ℝ) (entropyOf (Real.logb 2) t) c := by
  intro c hc
  obtain ⟨P, hP, hlen, rfl⟩ := mem_caeklCands hc
  have hsub := entropy_Submod
    (insertRvf (fun o => [code (labelOf (meetClasses groups (keys t)) o)]) none t)
    (insertRvf_nonneg _ _ t hnn)
  have hV : ∀ g ∈ groups,
      Hc (entropyOf (Real.logb 2)
        (insertRvf (fun o => [code (labelOf (meetClasses groups (keys t)) o)]) none t))
        [n] (vunion g []) = 0 := by
    intro g hgm
    have h0 := Hc_new_of_function (fun o => code (labelOf (meetClasses groups (keys t)) o)) n t hn
      g (hg g hgm) (fun k hk k' hk' e => by
        rw [C16.meet_function_of_each groups (keys t) hgm hk hk' e])
    beta_reduce at h0
    rw [← h0]
    exact Hc_congr _ (by intro x; rw [mem_vunion]; simp) (by intro x; simp [mem_vunion])
  have hmain := common_function_le_cand (Rat.castHom ℝ) hsub groups [n] [] hV P hP hlen
  have e1 := Hc_new_nil (fun o => code (labelOf (meetClasses groups (keys t)) o)) n t hn hmass
  have e2 := eval_caeklCand_agree (Rat.castHom ℝ)
    (agree_insert (fun o => code (labelOf (meetClasses groups (keys t)) o)) n t hn) groups []
    hg (by simp) P hP
  beta_reduce at e1 e2
  rw [e1, e2] at hmain
  exact hmain

/-- **`J ≤ B`** (`j_le_b`): for a table with non-negative values, at least two pairwise disjoint
groups and any conditioning set `Z`, some candidate of the CAEKL minimisation (the all-singletons
partition, `T/(n−1)`) has a value at most the dual total correlation; hence `J ≤ B`. For two
groups `J = B = I(X:Y|Z)` (Props/C05 `caekl_two`, `dtc_two`). -/
theorem j_le_b (t : Tab (List σ) ℝ) (hnn : ∀ r ∈ t, 0 ≤ r.2) (groups : List VSet) (Z : VSet)
    (hlen : 1 < groups.length) (hdis : groups.Pairwise VDisj) :
    ∃ c ∈ caeklCands groups Z,
      Comb.eval (Rat.castHom ℝ) (entropyOf (Real.logb 2) t) c
        ≤ Comb.eval (Rat.castHom ℝ) (entropyOf (Real.logb 2) t) (dtcC groups Z) :=
  caekl_le_dtc (Rat.castHom ℝ) (entropy_Submod t hnn) groups Z hlen hdis

/-- **`K ≤ J ≤ B`** (`k_le_j_le_b`): let `m` be the CAEKL mutual information of the groups on the
table, i.e. a least element of the list of candidate values (the list is not empty for at least
two groups: third clause). Then the entropy of the meet variable is at most `m`, and `m` is at
most the dual total correlation. Hypotheses as in `k_le_j` and `j_le_b`. -/
theorem k_le_j_le_b (code : Nat → σ) (groups : List VSet) (n : Nat) (t : Tab (List σ) ℝ)
    (hnn : ∀ r ∈ t, 0 ≤ r.2) (hmass : (t.map (·.2)).sum = 1)
    (hn : ∀ k ∈ keys t, k.length = n) (hg : ∀ g ∈ groups, ∀ i ∈ g, i < n)
    (hlen : 1 < groups.length) (hdis : groups.Pairwise VDisj) (m : ℝ)
    (hm : m ∈ (caeklCands groups []).map
      (Comb.eval (Rat.castHom ℝ) (entropyOf (Real.logb 2) t)))
    (hmin : ∀ x ∈ (caeklCands groups []).map
      (Comb.eval (Rat.castHom ℝ) (entropyOf (Real.logb 2) t)), m ≤ x) :
    entropyOf (Real.logb 2)
        (insertRvf (fun o => [code (labelOf (meetClasses groups (keys t)) o)]) none t) [n] ≤ m
    ∧ m ≤ Comb.eval (Rat.castHom ℝ) (entropyOf (Real.logb 2) t) (dtcC groups [])
    ∧ caeklCands groups [] ≠ [] := by
  refine ⟨?_, ?_, ?_⟩
  · obtain ⟨c, hc, rfl⟩ := List.mem_map.mp hm
    exact k_le_j code groups n t hnn hmass hn hg c hc
  · obtain ⟨c, hc, hle⟩ := j_le_b t hnn groups [] hlen hdis
    exact (hmin _ (List.mem_map.mpr ⟨c, hc, rfl⟩)).trans hle
  · exact List.ne_nil_of_mem (singletons_cand_mem groups [] hlen)

/-- Non-vacuity of `k_le_j`, `j_le_b`, `k_le_j_le_b`: a table with non-negative values (one of
them zero), mass 1, outcomes of length 3, three disjoint groups within range. -/
example :
    (∀ r ∈ ([([0, 0, 0], 1 / 2), ([0, 1, 0], 0), ([1, 1, 1], 1 / 4), ([2, 2, 0], 1 / 4)] :
      Tab (List Nat) ℝ), 0 ≤ r.2)
    ∧ (([([0, 0, 0], 1 / 2), ([0, 1, 0], 0), ([1, 1, 1], 1 / 4), ([2, 2, 0], 1 / 4)] :
      Tab (List Nat) ℝ).map (·.2)).sum = 1
    ∧ (∀ k ∈ keys ([([0, 0, 0], 1 / 2), ([0, 1, 0], 0), ([1, 1, 1], 1 / 4), ([2, 2, 0], 1 / 4)] :
      Tab (List Nat) ℝ), k.length = 3)
    ∧ (∀ g ∈ [[0], [1], [2]], ∀ i ∈ g, i < 3)
    ∧ 1 < [[0], [1], [2]].length ∧ [[0], [1], [2]].Pairwise VDisj := by
  refine ⟨?_, by norm_num, by decide, by decide, by decide, by simp [VDisj]⟩
  intro r hr; simp at hr; rcases hr with rfl | rfl | rfl | rfl <;> norm_num

/-- The candidate list for three groups: the partitions `1|2|3`, `12|3`, `13|2`, `1|23`. -/
example : (caeklCands [[0], [1], [2]] []).length = 4 := by decide +kernel

end Tables

/-! ## (c) The minimal sufficient statistics are feasible for `F`; `B ≤ M` -/

section MssChain
variable {σ : Type} [DecidableEq σ]

/-- **The minimal sufficient statistic of `X` about `Y` renders `X` and `Y` conditionally
independent** (`mss_renders_independent`): for a table with non-negative values whose outcomes
have length `n`, after appending the mss label of `X` about `Y` as variable `n`,
`H(X | Y ∪ {n}) = H(X | {n})`, i.e. `I(X:Y|f(X)) = I(X:Y) − I(f(X):Y) = 0`; and the new variable
is a function of `X`, `H({n} | X) = 0` (so a function of the outcome). `X`, `Y` must be old
variables (`< n`); `code` injective. -/
theorem mss_renders_independent (code : Nat → σ) (hcode : Function.Injective code)
    (t : Tab (List σ) ℝ) (hnn : ∀ r ∈ t, 0 ≤ r.2) (n : Nat) (hn : ∀ k ∈ keys t, k.length = n)
    (X Y : List Nat) (hX : ∀ i ∈ X, i < n) (hY : ∀ i ∈ Y, i < n) :
    Hc (entropyOf (Real.logb 2)
        (insertRvf (fun o => [code (labelOf (mssClasses t X Y) o)]) none t)) X (vunion Y [n])
      = Hc (entropyOf (Real.logb 2)
        (insertRvf (fun o => [code (labelOf (mssClasses t X Y) o)]) none t)) X [n]
    ∧ Hc (entropyOf (Real.logb 2)
        (insertRvf (fun o => [code (labelOf (mssClasses t X Y) o)]) none t)) [n] X = 0 := by
  have hsub := entropy_Submod (insertRvf (fun o => [code (labelOf (mssClasses t X Y) o)]) none t)
    (insertRvf_nonneg _ _ t hnn)
  have hS := Hc_new_of_function (fun o => code (labelOf (mssClasses t X Y) o)) n t hn X hX
    (fun k hk k' hk' e => by rw [C16.mss_function_of_X t X Y hk hk' e])
  beta_reduce at hS
  refine ⟨ci_of_mi_preserved hsub hS ?_, hS⟩
  have hmi := C16.mss_preserves_mi code hcode t hnn n hn X Y hX hY
  have ag := agree_insert (fun o => code (labelOf (mssClasses t X Y) o)) n t hn
  beta_reduce at ag
  have e1 := entropyOf_vnorm
    (insertRvf (fun o => [code (labelOf (mssClasses t X Y) o)]) none t) [n]
  have e2 := entropyOf_vnorm
    (insertRvf (fun o => [code (labelOf (mssClasses t X Y) o)]) none t) Y
  have e3 : entropyOf (Real.logb 2)
      (insertRvf (fun o => [code (labelOf (mssClasses t X Y) o)]) none t) (vunion [n] Y)
      = entropyOf (Real.logb 2)
        (insertRvf (fun o => [code (labelOf (mssClasses t X Y) o)]) none t) (Y ++ [n]) :=
    entropyOf_congr _ (by intro v; rw [mem_vunion, List.mem_append]; tauto)
  have e4 := entropyOf_vnorm
    (insertRvf (fun o => [code (labelOf (mssClasses t X Y) o)]) none t) X
  have e5 : entropyOf (Real.logb 2)
      (insertRvf (fun o => [code (labelOf (mssClasses t X Y) o)]) none t) (vunion X Y)
      = entropyOf (Real.logb 2)
        (insertRvf (fun o => [code (labelOf (mssClasses t X Y) o)]) none t) (X ++ Y) :=
    entropyOf_congr _ (by intro v; rw [mem_vunion, List.mem_append])
  have e6 := ag X hX
  have e7 := ag (X ++ Y) (by
    intro i hi
    rcases List.mem_append.mp hi with hi | hi
    · exact hX i hi
    · exact hY i hi)
  have e8 := ag Y hY
  rw [← e1, ← e2, e3, ← e4, e5, e6, e7]
  rw [e8] at hmi ⊢
  linarith

/-- **The mss of `X` about `Y` paired with any function of `Y` renders `X` and `Y` conditionally
independent** (`mss_pair_renders_independent`): append the mss label of `X` about `Y` (variable
`n`, table `t₁`), then any label `ℓ₂` that is a function of the `Y`-values on the stored outcomes
of `t₁` (variable `n+1`, table `t₂`), and let `W = {n, n+1}`. Then in `t₂`:
`H(X | Y ∪ W) = H(X | W)`, `H(Y | X ∪ W) = H(Y | W)`, and `H(W | X ∪ Y) = 0` (`W` is a function of
the outcome). The two instances used by dit are below. -/
theorem mss_pair_renders_independent (code : Nat → σ) (hcode : Function.Injective code)
    (t : Tab (List σ) ℝ) (hnn : ∀ r ∈ t, 0 ≤ r.2) (n : Nat) (hn : ∀ k ∈ keys t, k.length = n)
    (X Y : List Nat) (hX : ∀ i ∈ X, i < n) (hY : ∀ i ∈ Y, i < n)
    (ℓ₂ : List σ → σ) (t₁ t₂ : Tab (List σ) ℝ)
    (h₁ : t₁ = insertRvf (fun o => [code (labelOf (mssClasses t X Y) o)]) none t)
    (hℓ₂ : ∀ k ∈ keys t₁, ∀ k' ∈ keys t₁, project Y k = project Y k' → ℓ₂ k = ℓ₂ k')
    (h₂ : t₂ = insertRvf (fun o => [ℓ₂ o]) none t₁) :
    Hc (entropyOf (Real.logb 2) t₂) X (vunion Y [n, n + 1])
        = Hc (entropyOf (Real.logb 2) t₂) X [n, n + 1]
    ∧ Hc (entropyOf (Real.logb 2) t₂) Y (vunion X [n, n + 1])
        = Hc (entropyOf (Real.logb 2) t₂) Y [n, n + 1]
    ∧ Hc (entropyOf (Real.logb 2) t₂) [n, n + 1] (vunion X Y) = 0 := by
  obtain ⟨hCI1, hS1⟩ := mss_renders_independent code hcode t hnn n hn X Y hX hY
  rw [← h₁] at hCI1 hS1
  have hnn1 : ∀ r ∈ t₁, 0 ≤ r.2 := by rw [h₁]; exact insertRvf_nonneg _ _ t hnn
  have hn1 : ∀ k ∈ keys t₁, k.length = n + 1 := by
    rw [h₁]; exact insertRvf_keys_length _ n t hn
  have hX1 : ∀ i ∈ X, i < n + 1 := fun i hi => Nat.lt_succ_of_lt (hX i hi)
  have hY1 : ∀ i ∈ Y, i < n + 1 := fun i hi => Nat.lt_succ_of_lt (hY i hi)
  have hN1 : ∀ i ∈ [n], i < n + 1 := by simp
  have ag := agree_insert ℓ₂ (n + 1) t₁ hn1
  have hT := Hc_new_of_function ℓ₂ (n + 1) t₁ hn1 Y hY1 hℓ₂
  rw [← h₂] at ag hT
  have hsub : Submod (entropyOf (Real.logb 2) t₂) := by
    rw [h₂]; exact entropy_Submod _ (insertRvf_nonneg _ _ t₁ hnn1)
  have hCI2 : Hc (entropyOf (Real.logb 2) t₂) X (vunion Y [n])
      = Hc (entropyOf (Real.logb 2) t₂) X [n] := by
    rw [Hc_agree ag hX1 (by
        intro i hi
        rcases (mem_vunion _ _ _).mp hi with hi | hi
        · exact hY1 i hi
        · exact hN1 i hi),
      Hc_agree ag hX1 hN1]
    exact hCI1
  have hS2 : Hc (entropyOf (Real.logb 2) t₂) [n] X = 0 := by
    rw [Hc_agree ag hN1 hX1]; exact hS1
  have hW : ∀ x, x ∈ vunion [n] [n + 1] ↔ x ∈ [n, n + 1] := by
    intro x; rw [mem_vunion]; simp
  have hext := ci_extend hsub hT hCI2
  have c1 : Hc (entropyOf (Real.logb 2) t₂) X (vunion Y [n, n + 1])
      = Hc (entropyOf (Real.logb 2) t₂) X [n, n + 1] := by
    have a1 : Hc (entropyOf (Real.logb 2) t₂) X (vunion Y (vunion [n] [n + 1]))
        = Hc (entropyOf (Real.logb 2) t₂) X (vunion Y [n, n + 1]) :=
      Hc_congr _ (by intro x; simp [mem_vunion]) (by intro x; simp [mem_vunion])
    have a2 : Hc (entropyOf (Real.logb 2) t₂) X (vunion [n] [n + 1])
        = Hc (entropyOf (Real.logb 2) t₂) X [n, n + 1] :=
      Hc_congr _ hW (by intro x; rw [hW])
    rw [← a1, ← a2]; exact hext
  refine ⟨c1, ci_symm _ c1, ?_⟩
  have hfu := function_union hsub hS2 hT
  rw [← hfu]
  exact Hc_congr _ (fun _ => Iff.rfl) (by intro x; rw [hW])

/-- **`B ≤ H(W) ≤ H(X ∪ Y)`** for the pair `W = {n, n+1}` of `mss_pair_renders_independent`
(`b_le_pair_entropy`): table with non-negative values, total mass 1 (used for `H(∅) = 0`) and
outcomes of length `n`; `B` is the dual total correlation of `[X, Y]` on the original table. -/
theorem b_le_pair_entropy (code : Nat → σ) (hcode : Function.Injective code)
    (t : Tab (List σ) ℝ) (hnn : ∀ r ∈ t, 0 ≤ r.2) (hmass : (t.map (·.2)).sum = 1) (n : Nat)
    (hn : ∀ k ∈ keys t, k.length = n)
    (X Y : List Nat) (hX : ∀ i ∈ X, i < n) (hY : ∀ i ∈ Y, i < n)
    (ℓ₂ : List σ → σ) (t₁ t₂ : Tab (List σ) ℝ)
    (h₁ : t₁ = insertRvf (fun o => [code (labelOf (mssClasses t X Y) o)]) none t)
    (hℓ₂ : ∀ k ∈ keys t₁, ∀ k' ∈ keys t₁, project Y k = project Y k' → ℓ₂ k = ℓ₂ k')
    (h₂ : t₂ = insertRvf (fun o => [ℓ₂ o]) none t₁) :
    Comb.eval (Rat.castHom ℝ) (entropyOf (Real.logb 2) t) (dtcC [X, Y] [])
        ≤ entropyOf (Real.logb 2) t₂ [n, n + 1]
    ∧ entropyOf (Real.logb 2) t₂ [n, n + 1] ≤ entropyOf (Real.logb 2) t (vunion X Y) := by
  obtain ⟨c1, _, c3⟩ :=
    mss_pair_renders_independent code hcode t hnn n hn X Y hX hY ℓ₂ t₁ t₂ h₁ hℓ₂ h₂
  have hnn1 : ∀ r ∈ t₁, 0 ≤ r.2 := by rw [h₁]; exact insertRvf_nonneg _ _ t hnn
  have hnn2 : ∀ r ∈ t₂, 0 ≤ r.2 := by rw [h₂]; exact insertRvf_nonneg _ _ t₁ hnn1
  have hmass2 : (t₂.map (·.2)).sum = 1 := by
    rw [h₂, insertRvf_mass, h₁, insertRvf_mass]; exact hmass
  have hn1 : ∀ k ∈ keys t₁, k.length = n + 1 := by
    rw [h₁]; exact insertRvf_keys_length _ n t hn
  have hsub : Submod (entropyOf (Real.logb 2) t₂) := entropy_Submod t₂ hnn2
  have ag1 := agree_insert (fun o => code (labelOf (mssClasses t X Y) o)) n t hn
  have ag2 := agree_insert ℓ₂ (n + 1) t₁ hn1
  beta_reduce at ag1
  rw [← h₁] at ag1
  rw [← h₂] at ag2
  have hg : ∀ g ∈ [X, Y], ∀ i ∈ g, i < n := by
    intro g hgm
    simp only [List.mem_cons, List.not_mem_nil, or_false] at hgm
    rcases hgm with rfl | rfl
    · exact hX
    · exact hY
  constructor
  · have hb := C16.b_le_f t₂ hnn2 hmass2 [X, Y] [n, n + 1] (ci_two_groups hsub c1)
    rw [eval_dtcC_agree (Rat.castHom ℝ) ag2 [X, Y] []
        (fun g hgm i hi => Nat.lt_succ_of_lt (hg g hgm i hi)) (by simp),
      eval_dtcC_agree (Rat.castHom ℝ) ag1 [X, Y] [] hg (by simp)] at hb
    exact hb
  · have hle := H_le_of_function hsub c3
    have hXY : ∀ i ∈ vunion X Y, i < n := by
      intro i hi
      rcases (mem_vunion _ _ _).mp hi with hi | hi
      · exact hX i hi
      · exact hY i hi
    rw [← entropyOf_vnorm, ← entropyOf_vnorm,
      ag2 (vunion X Y) (fun i hi => Nat.lt_succ_of_lt (hXY i hi)), ag1 (vunion X Y) hXY] at hle
    exact hle

/-- **The joint minimal sufficient statistic renders `X` and `Y` conditionally independent and
is a function of the outcome** (`mss_joint_renders_independent`). As `insert_joint_mss` does,
append the mss label of `X` about `Y` (variable `n`, table `t₁`), then the mss label of `Y` about
`X` computed on `t₁` (variable `n+1`, table `t₂`); `W = {n, n+1}` is the joint statistic whose
entropy is `M`. Then in `t₂`: `H(X | Y ∪ W) = H(X | W)`, `H(Y | X ∪ W) = H(Y | W)` (so `W` is
feasible for the minimisation defining `F`), and `H(W | X ∪ Y) = 0`. -/
theorem mss_joint_renders_independent (code : Nat → σ) (hcode : Function.Injective code)
    (t : Tab (List σ) ℝ) (hnn : ∀ r ∈ t, 0 ≤ r.2) (n : Nat) (hn : ∀ k ∈ keys t, k.length = n)
    (X Y : List Nat) (hX : ∀ i ∈ X, i < n) (hY : ∀ i ∈ Y, i < n)
    (t₁ t₂ : Tab (List σ) ℝ)
    (h₁ : t₁ = insertRvf (fun o => [code (labelOf (mssClasses t X Y) o)]) none t)
    (h₂ : t₂ = insertRvf (fun o => [code (labelOf (mssClasses t₁ Y X) o)]) none t₁) :
    Hc (entropyOf (Real.logb 2) t₂) X (vunion Y [n, n + 1])
        = Hc (entropyOf (Real.logb 2) t₂) X [n, n + 1]
    ∧ Hc (entropyOf (Real.logb 2) t₂) Y (vunion X [n, n + 1])
        = Hc (entropyOf (Real.logb 2) t₂) Y [n, n + 1]
    ∧ Hc (entropyOf (Real.logb 2) t₂) [n, n + 1] (vunion X Y) = 0 :=
  mss_pair_renders_independent code hcode t hnn n hn X Y hX hY
    (fun o => code (labelOf (mssClasses t₁ Y X) o)) t₁ t₂ h₁
    (fun k hk k' hk' e => by rw [C16.mss_function_of_X t₁ Y X hk hk' e]) h₂

/-- **`B ≤ M`** (`b_le_m`): for two groups `X`, `Y` of a table with non-negative values, total
mass 1 and outcomes of length `n`, the dual total correlation `B` of `[X, Y]` (equal to `I(X:Y)`
for disjoint groups) is at most the entropy `M` of the joint minimal sufficient statistic
`W = {n, n+1}` built as in `mss_joint_renders_independent`, and `M ≤ H(X ∪ Y)`. Since
`F = min {H(W') : W' renders X, Y conditionally independent}` and `W` is such a `W'` with
`H(W) = M`, this is the link `F ≤ M` (with `B ≤ F` from Props/C16 `b_le_f`). Total mass 1 is used
for `H(∅) = 0`. -/
theorem b_le_m (code : Nat → σ) (hcode : Function.Injective code)
    (t : Tab (List σ) ℝ) (hnn : ∀ r ∈ t, 0 ≤ r.2) (hmass : (t.map (·.2)).sum = 1) (n : Nat)
    (hn : ∀ k ∈ keys t, k.length = n)
    (X Y : List Nat) (hX : ∀ i ∈ X, i < n) (hY : ∀ i ∈ Y, i < n)
    (t₁ t₂ : Tab (List σ) ℝ)
    (h₁ : t₁ = insertRvf (fun o => [code (labelOf (mssClasses t X Y) o)]) none t)
    (h₂ : t₂ = insertRvf (fun o => [code (labelOf (mssClasses t₁ Y X) o)]) none t₁) :
    Comb.eval (Rat.castHom ℝ) (entropyOf (Real.logb 2) t) (dtcC [X, Y] [])
        ≤ entropyOf (Real.logb 2) t₂ [n, n + 1]
    ∧ entropyOf (Real.logb 2) t₂ [n, n + 1] ≤ entropyOf (Real.logb 2) t (vunion X Y) :=
  b_le_pair_entropy code hcode t hnn hmass n hn X Y hX hY
    (fun o => code (labelOf (mssClasses t₁ Y X) o)) t₁ t₂ h₁
    (fun k hk k' hk' e => by rw [C16.mss_function_of_X t₁ Y X hk hk' e]) h₂

/-- **The same with both statistics computed on the original table and appended at once**
(`mss_joint_one_shot`): `t₂ = insertRvf (fun o => [f(o), g(o)]) none t` with `f` the mss label of
`X` about `Y` and `g` the mss label of `Y` about `X`, both from `mssClasses t`; `W = {n, n+1}`.
Then `I(X:Y|W) = 0` both ways, `H(W | X ∪ Y) = 0`, and `B ≤ H(W) ≤ H(X ∪ Y)` (the last two need
total mass 1). -/
theorem mss_joint_one_shot (code : Nat → σ) (hcode : Function.Injective code)
    (t : Tab (List σ) ℝ) (hnn : ∀ r ∈ t, 0 ≤ r.2) (hmass : (t.map (·.2)).sum = 1) (n : Nat)
    (hn : ∀ k ∈ keys t, k.length = n)
    (X Y : List Nat) (hX : ∀ i ∈ X, i < n) (hY : ∀ i ∈ Y, i < n) (t₂ : Tab (List σ) ℝ)
    (h₂ : t₂ = insertRvf (fun o => [code (labelOf (mssClasses t X Y) o),
      code (labelOf (mssClasses t Y X) o)]) none t) :
    Hc (entropyOf (Real.logb 2) t₂) X (vunion Y [n, n + 1])
        = Hc (entropyOf (Real.logb 2) t₂) X [n, n + 1]
    ∧ Hc (entropyOf (Real.logb 2) t₂) Y (vunion X [n, n + 1])
        = Hc (entropyOf (Real.logb 2) t₂) Y [n, n + 1]
    ∧ Hc (entropyOf (Real.logb 2) t₂) [n, n + 1] (vunion X Y) = 0
    ∧ Comb.eval (Rat.castHom ℝ) (entropyOf (Real.logb 2) t) (dtcC [X, Y] [])
        ≤ entropyOf (Real.logb 2) t₂ [n, n + 1]
    ∧ entropyOf (Real.logb 2) t₂ [n, n + 1] ≤ entropyOf (Real.logb 2) t (vunion X Y) := by
  have e := insertRvf_two_eq (fun o => code (labelOf (mssClasses t X Y) o))
    (fun o => code (labelOf (mssClasses t Y X) o)) n t hn
  beta_reduce at e
  rw [e] at h₂
  have hfun := take_function (fun o => code (labelOf (mssClasses t X Y) o))
    (fun o => code (labelOf (mssClasses t Y X) o)) n t hn Y hY
    (fun k hk k' hk' e => by rw [C16.mss_function_of_X t Y X hk hk' e])
  beta_reduce at hfun
  obtain ⟨c1, c2, c3⟩ := mss_pair_renders_independent code hcode t hnn n hn X Y hX hY
    (fun o' => code (labelOf (mssClasses t Y X) (o'.take n))) _ t₂ rfl hfun h₂
  obtain ⟨c4, c5⟩ := b_le_pair_entropy code hcode t hnn hmass n hn X Y hX hY
    (fun o' => code (labelOf (mssClasses t Y X) (o'.take n))) _ t₂ rfl hfun h₂
  exact ⟨c1, c2, c3, c4, c5⟩

/-- The single statistic already bounds `B`: `B ≤ H(f(X))` (`b_le_mss_entropy`), for the table
`t₁` with the mss label of `X` about `Y` appended as variable `n`. -/
theorem b_le_mss_entropy (code : Nat → σ) (hcode : Function.Injective code)
    (t : Tab (List σ) ℝ) (hnn : ∀ r ∈ t, 0 ≤ r.2) (hmass : (t.map (·.2)).sum = 1) (n : Nat)
    (hn : ∀ k ∈ keys t, k.length = n)
    (X Y : List Nat) (hX : ∀ i ∈ X, i < n) (hY : ∀ i ∈ Y, i < n) :
    Comb.eval (Rat.castHom ℝ) (entropyOf (Real.logb 2) t) (dtcC [X, Y] [])
      ≤ entropyOf (Real.logb 2)
          (insertRvf (fun o => [code (labelOf (mssClasses t X Y) o)]) none t) [n] := by
  obtain ⟨c1, _⟩ := mss_renders_independent code hcode t hnn n hn X Y hX hY
  have hnn1 := insertRvf_nonneg (fun o => [code (labelOf (mssClasses t X Y) o)]) none t hnn
  have hsub := entropy_Submod _ hnn1
  have ag1 := agree_insert (fun o => code (labelOf (mssClasses t X Y) o)) n t hn
  beta_reduce at ag1
  have hg : ∀ g ∈ [X, Y], ∀ i ∈ g, i < n := by
    intro g hgm
    simp only [List.mem_cons, List.not_mem_nil, or_false] at hgm
    rcases hgm with rfl | rfl
    · exact hX
    · exact hY
  have hb := C16.b_le_f _ hnn1 (by rw [insertRvf_mass]; exact hmass) [X, Y] [n]
    (ci_two_groups hsub c1)
  rw [eval_dtcC_agree (Rat.castHom ℝ) ag1 [X, Y] [] hg (by simp)] at hb
  exact hb

/-- Non-vacuity of the theorems of this section (`X = [0]`, `Y = [1]`, `n = 2`). -/
example : Function.Injective (fun i : Nat => i)
    ∧ (∀ r ∈ ([([0, 0], 1 / 8), ([0, 1], 1 / 8), ([1, 0], 1 / 4), ([1, 1], 1 / 4),
        ([2, 0], 1 / 4)] : Tab (List Nat) ℝ), 0 ≤ r.2)
    ∧ (([([0, 0], 1 / 8), ([0, 1], 1 / 8), ([1, 0], 1 / 4), ([1, 1], 1 / 4),
        ([2, 0], 1 / 4)] : Tab (List Nat) ℝ).map (·.2)).sum = 1
    ∧ (∀ k ∈ keys ([([0, 0], 1 / 8), ([0, 1], 1 / 8), ([1, 0], 1 / 4), ([1, 1], 1 / 4),
        ([2, 0], 1 / 4)] : Tab (List Nat) ℝ), k.length = 2)
    ∧ (∀ i ∈ [0], i < 2) ∧ ∀ i ∈ [1], i < 2 := by
  refine ⟨fun _ _ h => h, ?_, by norm_num, by decide, by decide, by decide⟩
  intro r hr; simp at hr; rcases hr with rfl | rfl | rfl | rfl | rfl <;> norm_num

/-- The two-step construction over `ℚ` on that table: `f` merges `x = 0, 1`; `g` keeps `y`. -/
example : insertRvf (fun o => [labelOf (mssClasses
      (insertRvf (fun o => [labelOf (mssClasses ([([0, 0], 1 / 8), ([0, 1], 1 / 8),
        ([1, 0], 1 / 4), ([1, 1], 1 / 4), ([2, 0], 1 / 4)] : Tab (List Nat) Rat) [0] [1]) o]) none
        ([([0, 0], 1 / 8), ([0, 1], 1 / 8), ([1, 0], 1 / 4), ([1, 1], 1 / 4), ([2, 0], 1 / 4)] :
          Tab (List Nat) Rat)) [1] [0]) o]) none
      (insertRvf (fun o => [labelOf (mssClasses ([([0, 0], 1 / 8), ([0, 1], 1 / 8),
        ([1, 0], 1 / 4), ([1, 1], 1 / 4), ([2, 0], 1 / 4)] : Tab (List Nat) Rat) [0] [1]) o]) none
        ([([0, 0], 1 / 8), ([0, 1], 1 / 8), ([1, 0], 1 / 4), ([1, 1], 1 / 4), ([2, 0], 1 / 4)] :
          Tab (List Nat) Rat))
    = [([0, 0, 0, 0], 1 / 8), ([0, 1, 0, 1], 1 / 8), ([1, 0, 0, 0], 1 / 4),
        ([1, 1, 0, 1], 1 / 4), ([2, 0, 1, 0], 1 / 4)] := by decide +kernel

/-- The one-shot construction of `mss_joint_one_shot` on the same table. -/
example : insertRvf (fun o => [labelOf (mssClasses ([([0, 0], 1 / 8), ([0, 1], 1 / 8),
        ([1, 0], 1 / 4), ([1, 1], 1 / 4), ([2, 0], 1 / 4)] : Tab (List Nat) Rat) [0] [1]) o,
      labelOf (mssClasses ([([0, 0], 1 / 8), ([0, 1], 1 / 8),
        ([1, 0], 1 / 4), ([1, 1], 1 / 4), ([2, 0], 1 / 4)] : Tab (List Nat) Rat) [1] [0]) o]) none
      ([([0, 0], 1 / 8), ([0, 1], 1 / 8), ([1, 0], 1 / 4), ([1, 1], 1 / 4), ([2, 0], 1 / 4)] :
        Tab (List Nat) Rat)
    = [([0, 0, 0, 0], 1 / 8), ([0, 1, 0, 1], 1 / 8), ([1, 0, 0, 0], 1 / 4),
        ([1, 1, 0, 1], 1 / 4), ([2, 0, 1, 0], 1 / 4)] := by decide +kernel

end MssChain

end Dit.Props.C16Chain
