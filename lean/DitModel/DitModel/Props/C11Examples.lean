/-
C11 (example-distribution part) — "the example-distribution constructors (giant bit, n-mod-m,
dice sums, logic gates, binomial, hypergeometric) return the tables their definitions give" —
and the binning clause of C19 — "binned() assigns every sample to one of the requested bins,
uniformly spaced".

Theorems about `words`, `giantBit`, `nModM`, `iidSum`, `gateTab` (`xorGate`, `andGate`,
`orGate`), `binomialTab`, `hypergeometricTab`, `uniformRange`, `summedDice`, `uniformBin`
(Core/Examples.lean) over a field `α` of characteristic zero with the cast
`fun n : Nat => (n : α)` for `ofNat` (an ordered field where signs matter).  `lookupD 0 t k` is
the stored value of `k` or zero, `mass t` the total, `keys t` the stored outcomes in order.
Helper lemmas: Lemmas/Examples.lean.  The table-operation part of C11 is Props/C11.lean.
-/
import DitModel.Lemmas.Examples
import Mathlib.Algebra.Field.Rat
import Mathlib.Algebra.Order.Ring.Rat

set_option linter.unusedSectionVars false

namespace Dit.Props.C11Examples
open Dit Dit.Lemmas.Table Dit.Lemmas.Constructors Dit.Lemmas.Examples

/-! ### Words -/

/-- **`words k n`** (`itertools.product(range(k), repeat=n)`): exactly the lists of length `n`
over `{0..k-1}`, each once, `k^n` of them. -/
theorem words_spec (k n : Nat) :
    (∀ w, w ∈ words k n ↔ w.length = n ∧ ∀ x ∈ w, x < k)
      ∧ (words k n).Nodup ∧ (words k n).length = k ^ n :=
  ⟨fun _ => mem_words, nodup_words k n, length_words k n⟩

/-! ### `giant_bit` -/

section Giant
variable {α : Type} [Field α]

/-- **`giant_bit(n, k)`, the table**: the stored outcomes are the `k` constant words
`aa…a` of length `n`, in order of `a`; they are pairwise distinct when `n ≥ 1` (for `n = 0` all
`k` rows carry the empty word — the hypothesis is needed); each has probability `1/k`, every
other outcome zero. -/
theorem giantBit_table (ofNat : Nat → α) (n k : Nat) :
    keys (giantBit ofNat n k) = (List.range k).map (fun a => List.replicate n a)
      ∧ (1 ≤ n → (keys (giantBit ofNat n k)).Nodup)
      ∧ (∀ a, a < k → lookupD 0 (giantBit ofNat n k) (List.replicate n a) = 1 / ofNat k)
      ∧ (∀ o, o ∉ keys (giantBit ofNat n k) → lookupD 0 (giantBit ofNat n k) o = 0) := by
  have hk : keys (giantBit ofNat n k) = (List.range k).map (fun a => List.replicate n a) := by
    unfold giantBit; exact keys_map_const _ _ _
  refine ⟨hk, fun hn => ?_, fun a ha => ?_, fun o ho => lookupD_of_not_mem 0 ho⟩
  · rw [hk]; exact List.nodup_range.map (List.replicate_right_injective (by omega))
  · unfold giantBit
    rw [lookupD_map_const, if_pos]
    exact List.mem_map.mpr ⟨a, List.mem_range.mpr ha, rfl⟩

/-- **`giant_bit` is normalised** for `k ≥ 1` (for `k = 0` the table is empty), in
characteristic zero. -/
theorem giantBit_mass [CharZero α] (n : Nat) {k : Nat} (hk : 1 ≤ k) :
    mass (giantBit (fun m : Nat => (m : α)) n k) = 1 := by
  unfold giantBit
  rw [mass_map_const, List.length_range]
  exact nsmul_one_div_cast (by omega)

/-- **`giant_bit`: all coordinates agree.** Every stored outcome has length `n`, symbols
`< k`, and any two of its coordinates are equal. -/
theorem giantBit_coords (ofNat : Nat → α) (n k : Nat) :
    ∀ r ∈ giantBit ofNat n k, r.1.length = n ∧ (∀ x ∈ r.1, x < k)
      ∧ ∀ i j, i < n → j < n → r.1[i]? = r.1[j]? := by
  intro r hr
  unfold giantBit at hr
  obtain ⟨a, ha, h1, _⟩ := mem_map_const hr
  rw [h1]
  refine ⟨List.length_replicate, fun x hx => ?_, fun i j hi hj => ?_⟩
  · rw [List.eq_of_mem_replicate hx]; exact List.mem_range.mp ha
  · rw [List.getElem?_replicate, List.getElem?_replicate, if_pos hi, if_pos hj]

example : (1 : Nat) ≤ 3 ∧ (1 : Nat) ≤ 2 := by decide
example : giantBit (fun m : Nat => (m : Rat)) 3 2 = [([0, 0, 0], 1 / 2), ([1, 1, 1], 1 / 2)] := by
  decide +kernel

end Giant

/-! ### `n_mod_m` -/

section NModM
variable {α : Type} [Field α]

/-- **`n_mod_m(n, m)`, the table**: the stored outcomes are `w ++ [sum(w) mod m]` for the words
`w` of length `n − 1` over `{0..m-1}`, in `itertools.product` order, pairwise distinct, each
of probability `1/m^(n−1)`; every other outcome has probability zero. -/
theorem nModM_table (ofNat : Nat → α) (n m : Nat) :
    keys (nModM ofNat n m) = (words m (n - 1)).map (fun w => w ++ [w.sum % m])
      ∧ (keys (nModM ofNat n m)).Nodup
      ∧ (∀ w ∈ words m (n - 1),
          lookupD 0 (nModM ofNat n m) (w ++ [w.sum % m]) = 1 / ofNat (m ^ (n - 1)))
      ∧ (∀ o, o ∉ keys (nModM ofNat n m) → lookupD 0 (nModM ofNat n m) o = 0) := by
  unfold nModM
  exact app_words_table m (n - 1) (fun w => w.sum % m) _

/-- **`n_mod_m` is normalised** for `m ≥ 1` (needed: for `m = 0`, `n ≥ 2` the table is empty),
in characteristic zero. -/
theorem nModM_mass [CharZero α] (n : Nat) {m : Nat} (hm : 1 ≤ m) :
    mass (nModM (fun k : Nat => (k : α)) n m) = 1 := by
  unfold nModM
  rw [app_words_mass m (n - 1) (fun w => w.sum % m)]
  exact nsmul_one_div_cast (Nat.pow_pos hm).ne'

/-- **Support of `n_mod_m`** for `n ≥ 1`, `m ≥ 1`: the stored outcomes are exactly the words of
length `n` over `{0..m-1}` whose last symbol is the sum of the others modulo `m`. (`n ≥ 1`: the
code's `n − 1` inputs plus one output have length `n`; `m ≥ 1`: the residue is `< m`.) -/
theorem nModM_support (ofNat : Nat → α) {n m : Nat} (hn : 1 ≤ n) (hm : 1 ≤ m) (o : List Nat) :
    o ∈ keys (nModM ofNat n m)
      ↔ o.length = n ∧ (∀ x ∈ o, x < m) ∧ o.getLast? = some (o.dropLast.sum % m) := by
  unfold nModM
  rw [app_words_mem_keys m (n - 1) (fun w => w.sum % m), Nat.sub_add_cancel hn]
  constructor
  · rintro ⟨h1, h2, h3⟩
    refine ⟨h1, fun x hx => ?_, h3⟩
    rw [← List.dropLast_append_getLast? _ h3, List.mem_append, List.mem_singleton] at hx
    rcases hx with hx | rfl
    · exact h2 x hx
    · exact Nat.mod_lt _ (by omega)
  · rintro ⟨h1, h2, h3⟩
    exact ⟨h1, fun x hx => h2 x (List.mem_of_mem_dropLast hx), h3⟩

/-- **`n_mod_m`: the last symbol is the sum of the others modulo `m`**, on every stored
outcome (all are non-empty), for all `n`, `m`. -/
theorem nModM_sum (ofNat : Nat → α) (n m : Nat) :
    ∀ o ∈ keys (nModM ofNat n m), ∃ h : o ≠ [], o.dropLast.sum % m = o.getLast h := by
  intro o ho
  unfold nModM at ho
  obtain ⟨_, _, h3⟩ := (app_words_mem_keys m (n - 1) (fun w => w.sum % m) _ o).mp ho
  have hne : o ≠ [] := by rintro rfl; simp at h3
  refine ⟨hne, ?_⟩
  rw [List.getLast?_eq_getLast_of_ne_nil hne] at h3
  exact (Option.some.inj h3).symm

/-- **`n_mod_m`: the inputs are uniform.** The marginal on the first `n − 1` symbols (drop the
last symbol, or project onto positions `0..n−2`) gives `1/m^(n−1)` to every word over
`{0..m-1}` and zero to anything else. -/
theorem nModM_marginal (ofNat : Nat → α) (n m : Nat) (w : List Nat) :
    lookupD 0 (pushforward List.dropLast (nModM ofNat n m)) w
        = (if w ∈ words m (n - 1) then 1 / ofNat (m ^ (n - 1)) else 0)
      ∧ lookupD 0 (pushforward (project (List.range (n - 1))) (nModM ofNat n m)) w
        = (if w ∈ words m (n - 1) then 1 / ofNat (m ^ (n - 1)) else 0) := by
  unfold nModM
  exact app_words_marginal m (n - 1) (fun w => w.sum % m) _ w

example : (1 : Nat) ≤ 3 ∧ (1 : Nat) ≤ 2 := by decide
example : nModM (fun k : Nat => (k : Rat)) 3 2
    = [([0, 0, 0], 1 / 4), ([0, 1, 1], 1 / 4), ([1, 0, 1], 1 / 4), ([1, 1, 0], 1 / 4)] := by
  decide +kernel
example : nModM (fun k : Nat => (k : Rat)) 2 3
    = [([0, 0], 1 / 3), ([1, 1], 1 / 3), ([2, 2], 1 / 3)] := by decide +kernel

end NModM

/-! ### `iid_sum` -/

section IidSum
variable {α : Type} [Field α]

/-- **`iid_sum(n, k)`, the table**: the stored outcomes are `w ++ [sum(w)]` for the words `w`
of length `n` over `{0..k-1}`, in `itertools.product` order, pairwise distinct, each of
probability `1/k^n`; every other outcome zero. -/
theorem iidSum_table (ofNat : Nat → α) (n k : Nat) :
    keys (iidSum ofNat n k) = (words k n).map (fun w => w ++ [w.sum])
      ∧ (keys (iidSum ofNat n k)).Nodup
      ∧ (∀ w ∈ words k n, lookupD 0 (iidSum ofNat n k) (w ++ [w.sum]) = 1 / ofNat (k ^ n))
      ∧ (∀ o, o ∉ keys (iidSum ofNat n k) → lookupD 0 (iidSum ofNat n k) o = 0) := by
  unfold iidSum
  exact app_words_table k n (fun w => w.sum) _

/-- **`iid_sum` is normalised** for `k ≥ 1` (for `k = 0`, `n ≥ 1` the table is empty), in
characteristic zero. -/
theorem iidSum_mass [CharZero α] (n : Nat) {k : Nat} (hk : 1 ≤ k) :
    mass (iidSum (fun m : Nat => (m : α)) n k) = 1 := by
  unfold iidSum
  rw [app_words_mass k n (fun w => w.sum)]
  exact nsmul_one_div_cast (Nat.pow_pos hk).ne'

/-- **Support of `iid_sum`**: the stored outcomes are exactly the words of length `n + 1` whose
first `n` symbols are `< k` and whose last symbol is their sum. -/
theorem iidSum_support (ofNat : Nat → α) (n k : Nat) (o : List Nat) :
    o ∈ keys (iidSum ofNat n k)
      ↔ o.length = n + 1 ∧ (∀ x ∈ o.dropLast, x < k) ∧ o.getLast? = some o.dropLast.sum := by
  unfold iidSum
  exact app_words_mem_keys k n (fun w => w.sum) _ o

/-- **`iid_sum`: the summands are iid uniform.** The marginal on the first `n` symbols gives
`1/k^n` to every word over `{0..k-1}` (the product of `n` uniform marginals) and zero to
anything else. -/
theorem iidSum_marginal (ofNat : Nat → α) (n k : Nat) (w : List Nat) :
    lookupD 0 (pushforward List.dropLast (iidSum ofNat n k)) w
        = (if w ∈ words k n then 1 / ofNat (k ^ n) else 0)
      ∧ lookupD 0 (pushforward (project (List.range n)) (iidSum ofNat n k)) w
        = (if w ∈ words k n then 1 / ofNat (k ^ n) else 0) := by
  unfold iidSum
  exact app_words_marginal k n (fun w => w.sum) _ w

example : iidSum (fun m : Nat => (m : Rat)) 2 2
    = [([0, 0, 0], 1 / 4), ([0, 1, 1], 1 / 4), ([1, 0, 1], 1 / 4), ([1, 1, 2], 1 / 4)] := by
  decide +kernel

end IidSum

/-! ### Logic gates -/

section Gates
variable {α : Type} [Field α]

/-- **Logic gate on `k` uniform bits, the table** (any gate function `g`; `Xor`, `And`, `Or` are
`gateTab _ xorGate/andGate/orGate`): the stored outcomes are `w ++ [g w]` for the bit words `w`
of length `k`, in `itertools.product` order, pairwise distinct, each of probability `1/2^k`;
every other outcome zero. -/
theorem gate_table (ofNat : Nat → α) (g : List Nat → Nat) (k : Nat) :
    keys (gateTab ofNat g k) = (words 2 k).map (fun w => w ++ [g w])
      ∧ (keys (gateTab ofNat g k)).Nodup
      ∧ (∀ w ∈ words 2 k, lookupD 0 (gateTab ofNat g k) (w ++ [g w]) = 1 / ofNat (2 ^ k))
      ∧ (∀ o, o ∉ keys (gateTab ofNat g k) → lookupD 0 (gateTab ofNat g k) o = 0) := by
  unfold gateTab
  exact app_words_table 2 k g _

/-- **Gates are normalised** (every `k`, every gate), in characteristic zero. -/
theorem gate_mass [CharZero α] (g : List Nat → Nat) (k : Nat) :
    mass (gateTab (fun m : Nat => (m : α)) g k) = 1 := by
  unfold gateTab
  rw [app_words_mass 2 k g]
  exact nsmul_one_div_cast (Nat.pow_pos (by decide)).ne'

/-- **Support of a gate**: the stored outcomes are exactly the words of length `k + 1` whose
first `k` symbols are bits and whose last symbol is the gate's value on them. -/
theorem gate_support (ofNat : Nat → α) (g : List Nat → Nat) (k : Nat) (o : List Nat) :
    o ∈ keys (gateTab ofNat g k)
      ↔ o.length = k + 1 ∧ (∀ x ∈ o.dropLast, x < 2) ∧ o.getLast? = some (g o.dropLast) := by
  unfold gateTab
  exact app_words_mem_keys 2 k g _ o

/-- **Gate inputs are uniform**: the marginal on the `k` input bits gives `1/2^k` to every bit
word and zero to anything else. -/
theorem gate_marginal (ofNat : Nat → α) (g : List Nat → Nat) (k : Nat) (w : List Nat) :
    lookupD 0 (pushforward List.dropLast (gateTab ofNat g k)) w
        = (if w ∈ words 2 k then 1 / ofNat (2 ^ k) else 0)
      ∧ lookupD 0 (pushforward (project (List.range k)) (gateTab ofNat g k)) w
        = (if w ∈ words 2 k then 1 / ofNat (2 ^ k) else 0) := by
  unfold gateTab
  exact app_words_marginal 2 k g _ w

/-- **The gate functions** on bit words: XOR is the parity of the number of ones, AND is `1`
exactly when every input is `1` — the product of the bits —, OR is `1` exactly when some input
is `1` — when the sum is positive. (The first three hold for all words.) -/
theorem gate_values (w : List Nat) :
    xorGate w = w.sum % 2
      ∧ andGate w = (if ∀ x ∈ w, x = 1 then 1 else 0)
      ∧ orGate w = (if ∃ x ∈ w, x = 1 then 1 else 0)
      ∧ ((∀ x ∈ w, x < 2) → andGate w = w.prod ∧ orGate w = (if 0 < w.sum then 1 else 0)) :=
  ⟨rfl, andGate_eq_ite w, orGate_eq_ite w,
    fun h => ⟨andGate_eq_prod h, orGate_eq_sum_pos h⟩⟩

example : gateTab (fun m : Nat => (m : Rat)) xorGate 2
    = [([0, 0, 0], 1 / 4), ([0, 1, 1], 1 / 4), ([1, 0, 1], 1 / 4), ([1, 1, 0], 1 / 4)] := by
  decide +kernel
example : gateTab (fun m : Nat => (m : Rat)) andGate 2
    = [([0, 0, 0], 1 / 4), ([0, 1, 0], 1 / 4), ([1, 0, 0], 1 / 4), ([1, 1, 1], 1 / 4)] := by
  decide +kernel
example : gateTab (fun m : Nat => (m : Rat)) orGate 2
    = [([0, 0, 0], 1 / 4), ([0, 1, 1], 1 / 4), ([1, 0, 1], 1 / 4), ([1, 1, 1], 1 / 4)] := by
  decide +kernel
example : ∀ x ∈ [1, 0, 1], x < 2 := by decide

end Gates

/-! ### `binomial` -/

section Binomial
variable {α : Type} [Field α]

/-- The model's own binomial coefficient and power are the usual ones. -/
theorem choose_npow_eq (n k : Nat) (x : α) :
    Dit.choose n k = Nat.choose n k ∧ npow x k = x ^ k :=
  ⟨choose_eq_natChoose n k, Dit.Lemmas.Constructors.npow_eq_pow x k⟩

/-- **`binomial(n, p)`, the table**: outcomes `0..n` in order; the value at `k ≤ n` is
`C(n,k) p^k (1−p)^(n−k)`, zero beyond `n`. -/
theorem binomial_lookup [DecidableEq α] (n : Nat) (p : α) (k : Nat) :
    keys (binomialTab (fun m : Nat => (m : α)) n p) = List.range (n + 1)
      ∧ lookupD 0 (binomialTab (fun m : Nat => (m : α)) n p) k
        = (if k ≤ n then (Nat.choose n k : α) * p ^ k * (1 - p) ^ (n - k) else 0) :=
  ⟨keys_binomialTab n p, lookupD_binomialTab n p k⟩

/-- **`binomial` is normalised** for every `n` and every `p` (binomial theorem for
`(p + (1−p))^n`); no range restriction on `p` is needed for this. -/
theorem binomial_mass (n : Nat) (p : α) :
    mass (binomialTab (fun m : Nat => (m : α)) n p) = 1 :=
  mass_binomialTab n p

/-- **Mean of `binomial(n, p)`**: `Σ_k k · P(k) = n p`. -/
theorem binomial_mean (n : Nat) (p : α) :
    ((binomialTab (fun m : Nat => (m : α)) n p).map (fun r => (r.1 : α) * r.2)).sum = n * p :=
  mean_binomialTab n p

/-- **`binomial` values are probabilities** for `0 ≤ p ≤ 1` (needed: for `p > 1` and odd
`n − k` the value is negative): every stored value is non-negative. -/
theorem binomial_nonneg [LinearOrder α] [IsStrictOrderedRing α] (n : Nat) {p : α} (h0 : 0 ≤ p)
    (h1 : p ≤ 1) : ∀ r ∈ binomialTab (fun m : Nat => (m : α)) n p, 0 ≤ r.2 := by
  intro r hr
  rw [binomialTab_eq] at hr
  obtain ⟨k, _, rfl⟩ := List.mem_map.mp hr
  exact mul_nonneg (mul_nonneg (Nat.cast_nonneg _) (pow_nonneg h0 _))
    (pow_nonneg (sub_nonneg.mpr h1) _)

example : binomialTab (fun m : Nat => (m : Rat)) 3 (1 / 2)
    = [(0, 1 / 8), (1, 3 / 8), (2, 3 / 8), (3, 1 / 8)] := by decide +kernel
example : binomialTab (fun m : Nat => (m : Rat)) 2 (1 / 3)
    = [(0, 4 / 9), (1, 4 / 9), (2, 1 / 9)] := by decide +kernel
example : (0 : Rat) ≤ 1 / 3 ∧ (1 / 3 : Rat) ≤ 1 := by decide +kernel

end Binomial

/-! ### `hypergeometric` -/

section Hyper
variable {α : Type} [Field α]

/-- **Support of `hypergeometric(N, K, n)`**: the stored outcomes are exactly the `k` with
`max(0, n+K−N) ≤ k ≤ min(K, n)`, in increasing order, each once. -/
theorem hypergeometric_support (N K n k : Nat) :
    (k ∈ keys (hypergeometricTab (fun m : Nat => (m : α)) N K n)
        ↔ n + K - N ≤ k ∧ k ≤ min K n)
      ∧ (keys (hypergeometricTab (fun m : Nat => (m : α)) N K n)).Nodup
      ∧ (keys (hypergeometricTab (fun m : Nat => (m : α)) N K n)).Pairwise (· < ·) := by
  rw [keys_hypergeometricTab]
  refine ⟨?_, nodup_hyperSupport N K n, ?_⟩
  · rw [mem_hyperSupport]; omega
  · exact List.Pairwise.sublist List.filter_sublist List.pairwise_lt_range

/-- **`hypergeometric`, the values**: `C(K,k) C(N−K, n−k) / C(N,n)` on the support, zero
elsewhere. -/
theorem hypergeometric_lookup [DecidableEq α] (N K n k : Nat) :
    lookupD 0 (hypergeometricTab (fun m : Nat => (m : α)) N K n) k
      = (if n + K - N ≤ k ∧ k ≤ min K n then
          ((Nat.choose K k * Nat.choose (N - K) (n - k) : Nat) : α) / (Nat.choose N n : α)
        else 0) := by
  rw [lookupD_hypergeometricTab]
  by_cases h : n + K ≤ N + k ∧ k ≤ K ∧ k ≤ n
  · rw [if_pos h, if_pos (by omega)]
  · rw [if_neg h, if_neg (by omega)]

/-- **Restricting the range loses no mass**: for `K ≤ N`, the term `C(K,k) C(N−K, n−k)`
vanishes for every `k` outside `n+K−N ≤ k ≤ K` (`K ≤ N` is needed: otherwise `N − K` is
truncated to `0`). -/
theorem hypergeometric_outside {N K : Nat} (hK : K ≤ N) (n k : Nat)
    (h : ¬ (n + K - N ≤ k ∧ k ≤ K)) :
    Nat.choose K k * Nat.choose (N - K) (n - k) = 0 :=
  hyper_term_eq_zero hK (fun h' => h (by omega))

/-- **`hypergeometric` is normalised** for `K ≤ N` and `n ≤ N` (Vandermonde's identity; both
hypotheses are needed: `n > N` gives `C(N,n) = 0` in the denominator, `K > N` truncates
`N − K`), in characteristic zero. -/
theorem hypergeometric_mass [CharZero α] {N K n : Nat} (hK : K ≤ N) (hn : n ≤ N) :
    mass (hypergeometricTab (fun m : Nat => (m : α)) N K n) = 1 :=
  mass_hypergeometricTab hK hn

/-- **`hypergeometric` values are probabilities**: non-negative. -/
theorem hypergeometric_nonneg [LinearOrder α] [IsStrictOrderedRing α] (N K n : Nat) :
    ∀ r ∈ hypergeometricTab (fun m : Nat => (m : α)) N K n, 0 ≤ r.2 := by
  intro r hr
  rw [hypergeometricTab_eq] at hr
  obtain ⟨k, _, rfl⟩ := List.mem_map.mp hr
  exact div_nonneg (Nat.cast_nonneg _) (Nat.cast_nonneg _)

example : (3 : Nat) ≤ 5 ∧ (2 : Nat) ≤ 5 := by decide
example : hypergeometricTab (fun m : Nat => (m : Rat)) 5 3 2
    = [(0, 1 / 10), (1, 3 / 5), (2, 3 / 10)] := by decide +kernel
example : hypergeometricTab (fun m : Nat => (m : Rat)) 5 3 4
    = [(2, 3 / 5), (3, 2 / 5)] := by decide +kernel
example : ¬ (4 + 3 - 5 ≤ 1 ∧ 1 ≤ 3) := by decide

end Hyper

/-! ### `uniform(a, b)` -/

section UniformRange
variable {α : Type} [Field α]

/-- **`uniform(a, b)`** with `width = b − a`: the offsets `0..width−1` in order, each of
probability `1/width`, every other offset zero. -/
theorem uniformRange_table (ofNat : Nat → α) (width x : Nat) :
    keys (uniformRange ofNat width) = List.range width
      ∧ lookupD 0 (uniformRange ofNat width) x = (if x < width then 1 / ofNat width else 0) := by
  unfold uniformRange
  refine ⟨keys_map_graph _ _, ?_⟩
  unfold lookupD
  rw [lookup?_map_graph]
  by_cases h : x < width
  · rw [if_pos (List.mem_range.mpr h), if_pos h]; rfl
  · rw [if_neg (fun hm => h (List.mem_range.mp hm)), if_neg h]; rfl

/-- **`uniform(a, b)` is normalised** for `width ≥ 1` (empty table otherwise), in
characteristic zero. -/
theorem uniformRange_mass [CharZero α] {width : Nat} (hw : 1 ≤ width) :
    mass (uniformRange (fun m : Nat => (m : α)) width) = 1 := by
  unfold uniformRange
  rw [mass_map_const (List.range width) (fun x => x), List.length_range]
  exact nsmul_one_div_cast (by omega)

example : uniformRange (fun m : Nat => (m : Rat)) 3 = [(0, 1 / 3), (1, 1 / 3), (2, 1 / 3)] := by
  decide +kernel

end UniformRange

/-! ### `summed_dice` -/

section Dice
variable {α : Type} [Field α]

/-- **`summed_dice(a, b)`, the rows**: exactly one row `([i, j, i + b·j], a/36 + (1−a)[i=j]/6)`
for every pair of faces `1 ≤ i, j ≤ 6` — the third coordinate is `i + b·j`. -/
theorem summedDice_rows (ofNat : Nat → α) (a : α) (b : Nat) (r : List Nat × α) :
    r ∈ summedDice ofNat a b
      ↔ ∃ i j, (1 ≤ i ∧ i ≤ 6) ∧ (1 ≤ j ∧ j ≤ 6)
          ∧ r = ([i, j, i + b * j],
              a / ofNat 36 + (1 - a) * (if i = j then 1 else 0) / ofNat 6) := by
  unfold summedDice
  rw [List.mem_map]
  constructor
  · rintro ⟨o, ho, rfl⟩
    obtain ⟨i, j, hi, hj, rfl⟩ := mem_dice_pairs.mp ho
    exact ⟨i, j, hi, hj, rfl⟩
  · rintro ⟨i, j, hi, hj, rfl⟩
    exact ⟨[i, j], mem_dice_pairs.mpr ⟨i, j, hi, hj, rfl⟩, rfl⟩

/-- **`summed_dice`, the values**: the 36 outcomes are pairwise distinct, and the outcome
`[i, j, i + b·j]` (`1 ≤ i, j ≤ 6`) has probability `a/36 + (1−a)[i=j]/6`. -/
theorem summedDice_lookup (ofNat : Nat → α) (a : α) (b : Nat) {i j : Nat} (hi : 1 ≤ i ∧ i ≤ 6)
    (hj : 1 ≤ j ∧ j ≤ 6) :
    (keys (summedDice ofNat a b)).Nodup
      ∧ lookupD 0 (summedDice ofNat a b) [i, j, i + b * j]
        = a / ofNat 36 + (1 - a) * (if i = j then 1 else 0) / ofNat 6 := by
  have hnd := keys_summedDice_nodup ofNat a b
  refine ⟨hnd, ?_⟩
  have hm := (summedDice_rows ofNat a b _).mpr ⟨i, j, hi, hj, rfl⟩
  unfold lookupD
  rw [(lookup?_eq_some_iff hnd).mpr hm]
  rfl

/-- **`summed_dice` is normalised** for every `a` and `b`: `36 · a/36 + 6 · (1−a)/6 = 1`, in
characteristic zero; it has 36 rows. -/
theorem summedDice_mass [CharZero α] (a : α) (b : Nat) :
    mass (summedDice (fun m : Nat => (m : α)) a b) = 1
      ∧ (summedDice (fun m : Nat => (m : α)) a b).length = 36 := by
  refine ⟨mass_summedDice a b, ?_⟩
  unfold summedDice
  rw [List.length_map, dice_pairs]
  rfl

example : (1 ≤ 2 ∧ 2 ≤ 6) ∧ (1 ≤ 5 ∧ 5 ≤ 6) := by decide
example : (summedDice (fun m : Nat => (m : Rat)) (1 / 2) 2).take 3
    = [([1, 1, 3], 7 / 72), ([1, 2, 5], 1 / 72), ([1, 3, 7], 1 / 72)] := by decide +kernel

end Dice

/-! ### `uniform_binning` (C19) -/

section Bin
variable {α : Type} [Field α] [LinearOrder α] [IsStrictOrderedRing α]

/-- **Every sample gets one of the requested bins**: for `bins ≥ 1` the label is `< bins`
(for `bins = 0` the label is `0`, which is not `< 0`). No assumption on the data. -/
theorem uniformBin_range {bins : Nat} (hb : 1 ≤ bins) (lo range eps x : α) :
    uniformBin (fun m : Nat => (m : α)) bins lo range eps x < bins :=
  uniformBin_lt hb lo range eps x

/-- **Bins are uniformly spaced**: for `bins ≥ 1`, slack `eps > 0`, `range ≥ 0` and a sample
`lo ≤ x ≤ lo + range`, the label `k` satisfies
`k·(range+eps) ≤ bins·(x−lo) < (k+1)·(range+eps)`, i.e. `k = ⌊bins·(x−lo)/(range+eps)⌋`.
(`lo ≤ x` makes `k = 0` admissible; `x ≤ lo + range` and `eps > 0` keep the top sample inside
the last bin; `range ≥ 0` follows from `lo ≤ x ≤ lo + range`.) -/
theorem uniformBin_spec {bins : Nat} (hb : 1 ≤ bins) {lo range eps x : α} (heps : 0 < eps)
    (hlo : lo ≤ x) (hhi : x ≤ lo + range) :
    (uniformBin (fun m : Nat => (m : α)) bins lo range eps x : α) * (range + eps)
        ≤ (bins : α) * (x - lo)
      ∧ (bins : α) * (x - lo)
        < ((uniformBin (fun m : Nat => (m : α)) bins lo range eps x : α) + 1) * (range + eps) := by
  have hy : 0 ≤ (bins : α) * (x - lo) := mul_nonneg (Nat.cast_nonneg _) (sub_nonneg.mpr hlo)
  have hP0 : ((0 : Nat) : α) * (range + eps) ≤ (bins : α) * (x - lo) := by
    rw [Nat.cast_zero, zero_mul]; exact hy
  obtain ⟨_, h2, h3⟩ := uniformBin_last bins lo range eps x 0 (by omega) hP0
  have hlt := uniformBin_lt hb lo range eps x
  refine ⟨h2, ?_⟩
  by_cases hk : uniformBin (fun m : Nat => (m : α)) bins lo range eps x + 1 < bins
  · have := h3 _ (Nat.lt_succ_self _) hk
    rwa [Nat.cast_add_one] at this
  · have hb' : (bins : α)
        = (uniformBin (fun m : Nat => (m : α)) bins lo range eps x : α) + 1 := by
      rw [← Nat.cast_add_one]; congr 1; omega
    have hbpos : (0 : α) < (bins : α) := Nat.cast_pos.mpr (by omega)
    rw [← hb']
    exact mul_lt_mul_of_pos_left (by linarith) hbpos

/-- **The label is the floor**: under the hypotheses of `uniformBin_spec`, any `k` with
`k·(range+eps) ≤ bins·(x−lo) < (k+1)·(range+eps)` is the label (`range ≥ 0` — implied by
`lo ≤ x ≤ lo + range` — and `eps > 0` make the bin width positive). -/
theorem uniformBin_unique {bins : Nat} (hb : 1 ≤ bins) {lo range eps x : α} (heps : 0 < eps)
    (hlo : lo ≤ x) (hhi : x ≤ lo + range) (k : Nat)
    (h1 : (k : α) * (range + eps) ≤ (bins : α) * (x - lo))
    (h2 : (bins : α) * (x - lo) < ((k : α) + 1) * (range + eps)) :
    uniformBin (fun m : Nat => (m : α)) bins lo range eps x = k := by
  obtain ⟨s1, s2⟩ := uniformBin_spec hb heps hlo hhi
  have hD : 0 < range + eps := by linarith
  have a1 : (k : α) < (uniformBin (fun m : Nat => (m : α)) bins lo range eps x : α) + 1 :=
    lt_of_mul_lt_mul_right (lt_of_le_of_lt h1 s2) hD.le
  have a2 : (uniformBin (fun m : Nat => (m : α)) bins lo range eps x : α) < (k : α) + 1 :=
    lt_of_mul_lt_mul_right (lt_of_le_of_lt s1 h2) hD.le
  rw [← Nat.cast_add_one, Nat.cast_lt] at a1 a2
  omega

/-- **Binning is monotone**: a larger sample never gets a smaller label (no assumption on the
parameters). -/
theorem uniformBin_mono (bins : Nat) (lo range eps : α) {x y : α} (hxy : x ≤ y) :
    uniformBin (fun m : Nat => (m : α)) bins lo range eps x
      ≤ uniformBin (fun m : Nat => (m : α)) bins lo range eps y :=
  Dit.Lemmas.Examples.uniformBin_mono bins lo range eps hxy

/-- Four bins on `[0, 1]` with slack `1/100`: `1/2 ↦ ⌊4·(1/2)/(101/100)⌋ = 1`, `1 ↦ 3`. -/
example : uniformBin (fun m : Nat => (m : Rat)) 4 0 1 (1 / 100) (1 / 2) = 1
    ∧ uniformBin (fun m : Nat => (m : Rat)) 4 0 1 (1 / 100) 1 = 3
    ∧ uniformBin (fun m : Nat => (m : Rat)) 4 0 1 (1 / 100) 0 = 0 := by decide +kernel
example : (1 : Nat) ≤ 4 ∧ (0 : Rat) < 1 / 100 ∧ (0 : Rat) ≤ 1 ∧ (0 : Rat) ≤ 1 / 2
    ∧ (1 / 2 : Rat) ≤ 0 + 1 := by decide +kernel

end Bin

/-! ### The theorems apply to the driver's number type `Rat` -/

section RatInstances

example (n : Nat) (p : Rat) : mass (binomialTab (fun m : Nat => (m : Rat)) n p) = 1 :=
  binomial_mass n p
example : mass (hypergeometricTab (fun m : Nat => (m : Rat)) 52 13 5) = 1 :=
  hypergeometric_mass (by decide) (by decide)
example (n : Nat) : mass (nModM (fun m : Nat => (m : Rat)) n 3) = 1 := nModM_mass n (by decide)
example (x : Rat) : uniformBin (fun m : Nat => (m : Rat)) 10 0 1 (1 / 1000) x < 10 :=
  uniformBin_range (by decide) 0 1 (1 / 1000) x

end RatInstances

end Dit.Props.C11Examples
