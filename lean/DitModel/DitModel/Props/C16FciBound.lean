/-
C16 (companion) — the link `B ≤ F` for the model's functional common information.

`Props/C16.lean` proves `b_le_f`: if a set of variables `W` renders the groups conditionally independent in the
entropy sense (`H(Xᵢ | X₋ᵢ, W) = H(Xᵢ | W)` for every group), the dual total correlation is at most `H(W)`.
`Core/SetPart.lean` tests feasibility of a function of the outcomes (a partition `P`) in the product sense
(`blockIndep`: inside every block the conditional law is the product of its group marginals).  This file bridges the
two: appending the label of a feasible partition as a new variable gives a table in which the groups are
conditionally independent given that variable in the entropy sense, its entropy is the entropy of the block masses,
and therefore `B(groups) ≤ H(block masses of P)` for EVERY feasible partition — in particular for the minimiser that
defines `F`.
-/
import DitModel.Props.C16
import DitModel.Props.C16Fci
import DitModel.Lemmas.FciBound

set_option linter.unusedSectionVars false

namespace Dit.Props.C16FciBound
open Dit Dit.Lemmas.Table Dit.Lemmas.Meet Dit.Lemmas.InfoAlg Dit.Lemmas.InfoReal Dit.Props.C16Fci
open Dit.Lemmas.FciBound

variable {σ : Type} [DecidableEq σ]

/-- The table with the index of the block of `P` containing the outcome appended as a new last variable. -/
def withPart (code : Nat → σ) (t : Tab (List σ) ℝ) (P : List (List (List σ))) : Tab (List σ) ℝ :=
  insertRvf (fun o => [code (labelOf P o)]) none t

/-- **The entropy of the appended variable is the entropy of the block masses.** -/
theorem withPart_entropy (code : Nat → σ) (hcode : Function.Injective code) (t : Tab (List σ) ℝ) (n : Nat)
    (hk : (keys t).Nodup) (hlen : ∀ k ∈ keys t, k.length = n)
    (P : List (List (List σ))) (hP : IsSetPartition P (keys t)) :
    entropyOf (Real.logb 2) (withPart code t P) [n] = entropyVals (Real.logb 2) (partMasses t P) := by
  unfold withPart
  rw [entropyOf_new (fun o => code (labelOf P o)) n t hlen]
  exact Hmap_label code hcode t hk P hP

/-- **A feasible partition renders the groups conditionally independent in the entropy sense**: for every group `g`
(pairwise disjoint groups of variables `< n`), `H(g | others ∪ W) = H(g | W)` in the table with the label `W = [n]`
appended.  Non-negative table of total mass one with duplicate-free keys. -/
theorem feasible_cond_indep (code : Nat → σ) (hcode : Function.Injective code) (t : Tab (List σ) ℝ) (n : Nat)
    (hnn : ∀ r ∈ t, 0 ≤ r.2) (hmass : (t.map (·.2)).sum = 1)
    (hk : (keys t).Nodup) (hlen : ∀ k ∈ keys t, k.length = n)
    (groups : List VSet) (hg : ∀ g ∈ groups, ∀ v ∈ g, v < n)
    (hdisj : groups.Pairwise (fun a b => ∀ v, v ∈ a → v ∉ b)) (hgs : ∀ g ∈ groups, g = vnorm g)
    (P : List (List (List σ))) (hP : IsSetPartition P (keys t)) (hf : fciFeasible t groups P = true) :
    ∀ g ∈ groups,
      Hc (entropyOf (Real.logb 2) (withPart code t P)) g (vunion (vdiff (vunions groups) (vnorm g)) [n])
        = Hc (entropyOf (Real.logb 2) (withPart code t P)) g [n] := by
  have _hmass := hmass  -- not needed: the identity is homogeneous in the total mass
  have _hgs := hgs      -- not needed: only membership in the groups matters
  unfold withPart
  exact cond_indep_insert code hcode t n hnn hk hlen groups hg hdisj P hP hf

/-- **`B ≤ H(W_P)` for every feasible function of the outcomes**, hence `B ≤ F`: the dual total correlation of the
groups is at most the entropy of the block masses of any partition that renders them conditionally independent. -/
theorem b_le_fci (code : Nat → σ) (hcode : Function.Injective code) (t : Tab (List σ) ℝ) (n : Nat)
    (hnn : ∀ r ∈ t, 0 ≤ r.2) (hmass : (t.map (·.2)).sum = 1)
    (hk : (keys t).Nodup) (hlen : ∀ k ∈ keys t, k.length = n)
    (groups : List VSet) (hg : ∀ g ∈ groups, ∀ v ∈ g, v < n)
    (hdisj : groups.Pairwise (fun a b => ∀ v, v ∈ a → v ∉ b)) (hgs : ∀ g ∈ groups, g = vnorm g)
    (P : List (List (List σ))) (hP : IsSetPartition P (keys t)) (hf : fciFeasible t groups P = true) :
    Comb.eval (Rat.castHom ℝ) (entropyOf (Real.logb 2) t) (dtcC groups [])
      ≤ entropyVals (Real.logb 2) (partMasses t P) := by
  have h := C16.b_le_f (withPart code t P)
    (insertRvf_nonneg _ t hnn) ((insertRvf_mass _ t).trans hmass) groups [n]
    (feasible_cond_indep code hcode t n hnn hmass hk hlen groups hg hdisj hgs P hP hf)
  rw [withPart_entropy code hcode t n hk hlen P hP] at h
  unfold withPart at h
  rw [eval_dtcC_insert (fun o => code (labelOf P o)) n t hlen groups hg] at h
  exact h

/-- In particular for every candidate the driver minimises over. -/
theorem b_le_every_candidate (code : Nat → σ) (hcode : Function.Injective code) (t : Tab (List σ) ℝ) (n : Nat)
    (hnn : ∀ r ∈ t, 0 ≤ r.2) (hmass : (t.map (·.2)).sum = 1)
    (hk : (keys t).Nodup) (hlen : ∀ k ∈ keys t, k.length = n)
    (groups : List VSet) (hg : ∀ g ∈ groups, ∀ v ∈ g, v < n)
    (hdisj : groups.Pairwise (fun a b => ∀ v, v ∈ a → v ∉ b)) (hgs : ∀ g ∈ groups, g = vnorm g) :
    ∀ P ∈ fciCandidates t groups,
      Comb.eval (Rat.castHom ℝ) (entropyOf (Real.logb 2) t) (dtcC groups [])
        ≤ entropyVals (Real.logb 2) (partMasses t P) := by
  intro P hPc
  obtain ⟨hP, hf⟩ := fciCandidates_sound t hk groups P hPc
  exact b_le_fci code hcode t n hnn hmass hk hlen groups hg hdisj hgs P hP hf

/-- Non-vacuity of the hypotheses shared by the theorems above: two copies of a fair bit, the groups `[0]` and `[1]`,
the partition of the two outcomes into singletons (the finest function, which is feasible), coded by the identity;
and this partition is one of the candidates. -/
example :
    Function.Injective (fun i : Nat => i)
    ∧ (∀ r ∈ ([([0, 0], 1 / 2), ([1, 1], 1 / 2)] : Tab (List Nat) ℝ), 0 ≤ r.2)
    ∧ (([([0, 0], 1 / 2), ([1, 1], 1 / 2)] : Tab (List Nat) ℝ).map (·.2)).sum = 1
    ∧ (keys ([([0, 0], 1 / 2), ([1, 1], 1 / 2)] : Tab (List Nat) ℝ)).Nodup
    ∧ (∀ k ∈ keys ([([0, 0], 1 / 2), ([1, 1], 1 / 2)] : Tab (List Nat) ℝ), k.length = 2)
    ∧ (∀ g ∈ ([[0], [1]] : List VSet), ∀ v ∈ g, v < 2)
    ∧ ([[0], [1]] : List VSet).Pairwise (fun a b => ∀ v, v ∈ a → v ∉ b)
    ∧ (∀ g ∈ ([[0], [1]] : List VSet), g = vnorm g)
    ∧ IsSetPartition [[[0, 0]], [[1, 1]]] (keys ([([0, 0], 1 / 2), ([1, 1], 1 / 2)] : Tab (List Nat) ℝ))
    ∧ fciFeasible ([([0, 0], 1 / 2), ([1, 1], 1 / 2)] : Tab (List Nat) ℝ) [[0], [1]] [[[0, 0]], [[1, 1]]] = true
    ∧ [[[0, 0]], [[1, 1]]] ∈ fciCandidates ([([0, 0], 1 / 2), ([1, 1], 1 / 2)] : Tab (List Nat) ℝ) [[0], [1]] := by
  have hfin := fci_finest_feasible ([([0, 0], 1 / 2), ([1, 1], 1 / 2)] : Tab (List Nat) ℝ) [[0], [1]] (by simp)
  have hkeys : keys ([([0, 0], 1 / 2), ([1, 1], 1 / 2)] : Tab (List Nat) ℝ) = [[0, 0], [1, 1]] := rfl
  refine ⟨fun _ _ h => h, ?_, by norm_num, by rw [hkeys]; decide, by rw [hkeys]; decide, by decide, by decide,
    by decide, ?_, hfin.1, ?_⟩
  · intro r hr
    simp at hr
    rcases hr with rfl | rfl <;> norm_num
  · rw [hkeys]
    exact ⟨by decide, by decide, by decide, fun x => by simp⟩
  · exact List.mem_filter.mpr ⟨hfin.2.1, hfin.1⟩

end Dit.Props.C16FciBound
