/-
C16 (companion) — the link `F ≤ M` for the model's functional common information.

The minimal sufficient statistic of `X` about `Y` partitions the outcomes into the classes of `x` with equal
conditional law `P(Y | x)` (`mssClasses`, Core/Meet.lean).  Inside such a class the joint law of `(X, Y)` is
`P(x) · q(y)` with one `q` for the whole class — a product — so the partition renders `X` and `Y` conditionally
independent in the product sense tested by `blockIndep`: it is a feasible function of the outcomes, hence one of the
candidates the functional common information minimises over (`fciCandidates_complete`), and `F` is at most its
entropy, which is at most the entropy `M` of the joint sufficient statistic.
-/
import DitModel.Props.C16
import DitModel.Props.C16Fci
import DitModel.Lemmas.FciMss

set_option linter.unusedSectionVars false

namespace Dit.Props.C16FciMss
open Dit Dit.Lemmas.Table Dit.Lemmas.Meet Dit.Props.C16Fci

variable {σ : Type} [DecidableEq σ] {α : Type} [Field α] [DecidableEq α]

/-- **The classes of the minimal sufficient statistic form a set partition of the stored outcomes.** -/
theorem mssClasses_isSetPartition (t : Tab (List σ) α) (hk : (keys t).Nodup) (X Y : List Nat) :
    IsSetPartition (mssClasses t X Y) (keys t) := by
  have he := mss_equivOn t X Y (keys t)
  refine ⟨?_, ?_, ?_, ?_⟩
  · intro B hB
    rw [mssClasses_eq] at hB
    exact class_ne_nil he hB
  · intro B hB
    exact Dit.Lemmas.FciMss.class_nodup t X Y hk hB
  · rw [mssClasses_eq]
    exact (classes_disjoint he).imp (fun h => h)
  · intro x
    rw [mssClasses_eq]
    constructor
    · rintro ⟨B, hB, hx⟩
      exact mem_rows_of_mem_class he hB hx
    · intro hx
      exact classes_cover he hx

/-- **The minimal sufficient statistic of `X` about `Y` renders `X` and `Y` conditionally independent** in the
product sense: the partition `mssClasses t X Y` is feasible for the groups `[X, Y]`.  `X` and `Y` are sets of
variables, every stored outcome is determined by its projections on `X` and `Y` together (`hdet`: the two groups
cover the variables), and the keys are duplicate-free.  (The proof does not use `hdet`: the product identity
`P(x, y, B) · P(B) = P(x, B) · P(y, B)` holds class by class for event weights, whether or not several stored rows
share their `(X, Y)`-values, and also for stored zeros, negative values and classes of mass zero —
`Lemmas.FciMss.fciFeasible_mssClasses`.  The hypothesis is kept because it is the situation the property is about.) -/
theorem mssClasses_feasible (t : Tab (List σ) α) (hk : (keys t).Nodup) (X Y : List Nat)
    (hdet : ∀ o ∈ keys t, ∀ o' ∈ keys t, project X o = project X o' → project Y o = project Y o' → o = o') :
    fciFeasible t [X, Y] (mssClasses t X Y) = true := by
  have _hdet := hdet  -- not needed: the product identity holds class by class without it
  exact Dit.Lemmas.FciMss.fciFeasible_mssClasses t X Y hk

/-- **Hence it is among the candidates of `F`** (same blocks, same block masses). -/
theorem mss_is_fci_candidate (t : Tab (List σ) α) (hk : (keys t).Nodup) (X Y : List Nat)
    (hdet : ∀ o ∈ keys t, ∀ o' ∈ keys t, project X o = project X o' → project Y o = project Y o' → o = o') :
    ∃ P ∈ fciCandidates t [X, Y], SameBlocks P (mssClasses t X Y)
      ∧ (partMasses t P).Perm (partMasses t (mssClasses t X Y)) := by
  exact fciCandidates_complete t hk [X, Y] (mssClasses t X Y) (mssClasses_isSetPartition t hk X Y)
    (mssClasses_feasible t hk X Y hdet)

/-- The hypotheses hold on a concrete table (duplicate-free keys, outcomes determined by the two groups), whose
classes are `{x = 0}` and `{x = 1}` (different conditional laws) … -/
example : (keys ([([0, 0], 1 / 4), ([0, 1], 1 / 4), ([1, 0], 1 / 8), ([1, 1], 3 / 8)] : Tab (List Nat) Rat)).Nodup
    ∧ (∀ o ∈ keys ([([0, 0], 1 / 4), ([0, 1], 1 / 4), ([1, 0], 1 / 8), ([1, 1], 3 / 8)] : Tab (List Nat) Rat),
        ∀ o' ∈ keys ([([0, 0], 1 / 4), ([0, 1], 1 / 4), ([1, 0], 1 / 8), ([1, 1], 3 / 8)] : Tab (List Nat) Rat),
          project [0] o = project [0] o' → project [1] o = project [1] o' → o = o')
    ∧ mssClasses ([([0, 0], 1 / 4), ([0, 1], 1 / 4), ([1, 0], 1 / 8), ([1, 1], 3 / 8)] : Tab (List Nat) Rat) [0] [1]
        = [[[0, 0], [0, 1]], [[1, 0], [1, 1]]] := by
  decide +kernel

/-- … and the partition into these classes is feasible, as the theorem says. -/
example : fciFeasible ([([0, 0], 1 / 4), ([0, 1], 1 / 4), ([1, 0], 1 / 8), ([1, 1], 3 / 8)] : Tab (List Nat) Rat)
      [[0], [1]]
      (mssClasses ([([0, 0], 1 / 4), ([0, 1], 1 / 4), ([1, 0], 1 / 8), ([1, 1], 3 / 8)] : Tab (List Nat) Rat) [0] [1])
    = true := by
  decide +kernel

end Dit.Props.C16FciMss
