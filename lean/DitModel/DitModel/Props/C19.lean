/-
C19 — Inference from data: sliding-window word counts.

"`distribution_from_data` and `dist_from_timeseries` assign to each length-`L` word exactly its
sliding-window count divided by the number of windows; `counts_from_data`'s conditional counts
add up to the history counts."

Theorems about `Dit.windows` (boltons `windowed_iter`), `Dit.wordCounts` (the `Counter` of the
windows), `Dit.condCounts` and `Dit.histCounts` (Core/Counts.lean), for every data list over any
symbol type with decidable equality and every window length. Counts are natural numbers; the
statement about frequencies is over an arbitrary field of characteristic zero.
Helper lemmas: Lemmas/Counts.lean.
-/
import DitModel.Lemmas.Counts

set_option linter.unusedSectionVars false

namespace Dit.Props.C19
open Dit Dit.Lemmas.Counts

variable {σ : Type}

/-! ### The windows -/

/-- **Number of windows.** A data list of length `n` has `n + 1 - L` windows of length `L`
(natural subtraction: none when `L > n`). `1 ≤ L` is needed: for `L = 0` the definition (like
the Python iterator) degenerates and yields `n` empty windows, not `n + 1`. -/
theorem windows_length (L : Nat) (data : List σ) (hL : 1 ≤ L) :
    (windows L data).length = data.length + 1 - L :=
  Lemmas.Counts.windows_length L data hL

/-- **Window width.** Every window has exactly `L` symbols (for every `L`, also `L = 0`). -/
theorem windows_mem_length (L : Nat) (data : List σ) (w : List σ) (hw : w ∈ windows L data) :
    w.length = L :=
  Lemmas.Counts.windows_mem_length L data w hw

/-- **Window content.** The `i`-th window is the `L` symbols of the data starting at position
`i`: windows slide by one and come in order of their starting position. -/
theorem windows_getElem (L : Nat) (data : List σ) (i : Nat) (hi : i < (windows L data).length) :
    (windows L data)[i] = (data.drop i).take L :=
  Lemmas.Counts.windows_getElem L data i hi

/-- **No windows.** Data shorter than the window length has no windows at all (so the
frequencies are undefined: the real code divides by zero windows). -/
theorem windows_short (L : Nat) (data : List σ) (h : data.length < L) : windows L data = [] :=
  windows_eq_nil_of_lt L data h

/-! ### Word counts -/

variable [DecidableEq σ]

/-- **Counts.** The count stored for a word `w` (`0` if `w` is not stored) is the number of
windows equal to `w`. -/
theorem wordCounts_count (L : Nat) (data : List σ) (w : List σ) :
    lookupD 0 (wordCounts L data) w = (windows L data).count w :=
  lookupD_countWords _ w

/-- **One row per word.** The stored words are pairwise distinct. -/
theorem wordCounts_keys_nodup (L : Nat) (data : List σ) : (keys (wordCounts L data)).Nodup :=
  nodup_keys_countWords _

/-- **Support.** A word is stored iff it occurs as a window of the data. -/
theorem wordCounts_mem_keys (L : Nat) (data : List σ) (w : List σ) :
    w ∈ keys (wordCounts L data) ↔ w ∈ windows L data :=
  mem_keys_countWords _ w

/-- **Rows.** Every stored row `(w, c)` carries the window count of `w`, which is positive, and
`w` has length `L`: no zero counts and no words of the wrong length are stored. -/
theorem wordCounts_row (L : Nat) (data : List σ) (w : List σ) (c : Nat)
    (h : (w, c) ∈ wordCounts L data) :
    c = (windows L data).count w ∧ 0 < c ∧ w.length = L := by
  have hk : w ∈ keys (wordCounts L data) := by
    unfold keys; exact List.mem_map.mpr ⟨(w, c), h, rfl⟩
  have hw : w ∈ windows L data := (wordCounts_mem_keys L data w).mp hk
  have hc : c = (windows L data).count w := by
    rw [← wordCounts_count, lookupD_of_mem _ (wordCounts_keys_nodup L data) w c h]
  exact ⟨hc, hc ▸ List.count_pos_iff.mpr hw, windows_mem_length L data w hw⟩

/-- **Total.** The stored counts add up to the number of windows. -/
theorem wordCounts_sum (L : Nat) (data : List σ) :
    (vals (wordCounts L data)).sum = (windows L data).length :=
  sum_vals_countWords _

/-- **Normalisation.** When there is at least one window (`1 ≤ L ≤ length`), the frequencies
`count / #windows` — the probabilities of `distribution_from_data` — sum to one, over any field
of characteristic zero (e.g. `ℚ`, `ℝ`). Both hypotheses are needed: they say that the number of
windows `length + 1 - L` is the right denominator and is not zero. -/
theorem freq_sum_one {α : Type} [Field α] [CharZero α] (L : Nat) (data : List σ)
    (hL : 1 ≤ L) (hd : L ≤ data.length) :
    ((vals (wordCounts L data)).map
      (fun c : Nat => (c : α) / ((data.length + 1 - L : Nat) : α))).sum = 1 := by
  apply sum_map_cast_div
  · omega
  · rw [wordCounts_sum, windows_length L data hL]

/-- **Frequencies are probabilities.** Each frequency lies in `(0, 1]` as a ratio of naturals:
a stored count is positive and at most the number of windows. -/
theorem wordCounts_le (L : Nat) (data : List σ) (w : List σ) :
    lookupD 0 (wordCounts L data) w ≤ (windows L data).length := by
  rw [wordCounts_count]; exact List.count_le_length

/-! ### Conditional and history counts -/

/-- **History counts.** The count stored for a history `h'` is the sum of the counts of the
words whose first `h` symbols are `h'` (for any table of word counts `wc`). -/
theorem histCounts_spec (h : Nat) (wc : Tab (List σ) Nat) (h' : List σ) :
    lookupD 0 (histCounts h wc) h' =
      ((wc.filter (fun r => r.1.take h = h')).map (·.2)).sum :=
  lookupD_pushforward _ wc h'

/-- **Conditional counts add up to history counts.** Summing the conditional counts
`condCounts` over all futures of a history `h'` gives the history count of `h'`. -/
theorem cond_counts_sum (h : Nat) (wc : Tab (List σ) Nat) (h' : List σ) :
    (((condCounts h wc).filter (fun r => r.1.1 = h')).map (·.2)).sum =
      lookupD 0 (histCounts h wc) h' := by
  rw [histCounts_spec]
  simp [condCounts, List.filter_map, Function.comp_def]

/-- **Splitting loses nothing.** A conditional-count row is a word-count row split at `h`:
gluing history and future back gives the word, with the same count. -/
theorem condCounts_row (h : Nat) (wc : Tab (List σ) Nat) (a b : List σ) (c : Nat) :
    ((a, b), c) ∈ condCounts h wc ↔ ∃ w, (w, c) ∈ wc ∧ w.take h = a ∧ w.drop h = b := by
  unfold condCounts
  rw [List.mem_map]
  constructor
  · rintro ⟨⟨w, c'⟩, hm, he⟩
    simp only [Prod.mk.injEq] at he
    obtain ⟨⟨h1, h2⟩, h3⟩ := he
    subst h3
    exact ⟨w, hm, h1, h2⟩
  · rintro ⟨w, hm, h1, h2⟩
    exact ⟨(w, c), hm, by simp [h1, h2]⟩

/-- **Distinct (history, future) pairs.** Distinct words give distinct pairs. -/
theorem condCounts_keys_nodup (h : Nat) (wc : Tab (List σ) Nat) (hn : (keys wc).Nodup) :
    (keys (condCounts h wc)).Nodup := by
  have e : keys (condCounts h wc) = (keys wc).map (fun w => (w.take h, w.drop h)) := by
    simp [keys, condCounts, Function.comp_def]
  rw [e]
  refine List.Nodup.map ?_ hn
  intro w1 w2 he
  simp only [Prod.mk.injEq] at he
  rw [← List.take_append_drop h w1, ← List.take_append_drop h w2, he.1, he.2]

/-- **One row per history**, and a history is stored iff it is the prefix of a stored word. -/
theorem histCounts_keys (h : Nat) (wc : Tab (List σ) Nat) :
    (keys (histCounts h wc)).Nodup ∧
      ∀ h', h' ∈ keys (histCounts h wc) ↔ ∃ w ∈ keys wc, w.take h = h' := by
  refine ⟨nodup_keys_pushforward _ _, fun h' => ?_⟩
  unfold histCounts
  rw [mem_keys_pushforward]
  simp [keys]

/-- **Totals preserved.** Conditional counts, history counts and word counts have the same
total (for `wc = wordCounts L data`: the number of windows). -/
theorem histCounts_total (h : Nat) (wc : Tab (List σ) Nat) :
    (vals (histCounts h wc)).sum = (vals wc).sum ∧
      (vals (condCounts h wc)).sum = (vals wc).sum := by
  refine ⟨sum_vals_pushforward _ _, ?_⟩
  simp [vals, condCounts, Function.comp_def]

/-- **History counts from the data.** The history counts obtained from the length-`(h+f)`
windows count, for each history `h'`, the occurrences of `h'` among the first
`length + 1 - (h+f)` windows of length `h` — all length-`h` windows except the last `f`, which
have no future of length `f`. (`1 ≤ h + f` as in `windows_length`.) -/
theorem histCounts_eq_windows (h f : Nat) (data : List σ) (hL : 1 ≤ h + f) (h' : List σ) :
    lookupD 0 (histCounts h (wordCounts (h + f) data)) h' =
      ((windows h data).take (data.length + 1 - (h + f))).count h' := by
  rw [histCounts_spec]
  have := fibreSum_countWords h (windows (h + f) data) h'
  unfold fibreSum wordCounts at *
  rw [this, map_take_windows, windows_length (h + f) data hL]

/-! ### Examples (non-vacuity) -/

example : windows 2 [0, 1, 0, 1, 1] = [[0, 1], [1, 0], [0, 1], [1, 1]] := by decide +kernel
example : wordCounts 2 [0, 1, 0, 1, 1] = [([0, 1], 2), ([1, 0], 1), ([1, 1], 1)] := by
  decide +kernel
example : wordCounts 6 [0, 1, 0, 1, 1] = [] := by decide +kernel
example : condCounts 1 (wordCounts 2 [0, 1, 0, 1, 1]) =
    [(([0], [1]), 2), (([1], [0]), 1), (([1], [1]), 1)] := by decide +kernel
example : histCounts 1 (wordCounts 2 [0, 1, 0, 1, 1]) = [([0], 2), ([1], 2)] := by
  decide +kernel
/-- Hypotheses of `freq_sum_one` and `histCounts_eq_windows` at `L = 2 = 1 + 1`, five symbols. -/
example : 1 ≤ 2 ∧ 2 ≤ [0, 1, 0, 1, 1].length ∧ 1 ≤ 1 + 1 := by decide
example : (windows 1 [0, 1, 0, 1, 1]).take (5 + 1 - (1 + 1)) = [[0], [1], [0], [1]] := by
  decide +kernel
/-- A stored row, hypothesis of `wordCounts_row`. -/
example : (([0, 1] : List Nat), 2) ∈ wordCounts 2 [0, 1, 0, 1, 1] := by decide +kernel
/-- Duplicate-free keys, hypothesis of `condCounts_keys_nodup`. -/
example : (keys (wordCounts 2 [0, 1, 0, 1, 1])).Nodup := by decide +kernel
/-- The degenerate `L = 0` case excluded from `windows_length`. -/
example : windows 0 [7, 8] = [[], []] := by decide +kernel

end Dit.Props.C19
