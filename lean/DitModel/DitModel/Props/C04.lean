/-
C04 — Shannon entropy, conditional entropy and mutual information of any subsets of variables
equal −Σ p log₂ p and the corresponding entropy differences computed from the joint table;
Rényi and Tsallis entropies of any order, extropy and perplexity equal their defining formulas and
reduce to the Shannon entropy at order 1 (Tsallis in nats). Zero-probability outcomes contribute
nothing.

Everything is about the model definitions of `Core/Info.lean`, instantiated at `ℝ` with
`log := Real.logb 2`, `pow := Real.rpow`, `ofNat := Nat.cast`, `log2e := logb 2 e`
(`Dit.Lemmas.InfoReal.realOps`). Helper lemmas: Lemmas/InfoAlg.lean, Lemmas/InfoReal.lean.
-/
import DitModel.Lemmas.InfoReal

set_option linter.unusedSectionVars false

namespace Dit.Props.C04
open Dit Dit.Lemmas.InfoAlg Dit.Lemmas.InfoReal

/-! ### Shannon entropy of a list of probabilities -/

/-- **Shannon formula.** `entropyVals` is `−Σ p log₂ p`; the `p == 0` guard of the model is
harmless because `Real.logb 2 0 = 0`. -/
theorem entropyVals_eq_sum (ps : List ℝ) :
    entropyVals (Real.logb 2) ps = -(ps.map (fun p => p * Real.logb 2 p)).sum :=
  Lemmas.InfoReal.entropyVals_eq_sum ps

/-- **Order is irrelevant**: the entropy of a list is invariant under permutations (for any
`log` function). -/
theorem entropy_perm (log : ℝ → ℝ) (ps qs : List ℝ) (h : ps.Perm qs) :
    entropyVals log ps = entropyVals log qs :=
  entropyVals_perm log h

example : [(1 : ℝ) / 2, 0, 1 / 2].Perm [0, 1 / 2, 1 / 2] := List.Perm.swap _ _ _

/-- **Zero-probability outcomes contribute nothing**: removing (equivalently, inserting) zero
entries does not change the entropy, for any `log` function. -/
theorem entropy_zero_irrelevant (log : ℝ → ℝ) (ps : List ℝ) :
    entropyVals log (ps.filter (fun p => decide (p ≠ 0))) = entropyVals log ps :=
  entropyVals_filter log ps

/-- Inserting one zero anywhere does not change the entropy. -/
theorem entropy_insert_zero (log : ℝ → ℝ) (ps qs : List ℝ) :
    entropyVals log (ps ++ 0 :: qs) = entropyVals log (ps ++ qs) := by
  rw [← entropyVals_filter log (ps ++ 0 :: qs), ← entropyVals_filter log (ps ++ qs)]
  simp

/-- **Entropy is non-negative** for sub-probabilities (`0 ≤ p ≤ 1` entrywise; no normalisation
needed). -/
theorem entropy_nonneg (ps : List ℝ) (h : ∀ p ∈ ps, 0 ≤ p ∧ p ≤ 1) :
    0 ≤ entropyVals (Real.logb 2) ps :=
  Lemmas.InfoReal.entropy_nonneg ps h

/-- **Entropy is at most `log₂ |support|`** for a probability vector (non-negative entries of
sum 1; the sum is needed: scaling a vector changes its entropy). -/
theorem entropy_le_log_card (ps : List ℝ) (h : ∀ p ∈ ps, 0 ≤ p) (hs : ps.sum = 1) :
    entropyVals (Real.logb 2) ps ≤ Real.logb 2 (supportSize ps) :=
  Lemmas.InfoReal.entropy_le_log_card ps h hs

example : ∀ p ∈ [(1 : ℝ) / 2, 0, 1 / 2], 0 ≤ p ∧ p ≤ 1 := by
  intro p hp; simp at hp; rcases hp with rfl | rfl | rfl <;> norm_num
example : ([(1 : ℝ) / 2, 0, 1 / 2]).sum = 1 := by norm_num
example : supportSize [(1 : ℝ) / 2, 0, 1 / 2] = 2 := by simp [supportSize]
/-- The fair coin with a stored zero has exactly one bit, the bound `log₂ 2`. -/
example : entropyVals (Real.logb 2) [(1 : ℝ) / 2, 0, 1 / 2] = 1 := by
  rw [entropyVals_eq_sum]
  have : Real.logb 2 (1 / 2) = -1 := by
    rw [one_div, Real.logb_inv, Real.logb_self_eq_one (by norm_num)]
  simp only [List.map_cons, List.map_nil, List.sum_cons, List.sum_nil, this]
  norm_num

/-! ### Entropy of a marginal of the joint table -/

/-- **Entropy of a subset of variables.** For any table `t` and index list `X`,
`entropyOf t X = −Σ_x P_X(x) log₂ P_X(x)`, where `x` runs over the distinct projections of the
stored outcomes on `X` (in order of first appearance) and `P_X(x)` is the sum of the values of
the rows projecting to `x` — the marginal computed from the joint table. -/
theorem entropyOf_eq_def {σ : Type} [DecidableEq σ] (t : Tab (List σ) ℝ) (X : List Nat) :
    entropyOf (Real.logb 2) t X
      = -((dedup (t.map (fun r => project X r.1))).map (fun x =>
          fibreSum (project X) t x * Real.logb 2 (fibreSum (project X) t x))).sum :=
  Lemmas.InfoReal.entropyOf_eq_def t X

/-- The marginal table itself: `pushforward f t` lists the distinct images in order of first
appearance, each with the sum of its fibre (over any commutative additive monoid). -/
theorem marginal_eq_fibre_sums {κ κ' α : Type} [DecidableEq κ'] [AddCommMonoid α]
    (f : κ → κ') (t : Tab κ α) :
    pushforward f t = (dedup (t.map (fun r => f r.1))).map (fun x => (x, fibreSum f t x)) :=
  pushforward_eq f t

/-- Equivalent row form: `H(X) = −Σ_rows v · log₂ P_X(projection of the row)`. -/
theorem entropyOf_rows {σ : Type} [DecidableEq σ] (t : Tab (List σ) ℝ) (X : List Nat) :
    entropyOf (Real.logb 2) t X
      = -(t.map (fun r =>
          r.2 * Real.logb 2 (fibreSum (project X) t (project X r.1)))).sum :=
  Lemmas.InfoReal.entropyOf_rows t X

/-- The entropy of a marginal depends only on the *set* of variables (order and repetitions in
the index list are irrelevant), even for ragged tables with out-of-range indices. -/
theorem entropyOf_set {σ : Type} [DecidableEq σ] (t : Tab (List σ) ℝ) (X X' : List Nat)
    (h : ∀ v, v ∈ X ↔ v ∈ X') :
    entropyOf (Real.logb 2) t X = entropyOf (Real.logb 2) t X' :=
  entropyOf_congr t h

/-- Two perfectly correlated fair bits with a stored zero row: `H(X₀) = 1` bit. -/
example : entropyOf (Real.logb 2)
    ([(["0", "0"], 1 / 2), (["0", "1"], 0), (["1", "1"], 1 / 2)] : Tab (List String) ℝ) [0]
      = 1 := by
  rw [entropyOf_eq_def]
  simp [project, dedup, fibreSum]
  norm_num

example : ∀ v, v ∈ [2, 0, 2] ↔ v ∈ [0, 2] := by intro v; simp; tauto

/-! ### Conditional entropy and mutual information as entropy differences -/

section Comb
variable {R : Type} [CommRing R] (cast : ℚ →+* R) (H : VSet → R)

/-- The set fact behind dit's shortcut: if `X ⊆ Z` then `X ∪ Z = Z` (as normalised sets). -/
theorem union_of_subset (X Z : VSet) (h : vsubset (vnorm X) (vnorm Z) = true) :
    vunion X Z = vnorm Z :=
  vunion_of_subset h

/-- **Conditional entropy** `H(X|Z) = H(X ∪ Z) − H(Z)` for ANY set function `H` into a
commutative ring, including dit's shortcut case `X ⊆ Z` (no hypothesis on `H` is needed: the
sets occurring in `condH` are already normalised). -/
theorem cond_entropy_def (X Z : VSet) :
    Comb.eval cast H (condH X Z) = H (vunion X Z) - H (vnorm Z) :=
  eval_condH cast H X Z

/-- In the shortcut case `X ⊆ Z` both sides are 0. -/
theorem cond_entropy_subset (X Z : VSet) (h : vsubset (vnorm X) (vnorm Z) = true) :
    Comb.eval cast H (condH X Z) = 0 ∧ H (vunion X Z) - H (vnorm Z) = 0 := by
  rw [cond_entropy_def, vunion_of_subset h]; simp

example : vsubset (vnorm [1]) (vnorm [0, 1]) = true := by decide +kernel
example : condH [1] [0, 1] = [] := by decide +kernel
example : condH [2] [0, 1] = [(1, [0, 1, 2]), (-1, [0, 1])] := by decide +kernel

/-- **Conditional mutual information**
`I(X:Y|Z) = H(X∪Z) + H(Y∪Z) − H(X∪Y∪Z) − H(Z)` for any set function `H`. -/
theorem mi_def (X Y Z : VSet) :
    Comb.eval cast H (cmiC X Y Z)
      = H (vunion X Z) + H (vunion Y Z) - H (vunion (vunion X Y) Z) - H (vnorm Z) := by
  rw [eval_cmiC]; unfold Hc; ring

end Comb

/-- **Conditional entropy from the joint table**: with `H := entropyOf t`, `condH X Z` evaluates
to `H(X ++ Z) − H(Z)`, both entropies being those of marginals of the same table `t`. -/
theorem cond_entropy_table {σ : Type} [DecidableEq σ] (t : Tab (List σ) ℝ) (X Z : List Nat) :
    Comb.eval (Rat.castHom ℝ) (entropyOf (Real.logb 2) t) (condH X Z)
      = entropyOf (Real.logb 2) t (X ++ Z) - entropyOf (Real.logb 2) t Z := by
  rw [eval_condH]; unfold Hc
  rw [entropyOf_congr t (X := vunion X Z) (X' := X ++ Z)
        (by intro v; rw [mem_vunion, List.mem_append]),
    ← entropyOf_vnorm]

/-- **Mutual information from the joint table**:
`I(X:Y|Z) = H(X++Z) + H(Y++Z) − H(X++Y++Z) − H(Z)` on the marginals of `t`. -/
theorem mi_table {σ : Type} [DecidableEq σ] (t : Tab (List σ) ℝ) (X Y Z : List Nat) :
    Comb.eval (Rat.castHom ℝ) (entropyOf (Real.logb 2) t) (cmiC X Y Z)
      = entropyOf (Real.logb 2) t (X ++ Z) + entropyOf (Real.logb 2) t (Y ++ Z)
        - entropyOf (Real.logb 2) t (X ++ Y ++ Z) - entropyOf (Real.logb 2) t Z := by
  rw [mi_def]
  rw [entropyOf_congr t (X := vunion X Z) (X' := X ++ Z)
        (by intro v; rw [mem_vunion, List.mem_append]),
    entropyOf_congr t (X := vunion Y Z) (X' := Y ++ Z)
        (by intro v; rw [mem_vunion, List.mem_append]),
    entropyOf_congr t (X := vunion (vunion X Y) Z) (X' := X ++ Y ++ Z)
        (by intro v; simp only [mem_vunion, List.mem_append]),
    ← entropyOf_vnorm]

/-- … and their mutual information, computed from the joint table, is 1 bit. -/
example : Comb.eval (Rat.castHom ℝ) (entropyOf (Real.logb 2)
    ([(["0", "0"], 1 / 2), (["0", "1"], 0), (["1", "1"], 1 / 2)] : Tab (List String) ℝ))
      (cmiC [0] [1] []) = 1 := by
  rw [mi_table]
  simp only [entropyOf_eq_def]
  simp [project, dedup, fibreSum]
  norm_num

/-! ### Rényi, Tsallis, extropy, perplexity -/

/-- **Rényi order 0** is `log₂ |support|` (Hartley entropy). -/
theorem renyi_zero (ps : List ℝ) :
    renyiVals realOps (.fin 0) ps = Real.logb 2 (supportSize ps) :=
  Lemmas.InfoReal.renyi_zero ps

/-- **Rényi order 1** is the Shannon entropy. -/
theorem renyi_one (ps : List ℝ) :
    renyiVals realOps (.fin 1) ps = entropyVals (Real.logb 2) ps :=
  Lemmas.InfoReal.renyi_one ps

/-- **Rényi order ∞** is `−log₂ (lmax ps)` (min-entropy) … -/
theorem renyi_inf (ps : List ℝ) :
    renyiVals realOps .inf ps = -Real.logb 2 (lmax ps) :=
  Lemmas.InfoReal.renyi_inf ps

/-- … where `lmax ps` is the greatest element of a non-empty list of non-negative reals (both
hypotheses are needed: `lmax [] = 0` and `lmax [-1] = 0` are not elements). -/
theorem lmax_spec (ps : List ℝ) (hne : ps ≠ []) (hnn : ∀ p ∈ ps, 0 ≤ p) :
    lmax ps ∈ ps ∧ ∀ p ∈ ps, p ≤ lmax ps :=
  Lemmas.InfoReal.lmax_spec ps hne hnn

example : lmax [(1 : ℝ) / 4, 1 / 2, 1 / 4] = 1 / 2 := by
  unfold lmax; norm_num
example : [(1 : ℝ) / 4, 1 / 2, 1 / 4] ≠ [] ∧ ∀ p ∈ [(1 : ℝ) / 4, 1 / 2, 1 / 4], 0 ≤ p := by
  refine ⟨by simp, ?_⟩
  intro p hp; simp at hp; rcases hp with rfl | rfl | rfl <;> norm_num
example : (2 : ℝ) ≠ 0 ∧ (2 : ℝ) ≠ 1 ∧ (0 : ℝ) < 2 := by norm_num

/-- **Rényi, generic order** `a ∉ {0, 1}`: `(1/(1−a)) log₂ Σ_{p ≠ 0} pᵃ` over the support. -/
theorem renyi_fin (a : ℝ) (h0 : a ≠ 0) (h1 : a ≠ 1) (ps : List ℝ) :
    renyiVals realOps (.fin a) ps
      = (1 / (1 - a))
        * Real.logb 2 (((ps.filter (fun p => decide (p ≠ 0))).map (· ^ a)).sum) :=
  Lemmas.InfoReal.renyi_fin a h0 h1 ps

/-- For positive order the restriction to the support is immaterial (`0ᵃ = 0`). -/
theorem renyi_fin_pos (a : ℝ) (h0 : 0 < a) (h1 : a ≠ 1) (ps : List ℝ) :
    renyiVals realOps (.fin a) ps = (1 / (1 - a)) * Real.logb 2 ((ps.map (· ^ a)).sum) :=
  Lemmas.InfoReal.renyi_fin_pos a h0 h1 ps

/-- **Tsallis order 1** is the Shannon entropy in nats, `−Σ p ln p` … -/
theorem tsallis_one (ps : List ℝ) :
    tsallisVals realOps 1 ps = -(ps.map (fun p => p * Real.log p)).sum :=
  Lemmas.InfoReal.tsallis_one ps

/-- … computed as the Shannon entropy in bits divided by `log₂ e`. -/
theorem tsallis_one_bits (ps : List ℝ) :
    tsallisVals realOps 1 ps = entropyVals (Real.logb 2) ps / Real.logb 2 (Real.exp 1) :=
  Lemmas.InfoReal.tsallis_one_bits ps

/-- **Tsallis, generic order** `q ≠ 1`: `(1/(q−1)) (1 − Σ_{p ≠ 0} p^q)` over the support. -/
theorem tsallis_fin (q : ℝ) (h1 : q ≠ 1) (ps : List ℝ) :
    tsallisVals realOps q ps
      = (1 / (q - 1)) * (1 - ((ps.filter (fun p => decide (p ≠ 0))).map (· ^ q)).sum) :=
  Lemmas.InfoReal.tsallis_fin q h1 ps

/-- For positive order the restriction to the support is immaterial. -/
theorem tsallis_fin_pos (q : ℝ) (h0 : 0 < q) (h1 : q ≠ 1) (ps : List ℝ) :
    tsallisVals realOps q ps = (1 / (q - 1)) * (1 - (ps.map (· ^ q)).sum) :=
  Lemmas.InfoReal.tsallis_fin_pos q h0 h1 ps

/-- **Extropy** is `−Σ (1−p) log₂ (1−p)`. -/
theorem extropy_def (ps : List ℝ) :
    extropyVals (Real.logb 2) ps = -(ps.map (fun p => (1 - p) * Real.logb 2 (1 - p))).sum :=
  extropy_eq ps

/-- **Perplexity** is `2 ^ H`. -/
theorem perplexity_def (ps : List ℝ) :
    perplexityVals realOps 2 ps = (2 : ℝ) ^ entropyVals (Real.logb 2) ps :=
  perplexity_eq ps

/-- **Rényi → Shannon.** For a probability vector (non-negative entries of sum 1; the sum is
needed, since `log₂ Σ pᵃ → log₂ Σ p ≠ 0` otherwise) the Rényi entropy of order `a` tends to the
Shannon entropy as `a → 1`, `a ≠ 1`: the order-1 branch of `renyiVals` is the genuine limit. -/
theorem renyi_tendsto_one (ps : List ℝ) (hnn : ∀ p ∈ ps, 0 ≤ p) (hs : ps.sum = 1) :
    Filter.Tendsto (fun a => renyiVals realOps (.fin a) ps) (nhdsWithin 1 {1}ᶜ)
      (nhds (entropyVals (Real.logb 2) ps)) :=
  Lemmas.InfoReal.renyi_tendsto_one ps hnn hs

/-- **Tsallis → Shannon (nats).** For a probability vector the Tsallis entropy of order `q` tends
to its order-1 value `−Σ p ln p` as `q → 1`, `q ≠ 1`. -/
theorem tsallis_tendsto_one (ps : List ℝ) (hnn : ∀ p ∈ ps, 0 ≤ p) (hs : ps.sum = 1) :
    Filter.Tendsto (fun q => tsallisVals realOps q ps) (nhdsWithin 1 {1}ᶜ)
      (nhds (tsallisVals realOps 1 ps)) :=
  Lemmas.InfoReal.tsallis_tendsto_one ps hnn hs

example : (∀ p ∈ [(1 : ℝ) / 4, 0, 3 / 4], 0 ≤ p) ∧ ([(1 : ℝ) / 4, 0, 3 / 4]).sum = 1 := by
  constructor
  · intro p hp; simp at hp; rcases hp with rfl | rfl | rfl <;> norm_num
  · norm_num

end Dit.Props.C04
