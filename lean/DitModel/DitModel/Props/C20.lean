/-
C20 (combinatorial part) — `simplex_grid` enumerates every grid point of the simplex exactly once.

The grid points of `simplex_grid(length, subdivisions)` are, up to the common denominator `s`,
the weak compositions of `s` into `length` parts, produced by `slots`. Theorems about
`Dit.slots` and `Dit.simplexGrid` (Core/Simplex.lean) for all `n`, `k`: every element is a
composition (soundness), every composition is an element (completeness), no element is
repeated, the list is in strict lexicographic order, and its length is the stars-and-bars
number `C(n + k - 1, k - 1)`.
Helper lemmas: Lemmas/Slots.lean.
-/
import DitModel.Lemmas.Slots

set_option linter.unusedSectionVars false

namespace Dit.Props.C20
open Dit Dit.Lemmas.Slots

/-! ### `slots` -/

/-- **Soundness.** Every element of `slots n k` has `k` parts that add up to `n`. -/
theorem slots_sound (n k : Nat) (c : List Nat) (h : c ∈ slots n k) :
    c.length = k ∧ c.sum = n :=
  (mem_slots_iff n k c).mp h

/-- **Completeness.** Every list of `k` naturals that add up to `n` is an element of
`slots n k`. -/
theorem slots_complete (n k : Nat) (c : List Nat) (hlen : c.length = k) (hsum : c.sum = n) :
    c ∈ slots n k :=
  (mem_slots_iff n k c).mpr ⟨hlen, hsum⟩

/-- **Exactly once.** No composition is listed twice. -/
theorem slots_nodup (n k : Nat) : (slots n k).Nodup :=
  Lemmas.Slots.slots_nodup n k

/-- **Order.** The compositions are listed in strictly increasing lexicographic order
(`lexLt` of Core/Table.lean: every earlier element is `lexLt` every later one). -/
theorem slots_sorted (n k : Nat) : (slots n k).Pairwise (fun a b => lexLt a b = true) :=
  slots_pairwise n k

/-- **Number of compositions** (stars and bars), for at least one part. -/
theorem slots_length (n k : Nat) (hk : 1 ≤ k) :
    (slots n k).length = Nat.choose (n + k - 1) (k - 1) := by
  obtain ⟨k, rfl⟩ : ∃ k', k = k' + 1 := ⟨k - 1, by omega⟩
  rw [slots_length_succ]
  rfl

/-- **No parts.** With zero parts there is exactly the empty composition of `0` and no
composition of a positive number. -/
theorem slots_zero_parts (n : Nat) : slots n 0 = if n = 0 then [[]] else [] := by
  cases n with
  | zero => rw [slots_zero_zero]; rfl
  | succ n => rw [slots_succ_zero]; rfl

/-! ### The simplex grid -/

/-- **Grid points.** `p` is a grid point (numerator vector) of the simplex grid with `len`
coordinates and `s` subdivisions iff it has `len` coordinates adding up to `s`. -/
theorem simplexGrid_spec (len s : Nat) (p : List Nat) :
    p ∈ simplexGrid len s ↔ p.length = len ∧ p.sum = s :=
  mem_slots_iff (s) len p

/-- **Each grid point exactly once.** -/
theorem simplexGrid_nodup (len s : Nat) : (simplexGrid len s).Nodup :=
  Lemmas.Slots.slots_nodup (s) len

/-- **Each grid point exactly once**, in counting form: every list of `len` naturals adding up
to `s` occurs exactly one time in the enumeration. -/
theorem simplexGrid_count (len s : Nat) (p : List Nat)
    (hlen : p.length = len) (hsum : p.sum = s) :
    (simplexGrid len s).count p = 1 :=
  List.count_eq_one_of_mem (simplexGrid_nodup len s) ((simplexGrid_spec len s p).mpr ⟨hlen, hsum⟩)

/-- **Order of the grid.** Lexicographic, as for `slots`. -/
theorem simplexGrid_sorted (len s : Nat) :
    (simplexGrid len s).Pairwise (fun a b => lexLt a b = true) :=
  slots_pairwise (s) len

/-- **Number of grid points**, for at least one coordinate. -/
theorem simplexGrid_length (len s : Nat) (hlen : 1 ≤ len) :
    (simplexGrid len s).length = Nat.choose (s + len - 1) (len - 1) :=
  slots_length (s) len hlen

/-! ### Examples (non-vacuity) -/

example : slots 3 2 = [[0, 3], [1, 2], [2, 1], [3, 0]] := by decide +kernel
example : slots 2 3 = [[0, 0, 2], [0, 1, 1], [0, 2, 0], [1, 0, 1], [1, 1, 0], [2, 0, 0]] := by
  decide +kernel
example : slots 0 0 = [[]] ∧ slots 2 0 = [] ∧ slots 0 2 = [[0, 0]] := by decide +kernel
example : simplexGrid 3 2 = [[0, 0, 2], [0, 1, 1], [0, 2, 0], [1, 0, 1], [1, 1, 0], [2, 0, 0]] := by
  decide +kernel
/-- Hypotheses of `slots_complete` / `simplexGrid_count`: a grid point with `2^2` subdivisions. -/
example : [1, 0, 3].length = 3 ∧ [1, 0, 3].sum = 4 ∧ [1, 0, 3] ∈ simplexGrid 3 4 := by
  decide +kernel
/-- `slots_length` at `n = 4`, `k = 3`: `C(6, 2) = 15` compositions. -/
example : 1 ≤ 3 ∧ (slots 4 3).length = 15 ∧ Nat.choose (4 + 3 - 1) (3 - 1) = 15 := by
  decide +kernel

end Dit.Props.C20
