/-
C20 (combinatorial part) — `simplex_grid` enumerates every grid point of the simplex exactly once.

The grid points of `simplex_grid(length, subdivisions)` are, up to the common denominator `s`,
the weak compositions of `s` into `length` parts, produced by `slots`. Theorems about
`Dit.slots` and `Dit.simplexGrid` (Core/Simplex.lean) for all `n`, `k`: every element is a
composition (soundness), every composition is an element (completeness), no element is
repeated, the list is in strict lexicographic order, and its length is the stars-and-bars
number `C(n + k - 1, k - 1)`.
Helper lemmas: Lemmas/Slots.lean.

C20 (non-combinatorial part) — Aitchison geometry and pmf operations (second half of the file).
Theorems about Core/Aitchison.lean: `closure`/`perturbation`/`powering` return normalised
compositions; `clr`/`alr`/`ilr` are inverted by `clrInv`/`alrInv`/`ilrInv` on strictly positive
compositions (and the other way round on coordinate vectors); the rows of `ubasis` are
orthonormal and sum to zero; `ilr` is an isometry from the Aitchison geometry to Euclidean space;
`ilrInv` maps every real vector into the open simplex; `convexCombination`, `replaceZeros`,
`downsample` return normalised non-negative vectors (mixture, zeros filled, snapped to the grid).
The transcendental operations are instantiated at `ℝ` by `realA` (`log₂`, `2^·`, `√`, `rpow`).
Helper lemmas: Lemmas/Aitchison.lean.
-/
import DitModel.Lemmas.Slots
import DitModel.Lemmas.Aitchison

set_option linter.unusedSectionVars false

namespace Dit.Props.C20
open Dit Dit.Lemmas.Slots

/-! ### `slots` -/

/-- **Soundness.** Every element of `slots n k` has `k` parts that add up to `n`. -/
theorem slots_sound (n k : Nat) (c : List Nat) (h : c ∈ slots n k) :
    c.length = k ∧ c.sum = n :=
  (mem_slots_iff n k c).mp h

/-- **Completeness.** Every list of `k` naturals that add up to `n` is an element of
`slots n k`. -/
theorem slots_complete (n k : Nat) (c : List Nat) (hlen : c.length = k) (hsum : c.sum = n) :
    c ∈ slots n k :=
  (mem_slots_iff n k c).mpr ⟨hlen, hsum⟩

/-- **Exactly once.** No composition is listed twice. -/
theorem slots_nodup (n k : Nat) : (slots n k).Nodup :=
  Lemmas.Slots.slots_nodup n k

/-- **Order.** The compositions are listed in strictly increasing lexicographic order
(`lexLt` of Core/Table.lean: every earlier element is `lexLt` every later one). -/
theorem slots_sorted (n k : Nat) : (slots n k).Pairwise (fun a b => lexLt a b = true) :=
  slots_pairwise n k

/-- **Number of compositions** (stars and bars), for at least one part. -/
theorem slots_length (n k : Nat) (hk : 1 ≤ k) :
    (slots n k).length = Nat.choose (n + k - 1) (k - 1) := by
  obtain ⟨k, rfl⟩ : ∃ k', k = k' + 1 := ⟨k - 1, by omega⟩
  rw [slots_length_succ]
  rfl

/-- **No parts.** With zero parts there is exactly the empty composition of `0` and no
composition of a positive number. -/
theorem slots_zero_parts (n : Nat) : slots n 0 = if n = 0 then [[]] else [] := by
  cases n with
  | zero => rw [slots_zero_zero]; rfl
  | succ n => rw [slots_succ_zero]; rfl

/-! ### The simplex grid -/

/-- **Grid points.** `p` is a grid point (numerator vector) of the simplex grid with `len`
coordinates and `s` subdivisions iff it has `len` coordinates adding up to `s`. -/
theorem simplexGrid_spec (len s : Nat) (p : List Nat) :
    p ∈ simplexGrid len s ↔ p.length = len ∧ p.sum = s :=
  mem_slots_iff (s) len p

/-- **Each grid point exactly once.** -/
theorem simplexGrid_nodup (len s : Nat) : (simplexGrid len s).Nodup :=
  Lemmas.Slots.slots_nodup (s) len

/-- **Each grid point exactly once**, in counting form: every list of `len` naturals adding up
to `s` occurs exactly one time in the enumeration. -/
theorem simplexGrid_count (len s : Nat) (p : List Nat)
    (hlen : p.length = len) (hsum : p.sum = s) :
    (simplexGrid len s).count p = 1 :=
  List.count_eq_one_of_mem (simplexGrid_nodup len s) ((simplexGrid_spec len s p).mpr ⟨hlen, hsum⟩)

/-- **Order of the grid.** Lexicographic, as for `slots`. -/
theorem simplexGrid_sorted (len s : Nat) :
    (simplexGrid len s).Pairwise (fun a b => lexLt a b = true) :=
  slots_pairwise (s) len

/-- **Number of grid points**, for at least one coordinate. -/
theorem simplexGrid_length (len s : Nat) (hlen : 1 ≤ len) :
    (simplexGrid len s).length = Nat.choose (s + len - 1) (len - 1) :=
  slots_length (s) len hlen

/-! ### Examples (non-vacuity) -/

example : slots 3 2 = [[0, 3], [1, 2], [2, 1], [3, 0]] := by decide +kernel
example : slots 2 3 = [[0, 0, 2], [0, 1, 1], [0, 2, 0], [1, 0, 1], [1, 1, 0], [2, 0, 0]] := by
  decide +kernel
example : slots 0 0 = [[]] ∧ slots 2 0 = [] ∧ slots 0 2 = [[0, 0]] := by decide +kernel
example : simplexGrid 3 2 = [[0, 0, 2], [0, 1, 1], [0, 2, 0], [1, 0, 1], [1, 1, 0], [2, 0, 0]] := by
  decide +kernel
/-- Hypotheses of `slots_complete` / `simplexGrid_count`: a grid point with `2^2` subdivisions. -/
example : [1, 0, 3].length = 3 ∧ [1, 0, 3].sum = 4 ∧ [1, 0, 3] ∈ simplexGrid 3 4 := by
  decide +kernel
/-- `slots_length` at `n = 4`, `k = 3`: `C(6, 2) = 15` compositions. -/
example : 1 ≤ 3 ∧ (slots 4 3).length = 15 ∧ Nat.choose (4 + 3 - 1) (3 - 1) = 15 := by
  decide +kernel

/-! ## Aitchison geometry and pmf operations (non-combinatorial part of C20) -/

open Dit.Lemmas.Aitchison (realA)

/-! ### `closure`, `perturbation`, `powering` -/

section ClosureField
variable {α : Type} [Field α]

/-- **Closure normalises.** Over any field, the closure of a vector with non-zero total sums
to 1. (`x.sum ≠ 0` is needed: the closure of `[1, -1]` is `[0, 0]` in a field with `a/0 = 0`.) -/
theorem closure_sum_one (x : List α) (h : x.sum ≠ 0) : (closure x).sum = 1 :=
  Lemmas.Aitchison.closure_sum x h

/-- **Closure fixes compositions.** A vector that already sums to 1 is unchanged. -/
theorem closure_of_sum_one (x : List α) (h : x.sum = 1) : closure x = x :=
  Lemmas.Aitchison.closure_of_sum_one x h

/-- **Closure is idempotent** (for every vector, also one of total zero). -/
theorem closure_idem (x : List α) : closure (closure x) = closure x :=
  Lemmas.Aitchison.closure_idem x

end ClosureField

section ClosureOrdered
variable {α : Type} [Field α] [LinearOrder α] [IsStrictOrderedRing α]

/-- **Closure keeps positivity** (and the length): the closure of a strictly positive vector is
strictly positive. -/
theorem closure_pos (x : List α) (h : ∀ v ∈ x, 0 < v) :
    (closure x).length = x.length ∧ ∀ v ∈ closure x, 0 < v :=
  ⟨Lemmas.Aitchison.closure_length x, Lemmas.Aitchison.closure_pos h⟩

/-- **Perturbation is closed on the open simplex.** For strictly positive vectors of equal
non-zero length the result has the same length, strictly positive entries, and sums to 1.
(`x ≠ []` is needed for the total to be non-zero.) -/
theorem perturbation_closed (x y : List α) (hne : x ≠ []) (hlen : x.length = y.length)
    (hx : ∀ v ∈ x, 0 < v) (hy : ∀ v ∈ y, 0 < v) :
    (perturbation x y).length = x.length ∧ (∀ v ∈ perturbation x y, 0 < v) ∧
      (perturbation x y).sum = 1 :=
  Lemmas.Aitchison.perturbation_simplex hne hlen hx hy

end ClosureOrdered

/-- **Powering is closed on the open simplex**, for every real exponent. -/
theorem powering_closed (x : List ℝ) (a : ℝ) (hne : x ≠ []) (hx : ∀ v ∈ x, 0 < v) :
    (powering realA x a).length = x.length ∧ (∀ v ∈ powering realA x a, 0 < v) ∧
      (powering realA x a).sum = 1 :=
  Lemmas.Aitchison.powering_simplex hne hx a

/-! ### `clr` and `alr` -/

/-- **clr coordinates sum to zero**, for every input vector. -/
theorem clr_sum_zero (x : List ℝ) : (clr realA x).sum = 0 ∧ (clr realA x).length = x.length :=
  ⟨Lemmas.Aitchison.clr_sum x, Lemmas.Aitchison.clr_length x⟩

/-- **`clr_inv ∘ clr`** is the closure on strictly positive vectors, hence the identity on
strictly positive compositions. -/
theorem clrInv_clr (x : List ℝ) (hx : ∀ v ∈ x, 0 < v) :
    clrInv realA (clr realA x) = closure x ∧ (x.sum = 1 → clrInv realA (clr realA x) = x) := by
  have h := Lemmas.Aitchison.clrInv_clr x hx
  exact ⟨h, fun h1 => h.trans (Lemmas.Aitchison.closure_of_sum_one x h1)⟩

/-- **`clr ∘ clr_inv`** is the identity on the coordinate vectors of clr, i.e. the vectors that
sum to zero. (Needed: `clr` of anything sums to zero.) -/
theorem clr_clrInv (y : List ℝ) (hy : y.sum = 0) : clr realA (clrInv realA y) = y :=
  Lemmas.Aitchison.clr_clrInv y hy

/-- **`alr_inv ∘ alr`** is the closure on non-empty strictly positive vectors, hence the identity
on strictly positive compositions. -/
theorem alrInv_alr (x : List ℝ) (hne : x ≠ []) (hx : ∀ v ∈ x, 0 < v) :
    alrInv realA (alr realA x) = closure x ∧ (x.sum = 1 → alrInv realA (alr realA x) = x) := by
  have h := Lemmas.Aitchison.alrInv_alr x hne hx
  exact ⟨h, fun h1 => h.trans (Lemmas.Aitchison.closure_of_sum_one x h1)⟩

/-- **`alr ∘ alr_inv`** is the identity on every real vector. -/
theorem alr_alrInv (y : List ℝ) : alr realA (alrInv realA y) = y :=
  Lemmas.Aitchison.alr_alrInv y

/-! ### The basis `ubasis` and `ilr` -/

/-- **Orthonormal rows.** Rows `1..n` of `ubasis(n)` (vectors of length `n+1`) are orthonormal
for the Euclidean inner product. -/
theorem ubasis_orthonormal (n i i' : Nat) (hi : 1 ≤ i) (hin : i ≤ n) (hi' : 1 ≤ i') (hin' : i' ≤ n) :
    dot (ubasisRow realA n i) (ubasisRow realA n i') = if i = i' then 1 else 0 :=
  Lemmas.Aitchison.ubasis_orthonormal n i i' hi hin hi' hin'

/-- **Rows sum to zero**: each row of `ubasis(n)` is a clr vector. -/
theorem ubasis_sum_zero (n i : Nat) (hi : 1 ≤ i) (hin : i ≤ n) :
    (ubasisRow realA n i).sum = 0 ∧ (ubasisRow realA n i).length = n + 1 :=
  ⟨Lemmas.Aitchison.ubasis_sum_zero n i hi hin, by simp [ubasisRow]⟩

/-- **ilr coordinates.** Coordinate `k` of `ilr x` is the Euclidean inner product of `clr x`
with row `k+1` of `ubasis`. -/
theorem ilr_eq_dot (x : List ℝ) :
    ilr realA x = (List.range (x.length - 1)).map (fun k =>
      dot (clr realA x) (ubasisRow realA (x.length - 1) (k + 1))) :=
  Lemmas.Aitchison.ilr_eq_dot x

/-- **Expansion in the basis.** `clr x = Σ_k ilr(x)_k · u_k`: the linear combination formed by
`ilr_inv` from the ilr coordinates of `x` is `clr x`. -/
theorem clr_eq_sum_ilr (x : List ℝ) (hne : x ≠ []) :
    (List.range ((ilr realA x).length + 1)).map (fun j =>
      lsum ((List.range (ilr realA x).length).map (fun k =>
        (ilr realA x).getD k 0 * (ubasisRow realA (ilr realA x).length (k + 1)).getD j 0)))
      = clr realA x := by
  rw [Lemmas.Aitchison.ilrInv_arg_eq]
  exact Lemmas.Aitchison.sum_ilr_ubasis x hne

/-- **`ilr_inv ∘ ilr`** is the closure on non-empty strictly positive vectors (any number of
components), hence the identity on strictly positive compositions. -/
theorem ilrInv_ilr (x : List ℝ) (hne : x ≠ []) (hx : ∀ v ∈ x, 0 < v) :
    ilrInv realA (ilr realA x) = closure x ∧ (x.sum = 1 → ilrInv realA (ilr realA x) = x) := by
  have h := Lemmas.Aitchison.ilrInv_ilr x hne hx
  exact ⟨h, fun h1 => h.trans (Lemmas.Aitchison.closure_of_sum_one x h1)⟩

/-- **`ilr ∘ ilr_inv`** is the identity on every real vector (any dimension). -/
theorem ilr_ilrInv (y : List ℝ) : ilr realA (ilrInv realA y) = y :=
  Lemmas.Aitchison.ilr_ilrInv y

/-- **`ilr_inv` lands in the open simplex.** For every real vector `y`, `ilr_inv y` has
`y.length + 1` strictly positive entries that sum to 1 (the postcondition `perturb_support`
relies on). -/
theorem ilrInv_simplex (y : List ℝ) :
    (ilrInv realA y).length = y.length + 1 ∧ (∀ v ∈ ilrInv realA y, 0 < v) ∧
      (ilrInv realA y).sum = 1 :=
  Lemmas.Aitchison.ilrInv_simplex y

/-! ### Isometry -/

/-- **clr is additive**: `clr (x ⊕ y) = clr x + clr y` on strictly positive vectors. -/
theorem clr_perturbation (x y : List ℝ) (hne : x ≠ []) (hlen : x.length = y.length)
    (hx : ∀ v ∈ x, 0 < v) (hy : ∀ v ∈ y, 0 < v) :
    clr realA (perturbation x y) = List.zipWith (· + ·) (clr realA x) (clr realA y) :=
  Lemmas.Aitchison.clr_perturbation x y hne hlen hx hy

/-- **clr is homogeneous**: `clr (a ⊙ x) = a · clr x` on strictly positive vectors. -/
theorem clr_powering (x : List ℝ) (a : ℝ) (hne : x ≠ []) (hx : ∀ v ∈ x, 0 < v) :
    clr realA (powering realA x a) = (clr realA x).map (a * ·) :=
  Lemmas.Aitchison.clr_powering x a hne hx

/-- **ilr preserves the inner product**: the Aitchison inner product of two vectors of equal
length is the Euclidean inner product of their ilr coordinates. -/
theorem ilr_isometry (x y : List ℝ) (hlen : x.length = y.length) :
    ainner realA x y = dot (ilr realA x) (ilr realA y) :=
  Lemmas.Aitchison.ainner_eq_dot_ilr x y hlen

/-- **ilr is an isometry**: ilr turns `x ⊖ y` into the difference of coordinates, and the
Aitchison distance is the Euclidean distance of the ilr coordinates. -/
theorem ilr_isometry_dist (x y : List ℝ) (hne : x ≠ []) (hlen : x.length = y.length)
    (hx : ∀ v ∈ x, 0 < v) (hy : ∀ v ∈ y, 0 < v) :
    ilr realA (perturbation x (powering realA y (-1)))
        = List.zipWith (· - ·) (ilr realA x) (ilr realA y) ∧
    adist realA x y = Real.sqrt (dot (List.zipWith (· - ·) (ilr realA x) (ilr realA y))
      (List.zipWith (· - ·) (ilr realA x) (ilr realA y))) :=
  ⟨Lemmas.Aitchison.ilr_sub x y hne hlen hx hy, Lemmas.Aitchison.adist_eq x y hne hlen hx hy⟩

/-! ### `convexCombination`, `replaceZeros`, `downsample` -/

section PmfOps
variable {α : Type} [Field α] [LinearOrder α] [IsStrictOrderedRing α]

/-- **Convex combination.** For as many non-negative weights (of positive total) as pmfs, the
pmfs having `N` non-negative entries summing to 1 each: the result has `N` non-negative entries
summing to 1, and entry `j` is `Σ_i (w_i / Σw) · p_i[j]`. (Equal numbers of pmfs and weights are
needed: `zipWith` silently drops surplus weights after normalising them.) -/
theorem convex_spec (pmfs : List (List α)) (w : List α) (N : Nat)
    (hne : pmfs ≠ []) (hlen : pmfs.length = w.length)
    (hw : ∀ v ∈ w, 0 ≤ v) (hws : 0 < w.sum)
    (hN : ∀ pm ∈ pmfs, pm.length = N) (hnn : ∀ pm ∈ pmfs, ∀ v ∈ pm, 0 ≤ v)
    (h1 : ∀ pm ∈ pmfs, pm.sum = 1) :
    (convexCombination pmfs w).length = N ∧ (∀ v ∈ convexCombination pmfs w, 0 ≤ v) ∧
      (convexCombination pmfs w).sum = 1 ∧
      ∀ j, j < N → (convexCombination pmfs w).getD j 0
        = (List.zipWith (fun pm wi => wi / w.sum * pm.getD j 0) pmfs w).sum := by
  cases pmfs with
  | nil => exact absurd rfl hne
  | cons p ps =>
    have hp : p.length = N := hN p (by simp)
    refine ⟨?_, Lemmas.Aitchison.convex_nonneg p ps w hw hnn, ?_, ?_⟩
    · rw [Lemmas.Aitchison.convex_cons]; simp [hp]
    · exact Lemmas.Aitchison.convex_sum p ps w (ne_of_gt hws) hlen
        (fun pm hpm => by rw [hN pm hpm, hp]) h1
    · intro j hj
      exact Lemmas.Aitchison.convex_getD p ps w j (by omega)

/-- **Replacing zeros.** Given at least as many replacement values as `pmf` has zeros: the
length is kept; the `i`-th zero entry becomes the `i`-th replacement and every other entry is
multiplied by `1 − Σ used`; the total becomes `Σ used + (Σ pmf)(1 − Σ used)`, which is 1 for a
normalised `pmf`. -/
theorem replaceZeros_spec (pmf repl : List α)
    (hlen : (pmf.filter (· == 0)).length ≤ repl.length) :
    (replaceZeros pmf repl).length = pmf.length ∧
    (∀ j, j < pmf.length → (replaceZeros pmf repl).getD j 0 =
      if pmf.getD j 0 = 0 then repl.getD ((pmf.take j).filter (· == 0)).length 0
      else pmf.getD j 0 * (1 - (repl.take (pmf.filter (· == 0)).length).sum)) ∧
    (replaceZeros pmf repl).sum = (repl.take (pmf.filter (· == 0)).length).sum
      + pmf.sum * (1 - (repl.take (pmf.filter (· == 0)).length).sum) ∧
    (pmf.sum = 1 → (replaceZeros pmf repl).sum = 1) := by
  have hul : (repl.take (Lemmas.Aitchison.zc pmf)).length = Lemmas.Aitchison.zc pmf := by
    rw [List.length_take]; exact Nat.min_eq_left hlen
  have hsum := Lemmas.Aitchison.rzSpec_sum (1 - (repl.take (Lemmas.Aitchison.zc pmf)).sum) pmf
    (repl.take (Lemmas.Aitchison.zc pmf)) hul
  rw [Lemmas.Aitchison.replaceZeros_eq]
  refine ⟨Lemmas.Aitchison.rzSpec_length _ _ _, ?_, hsum, ?_⟩
  · intro j hj
    rw [Lemmas.Aitchison.rzSpec_getD _ pmf _ (le_of_eq hul.symm) j hj]
    by_cases h0 : pmf.getD j 0 = 0
    · have hlt := Lemmas.Aitchison.zc_take_lt pmf j hj h0
      rw [if_pos h0, if_pos h0, List.getD_eq_getElem?_getD, List.getD_eq_getElem?_getD,
        List.getElem?_take_of_lt hlt]
      rfl
    · rw [if_neg h0, if_neg h0]; rfl
  · intro h1
    rw [hsum, h1]; ring

/-- **Replacing zeros gives full support.** If moreover `pmf` is non-negative, the replacement
values used are strictly positive and their total is below 1, every entry of the result is
strictly positive. -/
theorem replaceZeros_pos (pmf repl : List α)
    (hlen : (pmf.filter (· == 0)).length ≤ repl.length) (hnn : ∀ v ∈ pmf, 0 ≤ v)
    (hpos : ∀ r ∈ repl.take (pmf.filter (· == 0)).length, 0 < r)
    (hlt : (repl.take (pmf.filter (· == 0)).length).sum < 1) :
    ∀ v ∈ replaceZeros pmf repl, 0 < v := by
  have hul : (repl.take (Lemmas.Aitchison.zc pmf)).length = Lemmas.Aitchison.zc pmf := by
    rw [List.length_take]; exact Nat.min_eq_left hlen
  rw [Lemmas.Aitchison.replaceZeros_eq]
  exact Lemmas.Aitchison.rzSpec_pos _ (sub_pos.mpr hlt) pmf _ (le_of_eq hul.symm) hpos hnn

/-- **Downsampling keeps the length** (for every input). -/
theorem downsample_len (m : Nat) (pmf : List α) :
    (downsample (Nat.cast : Nat → α) m pmf).length = pmf.length :=
  Lemmas.Aitchison.downsampleGo_length m pmf.length pmf 0

/-- **Downsampling lands on the grid.** For `1 ≤ m` and a non-negative `pmf` summing to 1, every
component of the result — the last one included — is `k/m` for some `k ≤ m`; in particular it is
non-negative. -/
theorem downsample_grid (m : Nat) (hm : 1 ≤ m) (pmf : List α) (hnn : ∀ v ∈ pmf, 0 ≤ v)
    (hsum : pmf.sum = 1) :
    ∀ v ∈ downsample (Nat.cast : Nat → α) m pmf, ∃ k : Nat, k ≤ m ∧ v = (k : α) / (m : α) := by
  have := (Lemmas.Aitchison.downsampleGo_spec m hm pmf.length pmf 0 le_rfl (Nat.zero_le _) hnn
    (by simpa using hsum)).2.1
  simpa [downsample] using this

/-- **Downsampling keeps the total.** For `1 ≤ m` and a non-negative `pmf` summing to 1, the
result sums to 1. -/
theorem downsample_sum_one (m : Nat) (hm : 1 ≤ m) (pmf : List α) (hnn : ∀ v ∈ pmf, 0 ≤ v)
    (hsum : pmf.sum = 1) : (downsample (Nat.cast : Nat → α) m pmf).sum = 1 := by
  have := (Lemmas.Aitchison.downsampleGo_spec m hm pmf.length pmf 0 le_rfl (Nat.zero_le _) hnn
    (by simpa using hsum)).2.2
  simpa [downsample] using this

end PmfOps

/-! ### Examples (non-vacuity) -/

example : closure [(1 : ℚ), 1, 2] = [1 / 4, 1 / 4, 1 / 2] := by decide +kernel
example : closure (closure [(1 : ℚ), 1, 2]) = closure [(1 : ℚ), 1, 2] := by decide +kernel
example : perturbation [(1 : ℚ) / 2, 1 / 4, 1 / 4] [1 / 3, 1 / 3, 1 / 3] = [1 / 2, 1 / 4, 1 / 4] := by
  decide +kernel
/-- Hypotheses of the round-trip and isometry theorems: a strictly positive composition. -/
example : ([1 / 2, 1 / 4, 1 / 4] : List ℝ) ≠ [] ∧ (∀ v ∈ ([1 / 2, 1 / 4, 1 / 4] : List ℝ), 0 < v) ∧
    ([1 / 2, 1 / 4, 1 / 4] : List ℝ).sum = 1 ∧
    ([1 / 2, 1 / 4, 1 / 4] : List ℝ).length = ([1 / 3, 1 / 3, 1 / 3] : List ℝ).length := by
  refine ⟨by simp, ?_, by norm_num, rfl⟩
  intro v hv
  simp only [List.mem_cons, List.not_mem_nil, or_false] at hv
  rcases hv with rfl | rfl | rfl <;> norm_num
/-- Hypothesis of `clr_clrInv`: a non-trivial vector summing to zero. -/
example : ([1, -3, 2] : List ℝ).sum = 0 := by norm_num
/-- Hypotheses of `ubasis_orthonormal`: rows 1 and 2 of `ubasis(2)`. -/
example : 1 ≤ 1 ∧ 1 ≤ 2 ∧ 1 ≤ 2 ∧ 2 ≤ 2 := by decide
/-- `convex_spec`: an equal-weight mixture (weights not normalised). -/
example : convexCombination [[(1 : ℚ), 0], [0, 1]] [2, 2] = [1 / 2, 1 / 2] := by decide +kernel
/-- `replaceZeros_spec`: two zeros filled, the other entries scaled by `1 − 1/5`. -/
example : replaceZeros [(1 : ℚ) / 2, 0, 1 / 2, 0] [1 / 10, 1 / 10, 7]
    = [2 / 5, 1 / 10, 2 / 5, 1 / 10] := by decide +kernel
/-- `downsample`: snapping to halves and to thirds; the first component is snapped upward and
the rest rescaled. -/
example : downsample (Nat.cast : Nat → ℚ) 2 [3 / 10, 3 / 10, 4 / 10] = [1 / 2, 0, 1 / 2] := by
  decide +kernel
example : downsample (Nat.cast : Nat → ℚ) 3 [3 / 10, 3 / 10, 4 / 10] = [1 / 3, 1 / 3, 1 / 3] := by
  decide +kernel

end Dit.Props.C20
