/-
C06 (companion) — "… Chernoff information, … lautum information equal their textbook definitions
on linear distributions … Hence D(p‖p)=0 …, symmetric ones are symmetric …".

Theorems about the definitions of `Core/Diverge2.lean` at `α := ℝ`, `log2 := Real.logb 2`, with the
power of `R : RealOps ℝ` assumed to be the real power (`hR : ∀ x e, R.pow x e = x ^ e`; `realOps`
of Lemmas/InfoReal.lean is such an `R`).

* Chernoff: `dit.divergences.variational_distance.chernoff_information_pmf` minimises
  `func(α) = log2 Σ p^α q^(1−α)` (`chernoffObj`) over `α ∈ [0,1]` and returns `−func(α*)` clipped at
  `0`; `pq` is the list of label-aligned pairs `(p_i, q_i)`.
* Lautum: `dit.other.lautum_information` is `D(P_X ⊗ P_Y ‖ P_XY)` (`lautumVals`, `none` = `+∞`);
  `margP t X x` is `P_X(x)`, `jointP t X Y x y` is `P_XY(x,y)` (event weights of the table `t`),
  `lautumPairs t X Y` the list of pairs `(P_X(x) P_Y(y), P_XY(x,y))` over the observed values.
Helper lemmas: Lemmas/Diverge2.lean.
-/
import DitModel.Lemmas.Diverge2

set_option linter.unusedSectionVars false

namespace Dit.Props.C06Chernoff
open Dit Dit.Lemmas.Table Dit.Lemmas.InfoReal Dit.Lemmas.Diverge Dit.Lemmas.Diverge2

/-- Non-vacuity of the hypothesis on `R` used throughout: `realOps` computes the real power. -/
example : ∀ x e : ℝ, realOps.pow x e = x ^ e := fun _ _ => rfl

/-! ## NumPy's power -/

/-- **The guarded cases of `npPow` are NumPy's conventions**, whatever `R.pow` is: `x ** 0 = 1`
(also `0 ** 0 = 1`), `0 ** e = 0` for `e ≠ 0`, and `R.pow` elsewhere. -/
theorem npPow_conventions (R : RealOps ℝ) (x e : ℝ) :
    npPow R x 0 = 1 ∧ (e ≠ 0 → npPow R 0 e = 0) ∧ (e ≠ 0 → x ≠ 0 → npPow R x e = R.pow x e) := by
  refine ⟨by simp [npPow], fun he => by simp [npPow, he], fun he hx => by simp [npPow, he, hx]⟩

/-- **`npPow` is the real power.** The explicit case split of `npPow` agrees with `Real.rpow`
everywhere (`x ^ 0 = 1`, `0 ^ e = 0` for `e ≠ 0` in Lean); on `x ≥ 0`, `e ≥ 0` — the only arguments
the Chernoff objective uses for `α ∈ [0,1]` — these are also NumPy's values. -/
theorem npPow_spec (R : RealOps ℝ) (hR : ∀ x e : ℝ, R.pow x e = x ^ e) (x e : ℝ) :
    npPow R x e = x ^ e :=
  npPow_eq R hR x e

/-! ## The Chernoff sum: definition and end points -/

/-- **Definition.** `chernoffSum R a pq = Σ p^a q^(1−a)`. -/
theorem chernoffSum_eq_def (R : RealOps ℝ) (hR : ∀ x e : ℝ, R.pow x e = x ^ e) (a : ℝ)
    (pq : List (ℝ × ℝ)) :
    chernoffSum R a pq = (pq.map (fun r => r.1 ^ a * r.2 ^ (1 - a))).sum :=
  chernoffSum_eq R hR a pq

/-- **At `α = 0` the sum is `Σ q`** (every `p^0` is `1`, also for `p = 0`). -/
theorem chernoffSum_zero (R : RealOps ℝ) (hR : ∀ x e : ℝ, R.pow x e = x ^ e)
    (pq : List (ℝ × ℝ)) : chernoffSum R 0 pq = (pq.map Prod.snd).sum :=
  Lemmas.Diverge2.chernoffSum_zero R hR pq

/-- **At `α = 1` the sum is `Σ p`.** -/
theorem chernoffSum_one (R : RealOps ℝ) (hR : ∀ x e : ℝ, R.pow x e = x ^ e)
    (pq : List (ℝ × ℝ)) : chernoffSum R 1 pq = (pq.map Prod.fst).sum :=
  Lemmas.Diverge2.chernoffSum_one R hR pq

/-- **The objective vanishes at both end points** for probability vectors. -/
theorem chernoffObj_endpoints (R : RealOps ℝ) (hR : ∀ x e : ℝ, R.pow x e = x ^ e)
    (pq : List (ℝ × ℝ)) (hp : (pq.map Prod.fst).sum = 1) (hq : (pq.map Prod.snd).sum = 1) :
    chernoffObj R (Real.logb 2) 0 pq = 0 ∧ chernoffObj R (Real.logb 2) 1 pq = 0 := by
  unfold chernoffObj
  rw [Lemmas.Diverge2.chernoffSum_zero R hR, Lemmas.Diverge2.chernoffSum_one R hR, hp, hq]
  simp

/-- Non-vacuity of the hypotheses on `pq` used below: `p = (1/2, 1/2, 0)`, `q = (1/4, 0, 3/4)`;
the supports meet in the first label. -/
example : (∀ r ∈ [((1 : ℝ) / 2, (1 : ℝ) / 4), (1 / 2, 0), (0, 3 / 4)], 0 ≤ r.1 ∧ 0 ≤ r.2)
    ∧ ([((1 : ℝ) / 2, (1 : ℝ) / 4), (1 / 2, 0), (0, 3 / 4)].map Prod.fst).sum = 1
    ∧ ([((1 : ℝ) / 2, (1 : ℝ) / 4), (1 / 2, 0), (0, 3 / 4)].map Prod.snd).sum = 1
    ∧ ∃ r ∈ [((1 : ℝ) / 2, (1 : ℝ) / 4), (1 / 2, 0), (0, 3 / 4)], 0 < r.1 ∧ 0 < r.2 := by
  refine ⟨?_, by norm_num, by norm_num, ⟨(1 / 2, 1 / 4), by simp, by norm_num, by norm_num⟩⟩
  intro r hr; simp at hr; rcases hr with rfl | rfl | rfl <;> norm_num

/-! ## Non-negativity -/

/-- **`Σ p^α q^(1−α) ≤ 1` on `[0,1]`** (weighted AM–GM termwise, `p^α q^(1−α) ≤ α p + (1−α) q`)
for non-negative vectors of total mass at most one. -/
theorem chernoffSum_le_one (R : RealOps ℝ) (hR : ∀ x e : ℝ, R.pow x e = x ^ e) (a : ℝ)
    (h0 : 0 ≤ a) (h1 : a ≤ 1) (pq : List (ℝ × ℝ)) (hnn : ∀ r ∈ pq, 0 ≤ r.1 ∧ 0 ≤ r.2)
    (hp : (pq.map Prod.fst).sum ≤ 1) (hq : (pq.map Prod.snd).sum ≤ 1) :
    chernoffSum R a pq ≤ 1 := by
  have h := chernoffSum_le R hR a h0 h1 pq hnn
  have h2 : 0 ≤ 1 - a := by linarith
  nlinarith [mul_le_mul_of_nonneg_left hp h0, mul_le_mul_of_nonneg_left hq h2]

/-- **The objective is `≤ 0` on `[0,1]`.** (No positivity of the sum is needed over `ℝ`, where
`logb 2 0 = 0`; NumPy's `log2 0 = −∞` is `≤ 0` as well.) -/
theorem chernoffObj_nonpos (R : RealOps ℝ) (hR : ∀ x e : ℝ, R.pow x e = x ^ e) (a : ℝ)
    (h0 : 0 ≤ a) (h1 : a ≤ 1) (pq : List (ℝ × ℝ)) (hnn : ∀ r ∈ pq, 0 ≤ r.1 ∧ 0 ≤ r.2)
    (hp : (pq.map Prod.fst).sum ≤ 1) (hq : (pq.map Prod.snd).sum ≤ 1) :
    chernoffObj R (Real.logb 2) a pq ≤ 0 :=
  Real.logb_nonpos (by norm_num) (chernoffSum_nonneg R hR a pq hnn)
    (chernoffSum_le_one R hR a h0 h1 pq hnn hp hq)

/-- **Every value `−func(α)`, `α ∈ [0,1]`, the code can return is `≥ 0`**, so the final clipping
`if ci < 0: ci = 0` never changes an exact value: `max (−func α) 0 = −func α`. -/
theorem chernoff_nonneg (R : RealOps ℝ) (hR : ∀ x e : ℝ, R.pow x e = x ^ e) (a : ℝ)
    (h0 : 0 ≤ a) (h1 : a ≤ 1) (pq : List (ℝ × ℝ)) (hnn : ∀ r ∈ pq, 0 ≤ r.1 ∧ 0 ≤ r.2)
    (hp : (pq.map Prod.fst).sum ≤ 1) (hq : (pq.map Prod.snd).sum ≤ 1) :
    0 ≤ -chernoffObj R (Real.logb 2) a pq
      ∧ max (-chernoffObj R (Real.logb 2) a pq) 0 = -chernoffObj R (Real.logb 2) a pq := by
  have h := chernoffObj_nonpos R hR a h0 h1 pq hnn hp hq
  have h' : 0 ≤ -chernoffObj R (Real.logb 2) a pq := by linarith
  exact ⟨h', max_eq_left h'⟩

/-- **The sum is positive when the supports meet** (so the objective is a genuine logarithm). -/
theorem chernoffSum_pos (R : RealOps ℝ) (hR : ∀ x e : ℝ, R.pow x e = x ^ e) (a : ℝ)
    (pq : List (ℝ × ℝ)) (hnn : ∀ r ∈ pq, 0 ≤ r.1 ∧ 0 ≤ r.2)
    (hcs : ∃ r ∈ pq, 0 < r.1 ∧ 0 < r.2) : 0 < chernoffSum R a pq :=
  Lemmas.Diverge2.chernoffSum_pos R hR a pq hnn hcs

/-- **Disjoint supports**: strictly inside `(0,1)` the sum is `0`; NumPy's objective is then
`log2 0 = −∞` and the Chernoff information `+∞` (over `ℝ`, `logb 2 0 = 0` is a junk value, which is
why the convexity statements below assume that the supports meet). -/
theorem chernoffSum_disjoint (R : RealOps ℝ) (hR : ∀ x e : ℝ, R.pow x e = x ^ e) (a : ℝ)
    (h0 : 0 < a) (h1 : a < 1) (pq : List (ℝ × ℝ)) (hd : ∀ r ∈ pq, r.1 = 0 ∨ r.2 = 0) :
    chernoffSum R a pq = 0 :=
  chernoffSum_eq_zero_of_disjoint R hR a h0 h1 pq hd

example : (0 : ℝ) < 1 / 2 ∧ (1 : ℝ) / 2 < 1
    ∧ ∀ r ∈ [((1 : ℝ), (0 : ℝ)), (0, 1)], r.1 = 0 ∨ r.2 = 0 := by
  refine ⟨by norm_num, by norm_num, ?_⟩
  intro r hr; simp at hr; rcases hr with rfl | rfl <;> simp

/-- **Strictly inside `(0,1)` the Chernoff sum is the power sum of the Rényi family**
(`powerSum`, which skips the terms with `p = 0` or `q = 0`), for any `R.pow`: so
`func(α) = (α − 1) · D_α(p‖q)` there, while at the end points `func = log2 Σq`, `log2 Σp` counts
all labels — the objective jumps at an end point when the supports differ. -/
theorem chernoffSum_eq_powerSum (R : RealOps ℝ) (a : ℝ) (h0 : a ≠ 0) (h1 : a ≠ 1)
    (pq : List (ℝ × ℝ)) : chernoffSum R a pq = powerSum R a (1 - a) pq :=
  Lemmas.Diverge2.chernoffSum_eq_powerSum R a h0 h1 pq

/-! ## Symmetry -/

/-- **Exchanging `p` and `q` reflects the exponent**: `S_{q,p}(α) = S_{p,q}(1 − α)`. -/
theorem chernoffSum_symm (R : RealOps ℝ) (hR : ∀ x e : ℝ, R.pow x e = x ^ e) (a : ℝ)
    (pq : List (ℝ × ℝ)) : chernoffSum R a (pq.map Prod.swap) = chernoffSum R (1 - a) pq :=
  chernoffSum_swap R hR a pq

/-- **The Chernoff information is symmetric**: every objective value of `(p,q)` on `[0,1]` is an
objective value of `(q,p)` on `[0,1]` (at the reflected exponent), for any `log2`. -/
theorem chernoff_symm (R : RealOps ℝ) (hR : ∀ x e : ℝ, R.pow x e = x ^ e) (log2 : ℝ → ℝ)
    (pq : List (ℝ × ℝ)) (a : ℝ) (ha : a ∈ Set.Icc (0 : ℝ) 1) :
    ∃ a' ∈ Set.Icc (0 : ℝ) 1, chernoffObj R log2 a' (pq.map Prod.swap) = chernoffObj R log2 a pq := by
  refine ⟨1 - a, ⟨by linarith [ha.2], by linarith [ha.1]⟩, ?_⟩
  unfold chernoffObj
  rw [chernoffSum_swap R hR, sub_sub_cancel]

/-- **… hence the sets of objective values on `[0,1]` coincide.** -/
theorem chernoff_range_symm (R : RealOps ℝ) (hR : ∀ x e : ℝ, R.pow x e = x ^ e) (log2 : ℝ → ℝ)
    (pq : List (ℝ × ℝ)) :
    (fun a => chernoffObj R log2 a (pq.map Prod.swap)) '' Set.Icc 0 1
      = (fun a => chernoffObj R log2 a pq) '' Set.Icc 0 1 := by
  ext v
  constructor
  · rintro ⟨a, ha, rfl⟩
    refine ⟨1 - a, ⟨by linarith [ha.2], by linarith [ha.1]⟩, ?_⟩
    simp only [chernoffObj]
    rw [chernoffSum_swap R hR]
  · rintro ⟨a, ha, rfl⟩
    obtain ⟨a', ha', e⟩ := chernoff_symm R hR log2 pq a ha
    exact ⟨a', ha', e⟩

/-- **… and so do the minima and infima**: `m` is the least objective value (resp. the infimum of
the objective) on `[0,1]` for `(q,p)` iff it is for `(p,q)`; the returned `−m` is the same. (The
infimum is the right notion when the supports differ: `func` jumps at the end points, e.g.
`p = (1/2,1/2,0)`, `q = (1/4,0,3/4)` has `func(0) = 0` but `func(0+) = −2`, not attained.) -/
theorem chernoff_min_symm (R : RealOps ℝ) (hR : ∀ x e : ℝ, R.pow x e = x ^ e) (log2 : ℝ → ℝ)
    (pq : List (ℝ × ℝ)) (m : ℝ) :
    (IsLeast ((fun a => chernoffObj R log2 a (pq.map Prod.swap)) '' Set.Icc 0 1) m
        ↔ IsLeast ((fun a => chernoffObj R log2 a pq) '' Set.Icc 0 1) m)
      ∧ (IsGLB ((fun a => chernoffObj R log2 a (pq.map Prod.swap)) '' Set.Icc 0 1) m
        ↔ IsGLB ((fun a => chernoffObj R log2 a pq) '' Set.Icc 0 1) m) := by
  rw [chernoff_range_symm R hR log2 pq]
  exact ⟨Iff.rfl, Iff.rfl⟩

/-! ## `C(p, p) = 0` -/

/-- **On pairs `(p, p)` the sum is `Σ p`** for every exponent (`p^α p^(1−α) = p`, also at `p = 0`). -/
theorem chernoffSum_self (R : RealOps ℝ) (hR : ∀ x e : ℝ, R.pow x e = x ^ e) (a : ℝ)
    (ps : List ℝ) (hnn : ∀ p ∈ ps, 0 ≤ p) :
    chernoffSum R a (ps.map (fun p => (p, p))) = ps.sum :=
  Lemmas.Diverge2.chernoffSum_self R hR a ps hnn

/-- **The Chernoff information of a probability vector from itself is `0`**: the objective is
identically `0`, so its minimum over `[0,1]` is `0`. -/
theorem chernoff_self (R : RealOps ℝ) (hR : ∀ x e : ℝ, R.pow x e = x ^ e) (ps : List ℝ)
    (hnn : ∀ p ∈ ps, 0 ≤ p) (hs : ps.sum = 1) :
    (∀ a, chernoffObj R (Real.logb 2) a (ps.map (fun p => (p, p))) = 0)
      ∧ IsLeast ((fun a => chernoffObj R (Real.logb 2) a (ps.map (fun p => (p, p))))
          '' Set.Icc 0 1) 0 := by
  have h : ∀ a, chernoffObj R (Real.logb 2) a (ps.map (fun p => (p, p))) = 0 := by
    intro a
    unfold chernoffObj
    rw [Lemmas.Diverge2.chernoffSum_self R hR a ps hnn, hs, Real.logb_one]
  refine ⟨h, ⟨⟨0, ⟨le_rfl, zero_le_one⟩, h 0⟩, ?_⟩⟩
  rintro v ⟨a, _, rfl⟩
  exact (h a).ge

example : (∀ p ∈ [(1 : ℝ) / 4, 3 / 4, 0], 0 ≤ p) ∧ [(1 : ℝ) / 4, 3 / 4, 0].sum = 1 := by
  refine ⟨?_, by norm_num⟩
  intro p hp; simp at hp; rcases hp with rfl | rfl | rfl <;> norm_num

/-! ## Bhattacharyya -/

/-- **At `α = 1/2` the sum is the Bhattacharyya coefficient** `Σ √(p q)`. -/
theorem chernoffSum_half (R : RealOps ℝ) (hR : ∀ x e : ℝ, R.pow x e = x ^ e)
    (pq : List (ℝ × ℝ)) (hnn : ∀ r ∈ pq, 0 ≤ r.1 ∧ 0 ≤ r.2) :
    chernoffSum R (1 / 2) pq = bcVals Real.sqrt pq :=
  Lemmas.Diverge2.chernoffSum_half R hR pq hnn

/-- **The Chernoff information dominates the Bhattacharyya distance**: if `m` is the infimum (in
particular: the least value) of the objective on `[0,1]`, then `−log2 BC ≤ −m`. -/
theorem bhattacharyya_le_chernoff (R : RealOps ℝ) (hR : ∀ x e : ℝ, R.pow x e = x ^ e)
    (pq : List (ℝ × ℝ)) (hnn : ∀ r ∈ pq, 0 ≤ r.1 ∧ 0 ≤ r.2) (m : ℝ)
    (hm : IsGLB ((fun a => chernoffObj R (Real.logb 2) a pq) '' Set.Icc 0 1) m) :
    -Real.logb 2 (bcVals Real.sqrt pq) ≤ -m := by
  have h := hm.1 ⟨1 / 2, ⟨by norm_num, by norm_num⟩, rfl⟩
  simp only [chernoffObj] at h
  rw [Lemmas.Diverge2.chernoffSum_half R hR pq hnn] at h
  linarith

/-- Non-vacuity of `IsLeast … m` (hence of `IsGLB … m`, by `IsLeast.isGLB`): for `(p, p)` the
least value is `0`. -/
example : IsLeast ((fun a => chernoffObj realOps (Real.logb 2) a
    ([(1 : ℝ) / 4, 3 / 4].map (fun p => (p, p)))) '' Set.Icc 0 1) 0 :=
  (chernoff_self realOps (fun _ _ => rfl) [1 / 4, 3 / 4]
    (by intro p hp; simp at hp; rcases hp with rfl | rfl <;> norm_num) (by norm_num)).2

/-! ## Log-convexity (why a bounded scalar minimiser finds the global minimum) -/

/-- **Hölder**: `S(θa + (1−θ)b) ≤ S(a)^θ S(b)^(1−θ)` for exponents `a, b ∈ [0,1]` and
`θ ∈ [0,1]` (NumPy's conventions at `p = 0` or `q = 0` included). -/
theorem chernoffSum_holder (R : RealOps ℝ) (hR : ∀ x e : ℝ, R.pow x e = x ^ e)
    (pq : List (ℝ × ℝ)) (hnn : ∀ r ∈ pq, 0 ≤ r.1 ∧ 0 ≤ r.2) (a b θ : ℝ)
    (ha : a ∈ Set.Icc (0 : ℝ) 1) (hb : b ∈ Set.Icc (0 : ℝ) 1) (hθ : θ ∈ Set.Icc (0 : ℝ) 1) :
    chernoffSum R (θ * a + (1 - θ) * b) pq
      ≤ chernoffSum R a pq ^ θ * chernoffSum R b pq ^ (1 - θ) :=
  Lemmas.Diverge2.chernoffSum_holder R hR pq hnn a b θ ha.1 ha.2 hb.1 hb.2 hθ.1 hθ.2

/-- **`α ↦ log Σ p^α q^(1−α)` is convex on `[0,1]`** when the supports meet (otherwise the sum
is `0` inside `(0,1)` and the logarithm is not defined). -/
theorem chernoffSum_logconvex (R : RealOps ℝ) (hR : ∀ x e : ℝ, R.pow x e = x ^ e)
    (pq : List (ℝ × ℝ)) (hnn : ∀ r ∈ pq, 0 ≤ r.1 ∧ 0 ≤ r.2)
    (hcs : ∃ r ∈ pq, 0 < r.1 ∧ 0 < r.2) :
    ConvexOn ℝ (Set.Icc 0 1) (fun a => Real.log (chernoffSum R a pq)) :=
  chernoffSum_log_convexOn R hR pq hnn hcs

/-- **The objective `func` is convex on `[0,1]`** when the supports meet. -/
theorem chernoffObj_convex (R : RealOps ℝ) (hR : ∀ x e : ℝ, R.pow x e = x ^ e)
    (pq : List (ℝ × ℝ)) (hnn : ∀ r ∈ pq, 0 ≤ r.1 ∧ 0 ≤ r.2)
    (hcs : ∃ r ∈ pq, 0 < r.1 ∧ 0 < r.2) :
    ConvexOn ℝ (Set.Icc 0 1) (fun a => chernoffObj R (Real.logb 2) a pq) :=
  chernoffObj_convexOn R hR pq hnn hcs

/-- **A local minimiser of `func` on `[0,1]` is a global one**: what a bounded scalar minimiser
converges to is the minimum in the definition of the Chernoff information. -/
theorem chernoff_local_min_global (R : RealOps ℝ) (hR : ∀ x e : ℝ, R.pow x e = x ^ e)
    (pq : List (ℝ × ℝ)) (hnn : ∀ r ∈ pq, 0 ≤ r.1 ∧ 0 ≤ r.2)
    (hcs : ∃ r ∈ pq, 0 < r.1 ∧ 0 < r.2) (a : ℝ) (ha : a ∈ Set.Icc (0 : ℝ) 1)
    (hloc : IsLocalMinOn (fun a => chernoffObj R (Real.logb 2) a pq) (Set.Icc 0 1) a) :
    IsMinOn (fun a => chernoffObj R (Real.logb 2) a pq) (Set.Icc 0 1) a :=
  IsMinOn.of_isLocalMinOn_of_convexOn ha hloc (chernoffObj_convexOn R hR pq hnn hcs)

/-- Non-vacuity of `IsLocalMinOn`: for `(p, p)` every point is a (local) minimiser. -/
example : IsLocalMinOn (fun a => chernoffObj realOps (Real.logb 2) a
    ([(1 : ℝ) / 4, 3 / 4].map (fun p => (p, p)))) (Set.Icc 0 1) (1 / 2) := by
  have h := (chernoff_self realOps (fun _ _ => rfl) [1 / 4, 3 / 4]
    (by intro p hp; simp at hp; rcases hp with rfl | rfl <;> norm_num) (by norm_num)).1
  apply IsMinOn.localize
  intro a _
  simp only [Set.mem_ofPred_eq]
  rw [h, h]

/-! ## Lautum information -/

section Lautum
variable {σ : Type} [DecidableEq σ]

/-- **Lautum is a Kullback–Leibler divergence on the pairs `(P_X(x) P_Y(y), P_XY(x,y))`**: the
aligned list inside `lautumVals` is exactly `lautumPairs`, for every `log`. Needed: every `X`
index is in range for every stored outcome, so that all `X`-parts have the same length and the
label `x ++ y` determines `x` and `y` (no disjointness, distinctness or common outcome length is
used). -/
theorem lautum_eq_kl (log : ℝ → ℝ) (t : Tab (List σ) ℝ) (X Y : List Nat)
    (hX : ∀ o ∈ keys t, ∀ i ∈ X, i < o.length) :
    lautumVals log t X Y = klVals log (lautumPairs t X Y) :=
  lautumVals_eq t X Y hX log

/-- **The pair list**: its members are the pairs `(P_X(x) P_Y(y), P_XY(x,y))`, `x` ranging over the
stored values of the `X`-marginal and `y` over those of the `Y`-marginal. -/
theorem lautumPairs_mem (t : Tab (List σ) ℝ) (X Y : List Nat) (r : ℝ × ℝ) :
    r ∈ lautumPairs t X Y ↔ ∃ x ∈ keys (pushforward (project X) t),
      ∃ y ∈ keys (pushforward (project Y) t),
        r = (margP t X x * margP t Y y, jointP t X Y x y) :=
  mem_lautumPairs t X Y

/-- **The two columns are laws**: for a non-negative table the pairs are non-negative, the
product column sums to `(mass t)²` and the joint column to `mass t` — both `1` for a law. -/
theorem lautumPairs_laws (t : Tab (List σ) ℝ) (X Y : List Nat)
    (hX : ∀ o ∈ keys t, ∀ i ∈ X, i < o.length) (hnn : ∀ r ∈ t, 0 ≤ r.2) :
    (∀ r ∈ lautumPairs t X Y, 0 ≤ r.1 ∧ 0 ≤ r.2)
      ∧ ((lautumPairs t X Y).map Prod.fst).sum = mass t * mass t
      ∧ ((lautumPairs t X Y).map Prod.snd).sum = mass t :=
  ⟨lautumPairs_nonneg t X Y hnn, lautumPairs_sum_fst t X Y hX, lautumPairs_sum_snd t X Y hX⟩

/-- **Textbook definition.** When no pair `(x,y)` has `P_XY(x,y) = 0` with both marginals
non-zero, the lautum information is
`Σ_x Σ_y P_X(x) P_Y(y) log₂ (P_X(x) P_Y(y) / P_XY(x,y))`, `x`, `y` ranging over the stored values
of the two marginals. -/
theorem lautum_eq_def (t : Tab (List σ) ℝ) (X Y : List Nat)
    (hX : ∀ o ∈ keys t, ∀ i ∈ X, i < o.length)
    (hfin : ∀ x y, jointP t X Y x y = 0 → margP t X x = 0 ∨ margP t Y y = 0) :
    lautumVals (Real.logb 2) t X Y
      = some ((keys (pushforward (project X) t)).map (fun x =>
          ((keys (pushforward (project Y) t)).map (fun y =>
            margP t X x * margP t Y y
              * Real.logb 2 (margP t X x * margP t Y y / jointP t X Y x y))).sum)).sum := by
  rw [lautumVals_eq t X Y hX, ← klSum_lautumPairs]
  apply klVals_of_absCont
  by_contra h
  rw [Bool.not_eq_true, absCont_lautumPairs_false_iff] at h
  obtain ⟨x, y, h1, h2, h3⟩ := h
  rcases hfin x y h3 with e | e
  · exact h1 e
  · exact h2 e

/-- **Lautum is infinite exactly when the product puts mass where the joint has none**: some pair
`(x,y)` has non-zero marginals but `P_XY(x,y) = 0`. -/
theorem lautum_infinite_iff (t : Tab (List σ) ℝ) (X Y : List Nat)
    (hX : ∀ o ∈ keys t, ∀ i ∈ X, i < o.length) :
    lautumVals (Real.logb 2) t X Y = none
      ↔ ∃ x y, margP t X x ≠ 0 ∧ margP t Y y ≠ 0 ∧ jointP t X Y x y = 0 := by
  rw [lautumVals_eq t X Y hX, klVals_eq_none_iff, absCont_lautumPairs_false_iff]

/-- **Lautum is non-negative** for a law (non-negative values, total mass `1`): Gibbs' inequality
for the product law against the joint law. -/
theorem lautum_nonneg (t : Tab (List σ) ℝ) (X Y : List Nat)
    (hX : ∀ o ∈ keys t, ∀ i ∈ X, i < o.length) (hnn : ∀ r ∈ t, 0 ≤ r.2) (hmass : mass t = 1)
    (v : ℝ) (h : lautumVals (Real.logb 2) t X Y = some v) : 0 ≤ v := by
  rw [lautumVals_eq t X Y hX] at h
  obtain ⟨hac, rfl⟩ := klVals_eq_some h
  apply klSum_nonneg _ (lautumPairs_nonneg t X Y hnn) hac
  rw [lautumPairs_sum_fst t X Y hX, lautumPairs_sum_snd t X Y hX, hmass]
  norm_num

/-- **Lautum vanishes exactly for independent groups**: `P_XY(x,y) = P_X(x) P_Y(y)` for all
`x`, `y`. -/
theorem lautum_eq_zero_iff (t : Tab (List σ) ℝ) (X Y : List Nat)
    (hX : ∀ o ∈ keys t, ∀ i ∈ X, i < o.length) (hnn : ∀ r ∈ t, 0 ≤ r.2) (hmass : mass t = 1)
    (v : ℝ) (h : lautumVals (Real.logb 2) t X Y = some v) :
    v = 0 ↔ ∀ x y, jointP t X Y x y = margP t X x * margP t Y y := by
  rw [lautumVals_eq t X Y hX] at h
  obtain ⟨hac, rfl⟩ := klVals_eq_some h
  rw [← lautumPairs_eq_iff]
  apply klSum_eq_zero_iff _ (lautumPairs_nonneg t X Y hnn) hac
  rw [lautumPairs_sum_fst t X Y hX, lautumPairs_sum_snd t X Y hX, hmass]
  norm_num

/-- **Lautum is symmetric in the two groups** (including the value `+∞`), for every `log`. -/
theorem lautum_symm (log : ℝ → ℝ) (t : Tab (List σ) ℝ) (X Y : List Nat)
    (hX : ∀ o ∈ keys t, ∀ i ∈ X, i < o.length) (hY : ∀ o ∈ keys t, ∀ i ∈ Y, i < o.length) :
    lautumVals log t Y X = lautumVals log t X Y := by
  rw [lautumVals_eq t X Y hX, lautumVals_eq t Y X hY]
  exact Lemmas.Diverge.klVals_perm log (lautumPairs_swap t X Y)

end Lautum

/-- Non-vacuity of the table hypotheses: a dependent pair of bits. -/
example : (∀ o ∈ keys ([([0, 0], 1 / 2), ([0, 1], 1 / 4), ([1, 0], 1 / 8), ([1, 1], 1 / 8)] :
        Tab (List Nat) ℝ), ∀ i ∈ [0], i < o.length)
    ∧ (∀ o ∈ keys ([([0, 0], 1 / 2), ([0, 1], 1 / 4), ([1, 0], 1 / 8), ([1, 1], 1 / 8)] :
        Tab (List Nat) ℝ), ∀ i ∈ [1], i < o.length)
    ∧ (∀ r ∈ ([([0, 0], 1 / 2), ([0, 1], 1 / 4), ([1, 0], 1 / 8), ([1, 1], 1 / 8)] :
        Tab (List Nat) ℝ), 0 ≤ r.2)
    ∧ mass ([([0, 0], 1 / 2), ([0, 1], 1 / 4), ([1, 0], 1 / 8), ([1, 1], 1 / 8)] :
        Tab (List Nat) ℝ) = 1 := by
  refine ⟨?_, ?_, ?_, ?_⟩
  · intro o ho; simp [keys] at ho; rcases ho with rfl | rfl | rfl | rfl <;> simp
  · intro o ho; simp [keys] at ho; rcases ho with rfl | rfl | rfl | rfl <;> simp
  · intro r hr; simp at hr; rcases hr with rfl | rfl | rfl | rfl <;> norm_num
  · simp [mass]; norm_num

/-- Its pair list, and a finite lautum value (to which `lautum_nonneg`, `lautum_eq_zero_iff`
apply). -/
example : lautumPairs ([([0, 0], 1 / 2), ([0, 1], 1 / 4), ([1, 0], 1 / 8), ([1, 1], 1 / 8)] :
      Tab (List Nat) ℝ) [0] [1]
    = [(3 / 4 * (5 / 8), 1 / 2), (3 / 4 * (3 / 8), 1 / 4), (1 / 4 * (5 / 8), 1 / 8),
        (1 / 4 * (3 / 8), 1 / 8)] := by
  simp [lautumPairs, pushforward, accum, keys, margP, jointP, wtBy, project]
  norm_num

example : ∃ v, lautumVals (Real.logb 2)
    ([([0, 0], 1 / 2), ([0, 1], 1 / 4), ([1, 0], 1 / 8), ([1, 1], 1 / 8)] : Tab (List Nat) ℝ)
    [0] [1] = some v := by
  have hX : ∀ o ∈ keys ([([0, 0], 1 / 2), ([0, 1], 1 / 4), ([1, 0], 1 / 8), ([1, 1], 1 / 8)] :
      Tab (List Nat) ℝ), ∀ i ∈ [0], i < o.length := by
    intro o ho; simp [keys] at ho; rcases ho with rfl | rfl | rfl | rfl <;> simp
  have hac : absCont (lautumPairs ([([0, 0], 1 / 2), ([0, 1], 1 / 4), ([1, 0], 1 / 8),
      ([1, 1], 1 / 8)] : Tab (List Nat) ℝ) [0] [1]) = true := by
    rw [absCont_iff]
    intro r hr h2
    simp [lautumPairs, pushforward, accum, keys, margP, jointP, wtBy, project] at hr
    rcases hr with rfl | rfl | rfl | rfl <;> norm_num at h2
  exact ⟨_, (lautum_eq_kl _ _ _ _ hX).trans (klVals_of_absCont hac)⟩

/-- Non-vacuity of `lautum_infinite_iff`: two perfectly correlated bits have infinite lautum
information (`P_X(0) P_Y(1) > 0 = P_XY(0,1)`). -/
example : lautumVals (Real.logb 2) ([([0, 0], 1 / 2), ([1, 1], 1 / 2)] : Tab (List Nat) ℝ)
    [0] [1] = none := by
  rw [lautum_infinite_iff _ _ _ (by
    intro o ho; simp [keys] at ho; rcases ho with rfl | rfl <;> simp)]
  refine ⟨[0], [1], ?_, ?_, ?_⟩ <;> simp [margP, jointP, wtBy, project]

/-- The executable model on rationals (the `log` is irrelevant for finiteness; the stand-in power
`fun x _ => x` is exact at the exponent `1`, the only one `npPow` hands over at `α ∈ {0, 1}`). -/
example : lautumVals (fun _ => (0 : ℚ)) [([0, 0], (1 : ℚ) / 2), ([1, 1], 1 / 2)] [0] [1] = none := by
  decide +kernel
example : lautumVals (fun _ => (0 : ℚ))
    [([0, 0], (1 : ℚ) / 2), ([0, 1], 1 / 4), ([1, 0], 1 / 8), ([1, 1], 1 / 8)] [0] [1] = some 0 := by
  decide +kernel
example : chernoffSum (⟨fun _ => 0, fun x _ => x, fun _ => 0, 0⟩ : RealOps ℚ) 0
    [((1 : ℚ) / 2, (1 : ℚ) / 4), (1 / 2, 0), (0, 3 / 4)] = 1 := by decide +kernel
example : chernoffSum (⟨fun _ => 0, fun x _ => x, fun _ => 0, 0⟩ : RealOps ℚ) 1
    [((1 : ℚ) / 2, (1 : ℚ) / 4), (1 / 2, 0), (0, 3 / 4)] = 1 := by decide +kernel

end Dit.Props.C06Chernoff
