/-
C11 (sample-space part) — "… pruned/expanded sample spaces … give the tables their definitions
give".

Theorems about `prunedDist` and `expandedDist` (Core/PruneExpand.lean), the models of
`dit.algorithms.prune_expand.pruned_samplespace` / `expanded_samplespace`. Both rebuild the
distribution with the default constructor (`construct` of C01 with `sparse = trim = true`), so the
statements are consequences of C01's theorems about `construct`.

Hypotheses, once and for all (`Source cfg d`, Lemmas/PruneExpand.lean): the enumeration of the
sample space of `d` has no repetition; the stored outcomes are pairwise distinct; `d` passes
`validate` (stored outcomes are members of the space, the total passes `cfg.normOK`, the values
pass `cfg.rangeOK`); all members of the sample space have one length (`rect`: automatic for a
Cartesian space, checked by the constructor for an explicit one); and **no stored value is a
non-zero null** (`null_zero`: `cfg.isNull d.base v → v = 0` for stored `v`) — the constructor trims
the stored nulls, so a stored non-zero value within the tolerance of `isNull` would read back as
`0` and change the total. Every well-formed (`Lemmas.Machine.WF`), valid, rectangular state
without non-zero nulls is a source (`source_of_wf`). For pruning one needs in addition that the
exact null test is exact (`isNullExact v ↔ v = 0`) and that `0` is null (`cfg.isNull d.base 0`:
an outcome kept on request carries the value `0`, which must be trimmed, not range-checked). All
of this holds for an exact `cfg` (`cfg.isNull b v ↔ v = 0`).
Helper lemmas: Lemmas/PruneExpand.lean.
-/
import DitModel.Lemmas.PruneExpand

set_option linter.unusedSectionVars false

namespace Dit.Props.C11Prune
open Dit Dit.Lemmas.Table Dit.Lemmas.Construct Dit.Lemmas.PruneExpand

variable {σ α : Type} [DecidableEq σ] [AddCommMonoid α]
variable (cfg : NumCfg α) (isNullExact : α → Bool) (symLt : σ → σ → Bool)
  (outLt : List σ → List σ → Bool) (d d' : Dist σ α) (keep : List (List σ)) (union : Bool)

/-- **Well-formed valid states are sources.** The project's representation invariant `WF`
(Lemmas/Machine.lean) gives the two duplicate-freeness hypotheses; the others are explicit. -/
theorem source_of_wf (hwf : Lemmas.Machine.WF d) (hv : d.validate cfg = none)
    (hrect : ∀ x ∈ d.space.toList, ∀ y ∈ d.space.toList, x.length = y.length)
    (hnull : ∀ r ∈ d.tab, cfg.isNull d.base r.2 = true → r.2 = 0) : Source cfg d :=
  Source.of_wf hwf hv hrect hnull

/-- For an exact configuration the null hypotheses hold. -/
theorem source_of_exact (hwf : Lemmas.Machine.WF d) (hv : d.validate cfg = none)
    (hrect : ∀ x ∈ d.space.toList, ∀ y ∈ d.space.toList, x.length = y.length)
    (hexact : ∀ v, cfg.isNull d.base v = true ↔ v = 0) :
    Source cfg d ∧ cfg.isNull d.base 0 = true :=
  ⟨Source.of_wf hwf hv hrect (fun r _ h => (hexact r.2).mp h), (hexact 0).mpr rfl⟩

/-! ## `pruned_samplespace` -/

/-- **Pruning is accepted.** Under the hypotheses above the constructor call at the end of
`pruned_samplespace` rejects nothing. -/
theorem pruned_ok (hs : Source cfg d) (hex : ∀ v, isNullExact v = true ↔ v = 0)
    (h0 : cfg.isNull d.base 0 = true) :
    ∃ d', prunedDist cfg isNullExact symLt outLt d keep = .ok d' :=
  ⟨_, prunedDist_ok symLt outLt keep hs (fun v => (hex v).mp) h0⟩

/-- **The pruned sample space.** It is the explicit space listing, sorted with `outLt`
(`isort`), the members of the old space whose value is not exactly null or that were asked to be
kept; as a set: the members `o` of the old space with `d[o] ≠ 0` or `o ∈ keep`; each once. -/
theorem pruned_space (hs : Source cfg d) (hex : ∀ v, isNullExact v = true ↔ v = 0)
    (h0 : cfg.isNull d.base 0 = true)
    (h : prunedDist cfg isNullExact symLt outLt d keep = .ok d') :
    d'.space = .expl (isort outLt (d.space.toList.filter
        (fun o => !isNullExact ((d.get o).getD 0) || keep.contains o)))
      ∧ (∀ o, o ∈ d'.space.toList ↔ o ∈ d.space.toList ∧ (d.get o ≠ some 0 ∨ o ∈ keep))
      ∧ d'.space.toList.Nodup := by
  rw [prunedDist_ok symLt outLt keep hs (fun v => (hex v).mp) h0] at h
  obtain rfl := Except.ok.inj h
  refine ⟨prunedResult_space .., fun o => ?_, ?_⟩
  · rw [mem_prunedResult_space, mem_pruneKeys isNullExact d keep hex]
  · rw [prunedResult_space]
    exact nodup_isort.mpr (pruneKeys_nodup keep hs)

/-- **The pruned sample space is sorted** when `outLt` is a strict weak order (asymmetric, with a
transitive complement — e.g. Python's `<` on tuples of comparable symbols): no member is below an
earlier one. -/
theorem pruned_space_sorted (hs : Source cfg d) (hex : ∀ v, isNullExact v = true ↔ v = 0)
    (h0 : cfg.isNull d.base 0 = true)
    (hasym : ∀ a b, outLt a b = true → outLt b a = false)
    (htr : ∀ a b c, outLt b a = false → outLt c b = false → outLt c a = false)
    (h : prunedDist cfg isNullExact symLt outLt d keep = .ok d') :
    d'.space.toList.Pairwise (fun a b => outLt b a = false) := by
  rw [(pruned_space cfg isNullExact symLt outLt d d' keep hs hex h0 h).1]
  exact isort_sorted outLt hasym htr _

/-- **Lookups after pruning.** Every member of the new space reads its old value; everything
else — in particular the pruned members of the old space — is outside the sample space
(`InvalidOutcome`, `none` in the model). -/
theorem pruned_lookup (hs : Source cfg d) (hex : ∀ v, isNullExact v = true ↔ v = 0)
    (h0 : cfg.isNull d.base 0 = true)
    (h : prunedDist cfg isNullExact symLt outLt d keep = .ok d') :
    (∀ o ∈ d'.space.toList, d'.get o = d.get o) ∧ (∀ o, o ∉ d'.space.toList → d'.get o = none) := by
  rw [prunedDist_ok symLt outLt keep hs (fun v => (hex v).mp) h0] at h
  obtain rfl := Except.ok.inj h
  refine ⟨fun o ho => ?_, fun o ho => ?_⟩
  · exact get_prunedResult outLt keep hs ((mem_prunedResult_space ..).mp ho)
  · exact get_prunedResult_outside outLt keep (fun hk => ho ((mem_prunedResult_space ..).mpr hk))

/-- **Pruning keeps the mass** — of every event, hence the total — and the base; the result is
sparse. -/
theorem pruned_mass (hs : Source cfg d) (hex : ∀ v, isNullExact v = true ↔ v = 0)
    (h0 : cfg.isNull d.base 0 = true)
    (h : prunedDist cfg isNullExact symLt outLt d keep = .ok d') :
    mass d'.tab = mass d.tab
      ∧ (∀ (p : List σ → Prop) [DecidablePred p], wtBy p d'.tab = wtBy p d.tab)
      ∧ d'.base = d.base ∧ d'.sparse = true := by
  rw [prunedDist_ok symLt outLt keep hs (fun v => (hex v).mp) h0] at h
  obtain rfl := Except.ok.inj h
  exact ⟨mass_prunedResult outLt keep hs (fun v => (hex v).mp),
    fun p _ => wtBy_prunedResult outLt keep hs (fun v => (hex v).mp) p,
    prunedResult_base .., prunedResult_sparse ..⟩

/-- **The pruned distribution is again well-formed and a source**: no stored value is null, the
stored outcomes are the stored members of the new space in its order. -/
theorem pruned_wf (hs : Source cfg d) (hex : ∀ v, isNullExact v = true ↔ v = 0)
    (h0 : cfg.isNull d.base 0 = true)
    (h : prunedDist cfg isNullExact symLt outLt d keep = .ok d') :
    Lemmas.Machine.WF d' ∧ Source cfg d' ∧ (∀ r ∈ d'.tab, cfg.isNull d'.base r.2 = false) := by
  have h' := h
  rw [prunedDist_ok symLt outLt keep hs (fun v => (hex v).mp) h0] at h
  obtain rfl := Except.ok.inj h
  refine ⟨wf_prunedResult outLt keep hs, source_prunedResult outLt keep hs (fun v => (hex v).mp) h0,
    ?_⟩
  rw [prunedDist_eq] at h'
  exact Props.C01.construct_trimmed cfg symLt outLt _ _ _ _ _ h'

/-- **Pruning is idempotent.** With nothing kept on request, pruning the pruned distribution
returns it unchanged. `outLt` must be a strict weak order: the new space is sorted again, and
sorting a sorted list is the identity only then. -/
theorem pruned_idempotent (hs : Source cfg d) (hex : ∀ v, isNullExact v = true ↔ v = 0)
    (h0 : cfg.isNull d.base 0 = true)
    (hasym : ∀ a b, outLt a b = true → outLt b a = false)
    (htr : ∀ a b c, outLt b a = false → outLt c b = false → outLt c a = false)
    (h : prunedDist cfg isNullExact symLt outLt d [] = .ok d') :
    prunedDist cfg isNullExact symLt outLt d' [] = .ok d' := by
  rw [prunedDist_ok symLt outLt [] hs (fun v => (hex v).mp) h0] at h
  obtain rfl := Except.ok.inj h
  have hs' := source_prunedResult outLt [] hs (fun v => (hex v).mp) h0
  rw [prunedDist_ok symLt outLt [] hs' (fun v => (hex v).mp) (by rw [prunedResult_base]; exact h0),
    prunedResult_idem outLt hs hex hasym htr]

/-! ## `expanded_samplespace` -/

/-- **Expansion is accepted.** -/
theorem expanded_ok (hs : Source cfg d) : ∃ d', expandedDist cfg symLt outLt d union = .ok d' :=
  ⟨_, expandedDist_ok symLt outLt union hs⟩

/-- **The expanded sample space** is the Cartesian product of the sorted alphabets of the old
space — or, with `union`, of as many copies of their sorted union —, each sorted once more by
the constructor. -/
theorem expanded_space (hs : Source cfg d) (h : expandedDist cfg symLt outLt d union = .ok d') :
    d'.space = .cart ((if union then
        (d.space.alphabets.map (isort symLt)).map
          (fun _ => unionAlphabet symLt (d.space.alphabets.map (isort symLt)))
      else d.space.alphabets.map (isort symLt)).map (isort symLt)) := by
  rw [expandedDist_ok symLt outLt union hs] at h
  obtain rfl := Except.ok.inj h
  exact expandedResult_space ..

/-- **The expanded sample space, for a strict weak order on symbols**: the second sort is the
identity, so the alphabets are exactly `sorted(alphabet_i)`, resp. `sorted(⋃ alphabets)`; the
union is duplicate-free and holds exactly the symbols of the alphabets. -/
theorem expanded_space_sorted (hs : Source cfg d)
    (hasym : ∀ a b, symLt a b = true → symLt b a = false)
    (htr : ∀ a b c, symLt b a = false → symLt c b = false → symLt c a = false)
    (h : expandedDist cfg symLt outLt d union = .ok d') :
    d'.space = .cart (if union then
        (d.space.alphabets.map (isort symLt)).map
          (fun _ => unionAlphabet symLt (d.space.alphabets.map (isort symLt)))
      else d.space.alphabets.map (isort symLt))
      ∧ (unionAlphabet symLt (d.space.alphabets.map (isort symLt))).Nodup
      ∧ ∀ s, s ∈ unionAlphabet symLt (d.space.alphabets.map (isort symLt))
          ↔ ∃ a ∈ d.space.alphabets, s ∈ a := by
  refine ⟨?_, nodup_isort.mpr (nodup_dedup _), fun s => ?_⟩
  · rw [expanded_space cfg symLt outLt d d' union hs h]
    exact congrArg Space.cart (expandAlphabets_sorted symLt union hasym htr)
  · rw [mem_unionAlphabet]
    constructor
    · rintro ⟨a, ha, hsa⟩
      obtain ⟨b, hb, rfl⟩ := List.mem_map.mp ha
      exact ⟨b, hb, mem_isort.mp hsa⟩
    · rintro ⟨a, ha, hsa⟩
      exact ⟨_, List.mem_map.mpr ⟨a, ha, rfl⟩, mem_isort.mpr hsa⟩

/-- **The expansion expands**: every member of the old sample space is a member of the new one. -/
theorem expanded_space_mono (hs : Source cfg d)
    (h : expandedDist cfg symLt outLt d union = .ok d') :
    ∀ o ∈ d.space.toList, o ∈ d'.space.toList := by
  rw [expandedDist_ok symLt outLt union hs] at h
  obtain rfl := Except.ok.inj h
  intro o ho
  rw [expandedResult_space]
  exact mem_expanded_of_mem_space symLt d union hs.rect ho

/-- **Lookups after expansion.** Members of the old space read their old value, the new members
read the null probability, everything else is outside (`InvalidOutcome`). -/
theorem expanded_lookup (hs : Source cfg d)
    (h : expandedDist cfg symLt outLt d union = .ok d') :
    (∀ o ∈ d.space.toList, d'.get o = d.get o)
      ∧ (∀ o ∈ d'.space.toList, o ∉ d.space.toList → d'.get o = some 0)
      ∧ (∀ o, o ∉ d'.space.toList → d'.get o = none) := by
  rw [expandedDist_ok symLt outLt union hs] at h
  obtain rfl := Except.ok.inj h
  refine ⟨fun o ho => get_expandedResult symLt union hs ho, fun o hN ho => ?_, fun o hN => ?_⟩
  · rw [expandedResult_space] at hN
    exact get_expandedResult_new symLt union hs hN ho
  · rw [expandedResult_space] at hN
    exact get_expandedResult_outside symLt union hN

/-- **Expansion keeps the mass** — of every event, hence the total — and the base. -/
theorem expanded_mass (hs : Source cfg d) (h : expandedDist cfg symLt outLt d union = .ok d') :
    mass d'.tab = mass d.tab
      ∧ (∀ (p : List σ → Prop) [DecidablePred p], wtBy p d'.tab = wtBy p d.tab)
      ∧ d'.base = d.base := by
  rw [expandedDist_ok symLt outLt union hs] at h
  obtain rfl := Except.ok.inj h
  exact ⟨mass_expandedResult symLt union hs, fun p _ => wtBy_expandedResult symLt union hs p,
    expandedResult_base ..⟩

/-! ## Non-vacuity -/

/-- The hypotheses hold for the sparse distribution `exSrc` on `{0,1}²` (two stored outcomes) and
for `exSrc2` on an explicit unsorted space, with the exact configuration `ratCfg`, the exact null
test `exNull`, and the orders `natLt` / `lexLt`, which are strict weak orders. -/
example : Source ratCfg exSrc ∧ Source ratCfg exSrc2 ∧ (∀ v, exNull v = true ↔ v = 0)
    ∧ ratCfg.isNull exSrc.base 0 = true
    ∧ (∀ a b, lexLt a b = true → lexLt b a = false)
    ∧ (∀ a b c, lexLt b a = false → lexLt c b = false → lexLt c a = false)
    ∧ (∀ a b, natLt a b = true → natLt b a = false)
    ∧ (∀ a b c, natLt b a = false → natLt c b = false → natLt c a = false) :=
  ⟨exSrc_source, exSrc2_source, exNull_exact, by decide, lexLt_asymm, lexLt_negtrans, natLt_asymm,
    natLt_negtrans⟩

/-- Computed: pruning `exSrc` keeps `[0,0]`, `[1,1]` and, on request, `[1,0]` (value 0, not
stored); `[0,1]` is no longer an outcome. -/
example :
    (prunedDist ratCfg exNull natLt lexLt exSrc [[1, 0]]).toOption.map
        (fun d => (d.space.toList, d.tab, d.get [1, 0], d.get [0, 1]))
      = some ([[0, 0], [1, 0], [1, 1]], [([0, 0], 1 / 4), ([1, 1], 3 / 4)], some 0, none) := by
  decide +kernel

/-- Computed: pruning `exSrc2` sorts the kept outcomes. -/
example :
    (prunedDist ratCfg exNull natLt lexLt exSrc2 []).toOption.map (fun d => (d.space.toList, d.tab))
      = some ([[0, 0], [1, 1]], [([0, 0], 1 / 4), ([1, 1], 3 / 4)]) := by
  decide +kernel

/-- Computed: expanding `exSrc2` (alphabets `[1,0]` and `[1,2,0]`): without union the product
`{0,1}×{0,1,2}`, with union `{0,1,2}²`. -/
example :
    (expandedDist ratCfg natLt lexLt exSrc2 false).toOption.map
        (fun d => (d.space.alphabets, d.tab, d.get [1, 2], d.get [2, 2]))
      = some ([[0, 1], [0, 1, 2]], [([0, 0], 1 / 4), ([1, 1], 3 / 4)], some 0, none) := by
  decide +kernel
example :
    (expandedDist ratCfg natLt lexLt exSrc2 true).toOption.map
        (fun d => (d.space.alphabets, d.tab, d.get [1, 2], d.get [2, 2]))
      = some ([[0, 1, 2], [0, 1, 2]], [([0, 0], 1 / 4), ([1, 1], 3 / 4)], some 0, some 0) := by
  decide +kernel

/-- The theorems apply to the computed instance: the kept zero reads back as zero. -/
example (d' : Dist Nat Rat) (h : prunedDist ratCfg exNull natLt lexLt exSrc [[1, 0]] = .ok d') :
    d'.get [1, 0] = some 0 := by
  have hm := (pruned_space ratCfg exNull natLt lexLt exSrc d' [[1, 0]] exSrc_source exNull_exact
    (by decide) h).2.1 [1, 0]
  have := (pruned_lookup ratCfg exNull natLt lexLt exSrc d' [[1, 0]] exSrc_source exNull_exact
    (by decide) h).1 [1, 0] (hm.mpr ⟨by decide, Or.inr (by decide)⟩)
  rw [this]; decide +kernel

end Dit.Props.C11Prune
