/-
C03 — Conditioning factorises the joint distribution, and `joint_from_factors` inverts it.

Theorems about `Dist.conditionOn`, `interleave` and `jointFromFactors` (Core/Coalesce.lean) over
an arbitrary field of "probabilities".  Throughout, `(d.makeSparse cfg true).tab` is the list of
the *non-null stored rows* of `d` (`condition_on` starts with `d.make_sparse()`), `wtBy p t` is
the weight of the event `p` in the table `t`, and the joint fibre sum of a conditioning outcome
`c` and a kept outcome `r` is
`wtBy (fun o => project cidx o = c ∧ project idx o = r) (d.makeSparse cfg true).tab`.
No assumption is made on the stored table of `d` (it may even repeat outcomes: all rows count).
`condTab cidx idx ds (c, pc)` (Lemmas/Cond.lean) is a name for the internal, un-trimmed
conditional table `t` of the model (`conditionOn_conds` holds by `rfl`).
Helper lemmas: Lemmas/Cond.lean, Lemmas/Table.lean, Props/C02.lean.
-/
import DitModel.Lemmas.Cond
import Mathlib.Algebra.Field.Rat

set_option linter.unusedSectionVars false

namespace Dit.Props.C03
open Dit Dit.Lemmas.Table Dit.Lemmas.Cond Dit.Props.C02

section Cond
variable {σ α : Type} [DecidableEq σ] [Field α]

/-- **The first component is the marginal on the conditioning variables** of the non-null
stored rows: by definition, and hence (C02 `marginal_get`) its value at an outcome `o` of the
projected sample space is the fibre sum of the non-null stored rows — read as an exact zero
when that sum is itself null (the marginal is built sparse and trimmed). -/
theorem cond_cdist (cfg : NumCfg α) (outLt : List σ → List σ → Bool) (d : Dist σ α)
    (cidx idx : List Nat) :
    (d.conditionOn cfg outLt cidx idx).cdist = (d.makeSparse cfg true).marginal cfg outLt cidx
      ∧ ∀ o ∈ (d.space.extract outLt cidx).toList,
          (d.conditionOn cfg outLt cidx idx).cdist.get o
              = some (wtBy (fun k => project cidx k = o) (d.makeSparse cfg true).tab)
          ∨ (cfg.isNull d.base (wtBy (fun k => project cidx k = o) (d.makeSparse cfg true).tab)
                = true
              ∧ (d.conditionOn cfg outLt cidx idx).cdist.get o = some 0) := by
  refine ⟨rfl, fun o ho => ?_⟩
  rcases marginal_get cfg outLt (d.makeSparse cfg true) cidx o ho with h | h
  · exact Or.inl h
  · exact Or.inr ⟨h.2.1, h.2.2⟩

/-- **Stored conditioning outcomes.** The marginal on the conditioning variables stores each
outcome once; a stored row `(c, pc)` carries the fibre sum of `c`, which is not null — hence
non-zero as soon as zero is null (`np.isclose(0, 0)`). These are the "positive-probability
outcomes" the conditionals are listed for. -/
theorem cond_cdist_rows (cfg : NumCfg α) (outLt : List σ → List σ → Bool) (d : Dist σ α)
    (cidx idx : List Nat) :
    (keys (d.conditionOn cfg outLt cidx idx).cdist.tab).Nodup
      ∧ ∀ c pc, (c, pc) ∈ (d.conditionOn cfg outLt cidx idx).cdist.tab →
          pc = wtBy (fun k => project cidx k = c) (d.makeSparse cfg true).tab
            ∧ cfg.isNull d.base pc = false
            ∧ (cfg.isNull d.base 0 = true → pc ≠ 0) := by
  refine ⟨sparse_marginal_keys_nodup cfg outLt d cidx, fun c pc h => ?_⟩
  obtain ⟨h1, h2⟩ := sparse_marginal_row cfg outLt d cidx c pc h
  refine ⟨h1, h2, fun h0 hz => ?_⟩
  rw [hz, h0] at h2; cases h2

/-- **One conditional per stored conditioning outcome, in order.** The list of conditionals
has the length of the stored table of the marginal, and its `i`-th member is the conditional
built for the `i`-th stored row. -/
theorem cond_count (cfg : NumCfg α) (outLt : List σ → List σ → Bool) (d : Dist σ α)
    (cidx idx : List Nat) :
    (d.conditionOn cfg outLt cidx idx).conds.length
        = (d.conditionOn cfg outLt cidx idx).cdist.tab.length
      ∧ ∀ i : Nat, (d.conditionOn cfg outLt cidx idx).conds[i]?
          = ((d.conditionOn cfg outLt cidx idx).cdist.tab[i]?).map
              (condDist cfg d ((d.makeSparse cfg true).marginal cfg outLt idx) cidx idx) := by
  rw [conditionOn_conds, conditionOn_cdist]
  exact ⟨List.length_map _, fun i => List.getElem?_map⟩

/-- **Chain rule on the internal table.** For a conditioning row `(c, pc)` with `pc ≠ 0` and
every outcome `r`: `pc · P(r|c) = P(c, r)`, the joint fibre sum of the non-null stored rows;
`P(r|c)` is the value of `r` in the un-trimmed conditional table (zero if absent). -/
theorem cond_chain_tab (cidx idx : List Nat) (ds : Tab (List σ) α) (c : List σ) (pc : α)
    (hpc : pc ≠ 0) (r : List σ) :
    pc * lookupD 0 (pushforward (project idx)
          ((ds.filter (fun x => project cidx x.1 = c)).map (fun x => (x.1, x.2 * pc⁻¹)))) r
      = wtBy (fun o => project cidx o = c ∧ project idx o = r) ds :=
  condTab_chain cidx idx ds (c, pc) hpc r

/-- **Chain rule for the stored conditioning outcomes.** If zero is null, every stored row
`(c, pc)` of the marginal satisfies `pc · P(r|c) = P(c, r)` for all `r`, and `pc` is `P(c)`. -/
theorem cond_chain (cfg : NumCfg α) (outLt : List σ → List σ → Bool) (d : Dist σ α)
    (cidx idx : List Nat) (h0 : cfg.isNull d.base 0 = true) (c : List σ) (pc : α)
    (hc : (c, pc) ∈ (d.conditionOn cfg outLt cidx idx).cdist.tab) (r : List σ) :
    pc * lookupD 0 (condTab cidx idx (d.makeSparse cfg true).tab (c, pc)) r
        = wtBy (fun o => project cidx o = c ∧ project idx o = r) (d.makeSparse cfg true).tab
      ∧ pc = wtBy (fun o => project cidx o = c) (d.makeSparse cfg true).tab := by
  obtain ⟨h1, _, h3⟩ := (cond_cdist_rows cfg outLt d cidx idx).2 c pc hc
  exact ⟨condTab_chain cidx idx _ (c, pc) (h3 h0) r, h1⟩

/-- **Chain rule on the returned conditional distributions.** Let `(c, pc)` be the `i`-th
stored row of the marginal and `D` the `i`-th conditional. For an outcome `o` of the sample
space of the kept variables, `D[o] = v` with `pc · v = P(c, o)` — except that `v` is an exact
zero (a) when the `idx`-marginal of `o` is null (the conditional is tabulated over the stored
outcomes of the sparse, trimmed `idx`-marginal), or (b) when the source is sparse and the exact
conditional probability `q` (`pc · q = P(c, o)`) is null and was trimmed.  Outcomes outside the
sample space are invalid. -/
theorem cond_chain_get (cfg : NumCfg α) (outLt : List σ → List σ → Bool) (d : Dist σ α)
    (cidx idx : List Nat) (h0 : cfg.isNull d.base 0 = true) (i : Nat) (c : List σ) (pc : α)
    (D : Dist σ α)
    (hc : (d.conditionOn cfg outLt cidx idx).cdist.tab[i]? = some (c, pc))
    (hD : (d.conditionOn cfg outLt cidx idx).conds[i]? = some D) (o : List σ) :
    (o ∈ (d.space.extract outLt idx).toList → ∃ v, D.get o = some v ∧
        (pc * v = wtBy (fun k => project cidx k = c ∧ project idx k = o)
                    (d.makeSparse cfg true).tab
          ∨ (cfg.isNull d.base (wtBy (fun k => project idx k = o) (d.makeSparse cfg true).tab)
                = true ∧ v = 0)
          ∨ (d.sparse = true ∧ v = 0 ∧ ∃ q, cfg.isNull d.base q = true ∧
                pc * q = wtBy (fun k => project cidx k = c ∧ project idx k = o)
                    (d.makeSparse cfg true).tab)))
      ∧ (o ∉ (d.space.extract outLt idx).toList → D.get o = none) := by
  have hDe : D = condDist cfg d ((d.makeSparse cfg true).marginal cfg outLt idx) cidx idx
      (c, pc) := by
    have := (cond_count cfg outLt d cidx idx).2 i
    rw [hc, hD] at this
    simpa using this
  have hmem : (c, pc) ∈ (d.conditionOn cfg outLt cidx idx).cdist.tab := List.mem_of_getElem? hc
  have hchain := fun r => (cond_chain cfg outLt d cidx idx h0 c pc hmem r).1
  have hspace : ((d.makeSparse cfg true).marginal cfg outLt idx).space
      = d.space.extract outLt idx := (coalesce1_meta cfg outLt (d.makeSparse cfg true) idx).2.2.1
  subst hDe
  constructor
  · intro ho
    have ho' : o ∈ ((d.makeSparse cfg true).marginal cfg outLt idx).space.toList := by
      rw [hspace]; exact ho
    -- outcomes not stored by the idx-marginal
    have hnot : o ∉ keys ((d.makeSparse cfg true).marginal cfg outLt idx).tab →
        (pc * 0 = wtBy (fun k => project cidx k = c ∧ project idx k = o)
                    (d.makeSparse cfg true).tab
          ∨ cfg.isNull d.base (wtBy (fun k => project idx k = o) (d.makeSparse cfg true).tab)
              = true) := by
      intro hk
      rw [mem_keys_sparse_marginal] at hk
      by_cases hex : ∃ k ∈ keys (d.makeSparse cfg true).tab, project idx k = o
      · right
        have : ¬ cfg.isNull d.base (wtBy (fun k => project idx k = o)
            (d.makeSparse cfg true).tab) = false := fun h => hk ⟨hex, h⟩
        simpa using this
      · left
        rw [mul_zero, wtBy_eq_zero]
        intro k hk' hko
        exact hex ⟨k, hk', hko.2⟩
    cases hd : d.sparse with
    | false =>
      rw [condDist_get_dense cfg d _ cidx idx (c, pc) hd o ho']
      by_cases hk : o ∈ keys ((d.makeSparse cfg true).marginal cfg outLt idx).tab
      · exact ⟨_, by rw [if_pos hk], Or.inl (hchain o)⟩
      · refine ⟨0, by rw [if_neg hk], ?_⟩
        rcases hnot hk with h | h
        · exact Or.inl h
        · exact Or.inr (Or.inl ⟨h, rfl⟩)
    | true =>
      rw [condDist_get_sparse cfg d _ cidx idx (c, pc) hd
        (sparse_marginal_keys_nodup cfg outLt d idx) o ho']
      by_cases hk : o ∈ keys ((d.makeSparse cfg true).marginal cfg outLt idx).tab
      · by_cases hn : cfg.isNull d.base
            (lookupD 0 (condTab cidx idx (d.makeSparse cfg true).tab (c, pc)) o) = true
        · exact ⟨0, by rw [if_pos hk, if_pos hn],
            Or.inr (Or.inr ⟨rfl, rfl, _, hn, hchain o⟩)⟩
        · exact ⟨_, by rw [if_pos hk, if_neg hn], Or.inl (hchain o)⟩
      · refine ⟨0, by rw [if_neg hk], ?_⟩
        rcases hnot hk with h | h
        · exact Or.inl h
        · exact Or.inr (Or.inl ⟨h, rfl⟩)
  · intro ho
    exact condDist_get_none cfg d _ cidx idx (c, pc) o (by rw [hspace]; exact ho)

/-- **Normalisation.** If zero is null, the un-trimmed conditional table of every stored
conditioning outcome has total mass one: `Σ_r P(r|c) = 1`. -/
theorem cond_normalised (cfg : NumCfg α) (outLt : List σ → List σ → Bool) (d : Dist σ α)
    (cidx idx : List Nat) (h0 : cfg.isNull d.base 0 = true) (c : List σ) (pc : α)
    (hc : (c, pc) ∈ (d.conditionOn cfg outLt cidx idx).cdist.tab) :
    mass (condTab cidx idx (d.makeSparse cfg true).tab (c, pc)) = 1 := by
  obtain ⟨h1, _, h3⟩ := (cond_cdist_rows cfg outLt d cidx idx).2 c pc hc
  exact condTab_mass cidx idx _ (c, pc) (h3 h0) h1

/-- **The returned conditionals carry the weights of the conditional tables, and are
normalised.** Under an exact null test (`isNull x → x = 0`, so that trimming drops only
zeros), when every non-null stored row agreeing with `c` has a non-null `idx`-marginal and —
dense source — the stored outcomes lie in the sample space and the kept variables' sample
space lists each outcome once: the `i`-th returned conditional has, for every event, the
weight of that event in the un-trimmed conditional table; in particular its total mass is 1.
(The hypotheses are needed: the conditional is re-tabulated over the stored outcomes of the
trimmed `idx`-marginal / the new sample space, which would otherwise lose or duplicate mass.) -/
theorem cond_normalised_dist (cfg : NumCfg α) (outLt : List σ → List σ → Bool) (d : Dist σ α)
    (cidx idx : List Nat) (h0 : cfg.isNull d.base 0 = true)
    (hex : ∀ x, cfg.isNull d.base x = true → x = 0)
    (hnn : ∀ k ∈ keys (d.makeSparse cfg true).tab, cfg.isNull d.base
        (wtBy (fun o => project idx o = project idx k) (d.makeSparse cfg true).tab) = false)
    (hin : d.sparse = false → ∀ k ∈ keys (d.makeSparse cfg true).tab, k ∈ d.space.toList)
    (hsp : d.sparse = false → (d.space.extract outLt idx).toList.Nodup)
    (i : Nat) (c : List σ) (pc : α) (D : Dist σ α)
    (hc : (d.conditionOn cfg outLt cidx idx).cdist.tab[i]? = some (c, pc))
    (hD : (d.conditionOn cfg outLt cidx idx).conds[i]? = some D) :
    (∀ (q : List σ → Prop) [DecidablePred q],
        wtBy q D.tab = wtBy q (condTab cidx idx (d.makeSparse cfg true).tab (c, pc)))
      ∧ mass D.tab = 1 := by
  have hDe : D = condDist cfg d ((d.makeSparse cfg true).marginal cfg outLt idx) cidx idx
      (c, pc) := by
    have := (cond_count cfg outLt d cidx idx).2 i
    rw [hc, hD] at this
    simpa using this
  subst hDe
  have key : ∀ (q : List σ → Prop) [DecidablePred q],
      wtBy q (condDist cfg d ((d.makeSparse cfg true).marginal cfg outLt idx) cidx idx
          (c, pc)).tab
        = wtBy q (condTab cidx idx (d.makeSparse cfg true).tab (c, pc)) := fun q _ =>
    wtBy_condDist_tab cfg outLt d cidx idx (c, pc) q hex (fun k hk _ => hnn k hk) hin hsp
  refine ⟨key, ?_⟩
  rw [← wtBy_true, key, wtBy_true]
  exact cond_normalised cfg outLt d cidx idx h0 c pc (List.mem_of_getElem? hc)

/-- **Metadata.** Every returned conditional has the base and the sparsity of the source and
the sample space of the marginal on the kept variables (the projected sample space). -/
theorem cond_meta (cfg : NumCfg α) (outLt : List σ → List σ → Bool) (d : Dist σ α)
    (cidx idx : List Nat) (D : Dist σ α) (hD : D ∈ (d.conditionOn cfg outLt cidx idx).conds) :
    D.base = d.base ∧ D.sparse = d.sparse
      ∧ D.space = ((d.makeSparse cfg true).marginal cfg outLt idx).space
      ∧ D.space = d.space.extract outLt idx := by
  rw [conditionOn_conds] at hD
  obtain ⟨c, _, rfl⟩ := List.mem_map.mp hD
  refine ⟨condDist_base .., condDist_sparse .., condDist_space .., ?_⟩
  rw [condDist_space]
  exact (coalesce1_meta cfg outLt (d.makeSparse cfg true) idx).2.2.1

end Cond

/-! ### `interleave` and `joint_from_factors` -/

section JFF
variable {σ α : Type} [DecidableEq σ]

/-- **Variable order restored.** If `u` lists the (valid) positions of `cidx` and `idx`
together, each in its own order, then interleaving the two projections of an outcome along the
mask `u.map (· ∈ cidx)` is the projection onto `u`. -/
theorem interleave_project (cidx idx u : List Nat) (o : List σ)
    (hu1 : u.filter (fun i => decide (i ∈ cidx)) = cidx)
    (hu2 : u.filter (fun i => !decide (i ∈ cidx)) = idx)
    (h : ∀ i ∈ u, i < o.length) :
    interleave (u.map (fun i => decide (i ∈ cidx))) (project cidx o) (project idx o)
      = project u o :=
  Dit.Lemmas.Cond.interleave_project cidx idx u o hu1 hu2 h

/-- **Variable order restored, sorted merge.** For strictly increasing, disjoint `cidx` and
`idx` (what `parse_rvs` and the disjointness check of `condition_on` guarantee) and
`u = sorted (cidx ++ idx)`, the interleaving of the two projections is the projection onto the
sorted union: the variables come back in their original order. -/
theorem interleave_project_merge (cidx idx : List Nat) (o : List σ)
    (hc : cidx.Pairwise (· < ·)) (hi : idx.Pairwise (· < ·)) (hdis : ∀ i ∈ cidx, i ∉ idx)
    (h : ∀ i ∈ cidx ++ idx, i < o.length) :
    interleave ((isort (fun a b => decide (a < b)) (cidx ++ idx)).map (fun i => decide (i ∈ cidx)))
        (project cidx o) (project idx o)
      = project (isort (fun a b => decide (a < b)) (cidx ++ idx)) o
      ∧ (isort (fun a b => decide (a < b)) (cidx ++ idx)).Pairwise (· ≤ ·) := by
  obtain ⟨h1, h2⟩ := merge_filter cidx idx hc hi hdis
  exact ⟨Dit.Lemmas.Cond.interleave_project cidx idx _ o h1 h2
    (fun i hi' => h i (mem_isort.mp hi')), isort_nat_sorted _⟩

/-- **Events of the recombined table.** For any marginal table `m` and list of conditional
tables `cs` (paired position-wise), the weight of an event `p` in `joint_from_factors` is
`Σ_i m_i · (weight in cs_i of the outcomes y with interleave(x_i, y) ∈ p)`. -/
theorem jff_event [Semiring α] (p : List σ → Prop) [DecidablePred p] (mask : List Bool)
    (m : Tab (List σ) α) (cs : List (Tab (List σ) α)) :
    wtBy p (jointFromFactors mask m cs)
      = ((m.zip cs).map (fun mc =>
          mc.1.2 * wtBy (fun y => p (interleave mask mc.1.1 y)) mc.2)).sum :=
  wtBy_jff p mask m cs

/-- **Stored values of the recombined table.** If the marginal and each conditional list each
outcome once, all marginal outcomes have length `a ≤ #true(mask)` and all conditional outcomes
length `b ≤ #false(mask)` (so that `interleave` is injective and the recombined table lists
each outcome once), then the stored value of `z` is
`Σ_i m_i · Σ {cs_i(y) | interleave(x_i, y) = z}`; the number of rows is the total number of
conditional rows paired with a marginal row. -/
theorem jff_lookup [Semiring α] (mask : List Bool) (m : Tab (List σ) α)
    (cs : List (Tab (List σ) α)) (a b : Nat)
    (hm : (keys m).Nodup) (hcs : ∀ t ∈ cs, (keys t).Nodup)
    (hma : ∀ x ∈ keys m, x.length = a) (hcb : ∀ t ∈ cs, ∀ y ∈ keys t, y.length = b)
    (ha : a ≤ mask.count true) (hb : b ≤ mask.count false) (z : List σ) :
    (keys (jointFromFactors mask m cs)).Nodup
      ∧ lookupD 0 (jointFromFactors mask m cs) z
          = ((m.zip cs).map (fun mc =>
              mc.1.2 * wtBy (fun y => interleave mask mc.1.1 y = z) mc.2)).sum := by
  have hnd := jff_keys_nodup mask m cs a b hm hcs hma hcb ha hb
  refine ⟨hnd, ?_⟩
  rw [lookupD_eq_wtBy hnd, wtBy_jff]

/-- `interleave` is injective on outcome pairs of fixed lengths that fit the mask. -/
theorem interleave_injective (mask : List Bool) (x x' y y' : List σ)
    (hx : x.length = x'.length) (hy : y.length = y'.length)
    (hxm : x.length ≤ mask.count true) (hym : y.length ≤ mask.count false)
    (h : interleave mask x y = interleave mask x' y') : x = x' ∧ y = y' :=
  Dit.Lemmas.Cond.interleave_injective mask x x' y y' hx hy hxm hym h

end JFF

section Recombine
variable {σ α : Type} [DecidableEq σ] [Field α]

/-- **Recombination, un-trimmed conditionals.** Let `u` list the positions `cidx` and `idx`
together (each in its own order; e.g. their sorted merge, `interleave_project_merge`), valid
for every non-null stored outcome, and let zero be null.  Recombining the marginal returned by
`condition_on` with the un-trimmed conditional tables gives every event `p` of the union
variables the joint weight of `p` among the non-null stored rows whose conditioning outcome
has a non-null probability — i.e. `Σ_c P(c) P(r|c) = P(c, r)` over the listed `c`. -/
theorem jff_cond (cfg : NumCfg α) (outLt : List σ → List σ → Bool) (d : Dist σ α)
    (cidx idx u : List Nat) (h0 : cfg.isNull d.base 0 = true)
    (hu1 : u.filter (fun i => decide (i ∈ cidx)) = cidx)
    (hu2 : u.filter (fun i => !decide (i ∈ cidx)) = idx)
    (hlen : ∀ k ∈ keys (d.makeSparse cfg true).tab, ∀ i ∈ u, i < k.length)
    (p : List σ → Prop) [DecidablePred p] :
    wtBy p (jointFromFactors (u.map (fun i => decide (i ∈ cidx)))
        (d.conditionOn cfg outLt cidx idx).cdist.tab
        ((d.conditionOn cfg outLt cidx idx).cdist.tab.map
          (condTab cidx idx (d.makeSparse cfg true).tab)))
      = wtBy (fun o => p (project u o) ∧
          cfg.isNull d.base (wtBy (fun k => project cidx k = project cidx o)
            (d.makeSparse cfg true).tab) = false) (d.makeSparse cfg true).tab := by
  have hrows := cond_cdist_rows cfg outLt d cidx idx
  rw [wtBy_jff_condTab p u cidx idx _ _ hrows.1
    (fun c hc => (hrows.2 c.1 c.2 hc).2.2 h0) hu1 hu2 hlen]
  apply wtBy_congr
  intro k hk
  rw [conditionOn_cdist, mem_keys_sparse_marginal]
  constructor
  · rintro ⟨h1, _, h2⟩; exact ⟨h1, h2⟩
  · rintro ⟨h1, h2⟩; exact ⟨h1, ⟨k, hk, rfl⟩, h2⟩

/-- **Recombination reproduces the joint (un-trimmed conditionals).** If moreover no
conditioning outcome of a non-null stored row has a null probability, the recombined table
gives every event of the union variables exactly its joint weight (the marginal of the
non-null stored rows on `u`), and — outcomes being listed once — every outcome `z` its joint
fibre sum as stored value. -/
theorem jff_cond_joint (cfg : NumCfg α) (outLt : List σ → List σ → Bool) (d : Dist σ α)
    (cidx idx u : List Nat) (h0 : cfg.isNull d.base 0 = true)
    (hu1 : u.filter (fun i => decide (i ∈ cidx)) = cidx)
    (hu2 : u.filter (fun i => !decide (i ∈ cidx)) = idx)
    (hlen : ∀ k ∈ keys (d.makeSparse cfg true).tab, ∀ i ∈ u, i < k.length)
    (hcn : ∀ k ∈ keys (d.makeSparse cfg true).tab, cfg.isNull d.base
        (wtBy (fun o => project cidx o = project cidx k) (d.makeSparse cfg true).tab) = false) :
    (∀ (p : List σ → Prop) [DecidablePred p],
      wtBy p (jointFromFactors (u.map (fun i => decide (i ∈ cidx)))
          (d.conditionOn cfg outLt cidx idx).cdist.tab
          ((d.conditionOn cfg outLt cidx idx).cdist.tab.map
            (condTab cidx idx (d.makeSparse cfg true).tab)))
        = wtBy (fun o => p (project u o)) (d.makeSparse cfg true).tab)
    ∧ ∀ z, lookupD 0 (jointFromFactors (u.map (fun i => decide (i ∈ cidx)))
          (d.conditionOn cfg outLt cidx idx).cdist.tab
          ((d.conditionOn cfg outLt cidx idx).cdist.tab.map
            (condTab cidx idx (d.makeSparse cfg true).tab))) z
        = wtBy (fun o => project u o = z) (d.makeSparse cfg true).tab := by
  have hev : ∀ (p : List σ → Prop) [DecidablePred p],
      wtBy p (jointFromFactors (u.map (fun i => decide (i ∈ cidx)))
          (d.conditionOn cfg outLt cidx idx).cdist.tab
          ((d.conditionOn cfg outLt cidx idx).cdist.tab.map
            (condTab cidx idx (d.makeSparse cfg true).tab)))
        = wtBy (fun o => p (project u o)) (d.makeSparse cfg true).tab := by
    intro p _
    rw [jff_cond cfg outLt d cidx idx u h0 hu1 hu2 hlen p]
    apply wtBy_congr
    intro k hk
    simp [hcn k hk]
  refine ⟨hev, fun z => ?_⟩
  have hrows := cond_cdist_rows cfg outLt d cidx idx
  have hcsub : ∀ i ∈ cidx, i ∈ u := fun i hi => by
    rw [← hu1] at hi; exact (List.mem_filter.mp hi).1
  have hisub : ∀ i ∈ idx, i ∈ u := fun i hi => by
    rw [← hu2] at hi; exact (List.mem_filter.mp hi).1
  have hnd : (keys (jointFromFactors (u.map (fun i => decide (i ∈ cidx)))
      (d.conditionOn cfg outLt cidx idx).cdist.tab
      ((d.conditionOn cfg outLt cidx idx).cdist.tab.map
        (condTab cidx idx (d.makeSparse cfg true).tab)))).Nodup := by
    apply jff_keys_nodup _ _ _ cidx.length idx.length hrows.1
    · intro t ht
      obtain ⟨c, _, rfl⟩ := List.mem_map.mp ht
      exact keys_condTab_nodup _ _ _ _
    · intro x hx
      rw [conditionOn_cdist, mem_keys_sparse_marginal] at hx
      obtain ⟨⟨k, hk, rfl⟩, _⟩ := hx
      exact length_project (fun i hi => hlen k hk i (hcsub i hi))
    · intro t ht y hy
      obtain ⟨c, _, rfl⟩ := List.mem_map.mp ht
      obtain ⟨k, hk, _, rfl⟩ := (mem_keys_condTab _ _ _ _ _).mp hy
      exact length_project (fun i hi => hlen k hk i (hisub i hi))
    · rw [count_true_map_mem, hu1]
    · rw [count_false_map_mem, hu2]
  rw [lookupD_eq_wtBy hnd, hev]

/-- **Recombination of the returned distributions reproduces the joint.** Under an exact null
test and when no non-null stored row has a null `cidx`- or `idx`-marginal (and, for a dense
source, stored outcomes lie in the sample space and the kept variables' sample space lists each
outcome once), `joint_from_factors` applied to the marginal and to the stored tables of the
conditional distributions that `condition_on` returns gives every event of the union variables
its joint weight: the joint distribution over the conditioned and kept variables is
reproduced, in the variable order `u`. -/
theorem jff_cond_dists (cfg : NumCfg α) (outLt : List σ → List σ → Bool) (d : Dist σ α)
    (cidx idx u : List Nat) (h0 : cfg.isNull d.base 0 = true)
    (hex : ∀ x, cfg.isNull d.base x = true → x = 0)
    (hu1 : u.filter (fun i => decide (i ∈ cidx)) = cidx)
    (hu2 : u.filter (fun i => !decide (i ∈ cidx)) = idx)
    (hlen : ∀ k ∈ keys (d.makeSparse cfg true).tab, ∀ i ∈ u, i < k.length)
    (hcn : ∀ k ∈ keys (d.makeSparse cfg true).tab, cfg.isNull d.base
        (wtBy (fun o => project cidx o = project cidx k) (d.makeSparse cfg true).tab) = false)
    (hnn : ∀ k ∈ keys (d.makeSparse cfg true).tab, cfg.isNull d.base
        (wtBy (fun o => project idx o = project idx k) (d.makeSparse cfg true).tab) = false)
    (hin : d.sparse = false → ∀ k ∈ keys (d.makeSparse cfg true).tab, k ∈ d.space.toList)
    (hsp : d.sparse = false → (d.space.extract outLt idx).toList.Nodup)
    (p : List σ → Prop) [DecidablePred p] :
    wtBy p (jointFromFactors (u.map (fun i => decide (i ∈ cidx)))
        (d.conditionOn cfg outLt cidx idx).cdist.tab
        ((d.conditionOn cfg outLt cidx idx).conds.map (·.tab)))
      = wtBy (fun o => p (project u o)) (d.makeSparse cfg true).tab := by
  rw [← (jff_cond_joint cfg outLt d cidx idx u h0 hu1 hu2 hlen hcn).1 p]
  rw [conditionOn_conds, List.map_map, conditionOn_cdist]
  apply wtBy_jff_map_congr
  intro c _ q _
  exact wtBy_condDist_tab cfg outLt d cidx idx c q hex (fun k hk _ => hnn k hk) hin hsp

end Recombine

/-! ### Non-vacuity: concrete instances over `Rat`

`dQ`: `P(00) = P(01) = 1/4, P(10) = 1/2` on two binary variables, sparse; `dQdense`: the same,
dense; `cfgQ`: the exact null test (example data defined in Lemmas/Cond.lean).
Conditioning on variable 0 gives conditionals with different supports. -/

section Examples

/-- The marginal on the conditioning variable. -/
example : (dQ.conditionOn cfgQ (fun a b => lexLt a b) [0] [1]).cdist.tab
    = [([0], 1 / 2), ([1], 1 / 2)] := by decide +kernel

/-- Two conditionals, with different supports (sparse source: the zero of `P(1|1)` is
trimmed). -/
example : (dQ.conditionOn cfgQ (fun a b => lexLt a b) [0] [1]).conds.map (·.tab)
    = [[([0], 1 / 2), ([1], 1 / 2)], [([0], 1)]] := by decide +kernel

/-- Dense source: the conditionals list the whole sample space. -/
example : (dQdense.conditionOn cfgQ (fun a b => lexLt a b) [0] [1]).conds.map (·.tab)
    = [[([0], 1 / 2), ([1], 1 / 2)], [([0], 1), ([1], 0)]] := by decide +kernel

/-- Conditioning on the second variable: the kept variable is variable 0. -/
example : (dQ.conditionOn cfgQ (fun a b => lexLt a b) [1] [0]).conds.map (·.tab)
    = [[([0], 1 / 3), ([1], 2 / 3)], [([0], 1)]] := by decide +kernel

/-- Hypotheses of `cond_chain`, `cond_normalised`, `cond_normalised_dist`, `jff_cond_joint`
and `jff_cond_dists` hold for the example (zero is null, the null test is exact on the values
that occur, `u = [0, 1]` splits into `[1]` and `[0]`, indices valid, no null marginal). -/
example : cfgQ.isNull dQ.base 0 = true := by decide +kernel
example (x : Rat) (h : cfgQ.isNull dQ.base x = true) : x = 0 := by
  simpa [cfgQ] using h
example : [0, 1].filter (fun i => decide (i ∈ [1])) = [1]
    ∧ [0, 1].filter (fun i => !decide (i ∈ [1])) = [0] := by decide
example : ∀ k ∈ keys (dQ.makeSparse cfgQ true).tab, ∀ i ∈ [0, 1], i < k.length := by
  decide +kernel
example : ∀ k ∈ keys (dQ.makeSparse cfgQ true).tab, cfgQ.isNull dQ.base
    (wtBy (fun o => project [1] o = project [1] k) (dQ.makeSparse cfgQ true).tab) = false := by
  decide +kernel
example : ∀ k ∈ keys (dQ.makeSparse cfgQ true).tab, cfgQ.isNull dQ.base
    (wtBy (fun o => project [0] o = project [0] k) (dQ.makeSparse cfgQ true).tab) = false := by
  decide +kernel
example : (dQdense.space.extract (fun a b => lexLt a b) [0]).toList.Nodup
    ∧ ∀ k ∈ keys (dQdense.makeSparse cfgQ true).tab, k ∈ dQdense.space.toList := by
  decide +kernel

/-- Recombination with the mask of the kept variable (`true` = conditioning position):
conditioning on variable 1 and recombining restores the original variable order. -/
example :
    jointFromFactors ([0, 1].map (fun i => decide (i ∈ [1])))
      (dQ.conditionOn cfgQ (fun a b => lexLt a b) [1] [0]).cdist.tab
      ((dQ.conditionOn cfgQ (fun a b => lexLt a b) [1] [0]).conds.map (·.tab))
    = [([0, 0], 1 / 4), ([1, 0], 1 / 2), ([0, 1], 1 / 4)] := by decide +kernel

example : interleave [false, true, false] [7] [5, 6] = [5, 7, 6] := by decide

/-- The theorems apply to the driver's number type. -/
example (r : List Nat) (c : List Nat) (pc : Rat)
    (hc : (c, pc) ∈ (dQ.conditionOn cfgQ (fun a b => lexLt a b) [0] [1]).cdist.tab) :
    pc * lookupD 0 (condTab [0] [1] (dQ.makeSparse cfgQ true).tab (c, pc)) r
      = wtBy (fun o => project [0] o = c ∧ project [1] o = r) (dQ.makeSparse cfgQ true).tab :=
  (cond_chain cfgQ (fun a b => lexLt a b) dQ [0] [1] (by decide +kernel) c pc hc r).1

end Examples

end Dit.Props.C03
