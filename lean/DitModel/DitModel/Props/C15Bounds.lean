/-
C15 (companion) — the trivial bounds on secret-key agreement rates
(`dit.multivariate.secret_key_agreement.trivial_bounds`) hold at every feasible point.

The intrinsic measures minimise `I(X:Y|W)` (or `T`, `B`, `J` of the groups given `W`) over channels
`Z → W`.  The library's trivial bounds are
* lower: `max(0, I(X:Y) − I(X:Z), I(X:Y) − I(Y:Z))`  (`lower_intrinsic_mutual_information`),
* upper: `min(f(groups), f(groups | Z))` for `f ∈ {T, B, J}` (`upper_intrinsic_*`).
This file proves that **every** channel obeys the lower bound (data processing along `X,Y – Z – W`), and
that the two special channels (constant, copy) attain the two arguments of each upper bound, so the reported
minimum over {constant, copy, optimiser's point} is bracketed by the trivial bounds, whatever the optimiser
returned.
-/
import DitModel.Props.C15
import DitModel.Lemmas.Bounds

set_option linter.unusedSectionVars false

namespace Dit.Props.C15Bounds
open Dit Dit.Lemmas.Table Dit.Lemmas.InfoAlg Dit.Lemmas.InfoReal
open Dit.Lemmas.AuxJoint (constChan copyChan)
open Dit.Lemmas.Bounds (xorT noisyChan xorT_row xorT_chan xorT_len xorT_nonneg xorT_fit)

/-- **The directed lower bound holds for every channel**: with `W` (coordinate `n`) drawn from `Z` (single
parent `z`) through any non-negative channel with rows summing to one,
`I(X:Y) − I(X:Z) ≤ I(X:Y|W)`.  (`I(X:Y|W) ≥ I(X:Y) − I(X:W)` by the chain rule and `I(X:W) ≤ I(X:Z)` by data
processing, `I(X:W|Z) = 0`.) -/
theorem lower_imi_directed (t : Tab (List Nat) ℝ) (av : AuxVar) (chan : List Nat → Nat → ℝ) (n z : Nat)
    (hbases : av.bases = [z]) (hz : z < n)
    (hrow : ∀ o ∈ keys t, ((List.range av.bound).map (chan (project av.bases o))).sum = 1)
    (hchan : ∀ o ∈ keys t, ∀ k < av.bound, 0 ≤ chan (project av.bases o) k)
    (hlen : ∀ o ∈ keys t, o.length = n) (hnn : ∀ r ∈ t, 0 ≤ r.2)
    (X Y : VSet) (hX : ∀ v ∈ X, v < n) (hY : ∀ v ∈ Y, v < n) :
    Comb.eval (Rat.castHom ℝ) (entropyOf (Real.logb 2) t) (cmiC X Y [])
        - Comb.eval (Rat.castHom ℝ) (entropyOf (Real.logb 2) t) (cmiC X [z] [])
      ≤ Comb.eval (Rat.castHom ℝ) (entropyOf (Real.logb 2) (auxStep t av chan)) (cmiC X Y [n]) := by
  have hT := Lemmas.AuxJoint.auxStep_nonneg t av chan hnn hchan
  have hb : ∀ i ∈ av.bases, i < n := by
    rw [hbases]; intro i hi; rw [List.mem_singleton] at hi; omega
  have hmk := Props.C15.aux_cmi_zero t av chan n X hrow hlen hnn hb hX
  rw [hbases, eval_cmiC] at hmk
  have hd := Lemmas.Bounds.dpi_abstract (entropy_Submod _ hT) X Y n z hmk
  have o : ∀ S : VSet, (∀ i ∈ S, i < n) →
      Hc (entropyOf (Real.logb 2) (auxStep t av chan)) S []
        = Hc (entropyOf (Real.logb 2) t) S [] := by
    intro S hS
    unfold Hc
    rw [Props.C15.aux_entropy_old t av chan n _ hrow hlen
        (fun i hi => hS i (by simpa [mem_vunion] using hi)),
      Props.C15.aux_entropy_old t av chan n (vnorm []) hrow hlen (by simp [vnorm, dedup, isort])]
  have hz' : ∀ i ∈ [z], i < n := by intro i hi; rw [List.mem_singleton] at hi; omega
  have hXY : ∀ i ∈ vunion X Y, i < n := by
    intro i hi
    rcases (mem_vunion _ _ _).mp hi with hi | hi
    · exact hX i hi
    · exact hY i hi
  have hXz : ∀ i ∈ vunion X [z], i < n := by
    intro i hi
    rcases (mem_vunion _ _ _).mp hi with hi | hi
    · exact hX i hi
    · exact hz' i hi
  rw [eval_cmiC, eval_cmiC, eval_cmiC, ← o X hX, ← o Y hY, ← o _ hXY, ← o [z] hz', ← o _ hXz]
  exact hd

/-- Non-vacuity: the hypotheses hold for `X₀, X₁` fair and independent, `Z = X₀ xor X₁` (`xorT`,
Wip/BoundsLemmas.lean), `W` a noisy copy of `Z` (`noisyChan`: 3/4 on the parent's value), `X = {0}`,
`Y = {1}`, `z = 2`, `n = 3`. -/
example : Comb.eval (Rat.castHom ℝ) (entropyOf (Real.logb 2) xorT) (cmiC [0] [1] []) - Comb.eval (Rat.castHom ℝ) (entropyOf (Real.logb 2) xorT) (cmiC [0] [2] [])
    ≤ Comb.eval (Rat.castHom ℝ) (entropyOf (Real.logb 2) (auxStep xorT ⟨[2], 2⟩ noisyChan)) (cmiC [0] [1] [3]) :=
  lower_imi_directed xorT ⟨[2], 2⟩ noisyChan 3 2 rfl (by decide) xorT_row xorT_chan xorT_len
    xorT_nonneg [0] [1] (by decide) (by decide)

/-- **`lower_intrinsic_mutual_information` is a lower bound at every feasible point**:
`max(0, I(X:Y) − I(X:Z), I(X:Y) − I(Y:Z)) ≤ I(X:Y|W)` for every channel `Z → W`. -/
theorem lower_imi (t : Tab (List Nat) ℝ) (av : AuxVar) (chan : List Nat → Nat → ℝ) (n z : Nat)
    (hbases : av.bases = [z]) (hz : z < n)
    (hrow : ∀ o ∈ keys t, ((List.range av.bound).map (chan (project av.bases o))).sum = 1)
    (hchan : ∀ o ∈ keys t, ∀ k < av.bound, 0 ≤ chan (project av.bases o) k)
    (hlen : ∀ o ∈ keys t, o.length = n) (hnn : ∀ r ∈ t, 0 ≤ r.2)
    (X Y : VSet) (hX : ∀ v ∈ X, v < n) (hY : ∀ v ∈ Y, v < n) :
    max 0 (max
        (Comb.eval (Rat.castHom ℝ) (entropyOf (Real.logb 2) t) (cmiC X Y [])
          - Comb.eval (Rat.castHom ℝ) (entropyOf (Real.logb 2) t) (cmiC X [z] []))
        (Comb.eval (Rat.castHom ℝ) (entropyOf (Real.logb 2) t) (cmiC Y X [])
          - Comb.eval (Rat.castHom ℝ) (entropyOf (Real.logb 2) t) (cmiC Y [z] [])))
      ≤ Comb.eval (Rat.castHom ℝ) (entropyOf (Real.logb 2) (auxStep t av chan)) (cmiC X Y [n]) := by
  have h1 := lower_imi_directed t av chan n z hbases hz hrow hchan hlen hnn X Y hX hY
  have h2 := lower_imi_directed t av chan n z hbases hz hrow hchan hlen hnn Y X hY hX
  rw [Lemmas.Bounds.cmi_symm _ _ Y X [n]] at h2
  have h0 := Props.C05.cmi_nonneg _ (Lemmas.AuxJoint.auxStep_nonneg t av chan hnn hchan) X Y [n]
  exact max_le h0 (max_le h1 h2)

/-- Non-vacuity on the same data. -/
example : max 0 (max (Comb.eval (Rat.castHom ℝ) (entropyOf (Real.logb 2) xorT) (cmiC [0] [1] []) - Comb.eval (Rat.castHom ℝ) (entropyOf (Real.logb 2) xorT) (cmiC [0] [2] []))
      (Comb.eval (Rat.castHom ℝ) (entropyOf (Real.logb 2) xorT) (cmiC [1] [0] []) - Comb.eval (Rat.castHom ℝ) (entropyOf (Real.logb 2) xorT) (cmiC [1] [2] [])))
    ≤ Comb.eval (Rat.castHom ℝ) (entropyOf (Real.logb 2) (auxStep xorT ⟨[2], 2⟩ noisyChan)) (cmiC [0] [1] [3]) :=
  lower_imi xorT ⟨[2], 2⟩ noisyChan 3 2 rfl (by decide) xorT_row xorT_chan xorT_len
    xorT_nonneg [0] [1] (by decide) (by decide)

/-- **Values of the group measures at the two special channels**: at the constant channel, total
correlation, dual total correlation and every CAEKL candidate of the groups given `W` equal the
unconditioned values on the input; at the copy channel they equal the values given `Z`. -/
theorem group_measures_at_special_channels (t : Tab (List Nat) ℝ) (av : AuxVar) (n z : Nat)
    (hbd : 1 ≤ av.bound) (hbases : av.bases = [z]) (hz : z < n)
    (hfit : ∀ o ∈ keys t, ∀ j, o[z]? = some j → j < av.bound)
    (hlen : ∀ o ∈ keys t, o.length = n) (groups : List VSet) (hg : ∀ g ∈ groups, ∀ v ∈ g, v < n) :
    (Comb.eval (Rat.castHom ℝ) (entropyOf (Real.logb 2) (auxStep t av constChan)) (tcC groups [n])
        = Comb.eval (Rat.castHom ℝ) (entropyOf (Real.logb 2) t) (tcC groups []))
    ∧ (Comb.eval (Rat.castHom ℝ) (entropyOf (Real.logb 2) (auxStep t av copyChan)) (tcC groups [n])
        = Comb.eval (Rat.castHom ℝ) (entropyOf (Real.logb 2) t) (tcC groups [z]))
    ∧ (Comb.eval (Rat.castHom ℝ) (entropyOf (Real.logb 2) (auxStep t av constChan)) (dtcC groups [n])
        = Comb.eval (Rat.castHom ℝ) (entropyOf (Real.logb 2) t) (dtcC groups []))
    ∧ (Comb.eval (Rat.castHom ℝ) (entropyOf (Real.logb 2) (auxStep t av copyChan)) (dtcC groups [n])
        = Comb.eval (Rat.castHom ℝ) (entropyOf (Real.logb 2) t) (dtcC groups [z]))
    ∧ (∀ P : List (List VSet), (∀ B ∈ P, ∀ g ∈ B, g ∈ groups) →
        Comb.eval (Rat.castHom ℝ) (entropyOf (Real.logb 2) (auxStep t av constChan)) (caeklCand groups [n] P)
          = Comb.eval (Rat.castHom ℝ) (entropyOf (Real.logb 2) t) (caeklCand groups [] P)
        ∧ Comb.eval (Rat.castHom ℝ) (entropyOf (Real.logb 2) (auxStep t av copyChan)) (caeklCand groups [n] P)
          = Comb.eval (Rat.castHom ℝ) (entropyOf (Real.logb 2) t) (caeklCand groups [z] P)) := by
  have hc := Lemmas.AuxJoint.entropyOf_const t av n hbd hlen
  have hk := Lemmas.AuxJoint.entropyOf_copy t av n z hbases hz hfit hlen
  refine ⟨Lemmas.Bounds.tc_transfer _ _ _ n [] hc groups hg,
    Lemmas.Bounds.tc_transfer _ _ _ n [z] hk groups hg,
    Lemmas.Bounds.dtc_transfer _ _ _ n [] hc groups hg,
    Lemmas.Bounds.dtc_transfer _ _ _ n [z] hk groups hg, ?_⟩
  intro P hP
  exact ⟨Lemmas.Bounds.caekl_transfer _ _ _ n [] hc groups hg P hP,
    Lemmas.Bounds.caekl_transfer _ _ _ n [z] hk groups hg P hP⟩

/-- Non-vacuity: `xorT`, a binary `W` with parent `z = 2`, groups `{0}`, `{1}`, and (for the last
clause) the partition into singletons. -/
example : Comb.eval (Rat.castHom ℝ) (entropyOf (Real.logb 2) (auxStep xorT ⟨[2], 2⟩ copyChan)) (tcC [[0], [1]] [3])
      = Comb.eval (Rat.castHom ℝ) (entropyOf (Real.logb 2) xorT) (tcC [[0], [1]] [2])
    ∧ Comb.eval (Rat.castHom ℝ) (entropyOf (Real.logb 2) (auxStep xorT ⟨[2], 2⟩ copyChan)) (caeklCand [[0], [1]] [3] [[[0]], [[1]]])
      = Comb.eval (Rat.castHom ℝ) (entropyOf (Real.logb 2) xorT) (caeklCand [[0], [1]] [2] [[[0]], [[1]]]) :=
  have h := group_measures_at_special_channels xorT ⟨[2], 2⟩ 3 2 (by decide) rfl (by decide)
    xorT_fit xorT_len [[0], [1]] (by decide)
  ⟨h.2.1, (h.2.2.2.2 [[[0]], [[1]]] (by decide)).2⟩

/-- **The upper trivial bounds bracket the reported value**: a reported minimum over the constant channel,
the copy channel and any further point is at most `min(f(groups), f(groups|Z))`, for total correlation … -/
theorem upper_tc_bound (t : Tab (List Nat) ℝ) (av : AuxVar) (n z : Nat) (c : ℝ)
    (hbd : 1 ≤ av.bound) (hbases : av.bases = [z]) (hz : z < n)
    (hfit : ∀ o ∈ keys t, ∀ j, o[z]? = some j → j < av.bound)
    (hlen : ∀ o ∈ keys t, o.length = n) (groups : List VSet) (hg : ∀ g ∈ groups, ∀ v ∈ g, v < n) :
    min (Comb.eval (Rat.castHom ℝ) (entropyOf (Real.logb 2) (auxStep t av constChan)) (tcC groups [n]))
        (min (Comb.eval (Rat.castHom ℝ) (entropyOf (Real.logb 2) (auxStep t av copyChan)) (tcC groups [n])) c)
      ≤ min (Comb.eval (Rat.castHom ℝ) (entropyOf (Real.logb 2) t) (tcC groups []))
          (Comb.eval (Rat.castHom ℝ) (entropyOf (Real.logb 2) t) (tcC groups [z])) := by
  obtain ⟨h1, h2, -⟩ := group_measures_at_special_channels t av n z hbd hbases hz hfit hlen groups hg
  rw [h1, h2]
  exact le_min (min_le_left _ _) ((min_le_right _ _).trans (min_le_left _ _))

/-- Non-vacuity on the same data (any third value `c`, here `0`). -/
example : min (Comb.eval (Rat.castHom ℝ) (entropyOf (Real.logb 2) (auxStep xorT ⟨[2], 2⟩ constChan)) (tcC [[0], [1]] [3]))
      (min (Comb.eval (Rat.castHom ℝ) (entropyOf (Real.logb 2) (auxStep xorT ⟨[2], 2⟩ copyChan)) (tcC [[0], [1]] [3])) 0)
    ≤ min (Comb.eval (Rat.castHom ℝ) (entropyOf (Real.logb 2) xorT) (tcC [[0], [1]] []))
        (Comb.eval (Rat.castHom ℝ) (entropyOf (Real.logb 2) xorT) (tcC [[0], [1]] [2])) :=
  upper_tc_bound xorT ⟨[2], 2⟩ 3 2 0 (by decide) rfl (by decide) xorT_fit xorT_len [[0], [1]]
    (by decide)

/-- … and for dual total correlation. -/
theorem upper_dtc_bound (t : Tab (List Nat) ℝ) (av : AuxVar) (n z : Nat) (c : ℝ)
    (hbd : 1 ≤ av.bound) (hbases : av.bases = [z]) (hz : z < n)
    (hfit : ∀ o ∈ keys t, ∀ j, o[z]? = some j → j < av.bound)
    (hlen : ∀ o ∈ keys t, o.length = n) (groups : List VSet) (hg : ∀ g ∈ groups, ∀ v ∈ g, v < n) :
    min (Comb.eval (Rat.castHom ℝ) (entropyOf (Real.logb 2) (auxStep t av constChan)) (dtcC groups [n]))
        (min (Comb.eval (Rat.castHom ℝ) (entropyOf (Real.logb 2) (auxStep t av copyChan)) (dtcC groups [n])) c)
      ≤ min (Comb.eval (Rat.castHom ℝ) (entropyOf (Real.logb 2) t) (dtcC groups []))
          (Comb.eval (Rat.castHom ℝ) (entropyOf (Real.logb 2) t) (dtcC groups [z])) := by
  obtain ⟨-, -, h1, h2, -⟩ :=
    group_measures_at_special_channels t av n z hbd hbases hz hfit hlen groups hg
  rw [h1, h2]
  exact le_min (min_le_left _ _) ((min_le_right _ _).trans (min_le_left _ _))

/-- Non-vacuity on the same data. -/
example : min (Comb.eval (Rat.castHom ℝ) (entropyOf (Real.logb 2) (auxStep xorT ⟨[2], 2⟩ constChan)) (dtcC [[0], [1]] [3]))
      (min (Comb.eval (Rat.castHom ℝ) (entropyOf (Real.logb 2) (auxStep xorT ⟨[2], 2⟩ copyChan)) (dtcC [[0], [1]] [3])) 0)
    ≤ min (Comb.eval (Rat.castHom ℝ) (entropyOf (Real.logb 2) xorT) (dtcC [[0], [1]] []))
        (Comb.eval (Rat.castHom ℝ) (entropyOf (Real.logb 2) xorT) (dtcC [[0], [1]] [2])) :=
  upper_dtc_bound xorT ⟨[2], 2⟩ 3 2 0 (by decide) rfl (by decide) xorT_fit xorT_len [[0], [1]]
    (by decide)

/-- **Bracketing**: lower trivial bound ≤ value at any channel, and the minimum over the three points is
≤ the upper trivial bound (two groups: `T = I(X:Y|·)`). -/
theorem imi_bracketed (t : Tab (List Nat) ℝ) (av : AuxVar) (chan : List Nat → Nat → ℝ) (n z : Nat)
    (hbd : 1 ≤ av.bound) (hbases : av.bases = [z]) (hz : z < n)
    (hfit : ∀ o ∈ keys t, ∀ j, o[z]? = some j → j < av.bound)
    (hrow : ∀ o ∈ keys t, ((List.range av.bound).map (chan (project av.bases o))).sum = 1)
    (hchan : ∀ o ∈ keys t, ∀ k < av.bound, 0 ≤ chan (project av.bases o) k)
    (hlen : ∀ o ∈ keys t, o.length = n) (hnn : ∀ r ∈ t, 0 ≤ r.2)
    (X Y : VSet) (hX : ∀ v ∈ X, v < n) (hY : ∀ v ∈ Y, v < n) :
    max 0 (Comb.eval (Rat.castHom ℝ) (entropyOf (Real.logb 2) t) (cmiC X Y [])
            - Comb.eval (Rat.castHom ℝ) (entropyOf (Real.logb 2) t) (cmiC X [z] []))
      ≤ min (Comb.eval (Rat.castHom ℝ) (entropyOf (Real.logb 2) (auxStep t av constChan)) (cmiC X Y [n]))
          (min (Comb.eval (Rat.castHom ℝ) (entropyOf (Real.logb 2) (auxStep t av copyChan)) (cmiC X Y [n]))
            (Comb.eval (Rat.castHom ℝ) (entropyOf (Real.logb 2) (auxStep t av chan)) (cmiC X Y [n]))) := by
  have hcopy := Lemmas.Bounds.copyChan_row_of_fit t av n z hbases hz hfit hlen
  have hT := Lemmas.AuxJoint.auxStep_nonneg t av chan hnn hchan
  have hTc := Lemmas.AuxJoint.auxStep_nonneg t av constChan hnn
    (fun _ _ k _ => Lemmas.Bounds.constChan_nonneg _ k)
  have hTk := Lemmas.AuxJoint.auxStep_nonneg t av copyChan hnn
    (fun _ _ k _ => Lemmas.Bounds.copyChan_nonneg _ k)
  refine le_min (max_le ?_ ?_) (le_min (max_le ?_ ?_) (max_le ?_ ?_))
  · exact Props.C05.cmi_nonneg _ hTc X Y [n]
  · exact lower_imi_directed t av constChan n z hbases hz
      (fun o _ => Lemmas.AuxJoint.constChan_row_sum av.bound hbd _)
      (fun _ _ k _ => Lemmas.Bounds.constChan_nonneg _ k) hlen hnn X Y hX hY
  · exact Props.C05.cmi_nonneg _ hTk X Y [n]
  · exact lower_imi_directed t av copyChan n z hbases hz hcopy
      (fun _ _ k _ => Lemmas.Bounds.copyChan_nonneg _ k) hlen hnn X Y hX hY
  · exact Props.C05.cmi_nonneg _ hT X Y [n]
  · exact lower_imi_directed t av chan n z hbases hz hrow hchan hlen hnn X Y hX hY

/-- Non-vacuity: all hypotheses together on `xorT` with the noisy copy of `Z`. -/
example : max 0 (Comb.eval (Rat.castHom ℝ) (entropyOf (Real.logb 2) xorT) (cmiC [0] [1] []) - Comb.eval (Rat.castHom ℝ) (entropyOf (Real.logb 2) xorT) (cmiC [0] [2] []))
    ≤ min (Comb.eval (Rat.castHom ℝ) (entropyOf (Real.logb 2) (auxStep xorT ⟨[2], 2⟩ constChan)) (cmiC [0] [1] [3]))
        (min (Comb.eval (Rat.castHom ℝ) (entropyOf (Real.logb 2) (auxStep xorT ⟨[2], 2⟩ copyChan)) (cmiC [0] [1] [3]))
          (Comb.eval (Rat.castHom ℝ) (entropyOf (Real.logb 2) (auxStep xorT ⟨[2], 2⟩ noisyChan)) (cmiC [0] [1] [3]))) :=
  imi_bracketed xorT ⟨[2], 2⟩ noisyChan 3 2 (by decide) rfl (by decide) xorT_fit xorT_row xorT_chan
    xorT_len xorT_nonneg [0] [1] (by decide) (by decide)

end Dit.Props.C15Bounds
