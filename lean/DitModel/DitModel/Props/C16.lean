/-
C16 — Join, meet and minimal sufficient statistic of groups of variables
(`dit.algorithms.lattice`, `dit.algorithms.minimal_sufficient_statistic`).

The variable added by `insert_join` determines, and is determined by, the joined groups (its
entropy is their joint entropy); the one added by `insert_meet` is a function of each group
separately and is the finest such function, its cells being the connected components of the
support under "agree on some group"; `mss`/`insert_mss` give a function of `X` whose cells are
exactly the classes of `x` with equal `P(Y|x)` and which keeps `I(X:Y)`. Elementary links of the
chain `K ≤ J ≤ B ≤ F ≤ M ≤ H` of common informations, and: every insertion leaves the joint
distribution of the original variables unchanged.

`rows : List (List σ)` is the list of outcomes; `labelOf classes o` is the symbol of the new
variable at `o`, coded by an injective `code : ℕ → σ`. `EquivOn rel rows`, `Disj`, `Reach`,
`mssRel`, `condP`, `Hmap` are defined in Lemmas/Meet.lean, which holds the helper lemmas.
Entropies are `entropyOf (Real.logb 2)` of tables with real values.
-/
import DitModel.Lemmas.Meet
import DitModel.Props.C11
import Mathlib.Algebra.Field.Rat
import Mathlib.Algebra.Order.Ring.Rat

set_option linter.unusedSectionVars false

namespace Dit.Props.C16
open Dit Dit.Lemmas.Table Dit.Lemmas.Meet Dit.Lemmas.InfoAlg Dit.Lemmas.InfoReal

/-! ## (a) `classesBy` computes the partition into equivalence classes -/

section Partition
variable {σ : Type} [DecidableEq σ] {rel : List σ → List σ → Bool} {rows : List (List σ)}

/-- **`classesBy` is a partition.** When `classOf o = rows.filter (rel o)` for an equivalence
relation `rel` on `rows`, the computed classes cover `rows`, are pairwise disjoint, are
non-empty, consist of rows, and each one is exactly `rows.filter (rel x)` for every member `x`,
in particular for its first member. -/
theorem classes_partition (he : EquivOn rel rows) :
    (∀ o ∈ rows, ∃ c ∈ classesBy (fun o => rows.filter (rel o)) rows, o ∈ c)
    ∧ (classesBy (fun o => rows.filter (rel o)) rows).Pairwise Disj
    ∧ ∀ c ∈ classesBy (fun o => rows.filter (rel o)) rows,
        (∃ x, c.head? = some x ∧ c = rows.filter (rel x))
        ∧ ∀ x ∈ c, x ∈ rows ∧ c = rows.filter (rel x) := by
  refine ⟨fun o ho => classes_cover he ho, classes_disjoint he, fun c hc => ⟨?_, fun x hx =>
    ⟨mem_rows_of_mem_class he hc hx, class_eq_filter_of_mem he hc hx⟩⟩⟩
  cases hcc : c with
  | nil => exact absurd hcc (class_ne_nil he hc)
  | cons x l =>
    exact ⟨x, rfl, hcc ▸ class_eq_filter_of_mem he hc (by rw [hcc]; exact List.mem_cons_self)⟩

/-- **Labels identify classes** (`label_eq_iff`): two rows get the same label iff they are
related; the label of a row is the position of its class. -/
theorem label_eq_iff (he : EquivOn rel rows) {o o' : List σ} (ho : o ∈ rows) (ho' : o' ∈ rows) :
    (labelOf (classesBy (fun o => rows.filter (rel o)) rows) o
        = labelOf (classesBy (fun o => rows.filter (rel o)) rows) o'
      ↔ rel o o' = true)
    ∧ labelOf (classesBy (fun o => rows.filter (rel o)) rows) o
        < (classesBy (fun o => rows.filter (rel o)) rows).length :=
  ⟨Lemmas.Meet.label_eq_iff he ho ho', label_lt he ho⟩

/-- Non-vacuity: the three relations used below are equivalences on any list of rows. -/
example : EquivOn (joinRel [[0], [2]]) [[0, 0, 0], [0, 0, 1], [0, 1, 0], [1, 1, 1]] :=
  joinRel_equivOn _ _
example : EquivOn (reachB (linkRel [[0], [1]]) [[0, 0], [0, 1], [1, 1], [2, 2]])
    [[0, 0], [0, 1], [1, 1], [2, 2]] := meet_equivOn _ _
example (t : Tab (List Nat) Rat) : EquivOn (mssRel t [0] [1]) (keys t) := mss_equivOn _ _ _ _

end Partition

/-! ## (b) Join -/

section Join
variable {σ : Type} [DecidableEq σ]

/-- The join relation is reflexive, symmetric and transitive (on all outcomes). -/
theorem joinRel_equivalence (groups : List (List Nat)) :
    (∀ o : List σ, joinRel groups o o = true)
    ∧ (∀ o o' : List σ, joinRel groups o o' = true → joinRel groups o' o = true)
    ∧ (∀ o o' o'' : List σ, joinRel groups o o' = true → joinRel groups o' o'' = true →
        joinRel groups o o'' = true) :=
  ⟨joinRel_refl groups, fun _ _ h => joinRel_symm groups h,
    fun _ _ _ h h' => joinRel_trans groups h h'⟩

/-- Agreeing on every group is agreeing on the union of the groups (no length condition:
`project` drops out-of-range positions on both sides alike). -/
theorem joinRel_iff_union (groups : List (List Nat)) (o o' : List σ) :
    joinRel groups o o' = true ↔ project groups.flatten o = project groups.flatten o' :=
  joinRel_iff_flatten groups o o'

/-- `joinClasses` is a partition of the rows whose cells are the sets of rows agreeing on all
groups. -/
theorem join_partition (groups : List (List Nat)) (rows : List (List σ)) :
    (∀ o ∈ rows, ∃ c ∈ joinClasses groups rows, o ∈ c)
    ∧ (joinClasses groups rows).Pairwise Disj
    ∧ ∀ c ∈ joinClasses groups rows, c ≠ [] ∧ ∀ x ∈ c, x ∈ rows ∧
        ∀ y, y ∈ c ↔ y ∈ rows ∧ project groups.flatten x = project groups.flatten y := by
  obtain ⟨h1, h2, h3⟩ := classes_partition (joinRel_equivOn groups rows)
  refine ⟨h1, h2, fun c hc => ⟨class_ne_nil (joinRel_equivOn groups rows) hc, fun x hx => ?_⟩⟩
  obtain ⟨hxr, e⟩ := (h3 c hc).2 x hx
  refine ⟨hxr, fun y => ?_⟩
  rw [e, List.mem_filter, joinRel_iff_union]

/-- **Same join label iff same values on the union of the groups** (`join_label_iff`). -/
theorem join_label_iff (groups : List (List Nat)) (rows : List (List σ)) {o o' : List σ}
    (ho : o ∈ rows) (ho' : o' ∈ rows) :
    labelOf (joinClasses groups rows) o = labelOf (joinClasses groups rows) o'
      ↔ project groups.flatten o = project groups.flatten o' := by
  rw [← joinRel_iff_union]
  exact Lemmas.Meet.label_eq_iff (joinRel_equivOn groups rows) ho ho'

example : joinClasses [[0], [2]] [[0, 0, 0], [0, 0, 1], [0, 1, 0], [1, 1, 1]]
    = [[[0, 0, 0], [0, 1, 0]], [[0, 0, 1]], [[1, 1, 1]]] := by decide +kernel
example : [[0, 0, 0], [0, 0, 1], [0, 1, 0], [1, 1, 1]].map
    (labelOf (joinClasses [[0], [2]] [[0, 0, 0], [0, 0, 1], [0, 1, 0], [1, 1, 1]]))
    = [0, 1, 0, 2] := by decide +kernel

end Join

/-! ## (c) Entropy of equivalent and of coarser maps -/

section Entropy
variable {κ κ₁ κ₂ : Type} [DecidableEq κ₁] [DecidableEq κ₂]

/-- **Equivalent maps have equal entropy** (`entropy_of_equivalent_maps`): if `f` and `g`
identify the same pairs of stored outcomes, the laws of `f` and of `g` under the table have the
same entropy. Holds for every real table. -/
theorem entropy_of_equivalent_maps (f : κ → κ₁) (g : κ → κ₂) (t : Tab κ ℝ)
    (h : ∀ k ∈ keys t, ∀ k' ∈ keys t, f k = f k' ↔ g k = g k') :
    entropyVals (Real.logb 2) (vals (pushforward f t))
      = entropyVals (Real.logb 2) (vals (pushforward g t)) :=
  Hmap_equiv f g t h

/-- **A function of a variable has at most its entropy** (`entropy_function_le`): if `f` is
determined by `g` on the stored outcomes, `H(f) ≤ H(g)`. Non-negative values are needed (the
inequality is the non-negativity of a conditional entropy). -/
theorem entropy_function_le (f : κ → κ₁) (g : κ → κ₂) (t : Tab κ ℝ) (hnn : ∀ r ∈ t, 0 ≤ r.2)
    (h : ∀ k ∈ keys t, ∀ k' ∈ keys t, g k = g k' → f k = f k') :
    entropyVals (Real.logb 2) (vals (pushforward f t))
      ≤ entropyVals (Real.logb 2) (vals (pushforward g t)) :=
  Hmap_le_of_function f g t hnn h

/-- Pairing a variable with a function of it does not change the entropy: `H(f, g) = H(g)`, so
`H(f | g) = 0`. With `entropy_of_equivalent_maps` (when also `g` is a function of `f`):
`H(f, g) = H(f) = H(g)`, both conditional entropies vanish. -/
theorem entropy_pair_eq (f : κ → κ₁) (g : κ → κ₂) (t : Tab κ ℝ)
    (h : ∀ k ∈ keys t, ∀ k' ∈ keys t, g k = g k' → f k = f k') :
    entropyVals (Real.logb 2) (vals (pushforward (fun k => (f k, g k)) t))
      = entropyVals (Real.logb 2) (vals (pushforward g t)) :=
  Hmap_pair f g t h

/-- Non-vacuity: parity as a number and as a Boolean are equivalent maps. -/
example : ∀ k ∈ keys ([(0, 1 / 2), (1, 1 / 4), (2, 1 / 4)] : Tab Nat ℝ),
    ∀ k' ∈ keys ([(0, 1 / 2), (1, 1 / 4), (2, 1 / 4)] : Tab Nat ℝ),
      k % 2 = k' % 2 ↔ decide (k % 2 = 0) = decide (k' % 2 = 0) := by decide

/-- Non-vacuity: `f = parity`, `g = id` on a table with non-negative values. -/
example : (∀ r ∈ ([(0, 1 / 2), (1, 1 / 4), (2, 1 / 4)] : Tab Nat ℝ), 0 ≤ r.2)
    ∧ ∀ k ∈ keys ([(0, 1 / 2), (1, 1 / 4), (2, 1 / 4)] : Tab Nat ℝ),
      ∀ k' ∈ keys ([(0, 1 / 2), (1, 1 / 4), (2, 1 / 4)] : Tab Nat ℝ), k = k' → k % 2 = k' % 2 := by
  refine ⟨?_, fun k _ k' _ e => by rw [e]⟩
  intro r hr; simp at hr; rcases hr with rfl | rfl | rfl <;> norm_num

end Entropy

section JoinEntropy
variable {σ : Type} [DecidableEq σ]

/-- **A label equivalent to the values on `U` carries exactly the information of `U`.** For a
table whose outcomes have length `n`, a set `U` of variables and any labelling `ℓ` with
`ℓ o = ℓ o' ↔ project U o = project U o'` on the stored outcomes, appending `ℓ` as variable `n`
gives `H(new) = H(U) = H(U ∪ {new})`, and `H(U)` is the same before and after the insertion:
`H(new | U) = H(U | new) = 0`. -/
theorem equivalent_label_entropy (ℓ : List σ → σ) (U : List Nat) (n : Nat)
    (t : Tab (List σ) ℝ) (hn : ∀ k ∈ keys t, k.length = n) (hU : ∀ i ∈ U, i < n)
    (hℓ : ∀ k ∈ keys t, ∀ k' ∈ keys t, ℓ k = ℓ k' ↔ project U k = project U k') :
    entropyOf (Real.logb 2) (insertRvf (fun o => [ℓ o]) none t) [n]
        = entropyOf (Real.logb 2) t U
    ∧ entropyOf (Real.logb 2) (insertRvf (fun o => [ℓ o]) none t) (U ++ [n])
        = entropyOf (Real.logb 2) t U
    ∧ entropyOf (Real.logb 2) (insertRvf (fun o => [ℓ o]) none t) U
        = entropyOf (Real.logb 2) t U := by
  refine ⟨?_, ?_, entropyOf_old ℓ n t hn U hU⟩
  · rw [entropyOf_new ℓ n t hn, entropyOf_eq_Hmap]
    exact Hmap_equiv _ _ t hℓ
  · rw [entropyOf_old_new ℓ n t hn U hU, entropyOf_eq_Hmap]
    exact Hmap_pair _ _ t (fun k hk k' hk' e => (hℓ k hk k' hk').mpr e)

/-- **The join variable determines and is determined by the joined groups**
(`join_determines`): appending the join label (coded by an injective `code`) to a table whose
outcomes have length `n` gives a variable `n` with `H(join) = H(⋃ groups) = H(⋃ groups, join)`. -/
theorem join_determines (code : Nat → σ) (hcode : Function.Injective code)
    (groups : List (List Nat)) (n : Nat) (t : Tab (List σ) ℝ)
    (hn : ∀ k ∈ keys t, k.length = n) (hg : ∀ g ∈ groups, ∀ i ∈ g, i < n) :
    entropyOf (Real.logb 2)
        (insertRvf (fun o => [code (labelOf (joinClasses groups (keys t)) o)]) none t) [n]
        = entropyOf (Real.logb 2) t groups.flatten
    ∧ entropyOf (Real.logb 2)
        (insertRvf (fun o => [code (labelOf (joinClasses groups (keys t)) o)]) none t)
        (groups.flatten ++ [n])
        = entropyOf (Real.logb 2) t groups.flatten
    ∧ entropyOf (Real.logb 2)
        (insertRvf (fun o => [code (labelOf (joinClasses groups (keys t)) o)]) none t)
        groups.flatten
        = entropyOf (Real.logb 2) t groups.flatten := by
  apply equivalent_label_entropy (fun o => code (labelOf (joinClasses groups (keys t)) o))
    groups.flatten n t hn
  · intro i hi
    obtain ⟨g, hgm, hig⟩ := List.mem_flatten.mp hi
    exact hg g hgm i hig
  · intro k hk k' hk'
    rw [← join_label_iff groups (keys t) hk hk']
    exact hcode.eq_iff

/-- Non-vacuity: an injective coding, a table with outcomes of length 2, groups within range. -/
example : Function.Injective (fun i : Nat => i)
    ∧ (∀ k ∈ keys ([([0, 0], 1 / 2), ([0, 1], 1 / 4), ([1, 1], 1 / 4)] : Tab (List Nat) ℝ),
        k.length = 2)
    ∧ ∀ g ∈ [[0], [1]], ∀ i ∈ g, i < 2 := by
  refine ⟨fun _ _ h => h, ?_, by decide⟩
  intro k hk; simp [keys] at hk; rcases hk with rfl | rfl | rfl <;> rfl

end JoinEntropy

/-! ## (d) Meet: connected components -/

section Meet
variable {σ : Type} [DecidableEq σ]

/-- **`component` computes the connected component** (`component_spec`): for a row `o`, the
members of `component link rows o` are exactly the rows reachable from `o` by `link`-steps through
rows (`Reach` = reflexive–transitive closure). The closure by `rows.length` rounds is complete:
each round that changes the class makes it longer, and it is a sub-list of `rows`. No
assumption on `rows` (repetitions allowed) or on `link`. -/
theorem component_spec (link : List σ → List σ → Bool) (rows : List (List σ)) {o : List σ}
    (ho : o ∈ rows) (x : List σ) :
    x ∈ component link rows o ↔ x ∈ rows ∧ Reach link rows o x :=
  mem_component_iff ho x

/-- For a symmetric `link` (such as `linkRel groups`), reachability is an equivalence relation on
the rows. -/
theorem reach_equivalence (link : List σ → List σ → Bool)
    (hs : ∀ a b, link a b = true → link b a = true) (rows : List (List σ)) :
    (∀ o, Reach link rows o o)
    ∧ (∀ o ∈ rows, ∀ o', Reach link rows o o' → Reach link rows o' o)
    ∧ (∀ o o' o'', Reach link rows o o' → Reach link rows o' o'' → Reach link rows o o'') :=
  ⟨Reach.refl, fun _ ho _ h => Reach.symm hs ho h, fun _ _ _ h h' => h.trans h'⟩

example (groups : List (List Nat)) (a b : List σ) (h : linkRel groups a b = true) :
    linkRel groups b a = true := linkRel_symm groups h

/-- `meetClasses` is a partition of the rows into the connected components of "agree on some
group". -/
theorem meet_partition (groups : List (List Nat)) (rows : List (List σ)) :
    (∀ o ∈ rows, ∃ c ∈ meetClasses groups rows, o ∈ c)
    ∧ (meetClasses groups rows).Pairwise Disj
    ∧ ∀ c ∈ meetClasses groups rows, c ≠ [] ∧ ∀ x ∈ c, x ∈ rows ∧
        ∀ y, y ∈ c ↔ y ∈ rows ∧ Reach (linkRel groups) rows x y := by
  rw [meetClasses_eq]
  have he := meet_equivOn (σ := σ) groups rows
  obtain ⟨h1, h2, h3⟩ := classes_partition he
  refine ⟨h1, h2, fun c hc => ⟨class_ne_nil he hc, fun x hx => ?_⟩⟩
  obtain ⟨hxr, e⟩ := (h3 c hc).2 x hx
  refine ⟨hxr, fun y => ?_⟩
  rw [e, List.mem_filter, reachB_iff]

/-- **Same meet label iff connected** (`meet_label_iff`). -/
theorem meet_label_iff (groups : List (List Nat)) (rows : List (List σ)) {o o' : List σ}
    (ho : o ∈ rows) (ho' : o' ∈ rows) :
    labelOf (meetClasses groups rows) o = labelOf (meetClasses groups rows) o'
      ↔ Reach (linkRel groups) rows o o' := by
  rw [meetClasses_eq, Lemmas.Meet.label_eq_iff (meet_equivOn groups rows) ho ho', reachB_iff]

/-- **The meet is a function of each group separately** (`meet_function_of_each`): two rows that
agree on a single group get the same meet label. -/
theorem meet_function_of_each (groups : List (List Nat)) (rows : List (List σ)) {g : List Nat}
    (hg : g ∈ groups) {o o' : List σ} (ho : o ∈ rows) (ho' : o' ∈ rows)
    (h : project g o = project g o') :
    labelOf (meetClasses groups rows) o = labelOf (meetClasses groups rows) o' :=
  (meet_label_iff groups rows ho ho').mpr
    (Reach.single ho' ((linkRel_iff groups o o').mpr ⟨g, hg, h⟩))

/-- **The meet is the finest common function** (`meet_finest`): any labelling of the rows that
is a function of each group separately is constant on every meet class, i.e. it is a function
`φ` of the meet label. -/
theorem meet_finest {β : Type} (groups : List (List Nat)) (rows : List (List σ)) (ℓ : List σ → β)
    (hℓ : ∀ g ∈ groups, ∀ o ∈ rows, ∀ o' ∈ rows, project g o = project g o' → ℓ o = ℓ o') :
    (∀ o ∈ rows, ∀ o' ∈ rows,
        labelOf (meetClasses groups rows) o = labelOf (meetClasses groups rows) o' → ℓ o = ℓ o')
    ∧ ∃ φ : Nat → β, ∀ o ∈ rows, ℓ o = φ (labelOf (meetClasses groups rows) o) := by
  have h1 : ∀ o ∈ rows, ∀ o' ∈ rows,
      labelOf (meetClasses groups rows) o = labelOf (meetClasses groups rows) o' → ℓ o = ℓ o' :=
    fun o ho o' ho' e =>
      const_of_reach groups rows ℓ hℓ ho ((meet_label_iff groups rows ho ho').mp e)
  refine ⟨h1, fun i => match (meetClasses groups rows)[i]? with
    | some (x :: _) => ℓ x
    | _ => ℓ [], fun o ho => ?_⟩
  obtain ⟨hcov, hdis, hcell⟩ := meet_partition groups rows
  obtain ⟨i, ei, hi, hoi⟩ := labelOf_spec (hcov o ho)
  beta_reduce
  rw [ei, List.getElem?_eq_getElem hi]
  have hmem := List.getElem_mem hi
  cases hc : (meetClasses groups rows)[i] with
  | nil => exact absurd hc (hcell _ hmem).1
  | cons x l =>
    simp only
    have hx : x ∈ (meetClasses groups rows)[i] := by rw [hc]; exact List.mem_cons_self
    obtain ⟨hxr, hxy⟩ := (hcell _ hmem).2 x hx
    exact (const_of_reach groups rows ℓ hℓ hxr ((hxy o).mp hoi).2).symm

/-- Non-vacuity of `meet_function_of_each` and `meet_finest`: two rows agreeing on group `[0]`;
"first symbol halved" is a function of the first symbol and of the second symbol on these rows. -/
example : [0] ∈ [[0], [1]] ∧ project [0] [0, 0] = project [0] [0, 1] := by decide
example : ∀ g ∈ [[0], [1]], ∀ o ∈ [[0, 0], [0, 1], [1, 1], [2, 2], [3, 2]],
    ∀ o' ∈ [[0, 0], [0, 1], [1, 1], [2, 2], [3, 2]],
      project g o = project g o' → (o[0]?.getD 0) / 2 = (o'[0]?.getD 0) / 2 := by decide

example : meetClasses [[0], [1]] [[0, 0], [0, 1], [1, 1], [2, 2], [3, 2]]
    = [[[0, 0], [0, 1], [1, 1]], [[2, 2], [3, 2]]] := by decide +kernel
example : [[0, 0], [0, 1], [1, 1], [2, 2], [3, 2]].map
    (labelOf (meetClasses [[0], [1]] [[0, 0], [0, 1], [1, 1], [2, 2], [3, 2]]))
    = [0, 0, 0, 1, 1] := by decide +kernel
/-- Three rounds are needed here (a path of length 3), within the `rows.length = 4` performed. -/
example : component (linkRel [[0], [1]]) [[0, 0], [3, 2], [1, 1], [0, 1], [1, 2]] [0, 0]
    = [[0, 0], [3, 2], [1, 1], [0, 1], [1, 2]] := by decide +kernel

/-- **The entropy of the meet variable (the Gács–Körner common information `K`) is at most the
entropy of every group** (`k_le_min_entropy`), for a table with non-negative values whose
outcomes have length `n`; the meet label is appended as variable `n`. -/
theorem k_le_min_entropy (code : Nat → σ) (groups : List (List Nat)) (n : Nat)
    (t : Tab (List σ) ℝ) (hnn : ∀ r ∈ t, 0 ≤ r.2) (hn : ∀ k ∈ keys t, k.length = n) :
    ∀ g ∈ groups,
      entropyOf (Real.logb 2)
          (insertRvf (fun o => [code (labelOf (meetClasses groups (keys t)) o)]) none t) [n]
        ≤ entropyOf (Real.logb 2) t g := by
  intro g hg
  rw [entropyOf_new (fun o => code (labelOf (meetClasses groups (keys t)) o)) n t hn,
    entropyOf_eq_Hmap]
  apply Hmap_le_of_function _ _ t hnn
  intro k hk k' hk' e
  rw [meet_function_of_each groups (keys t) hg hk hk' e]

/-- Non-vacuity: a table with non-negative values (one of them zero) and outcomes of length 2. -/
example : (∀ r ∈ ([([0, 0], 1 / 2), ([0, 1], 0), ([1, 1], 1 / 4), ([2, 2], 1 / 4)] :
      Tab (List Nat) ℝ), 0 ≤ r.2)
    ∧ ∀ k ∈ keys ([([0, 0], 1 / 2), ([0, 1], 0), ([1, 1], 1 / 4), ([2, 2], 1 / 4)] :
      Tab (List Nat) ℝ), k.length = 2 := by
  refine ⟨?_, by decide⟩
  intro r hr; simp at hr; rcases hr with rfl | rfl | rfl | rfl <;> norm_num

end Meet

/-! ## (e) Minimal sufficient statistic -/

section Mss
variable {σ α : Type} [DecidableEq σ] [DecidableEq α] [Field α]

/-- The conditional-law table tabulates `P(about = y | rvs = values in o)`
(`condP t rvs about o y`, the quotient of two event weights; `0` when `P(rvs-values) = 0`), and
lists each `y` once. -/
theorem mss_cond_law (t : Tab (List σ) α) (rvs about : List Nat) (o y : List σ) :
    lookupD 0 (condLawAt t rvs about o) y
        = wtBy (fun k => project about k = y ∧ project rvs k = project rvs o) t
          / wtBy (fun k => project rvs k = project rvs o) t
    ∧ (keys (condLawAt t rvs about o)).Nodup :=
  ⟨lookupD_condLawAt t rvs about o y, condLawAt_keys_nodup t rvs about o⟩

/-- "Equal conditional laws" (`sameLaw` of the `condLawAt` tables) is an equivalence relation:
it is equality of the functions `y ↦ P(y | x)`. -/
theorem mss_rel_equivalence (t : Tab (List σ) α) (rvs about : List Nat) :
    (∀ o o', sameLaw (condLawAt t rvs about o) (condLawAt t rvs about o') = true
        ↔ ∀ y, condP t rvs about o y = condP t rvs about o' y)
    ∧ (∀ o, sameLaw (condLawAt t rvs about o) (condLawAt t rvs about o) = true)
    ∧ (∀ o o', sameLaw (condLawAt t rvs about o) (condLawAt t rvs about o') = true →
        sameLaw (condLawAt t rvs about o') (condLawAt t rvs about o) = true)
    ∧ (∀ o o' o'', sameLaw (condLawAt t rvs about o) (condLawAt t rvs about o') = true →
        sameLaw (condLawAt t rvs about o') (condLawAt t rvs about o'') = true →
        sameLaw (condLawAt t rvs about o) (condLawAt t rvs about o'') = true) := by
  refine ⟨mssRel_iff t rvs about, ?_, ?_, ?_⟩
  · intro o; exact (mssRel_iff t rvs about o o).mpr (fun _ => rfl)
  · intro o o' h
    exact (mssRel_iff t rvs about o' o).mpr (fun y => ((mssRel_iff t rvs about o o').mp h y).symm)
  · intro o o' o'' h h'
    exact (mssRel_iff t rvs about o o'').mpr (fun y =>
      ((mssRel_iff t rvs about o o').mp h y).trans ((mssRel_iff t rvs about o' o'').mp h' y))

/-- **The statistic is a function of `X`** (`mss_function_of_X`): stored outcomes with the same
`rvs`-values get the same label. -/
theorem mss_function_of_X (t : Tab (List σ) α) (rvs about : List Nat) {o o' : List σ}
    (ho : o ∈ keys t) (ho' : o' ∈ keys t) (h : project rvs o = project rvs o') :
    labelOf (mssClasses t rvs about) o = labelOf (mssClasses t rvs about) o' := by
  rw [mssClasses_eq, Lemmas.Meet.label_eq_iff (mss_equivOn t rvs about (keys t)) ho ho']
  exact mssRel_of_project_eq t rvs about h

/-- **The cells are exactly the classes of `x` with equal `P(Y|x)`** (`mss_classes`): two stored
outcomes get the same label iff their `rvs`-values induce the same conditional law of `about`;
and `mssClasses` is a partition of the stored outcomes. -/
theorem mss_classes (t : Tab (List σ) α) (rvs about : List Nat) :
    (∀ o ∈ keys t, ∀ o' ∈ keys t,
      (labelOf (mssClasses t rvs about) o = labelOf (mssClasses t rvs about) o'
        ↔ ∀ y, condP t rvs about o y = condP t rvs about o' y))
    ∧ (∀ o ∈ keys t, ∃ c ∈ mssClasses t rvs about, o ∈ c)
    ∧ (mssClasses t rvs about).Pairwise Disj
    ∧ ∀ c ∈ mssClasses t rvs about, c ≠ [] ∧ ∀ x ∈ c, x ∈ keys t ∧
        ∀ z, z ∈ c ↔ z ∈ keys t ∧ ∀ y, condP t rvs about x y = condP t rvs about z y := by
  have he := mss_equivOn t rvs about (keys t)
  rw [mssClasses_eq]
  obtain ⟨h1, h2, h3⟩ := classes_partition he
  refine ⟨fun o ho o' ho' => ?_, h1, h2, fun c hc => ⟨class_ne_nil he hc, fun x hx => ?_⟩⟩
  · rw [Lemmas.Meet.label_eq_iff he ho ho', mssRel_iff]
  · obtain ⟨hxr, e⟩ := (h3 c hc).2 x hx
    refine ⟨hxr, fun z => ?_⟩
    rw [e, List.mem_filter, mssRel_iff]

/-- An mss example over `ℚ`: `x = 0` and `x = 1` have the uniform conditional law of `y`,
`x = 2` has a point mass. -/
example : mssClasses ([([0, 0], 1 / 8), ([0, 1], 1 / 8), ([1, 0], 1 / 4), ([1, 1], 1 / 4),
      ([2, 0], 1 / 4)] : Tab (List Nat) Rat) [0] [1]
    = [[[0, 0], [0, 1], [1, 0], [1, 1]], [[2, 0]]] := by decide +kernel
example : condLawAt ([([0, 0], 1 / 8), ([0, 1], 1 / 8), ([1, 0], 1 / 4), ([1, 1], 1 / 4),
      ([2, 0], 1 / 4)] : Tab (List Nat) Rat) [0] [1] [1, 1] = [([0], 1 / 2), ([1], 1 / 2)] := by
  decide +kernel

end Mss

section MssReal
variable {σ : Type} [DecidableEq σ]

/-- **The minimal sufficient statistic keeps the mutual information** (`mss_preserves_mi`): for
a table with non-negative values whose outcomes have length `n`, appending the mss label of
`rvs` about `about` as variable `n` gives `I(label : about) = I(rvs : about)`, both written as
`H(A) + H(B) − H(A ∪ B)`. (Sufficiency: `P(y | x) = P(y | label(x))`.) The positions in `rvs`
and `about` must be old variables (`< n`). -/
theorem mss_preserves_mi (code : Nat → σ) (hcode : Function.Injective code)
    (t : Tab (List σ) ℝ) (hnn : ∀ r ∈ t, 0 ≤ r.2) (n : Nat) (hn : ∀ k ∈ keys t, k.length = n)
    (rvs about : List Nat) (hr : ∀ i ∈ rvs, i < n) (ha : ∀ i ∈ about, i < n) :
    entropyOf (Real.logb 2)
        (insertRvf (fun o => [code (labelOf (mssClasses t rvs about) o)]) none t) [n]
      + entropyOf (Real.logb 2)
        (insertRvf (fun o => [code (labelOf (mssClasses t rvs about) o)]) none t) about
      - entropyOf (Real.logb 2)
        (insertRvf (fun o => [code (labelOf (mssClasses t rvs about) o)]) none t) (about ++ [n])
    = entropyOf (Real.logb 2) t rvs + entropyOf (Real.logb 2) t about
      - entropyOf (Real.logb 2) t (rvs ++ about) := by
  have e1 := entropyOf_new (fun o => code (labelOf (mssClasses t rvs about) o)) n t hn
  have e2 := entropyOf_old (fun o => code (labelOf (mssClasses t rvs about) o)) n t hn about ha
  have e3 := entropyOf_old_new (fun o => code (labelOf (mssClasses t rvs about) o)) n t hn
    about ha
  beta_reduce at e1 e2 e3
  rw [e1, e2, e3]
  have hsuff := Hmap_sufficient (project rvs) (project about)
    (fun o => code (labelOf (mssClasses t rvs about) o)) t hnn
    (fun k hk k' hk' e => by rw [mss_function_of_X t rvs about hk hk' e])
    (fun k hk k' hk' e yv => by
      have e' := hcode e
      exact ((mss_classes t rvs about).1 k hk k' hk').mp e' yv)
  have hpair : entropyOf (Real.logb 2) t (rvs ++ about)
      = Hmap (fun k => (project rvs k, project about k)) t := by
    rw [entropyOf_eq_Hmap]
    apply Hmap_equiv
    intro k hk k' hk'
    rw [Lemmas.Constructors.project_append, Lemmas.Constructors.project_append]
    have hlen : (project rvs k).length = (project rvs k').length := by
      rw [length_project (by rw [hn k hk]; exact hr),
        length_project (by rw [hn k' hk']; exact hr)]
    constructor
    · intro e
      obtain ⟨a, b⟩ := List.append_inj e hlen
      rw [a, b]
    · intro e
      obtain ⟨a, b⟩ := Prod.mk.inj e
      rw [a, b]
  rw [hpair, entropyOf_eq_Hmap t rvs, entropyOf_eq_Hmap t about]
  linarith

/-- Non-vacuity: the hypotheses on a concrete table (`rvs = [0]`, `about = [1]`, `n = 2`). -/
example : Function.Injective (fun i : Nat => i)
    ∧ (∀ r ∈ ([([0, 0], 1 / 8), ([0, 1], 1 / 8), ([1, 0], 1 / 4), ([1, 1], 1 / 4),
        ([2, 0], 1 / 4)] : Tab (List Nat) ℝ), 0 ≤ r.2)
    ∧ (∀ k ∈ keys ([([0, 0], 1 / 8), ([0, 1], 1 / 8), ([1, 0], 1 / 4), ([1, 1], 1 / 4),
        ([2, 0], 1 / 4)] : Tab (List Nat) ℝ), k.length = 2)
    ∧ (∀ i ∈ [0], i < 2) ∧ ∀ i ∈ [1], i < 2 := by
  refine ⟨fun _ _ h => h, ?_, by decide, by decide, by decide⟩
  intro r hr; simp at hr; rcases hr with rfl | rfl | rfl | rfl | rfl <;> norm_num

end MssReal

/-! ## (f) Every insertion preserves the joint distribution of the old variables -/

section Preserve
variable {σ α : Type} [DecidableEq σ] [AddCommMonoid α]

/-- **Appending a label variable leaves the old variables' joint distribution unchanged**
(`insert_preserves_old`, append): marginalising onto the first `n` positions gives back every
event probability, and (for a table listing each outcome once) every stored value. `f` is any
function producing the new symbols — the join, meet or mss label. -/
theorem insert_preserves_old_append (f : List σ → List σ) (n : Nat) (t : Tab (List σ) α)
    (hn : ∀ k ∈ keys t, k.length = n) :
    (∀ (p : List σ → Prop) [DecidablePred p],
      wtBy p (pushforward (project (List.range n)) (insertRvf f none t)) = wtBy p t)
    ∧ ((keys t).Nodup → ∀ o,
      lookupD 0 (pushforward (project (List.range n)) (insertRvf f none t)) o = lookupD 0 t o) := by
  refine ⟨fun p _ => C11.insertRvf_append_old_marginal p f n t hn, fun hnd o => ?_⟩
  rw [lookupD_eq_wtBy (keys_pushforward_nodup _ _), lookupD_eq_wtBy hnd]
  exact C11.insertRvf_append_old_marginal _ f n t hn

/-- **Inserting a label variable at position `i ≤ n`** leaves the old variables (now at positions
`0..i-1` and `i+m..n+m-1`) with their joint distribution (`insert_preserves_old`, insert). -/
theorem insert_preserves_old_insert (f : List σ → List σ) (i n m : Nat) (t : Tab (List σ) α)
    (hi : i ≤ n) (hn : ∀ k ∈ keys t, k.length = n) (hm : ∀ k ∈ keys t, (f k).length = m) :
    (∀ (p : List σ → Prop) [DecidablePred p],
      wtBy p (pushforward (project (List.range i ++ List.range' (i + m) (n - i)))
        (insertRvf f (some i) t)) = wtBy p t)
    ∧ ((keys t).Nodup → ∀ o,
      lookupD 0 (pushforward (project (List.range i ++ List.range' (i + m) (n - i)))
        (insertRvf f (some i) t)) o = lookupD 0 t o) := by
  refine ⟨fun p _ => C11.insertRvf_insert_old_marginal p f i n m t hi hn hm, fun hnd o => ?_⟩
  rw [lookupD_eq_wtBy (keys_pushforward_nodup _ _), lookupD_eq_wtBy hnd]
  exact C11.insertRvf_insert_old_marginal _ f i n m t hi hn hm

/-- Non-vacuity: the meet label of `[[0],[1]]` appended / inserted at 1 on a concrete table. -/
example : insertRvf (fun o => [labelOf (meetClasses [[0], [1]]
      [[0, 0], [0, 1], [1, 1], [2, 2]]) o]) none
      ([([0, 0], 1 / 4), ([0, 1], 1 / 4), ([1, 1], 1 / 4), ([2, 2], 1 / 4)] : Tab (List Nat) Rat)
    = [([0, 0, 0], 1 / 4), ([0, 1, 0], 1 / 4), ([1, 1, 0], 1 / 4), ([2, 2, 1], 1 / 4)] := by
  decide +kernel
example : pushforward (project (List.range 1 ++ List.range' (1 + 1) (2 - 1)))
      (insertRvf (fun o => [labelOf (meetClasses [[0], [1]]
        [[0, 0], [0, 1], [1, 1], [2, 2]]) o]) (some 1)
      ([([0, 0], 1 / 4), ([0, 1], 1 / 4), ([1, 1], 1 / 4), ([2, 2], 1 / 4)] : Tab (List Nat) Rat))
    = [([0, 0], 1 / 4), ([0, 1], 1 / 4), ([1, 1], 1 / 4), ([2, 2], 1 / 4)] := by decide +kernel

end Preserve

/-! ## (g) Elementary links of the chain `K ≤ J ≤ B ≤ F ≤ M ≤ H` -/

section ChainLinks
variable {σ : Type} [DecidableEq σ]

/-- **`M ≤ H`** (`m_le_h`): the entropy of any variable that is a function of the outcome — in
particular the variable built from minimal sufficient statistics, whose entropy is `M`, and every
label of this file — is at most the joint entropy of all `n` variables. Table with non-negative
values, outcomes of length `n`, the new variable appended as variable `n`. -/
theorem m_le_h (ℓ : List σ → σ) (n : Nat) (t : Tab (List σ) ℝ) (hnn : ∀ r ∈ t, 0 ≤ r.2)
    (hn : ∀ k ∈ keys t, k.length = n) :
    entropyOf (Real.logb 2) (insertRvf (fun o => [ℓ o]) none t) [n]
      ≤ entropyOf (Real.logb 2) t (List.range n) := by
  rw [entropyOf_new ℓ n t hn, entropyOf_eq_Hmap]
  apply Hmap_le_of_function _ _ t hnn
  intro k hk k' hk' e
  rw [Lemmas.Constructors.project_range, Lemmas.Constructors.project_range,
    List.take_of_length_le (by rw [hn k hk]), List.take_of_length_le (by rw [hn k' hk'])] at e
  rw [e]

/-- **`K ≤ H`** (`k_le_h`): the entropy of the meet variable is at most the joint entropy. -/
theorem k_le_h (code : Nat → σ) (groups : List (List Nat)) (n : Nat) (t : Tab (List σ) ℝ)
    (hnn : ∀ r ∈ t, 0 ≤ r.2) (hn : ∀ k ∈ keys t, k.length = n) :
    entropyOf (Real.logb 2)
        (insertRvf (fun o => [code (labelOf (meetClasses groups (keys t)) o)]) none t) [n]
      ≤ entropyOf (Real.logb 2) t (List.range n) :=
  m_le_h (fun o => code (labelOf (meetClasses groups (keys t)) o)) n t hnn hn

/-- **`B ≤ F`-type link** (`b_le_f`): if a set of variables `W` of the table renders the groups
conditionally independent — every group is independent of the other groups given `W`,
`H(Xᵢ | X₋ᵢ ∪ W) = H(Xᵢ | W)` — then the dual total correlation of the groups is at most `H(W)`
(`F` is the least such `H(W)`). Table with non-negative values and total mass 1; the groups may
be arbitrary. `Hc H X Z = H(X ∪ Z) − H(Z)` is the conditional entropy (Lemmas/InfoAlg.lean). -/
theorem b_le_f (t : Tab (List σ) ℝ) (hnn : ∀ r ∈ t, 0 ≤ r.2) (hmass : (t.map (·.2)).sum = 1)
    (groups : List VSet) (W : VSet)
    (hCI : ∀ g ∈ groups,
      Hc (entropyOf (Real.logb 2) t) g (vunion (vdiff (vunions groups) (vnorm g)) W)
        = Hc (entropyOf (Real.logb 2) t) g W) :
    Comb.eval (Rat.castHom ℝ) (entropyOf (Real.logb 2) t) (dtcC groups [])
      ≤ entropyOf (Real.logb 2) t W := by
  rw [eval_dtcC, eval_residualC]
  refine (dtc_le_of_cond_indep (entropy_Submod t hnn) groups W hCI).trans (le_of_eq ?_)
  unfold Hc
  rw [vunion_nil_right, ← entropyOf_vnorm]
  show entropyOf (Real.logb 2) t W - entropyOf (Real.logb 2) t [] = _
  rw [entropyOf_nil t hmass, sub_zero]

/-- Non-vacuity of `b_le_f`: three copies of a fair bit; the third renders the first two
conditionally independent. -/
example :
    (∀ r ∈ ([([0, 0, 0], 1 / 2), ([1, 1, 1], 1 / 2)] : Tab (List Nat) ℝ), 0 ≤ r.2)
    ∧ (([([0, 0, 0], 1 / 2), ([1, 1, 1], 1 / 2)] : Tab (List Nat) ℝ).map (·.2)).sum = 1
    ∧ ∀ g ∈ [[0], [1]],
      Hc (entropyOf (Real.logb 2) ([([0, 0, 0], 1 / 2), ([1, 1, 1], 1 / 2)] : Tab (List Nat) ℝ)) g
          (vunion (vdiff (vunions [[0], [1]]) (vnorm g)) [2])
        = Hc (entropyOf (Real.logb 2)
            ([([0, 0, 0], 1 / 2), ([1, 1, 1], 1 / 2)] : Tab (List Nat) ℝ)) g [2] := by
  refine ⟨?_, by norm_num, ?_⟩
  · intro r hr; simp at hr; rcases hr with rfl | rfl <;> norm_num
  · have key : ∀ X ∈ [[0, 1, 2], [1, 2], [0, 2]],
        entropyOf (Real.logb 2) ([([0, 0, 0], 1 / 2), ([1, 1, 1], 1 / 2)] : Tab (List Nat) ℝ) X
          = entropyOf (Real.logb 2)
              ([([0, 0, 0], 1 / 2), ([1, 1, 1], 1 / 2)] : Tab (List Nat) ℝ) [2] := by
      intro X hX
      apply entropy_of_equivalent_maps
      revert X
      decide
    intro g hg
    have e1 : vunion [0] (vunion (vdiff (vunions [[0], [1]]) (vnorm [0])) [2]) = [0, 1, 2] := by
      decide
    have e2 : vunion [1] (vunion (vdiff (vunions [[0], [1]]) (vnorm [1])) [2]) = [0, 1, 2] := by
      decide
    have e3 : vnorm (vunion (vdiff (vunions [[0], [1]]) (vnorm [0])) [2]) = [1, 2] := by decide
    have e4 : vnorm (vunion (vdiff (vunions [[0], [1]]) (vnorm [1])) [2]) = [0, 2] := by decide
    have e5 : vunion [0] [2] = [0, 2] := by decide
    have e6 : vunion [1] [2] = [1, 2] := by decide
    have e7 : vnorm [2] = [2] := by decide
    simp only [List.mem_cons, List.not_mem_nil, or_false] at hg
    rcases hg with rfl | rfl
    · unfold Hc
      rw [e1, e3, e5, e7, key [0, 1, 2] (by simp), key [1, 2] (by simp), key [0, 2] (by simp)]
    · unfold Hc
      rw [e2, e4, e6, e7, key [0, 1, 2] (by simp), key [1, 2] (by simp), key [0, 2] (by simp)]
end ChainLinks

end Dit.Props.C16
