/-
C08 — Every information measure depends only on the joint probabilities and on which variables
are addressed: its value is unchanged when the symbols of any variable are bijectively relabelled,
outcomes are given as strings or tuples, the input order of outcomes is permuted, zero-probability
outcomes are added, stored or trimmed, variables are addressed by name instead of index, or the
variables are permuted together with the arguments. Quantities that are symmetric in their groups
are unchanged by reordering the groups.

The transformations are those of `Core/Transform.lean` (`relabelTab`, `permuteTab`, `padZeros`,
row permutations `List.Perm`, trimming `List.filter`). Relabelling may change the symbol type
(`σ → τ`: strings vs. tuples, names vs. indices are instances). The entropy statements hold over
any ring `α` with decidable equality and for any function `log : α → α` (at `α := ℝ`,
`log := Real.logb 2` they are about the very terms of C04/C05); the divergence statements are at
`ℝ` like C06; the group symmetries are about `Comb.eval cast H` for an arbitrary set function
`H` into a commutative ring, like C05. Helper lemmas: Lemmas/Transform.lean.
-/
import DitModel.Lemmas.Transform
import DitModel.Props.C04
import DitModel.Props.C05
import DitModel.Props.C06

set_option linter.unusedSectionVars false

namespace Dit.Props.C08
open Dit Dit.Lemmas.Transform
open Dit.Lemmas.InfoAlg (Hc)

/-! ## Projection and relabelling -/

section Relabel
variable {σ τ : Type}

/-- **Projection commutes with relabelling.** Selecting the (valid) positions `X` of a relabelled
outcome gives the selected symbols, each relabelled with the map of its own position. -/
theorem project_relabel (ρ : Nat → σ → τ) (X : List Nat) (o : List σ)
    (h : ∀ i ∈ X, i < o.length) :
    project X (relabelOutcome ρ o)
      = (List.zip X (project X o)).map (fun p => ρ p.1 p.2) :=
  Lemmas.Transform.project_relabel ρ X o h

example : ∀ i ∈ [2, 0], i < ["a", "b", "c"].length := by decide

/-- **Relabelling separates exactly what the projection separates.** With an injective symbol
map for every variable, two outcomes (of any lengths) agree on `X` after relabelling iff they
agree on `X` before. Injectivity is needed: a constant map merges everything. -/
theorem relabel_project_inj (ρ : Nat → σ → τ) (hρ : ∀ i, Function.Injective (ρ i))
    (X : List Nat) (o o' : List σ) :
    project X (relabelOutcome ρ o) = project X (relabelOutcome ρ o')
      ↔ project X o = project X o' :=
  Lemmas.Transform.relabel_project_inj ρ hρ X o o'

/-- Relabelling with injective symbol maps is injective on whole outcomes. -/
theorem relabelOutcome_injective (ρ : Nat → σ → τ) (hρ : ∀ i, Function.Injective (ρ i)) :
    Function.Injective (relabelOutcome ρ) :=
  Lemmas.Transform.relabelOutcome_injective ρ hρ

/-- A per-variable relabelling of bits by strings; variable 0 is reversed (`true ↦ "0"`). -/
example : ∀ i, Function.Injective
    ((fun (i : Nat) (b : Bool) => if (decide (i = 0) == b) then "0" else "1") i) := by
  intro i a b h
  by_cases hi : i = 0 <;> cases a <;> cases b <;> simp_all

end Relabel

/-! ## Marginals under the four transformations -/

section Marginal
variable {κ κ' κ'' α : Type} [DecidableEq κ'] [DecidableEq κ''] [AddCommMonoid α]

/-- **Marginals along equivalent key maps.** If two key maps, into possibly different key types,
identify the same pairs of rows of `t`, the two marginals store the same values in the same
order (first-appearance order and fibre sums coincide); only the keys differ. -/
theorem vals_pushforward_of_equiv (f : κ → κ') (g : κ → κ'') (t : Tab κ α)
    (h : ∀ r ∈ t, ∀ r' ∈ t, f r.1 = f r'.1 ↔ g r.1 = g r'.1) :
    vals (pushforward f t) = vals (pushforward g t) :=
  Lemmas.Transform.vals_pushforward_of_equiv f g t h

/-- **Row order.** Storing the rows in another order permutes the values of every marginal. -/
theorem marginal_perm_rows (f : κ → κ') {t t' : Tab κ α} (h : t'.Perm t) :
    (vals (pushforward f t')).Perm (vals (pushforward f t)) :=
  vals_pushforward_perm f h

/-- **Zero padding, explicitly.** Appending rows of value zero leaves the marginal as it was and
appends one zero per image that was not there before (an existing image gets `0` added). -/
theorem marginal_append_zero (f : κ → κ') (t zs : Tab κ α) (hz : ∀ r ∈ zs, r.2 = 0) :
    vals (pushforward f (t ++ zs))
      = vals (pushforward f t)
        ++ ((dedup (zs.map (fun r => f r.1))).filter
            (fun x => decide (x ∉ t.map (fun r => f r.1)))).map (fun _ => 0) :=
  vals_pushforward_append_zero f t zs hz

variable {σ τ : Type} [DecidableEq σ] [DecidableEq τ]

/-- **Marginal of a relabelled table**: the same values in the same order (the keys are the
relabelled keys). Holds for ragged tables and any index list. -/
theorem pushforward_relabel (ρ : Nat → σ → τ) (hρ : ∀ i, Function.Injective (ρ i))
    (t : Tab (List σ) α) (X : List Nat) :
    vals (pushforward (project X) (relabelTab ρ t)) = vals (pushforward (project X) t) :=
  vals_pushforward_relabel ρ hρ t X

/-- **Rearranged outcome.** After rearranging an outcome by `π` (valid indices), the components
`X` sit at the positions `X.map (newIndex π)`; indices of `X` must be in `π` or out of range. -/
theorem project_permuteVars (π X : List Nat) (o : List σ) (hπ : ∀ i ∈ π, i < o.length)
    (hX : ∀ x ∈ X, x ∈ π ∨ o.length ≤ x) :
    project (X.map (newIndex π)) (permuteOutcome π o) = project X o :=
  project_permuteOutcome π X o hπ hX

/-- **Marginal of a table with permuted variables** on the renamed indices: literally the same
table (keys and values). The common length `n` of the stored outcomes is needed because
`project` drops out-of-range indices, which would shift positions. -/
theorem marginal_permuteVars (π : List Nat) (n : Nat) (t : Tab (List σ) α)
    (hlen : ∀ r ∈ t, r.1.length = n) (hπ : π.Perm (List.range n)) (X : List Nat) :
    pushforward (project (X.map (newIndex π))) (permuteTab π t) = pushforward (project X) t :=
  pushforward_permuteTab π X n t hlen (perm_range_valid hπ).1
    (fun x _ => (perm_range_valid hπ).2 x)

end Marginal

/-! ## Entropy of any subset of variables -/

section Entropy
variable {α : Type} [Ring α] [DecidableEq α] {σ τ : Type} [DecidableEq σ] [DecidableEq τ]

/-- **Relabelling.** Bijectively (injectively) relabelling the symbols of every variable — also
into another symbol type, e.g. characters of a string into entries of a tuple or names — does
not change the entropy of any subset of variables. -/
theorem entropyOf_relabel (log : α → α) (ρ : Nat → σ → τ) (hρ : ∀ i, Function.Injective (ρ i))
    (t : Tab (List σ) α) (X : List Nat) :
    entropyOf log (relabelTab ρ t) X = entropyOf log t X :=
  Lemmas.Transform.entropyOf_relabel log ρ hρ t X

/-- Sharper form of `entropyOf_relabel`: each `ρ i` (`i ∈ X`) need only be injective on the
symbols stored at position `i`. -/
theorem entropyOf_relabel_on (log : α → α) (ρ : Nat → σ → τ) (t : Tab (List σ) α) (X : List Nat)
    (hρ : ∀ i ∈ X, ∀ r ∈ t, ∀ r' ∈ t, ∀ s s',
      r.1[i]? = some s → r'.1[i]? = some s' → ρ i s = ρ i s' → s = s') :
    entropyOf log (relabelTab ρ t) X = entropyOf log t X :=
  Lemmas.Transform.entropyOf_relabel_on log ρ t X hρ

/-- **Input order.** The entropy of any subset of variables does not depend on the order in
which the outcomes are stored (keys may even repeat). -/
theorem entropyOf_perm_rows (log : α → α) {t t' : Tab (List σ) α} (h : t'.Perm t)
    (X : List Nat) : entropyOf log t' X = entropyOf log t X :=
  Lemmas.Transform.entropyOf_perm_rows log h X

/-- **Adding zero-probability outcomes** (`make_dense`, a larger sample space) changes no
entropy. -/
theorem entropyOf_padZeros (log : α → α) (extra : List (List σ)) (t : Tab (List σ) α)
    (X : List Nat) : entropyOf log (padZeros extra t) X = entropyOf log t X :=
  Lemmas.Transform.entropyOf_padZeros log extra t X

/-- The same for arbitrary appended rows of value zero (also for labels already stored). -/
theorem entropyOf_append_zero (log : α → α) (t zs : Tab (List σ) α) (hz : ∀ r ∈ zs, r.2 = 0)
    (X : List Nat) : entropyOf log (t ++ zs) X = entropyOf log t X :=
  Lemmas.Transform.entropyOf_append_zero log t zs hz X

/-- **Trimming** (`make_sparse`): dropping the stored rows of value zero changes no entropy. -/
theorem entropyOf_trim (log : α → α) (t : Tab (List σ) α) (X : List Nat) :
    entropyOf log (t.filter (fun r => decide (r.2 ≠ 0))) X = entropyOf log t X :=
  Lemmas.Transform.entropyOf_trim log t X

/-- **Permuting the variables together with the arguments.** For a permutation `π` of
`range n` (new variable `i` is old variable `π[i]`) and a table whose outcomes all have length
`n`, the entropy of the renamed index list in the rearranged table is the entropy of the original
index list in the original table — for every index list `X` (out-of-range indices are dropped on
both sides). -/
theorem entropyOf_permuteVars (log : α → α) (π : List Nat) (n : Nat) (t : Tab (List σ) α)
    (hlen : ∀ r ∈ t, r.1.length = n) (hπ : π.Perm (List.range n)) (X : List Nat) :
    entropyOf log (permuteTab π t) (X.map (newIndex π)) = entropyOf log t X :=
  Lemmas.Transform.entropyOf_permuteVars log π n t hlen hπ X

/-- More generally `π` may be any list of valid indices (a selection with repetitions), as long
as the addressed variables are selected (or out of range). -/
theorem entropyOf_permuteVars_gen (log : α → α) (π X : List Nat) (n : Nat) (t : Tab (List σ) α)
    (hlen : ∀ r ∈ t, r.1.length = n) (hπ : ∀ i ∈ π, i < n) (hX : ∀ x ∈ X, x ∈ π ∨ n ≤ x) :
    entropyOf log (permuteTab π t) (X.map (newIndex π)) = entropyOf log t X :=
  Lemmas.Transform.entropyOf_permuteVars_gen log π X n t hlen hπ hX

/-! ## Every entropy combination -/

/-- **`Comb.eval` is extensional** in the set function, on the sets occurring in the
combination. -/
theorem eval_congr {β : Type} [Zero β] [Add β] [Mul β] (cast : Rat → β) (H₁ H₂ : VSet → β)
    (c : Comb) (h : ∀ r ∈ c, H₁ r.2 = H₂ r.2) : Comb.eval cast H₁ c = Comb.eval cast H₂ c :=
  Lemmas.Transform.eval_congr cast H₁ H₂ c h

/-- **Invariance of every measure, abstractly.** If a change of representation `t ↦ t'` with a
renaming `ren` of index sets preserves all subset entropies, it preserves the value of EVERY
entropy combination: co-information, total correlation, dual total correlation, CAEKL candidates,
O-information, TSE complexity, cohesion, residual entropy, (conditional) mutual information,
conditional entropy, the atoms and profiles of C18. -/
theorem measure_invariant (cast : Rat → α) (log : α → α) (t : Tab (List σ) α)
    (t' : Tab (List τ) α) (ren : VSet → VSet)
    (h : ∀ S, entropyOf log t' (ren S) = entropyOf log t S) (c : Comb) :
    Comb.eval cast (fun S => entropyOf log t' (ren S)) c
      = Comb.eval cast (fun S => entropyOf log t S) c :=
  Lemmas.Transform.eval_congr cast _ _ c (fun r _ => h r.2)

/-- Every measure is invariant under relabelling of the symbols. -/
theorem measure_invariant_relabel (cast : Rat → α) (log : α → α) (ρ : Nat → σ → τ)
    (hρ : ∀ i, Function.Injective (ρ i)) (t : Tab (List σ) α) (c : Comb) :
    Comb.eval cast (fun S => entropyOf log (relabelTab ρ t) S) c
      = Comb.eval cast (fun S => entropyOf log t S) c :=
  measure_invariant cast log t (relabelTab ρ t) (fun S => S)
    (Lemmas.Transform.entropyOf_relabel log ρ hρ t) c

/-- Every measure is invariant under the stored order of the outcomes. -/
theorem measure_invariant_perm_rows (cast : Rat → α) (log : α → α) {t t' : Tab (List σ) α}
    (h : t'.Perm t) (c : Comb) :
    Comb.eval cast (fun S => entropyOf log t' S) c
      = Comb.eval cast (fun S => entropyOf log t S) c :=
  measure_invariant cast log t t' (fun S => S) (Lemmas.Transform.entropyOf_perm_rows log h) c

/-- Every measure is invariant under adding zero-probability outcomes. -/
theorem measure_invariant_padZeros (cast : Rat → α) (log : α → α) (extra : List (List σ))
    (t : Tab (List σ) α) (c : Comb) :
    Comb.eval cast (fun S => entropyOf log (padZeros extra t) S) c
      = Comb.eval cast (fun S => entropyOf log t S) c :=
  measure_invariant cast log t (padZeros extra t) (fun S => S)
    (Lemmas.Transform.entropyOf_padZeros log extra t) c

/-- Every measure is invariant under trimming the stored zeros. -/
theorem measure_invariant_trim (cast : Rat → α) (log : α → α) (t : Tab (List σ) α) (c : Comb) :
    Comb.eval cast (fun S => entropyOf log (t.filter (fun r => decide (r.2 ≠ 0))) S) c
      = Comb.eval cast (fun S => entropyOf log t S) c :=
  measure_invariant cast log t _ (fun S => S) (Lemmas.Transform.entropyOf_trim log t) c

/-- Every measure is invariant under permuting the variables together with the arguments: the
combination evaluated on the rearranged table through the renaming `S ↦ S.map (newIndex π)`
(no re-sorting needed) has the value of the combination on the original table. -/
theorem measure_invariant_permuteVars (cast : Rat → α) (log : α → α) (π : List Nat) (n : Nat)
    (t : Tab (List σ) α) (hlen : ∀ r ∈ t, r.1.length = n) (hπ : π.Perm (List.range n))
    (c : Comb) :
    Comb.eval cast (fun S => entropyOf log (permuteTab π t) (S.map (newIndex π))) c
      = Comb.eval cast (fun S => entropyOf log t S) c :=
  measure_invariant cast log t (permuteTab π t) (fun S => S.map (newIndex π))
    (Lemmas.Transform.entropyOf_permuteVars log π n t hlen hπ) c

end Entropy

/-- Non-vacuity of `entropyOf_relabel_on`: `s ↦ 1 - s` is not injective on `ℕ`, but it is on the
stored symbols `{0, 1}` (it reverses their order). -/
example :
    let t : Tab (List Nat) Rat := [([0, 1], 1 / 2), ([1, 0], 1 / 2)]
    let ρ : Nat → Nat → Nat := fun _ s => 1 - s
    ∀ i ∈ [0, 1], ∀ r ∈ t, ∀ r' ∈ t, ∀ s s',
      r.1[i]? = some s → r'.1[i]? = some s' → ρ i s = ρ i s' → s = s' := by
  intro t ρ i hi r hr r' hr' s s' h1 h2 h3
  simp only [t, List.mem_cons, List.not_mem_nil, or_false] at hi hr hr'
  rcases hi with rfl | rfl <;> rcases hr with rfl | rfl <;> rcases hr' with rfl | rfl <;>
    (simp at h1 h2; subst h1 h2; first | rfl | exact absurd h3 (by decide))

/-- Non-vacuity of `entropyOf_permuteVars_gen` / `project_permuteVars`: a selection `π = [2, 0]`
of a three-variable outcome, addressed variable `0` (selected) and `5` (out of range). -/
example : (∀ i ∈ [2, 0], i < 3) ∧ (∀ x ∈ [0, 5], x ∈ [2, 0] ∨ 3 ≤ x)
    ∧ project ([0, 5].map (newIndex [2, 0])) (permuteOutcome [2, 0] ["a", "b", "c"])
        = project [0, 5] ["a", "b", "c"] := by
  decide

/-- Non-vacuity of the zero-row hypotheses. -/
example : ∀ r ∈ ([(["c"], 0), (["a"], 0)] : Tab (List String) Rat), r.2 = 0 := by decide

/-! ### Non-vacuity: a concrete rational table -/

/-- Reversing the symbols of both variables (and renaming bits to strings): the marginals on
`[0]`, `[1]`, `[0, 1]` keep their value lists. -/
example :
    let t : Tab (List Bool) Rat :=
      [([false, false], 1 / 2), ([false, true], 0), ([true, true], 1 / 4), ([true, false], 1 / 4)]
    let ρ : Nat → Bool → String := fun _ b => if b then "0" else "1"
    (∀ X ∈ [[0], [1], [0, 1], [1, 0]],
      vals (pushforward (project X) (relabelTab ρ t)) = vals (pushforward (project X) t))
    ∧ keys (pushforward (project [0]) (relabelTab ρ t)) = [["1"], ["0"]] := by
  decide +kernel

/-- A variable swap `π = [1, 0]`: index `0` is renamed to `1` and vice versa, and the marginals
coincide as tables. -/
example :
    let t : Tab (List Bool) Rat :=
      [([false, false], 1 / 2), ([false, true], 0), ([true, true], 1 / 4), ([true, false], 1 / 4)]
    [1, 0].Perm (List.range 2) ∧ (∀ r ∈ t, r.1.length = 2)
    ∧ [0].map (newIndex [1, 0]) = [1]
    ∧ permuteTab [1, 0] t
        = [([false, false], 1 / 2), ([true, false], 0), ([true, true], 1 / 4),
            ([false, true], 1 / 4)]
    ∧ pushforward (project ([0].map (newIndex [1, 0]))) (permuteTab [1, 0] t)
        = pushforward (project [0]) t
    ∧ vals (pushforward (project [0]) t) = [1 / 2, 1 / 2]
    ∧ vals (pushforward (project [1]) t) = [3 / 4, 1 / 4] := by
  decide +kernel

/-- Row permutation, zero padding and trimming on the same table: the value lists of the
marginal on `[1]` are permutations of each other up to zeros. -/
example :
    let t : Tab (List Bool) Rat :=
      [([false, false], 1 / 2), ([false, true], 0), ([true, true], 1 / 4), ([true, false], 1 / 4)]
    (t.drop 2 ++ t.take 2).Perm t
    ∧ vals (pushforward (project [1]) t) = [3 / 4, 1 / 4]
    ∧ vals (pushforward (project [1]) (t.drop 2 ++ t.take 2)) = [1 / 4, 3 / 4]
    ∧ vals (pushforward (project [0, 1, 2]) (padZeros [[true, true], [false, false, true]] t))
        = [1 / 2, 0, 1 / 4, 1 / 4, 0]
    ∧ vals (pushforward (project [0, 1]) (t.filter (fun r => decide (r.2 ≠ 0))))
        = [1 / 2, 1 / 4, 1 / 4] := by
  decide +kernel

/-- The generic statements apply to the real-valued terms of C04/C05. -/
example (ρ : Nat → Bool → String) (hρ : ∀ i, Function.Injective (ρ i))
    (t : Tab (List Bool) ℝ) (X : List Nat) :
    entropyOf (Real.logb 2) (relabelTab ρ t) X
      = -((dedup (t.map (fun r => project X r.1))).map (fun x =>
          Lemmas.InfoReal.fibreSum (project X) t x
            * Real.logb 2 (Lemmas.InfoReal.fibreSum (project X) t x))).sum := by
  rw [entropyOf_relabel (Real.logb 2) ρ hρ t X]
  exact Props.C04.entropyOf_eq_def t X

example (t : Tab (List Bool) ℝ) (π : List Nat) (hlen : ∀ r ∈ t, r.1.length = 3)
    (hπ : π.Perm (List.range 3)) :
    Comb.eval (Rat.castHom ℝ)
        (fun S => entropyOf (Real.logb 2) (permuteTab π t) (S.map (newIndex π)))
        (coinfoC [[0], [1], [2]] [])
      = Comb.eval (Rat.castHom ℝ) (entropyOf (Real.logb 2) t) (coinfoC [[0], [1], [2]] []) :=
  measure_invariant_permuteVars _ _ π 3 t hlen hπ _

/-! ## Divergences between two tables -/

section Divergence
variable {κ κ' : Type} [DecidableEq κ] [DecidableEq κ']

/-- **Label alignment is label-blind.** Renaming the labels of both tables by one injective map
`φ` gives the very same list of aligned pairs (along `t1`), over any number type. Injectivity is
needed: merged labels would be looked up wrongly. -/
theorem alignPair_relabel {α : Type} [AddCommMonoid α] (φ : κ → κ') (hφ : Function.Injective φ)
    (t1 t2 : Tab κ α) :
    alignPair (t1.map (fun r => (φ r.1, r.2))) (t2.map (fun r => (φ r.1, r.2)))
      = alignPair t1 t2 :=
  alignPair_map_inj φ hφ t1 t2

/-- The same for the alignment over the union of the labels. -/
theorem alignUnion_relabel {α : Type} [AddCommMonoid α] (φ : κ → κ') (hφ : Function.Injective φ)
    (t1 t2 : Tab κ α) :
    alignUnion (t1.map (fun r => (φ r.1, r.2))) (t2.map (fun r => (φ r.1, r.2)))
      = alignUnion t1 t2 :=
  alignUnion_map_inj φ hφ t1 t2

/-- Relabelling the symbols of every variable (`relabelTab`) is such a renaming of labels. -/
theorem align_relabelTab {α σ τ : Type} [AddCommMonoid α] [DecidableEq σ] [DecidableEq τ]
    (ρ : Nat → σ → τ) (hρ : ∀ i, Function.Injective (ρ i)) (t1 t2 : Tab (List σ) α) :
    alignPair (relabelTab ρ t1) (relabelTab ρ t2) = alignPair t1 t2
      ∧ alignUnion (relabelTab ρ t1) (relabelTab ρ t2) = alignUnion t1 t2 :=
  ⟨alignPair_map_inj _ (Lemmas.Transform.relabelOutcome_injective ρ hρ) t1 t2,
    alignUnion_map_inj _ (Lemmas.Transform.relabelOutcome_injective ρ hρ) t1 t2⟩

/-- **KL divergence and cross entropy are invariant under relabelling** (value `+∞`
included). -/
theorem kl_relabel (log : ℝ → ℝ) (φ : κ → κ') (hφ : Function.Injective φ) (t1 t2 : Tab κ ℝ) :
    klVals log (alignPair (t1.map (fun r => (φ r.1, r.2))) (t2.map (fun r => (φ r.1, r.2))))
        = klVals log (alignPair t1 t2)
    ∧ crossEntropyVals log
          (alignPair (t1.map (fun r => (φ r.1, r.2))) (t2.map (fun r => (φ r.1, r.2))))
        = crossEntropyVals log (alignPair t1 t2) := by
  rw [alignPair_map_inj φ hφ]
  exact ⟨rfl, rfl⟩

/-- **The variational distance is invariant under relabelling.** -/
theorem tv_relabel (two : ℝ) (φ : κ → κ') (hφ : Function.Injective φ) (t1 t2 : Tab κ ℝ) :
    tvVals two (alignUnion (t1.map (fun r => (φ r.1, r.2))) (t2.map (fun r => (φ r.1, r.2))))
      = tvVals two (alignUnion t1 t2) := by
  rw [alignUnion_map_inj φ hφ]

/-- **Bhattacharyya coefficient, Hellinger distance and the power sums** (hence the Rényi,
Tsallis, Hellinger and alpha divergences) **are invariant under relabelling.** -/
theorem bc_relabel (sqrt : ℝ → ℝ) (R : RealOps ℝ) (a b : ℝ) (φ : κ → κ')
    (hφ : Function.Injective φ) (t1 t2 : Tab κ ℝ) :
    bcVals sqrt (alignUnion (t1.map (fun r => (φ r.1, r.2))) (t2.map (fun r => (φ r.1, r.2))))
        = bcVals sqrt (alignUnion t1 t2)
    ∧ hellingerVals sqrt
          (alignUnion (t1.map (fun r => (φ r.1, r.2))) (t2.map (fun r => (φ r.1, r.2))))
        = hellingerVals sqrt (alignUnion t1 t2)
    ∧ powerSum R a b
          (alignUnion (t1.map (fun r => (φ r.1, r.2))) (t2.map (fun r => (φ r.1, r.2))))
        = powerSum R a b (alignUnion t1 t2) := by
  rw [alignUnion_map_inj φ hφ]
  exact ⟨rfl, rfl, rfl⟩

example : Function.Injective (fun b : Bool => if b then "heads" else "tails") := by
  intro a b h
  cases a <;> cases b <;> simp_all

/-- **Row order (KL).** The C08 instance of C06 `kl_label_invariant`: storing either table in
another order does not change `D(t1‖t2)`; the keys of `t2` must be pairwise distinct (otherwise
the lookup finds the first of several rows, which depends on the order). -/
theorem kl_perm_rows (log : ℝ → ℝ) {t1 t1' t2 t2' : Tab κ ℝ} (h1 : t1'.Perm t1)
    (h2 : t2'.Perm t2) (hnd : (keys t2).Nodup) :
    klVals log (alignPair t1' t2') = klVals log (alignPair t1 t2) :=
  (Props.C06.kl_label_invariant log h1.symm h2.symm hnd).symm

/-- **Row order (variational distance)**, the C08 instance of C06 `tv_label_invariant`. -/
theorem tv_perm_rows {t1 t1' t2 t2' : Tab κ ℝ} (h1 : t1'.Perm t1) (h2 : t2'.Perm t2)
    (hnd1 : (keys t1).Nodup) (hnd2 : (keys t2).Nodup) :
    tvVals 2 (alignUnion t1' t2') = tvVals 2 (alignUnion t1 t2) :=
  (Props.C06.tv_label_invariant h1.symm h2.symm hnd1 hnd2).symm

example : (keys [("a", (1 : ℝ) / 2), ("b", 1 / 2)]).Nodup := by simp [keys]

variable {σ : Type} [DecidableEq σ]

/-- **Zero padding (KL, cross entropy).** Adding zero-probability outcomes to either table
changes neither value (nor finiteness): new rows of `t1` give pairs `(0, q)`, which contribute
nothing (C06 `align_extra_zero`); new rows of `t2` are looked up as `0`, as absent labels are. -/
theorem kl_padZeros (log : ℝ → ℝ) (e1 e2 : List (List σ)) (t1 t2 : Tab (List σ) ℝ) :
    klVals log (alignPair (padZeros e1 t1) (padZeros e2 t2)) = klVals log (alignPair t1 t2)
    ∧ crossEntropyVals log (alignPair (padZeros e1 t1) (padZeros e2 t2))
        = crossEntropyVals log (alignPair t1 t2) := by
  obtain ⟨z1, E1, hz1, _⟩ := padZeros_eq_append e1 t1
  obtain ⟨z2, E2, hz2, _⟩ := padZeros_eq_append e2 t2
  rw [E1, E2, alignPair_append_zero_right _ _ _ hz2, Lemmas.Transform.alignPair_append_left]
  exact Props.C06.align_extra_zero log _ _ (alignPair_zero_left z1 t2 hz1)

/-- **Zero padding (variational distance)**: the new labels give pairs `(0, 0)`. -/
theorem tv_padZeros (e1 e2 : List (List σ)) (t1 t2 : Tab (List σ) ℝ) :
    tvVals 2 (alignUnion (padZeros e1 t1) (padZeros e2 t2)) = tvVals 2 (alignUnion t1 t2) := by
  obtain ⟨z1, E1, hz1, _⟩ := padZeros_eq_append e1 t1
  obtain ⟨z2, E2, hz2, _⟩ := padZeros_eq_append e2 t2
  rw [E1, E2, Lemmas.Diverge.tvVals_eq, Lemmas.Diverge.tvVals_eq,
    sum_alignUnion_append_zero (fun r : ℝ × ℝ => |r.1 - r.2|) (by simp) t1 z1 t2 z2 hz1 hz2]

/-- **Zero padding (Bhattacharyya coefficient, power sums)**; `sqrt 0 = 0` is all that is used
of the square root. -/
theorem bc_padZeros (sqrt : ℝ → ℝ) (hs : sqrt 0 = 0) (R : RealOps ℝ) (a b : ℝ)
    (e1 e2 : List (List σ)) (t1 t2 : Tab (List σ) ℝ) :
    bcVals sqrt (alignUnion (padZeros e1 t1) (padZeros e2 t2)) = bcVals sqrt (alignUnion t1 t2)
    ∧ powerSum R a b (alignUnion (padZeros e1 t1) (padZeros e2 t2))
        = powerSum R a b (alignUnion t1 t2) := by
  obtain ⟨z1, E1, hz1, _⟩ := padZeros_eq_append e1 t1
  obtain ⟨z2, E2, hz2, _⟩ := padZeros_eq_append e2 t2
  rw [E1, E2]
  unfold bcVals powerSum
  simp only [Lemmas.Table.lsum_eq_sum]
  exact ⟨sum_alignUnion_append_zero (fun r : ℝ × ℝ => sqrt (r.1 * r.2)) (by simp [hs])
      t1 z1 t2 z2 hz1 hz2,
    sum_alignUnion_append_zero
      (fun r : ℝ × ℝ => if (r.1 == 0 || r.2 == 0) = true then 0 else R.pow r.1 a * R.pow r.2 b)
      (by simp) t1 z1 t2 z2 hz1 hz2⟩

/-- **Permuting the variables of both tables** (a permutation `π` of `range n`, all stored
outcomes of length `n`) leaves both alignments unchanged, hence every divergence computed from
them (KL, cross entropy, variational distance, Bhattacharyya, Hellinger, power sums). The common
length is needed: rearranging is injective only on outcomes of the right length. -/
theorem align_permuteTab {α : Type} [AddCommMonoid α] (π : List Nat) (n : Nat)
    (hπ : π.Perm (List.range n)) (t1 t2 : Tab (List σ) α)
    (h1 : ∀ r ∈ t1, r.1.length = n) (h2 : ∀ r ∈ t2, r.1.length = n) :
    alignPair (permuteTab π t1) (permuteTab π t2) = alignPair t1 t2
      ∧ alignUnion (permuteTab π t1) (permuteTab π t2) = alignUnion t1 t2 := by
  have hk : ∀ a ∈ keys t1 ++ keys t2, a.length = n := by
    intro a ha
    rcases List.mem_append.mp ha with ha | ha
    · obtain ⟨v, hv⟩ := Lemmas.Table.mem_keys.mp ha; exact h1 _ hv
    · obtain ⟨v, hv⟩ := Lemmas.Table.mem_keys.mp ha; exact h2 _ hv
  exact ⟨alignPair_map_injOn (permuteOutcome π) t1 t2 (fun a ha b hb e =>
      permuteOutcome_inj hπ (hk a (List.mem_append_right _ ha)) (hk b (List.mem_append_left _ hb)) e),
    alignUnion_map_injOn (permuteOutcome π) t1 t2 (fun a ha b hb e =>
      permuteOutcome_inj hπ (hk a ha) (hk b hb) e)⟩

/-- **Trimming (KL, cross entropy).** Dropping the stored zeros of both tables changes neither
value; the keys of `t2` must be pairwise distinct (a zero row shadowing a later non-zero row with
the same label would otherwise be removed). -/
theorem kl_trim (log : ℝ → ℝ) (t1 t2 : Tab (List σ) ℝ) (hnd : (keys t2).Nodup) :
    klVals log (alignPair (t1.filter (fun r => decide (r.2 ≠ 0)))
        (t2.filter (fun r => decide (r.2 ≠ 0)))) = klVals log (alignPair t1 t2)
    ∧ crossEntropyVals log (alignPair (t1.filter (fun r => decide (r.2 ≠ 0)))
        (t2.filter (fun r => decide (r.2 ≠ 0)))) = crossEntropyVals log (alignPair t1 t2) := by
  rw [alignPair_trim t1 t2 hnd]
  exact klVals_filter_fst log _

example :
    alignPair (padZeros [["c"]] [(["a"], (1 : Rat) / 2), (["b"], 1 / 2)])
        (padZeros [["a"], ["d"]] [(["b"], (1 : Rat) / 4), (["c"], 3 / 4)])
      = [(1 / 2, 0), (1 / 2, 1 / 4), (0, 3 / 4)]
    ∧ alignUnion (padZeros [["c"]] [(["a"], (1 : Rat) / 2), (["b"], 1 / 2)])
        (padZeros [["a"], ["d"]] [(["b"], (1 : Rat) / 4), (["c"], 3 / 4)])
      = [(1 / 2, 0), (1 / 2, 1 / 4), (0, 3 / 4), (0, 0)] := by
  decide +kernel

end Divergence

/-! ## Reordering the groups of the symmetric measures -/

section Groups
variable {R : Type} [CommRing R] (cast : ℚ →+* R) (H : VSet → R)
open Dit.Lemmas.InfoAlg

/-- The union of the groups does not depend on their order. -/
theorem vunions_symm {groups groups' : List VSet} (h : groups'.Perm groups) :
    vunions groups' = vunions groups :=
  vunions_perm h

/-- **Total correlation** ignores the order of its groups (any set function `H`). -/
theorem tc_symm {groups groups' : List VSet} (h : groups'.Perm groups) (Z : VSet) :
    Comb.eval cast H (tcC groups' Z) = Comb.eval cast H (tcC groups Z) := by
  rw [eval_tcC, eval_tcC, vunions_perm h, (h.map _).sum_eq]

/-- **Residual entropy** ignores the order of its groups. -/
theorem residual_symm {groups groups' : List VSet} (h : groups'.Perm groups) (Z : VSet) :
    Comb.eval cast H (residualC groups' Z) = Comb.eval cast H (residualC groups Z) := by
  rw [eval_residualC, eval_residualC, vunions_perm h, (h.map _).sum_eq]

/-- **Dual total correlation** ignores the order of its groups. -/
theorem dtc_symm {groups groups' : List VSet} (h : groups'.Perm groups) (Z : VSet) :
    Comb.eval cast H (dtcC groups' Z) = Comb.eval cast H (dtcC groups Z) := by
  rw [eval_dtcC, eval_dtcC, residual_symm cast H h, vunions_perm h]

/-- **O-information** ignores the order of its groups. -/
theorem oinfo_symm {groups groups' : List VSet} (h : groups'.Perm groups) (Z : VSet) :
    Comb.eval cast H (oinfoC groups' Z) = Comb.eval cast H (oinfoC groups Z) := by
  rw [eval_oinfoC, eval_oinfoC, tc_symm cast H h, dtc_symm cast H h]

/-- **Co-information** ignores the order of its groups: the sublists of a reordered list are the
sublists of the list, each possibly reordered, and `⋃` and the parity of the size do not see
that. -/
theorem coinfo_symm {groups groups' : List VSet} (h : groups'.Perm groups) (Z : VSet) :
    Comb.eval cast H (coinfoC groups' Z) = Comb.eval cast H (coinfoC groups Z) := by
  rw [eval_coinfoC, eval_coinfoC]
  exact sum_sublists_perm h _ (fun a b hab => by rw [hab.length_eq, vunions_perm hab])

/-- **Interaction information** ignores the order of its groups. -/
theorem interaction_symm {groups groups' : List VSet} (h : groups'.Perm groups) (Z : VSet) :
    Comb.eval cast H (interactionC groups' Z) = Comb.eval cast H (interactionC groups Z) := by
  rw [eval_interactionC, eval_interactionC, coinfo_symm cast H h, h.length_eq]

/-- **TSE complexity** ignores the order of its groups. -/
theorem tse_symm {groups groups' : List VSet} (h : groups'.Perm groups) (Z : VSet) :
    Comb.eval cast H (tseC groups' Z) = Comb.eval cast H (tseC groups Z) := by
  rw [eval_tseC, eval_tseC, h.length_eq, vunions_perm h]
  congr 1
  apply List.map_congr_left
  intro k _
  rw [sum_combos_perm h k _ (fun a b hab => by rw [vunions_perm hab])]

/-- **Cohesion** of every order ignores the order of its groups. -/
theorem cohesion_symm (k : Nat) {groups groups' : List VSet} (h : groups'.Perm groups)
    (Z : VSet) :
    Comb.eval cast H (cohesionC k groups' Z) = Comb.eval cast H (cohesionC k groups Z) := by
  rw [eval_cohesionC, eval_cohesionC, h.length_eq, vunions_perm h,
    sum_combos_perm h k _ (fun a b hab => by rw [vunions_perm hab])]

/-- **CAEKL mutual information** ignores the order of its groups: the values of the candidates
(one per partition of the groups into at least two blocks) form the same multiset, so their
minimum is the same. -/
theorem caekl_symm {groups groups' : List VSet} (h : groups'.Perm groups) (Z : VSet) :
    ((caeklCands groups' Z).map (Comb.eval cast H)).Perm
      ((caeklCands groups Z).map (Comb.eval cast H)) := by
  unfold caeklCands
  rw [List.map_map, List.map_map]
  have e : ∀ gs : List VSet, (Comb.eval cast H ∘ caeklCand gs Z)
      = fun P => cast (1 / ((P.length : Rat) - 1))
        * ((P.map (fun B => Hc H (vunions B) Z)).sum - Hc H (vunions gs) Z) := by
    intro gs; funext P; exact eval_caeklCand cast H gs Z P
  rw [e, e, vunions_perm h]
  apply map_filter_setPartitions_perm h
  · intro p p' hp; rw [hp.length_eq]
  · intro p p' hp; rw [hp.length_eq]
  · intro p p' hp; rw [hp.length_eq, (hp.map _).sum_eq]
  · intro p p' hp
    rw [hp.length_eq,
      map_eq_of_forall₂ (fun B => Hc H (vunions B) Z) (fun a b hab => by rw [vunions_perm hab]) hp]

example : [[2], [0], [1]].Perm [[0], [1], [2]] := by decide
example : Comb.canon (coinfoC [[2], [0], [1]] [3]) = Comb.canon (coinfoC [[0], [1], [2]] [3])
    ∧ Comb.canon (tseC [[2], [0], [1]] [3]) = Comb.canon (tseC [[0], [1], [2]] [3])
    ∧ (caeklCands [[2], [0], [1]] []).map Comb.canon ≠ (caeklCands [[0], [1], [2]] []).map Comb.canon
    ∧ ((caeklCands [[2], [0], [1]] []).map Comb.canon).Perm
        ((caeklCands [[0], [1], [2]] []).map Comb.canon) := by
  decide +kernel

end Groups

end Dit.Props.C08
